import PedVerif.Gen.CtxMgr
/-!
Model of `pedantic/decorators/fn_deco_context_manager.py` (`safe_contextmanager`, `safe_async_contextmanager`).

Three layers, each mirroring the code that exists:

* the **user generator** as an observable state machine (what `next(it)` does: journal events, then yield / stop / raise),
  including try / with blocks of its own around its yield and statements behind them (`GenBody`, `resume`: what that code does
  when the generator is resumed by `next()` and what it would do when resumed by `throw(e)`);
* the library's **wrapper generator**.  Its shape is *not* written here: whether the cleanup sits in a `finally`, how many
  `next(iterator)` calls the cleanup makes, which exception class is swallowed around them, whether the arguments are
  forwarded, and the decoration-time checks all come from `PedVerif.Gen.CtxMgr`, which the translator regenerates from the
  source on every run;
* a transcription of CPython 3.12 `contextlib._GeneratorContextManager.__enter__/__exit__` (and the async twin, which is
  line-for-line the same with `anext/athrow/StopAsyncIteration`), of PEP 479 (a `StopIteration` leaving a generator frame
  becomes a `RuntimeError` chained to it; in an async generator also `StopAsyncIteration`), and of the `with` statement.

Decoration time: how a call of the decorator ends (`Pre`: raise / early return of something else / `return factory(wrapper)`) is
generated from ALL the statements around the inner function, as a function of the kind of `f`, of the tests the translator cannot
evaluate (`o`) and of the interpreter mode (`opt`: under python -O `assert` statements and `if __debug__` do not exist).

The async variant runs on the same machine (`Mode.async`); every `await` is an atomic step.  What *other uses of the same
manager* do while one use is suspended inside its block is modelled by the history machine at the end of the file (`Op`,
`stepOp`, `runOps`): a history of enter / exit events over several live uses of ONE decorated manager, in any interleaving
(tasks, generators, `ExitStack`, self-nesting).  Where the wrapper keeps the user generator between the yield and the cleanup
(a local of the wrapper call = per use, or a `nonlocal` / `global` cell = shared by all live uses) is read from the source.

Arguments: a call `cm(*pos, **kw)` is the tuple `CallArgs` of positional object identities and (interned keyword name, object
identity) pairs in the caller's order.  Python's binding of that tuple to the parameters of the user generator function is
environment: `fits` says whether `f(*pos, **kw)` binds (else that call raises `TypeError`), the harness computes it with
a plain function of the same parameter list and cross-checks it against the real call.

Object identity: an exception object is `Exc` = (kind, id, cause id); objects with the same id are the same object, so Python's
`exc is value` is structural equality of `Exc` values.
-/
namespace PedVerif.CtxMgr
open PedVerif.Gen.CtxMgr

inductive Mode where
  | sync | async
deriving DecidableEq, Repr

def shape : Mode → Shape
  | .sync => syncShape
  | .async => asyncShape

/-- exception kinds the machine distinguishes (`exception` = any `Exception` subclass that is none of the others,
    `baseExc` = any other direct `BaseException` subclass: KeyboardInterrupt, SystemExit, user classes) -/
inductive EK where
  | exception | baseExc | generatorExit | stopIteration | stopAsyncIteration | runtimeError | cancelled
deriving DecidableEq, Repr

structure Exc where
  kind : EK
  id : Nat                       -- object identity
  cause : Option Nat := none     -- identity of `__cause__`
deriving DecidableEq, Repr

/-- `except <Class>` against an exception kind (Python's class hierarchy; CancelledError and GeneratorExit derive from
    BaseException directly) -/
def catches : Caught → EK → Bool
  | .none, _ => false
  | .stopIteration, k => k == .stopIteration
  | .stopAsyncIteration, k => k == .stopAsyncIteration
  | .runtimeError, k => k == .runtimeError
  | .exception, k => k == .exception || k == .stopIteration || k == .stopAsyncIteration || k == .runtimeError
  | .baseException, _ => true

/-- the exception `next()` / `anext()` raises when the generator is exhausted -/
def stopKind : Mode → EK
  | .sync => .stopIteration
  | .async => .stopAsyncIteration

/-- PEP 479 (and its async twin): kinds that cannot leave a generator frame, they are replaced by a `RuntimeError` -/
def converted : Mode → EK → Bool
  | .sync, k => k == .stopIteration
  | .async, k => k == .stopIteration || k == .stopAsyncIteration

/-- `isinstance(value, StopIteration)` in `__exit__`, `isinstance(value, (StopIteration, StopAsyncIteration))` in `__aexit__` -/
def exitIsStop : Mode → EK → Bool
  | .sync, k => k == .stopIteration
  | .async, k => k == .stopIteration || k == .stopAsyncIteration

/-- the arguments of one call of the manager -/
structure CallArgs where
  pos : List Nat                 -- identities of the positional arguments
  kw : List (Nat × Nat)          -- (interned keyword name, identity), caller's order
  fits : Bool := true            -- Python can bind this tuple to the parameters of the user generator function
deriving DecidableEq, Repr

inductive Ev where
  | setup (tag : Nat) (args : CallArgs)   -- user generator `tag` ran its setup having received exactly this argument tuple
  | bind (tag : Nat) (v : Nat)       -- the with-body of manager `tag` was entered with `as` bound to object `v`
  | body (n : Nat)                   -- leaf body `n` ran
  | cleanup (tag : Nat)              -- the code after the first yield ran
  | extra (tag : Nat)                -- code after a second/third yield ran (only generators outside the documented form)
  | piece (tag : Nat) (p : Nat)      -- statement `p` of the generator's own control structure around its yield ran (see `GenBody`)
deriving DecidableEq, Repr

/-- what the user generator RETURNS when it finishes (`return <object>` after its last section): nothing (falls off the end, bare
    `return`, `return None`), a falsy object, a truthy object.  The value travels in `StopIteration.value`; the wrapper's cleanup is
    `try: next(iterator) except StopIteration: pass` (generated fact `handlersPass`), so it is dropped — it is NOT an `__exit__`-like
    verdict on the block's exception; see `verdict` for what the model does when a handler is not `pass`.  An async generator cannot
    return a value. -/
inductive Ret where
  | none | falsy | truthy
deriving DecidableEq, Repr

/-! ### the user generator's own control structure around its yield

A generator handed to the decorators may protect (part of) its cleanup itself:

    <setup>
    try:                                  # any nesting of try / with blocks around the yield: `frames`, innermost first
        yield <value>
        <cleanup event; rest of the try body>
    except <Class>: <handler> [raise]
    else: <…>
    finally: <…>
    <trailing statements>                 # still "code after the yield"

`resume` is Python's semantics of such code when the generator is resumed at the yield — by `next()` (nothing pending) or by
`throw(e)` (exception `e` pending at the yield).  It is *user code*: the specification reads it as well ("the code after the
yield, run as ordinary code"); what the library adds is HOW the generator is resumed — the wrapper only ever calls
`next(iterator)`, contextlib used directly would `throw` the block's exception into it. -/

/-- a straight-line statement: journal piece `p`, or raise exception object `e` -/
inductive Act where
  | ev (p : Nat)
  | raise (e : Exc)
deriving DecidableEq, Repr

/-- the class named by an `except` clause of the user generator (kind-level; `noMatch`: a class none of the exceptions in play derives from) -/
inductive HClass where
  | exception | baseException | runtimeError | stopIteration | generatorExit | cancelled | noMatch
deriving DecidableEq, Repr

def hcatches : HClass → EK → Bool
  | .exception, k => k == .exception || k == .stopIteration || k == .stopAsyncIteration || k == .runtimeError
  | .baseException, _ => true
  | .runtimeError, k => k == .runtimeError
  | .stopIteration, k => k == .stopIteration
  | .generatorExit, k => k == .generatorExit
  | .cancelled, k => k == .cancelled
  | .noMatch, _ => false

structure Handler where
  cls : HClass
  body : List Act
  reraise : Bool := false        -- the handler ends with a bare `raise`
deriving DecidableEq, Repr

/-- one `try` (or `with`) statement around the yield -/
structure Frame where
  rest : List Act := []          -- statements of the try body after the inner block
  handlers : List Handler := []
  orelse : List Act := []
  fin : List Act := []           -- `finally` / `__exit__(None, None, None)` of a with block
  finExc : List Act := []        -- the same while an exception is pending (`finally`: the same statements; a with block's `__exit__` sees it)
deriving DecidableEq, Repr

structure GenBody where
  frames : List Frame := []      -- innermost first
  trail : List Act := []         -- statements after the outermost block
deriving DecidableEq, Repr

/-- straight-line statements: journal, the first `raise` ends the run -/
def runActs (tag : Nat) : List Act → List Ev × Option Exc
  | [] => ([], none)
  | .ev p :: rest => (.piece tag p :: (runActs tag rest).1, (runActs tag rest).2)
  | .raise e :: _ => ([], some e)

/-- the generator is resumed at its yield with `pending` (none: `next`, some e: `throw(e)`), inside the frames `fs` -/
def resume (tag : Nat) : Option Exc → List Frame → List Act → List Ev × Option Exc
  | none, [], tr => runActs tag tr
  | some e, [], _ => ([], some e)
  | pending, f :: fs, tr =>
    let a : List Ev × Option Exc := match pending with
      | none => runActs tag f.rest
      | some e => ([], some e)
    let b : List Ev × Option Exc := match a.2 with
      | none => runActs tag f.orelse
      | some e =>
        match f.handlers.find? (fun h => hcatches h.cls e.kind) with
        | none => ([], some e)
        | some h => ((runActs tag h.body).1,
                     match (runActs tag h.body).2 with
                     | some e' => some e'
                     | none => if h.reraise then some e else none)
    let c := runActs tag (if b.2.isSome then f.finExc else f.fin)
    let r := resume tag (match c.2 with | some e' => some e' | none => b.2) fs tr
    (a.1 ++ b.1 ++ c.1 ++ r.1, r.2)

/-- observable behaviour of a user generator: `setup; yield value; cleanup; [yield value; extra]*`.
    `yields` = how many yield points it reaches if nothing raises.  `body`: the generator's own try / with blocks around the first
    yield and the statements after them (empty: a bare yield); `cleanupExc` is raised by the statement right after the yield. -/
structure UserGen where
  tag : Nat
  setupExc : Option Exc
  yields : Nat
  cleanupExc : Option Exc
  value : Nat
  returns : Ret := .none
  body : GenBody := {}
deriving DecidableEq, Repr

/-- the code after the first yield run as ordinary code (the generator resumed by `next`): its journal and the exception leaving it -/
def UserGen.after (g : UserGen) : List Ev × Option Exc :=
  (.cleanup g.tag :: (resume g.tag g.cleanupExc g.body.frames g.body.trail).1,
   (resume g.tag g.cleanupExc g.body.frames g.body.trail).2)

/-- `iterator.throw(e)` on a user generator suspended at its first yield: `e` is raised AT the yield, the statement after it does
    not run; the generator's own handlers and finally blocks do.  (Not used by the library's wrapper — see `directExit`.) -/
def UserGen.thrown (g : UserGen) (e : Exc) : List Ev × Option Exc := resume g.tag (some e) g.body.frames g.body.trail

inductive GRes where            -- result of next()/throw() on a generator
  | yielded (v : Nat) | stop | raised (e : Exc)
deriving DecidableEq, Repr

structure UState where
  served : Nat := 0              -- how many `next` calls have been answered with a yield
  done : Bool := false
deriving DecidableEq, Repr

/-- `next(iterator)` on the user generator; `recv` = the argument tuple the generator function was called with -/
def userNext (g : UserGen) (recv : CallArgs) (s : UState) : List Ev × GRes × UState :=
  if s.done then ([], .stop, s) else
  let sec : List Ev × Option Exc := match s.served with
    | 0 => ([.setup g.tag recv], g.setupExc)
    | 1 => g.after
    | _ => ([.extra g.tag], none)
  match sec.2 with
  | some e => (sec.1, .raised e, { s with done := true })
  | none =>
    if s.served < g.yields then (sec.1, .yielded g.value, { served := s.served + 1, done := false })
    else (sec.1, .stop, { s with done := true })

/-- an exception leaves the wrapper's generator frame (PEP 479); ids `fresh+2` is reserved for the new RuntimeError -/
def leave (m : Mode) (fresh : Nat) (e : Exc) : Exc :=
  if converted m e.kind then { kind := .runtimeError, id := fresh + 2, cause := some e.id } else e

/-- `n` consecutive `next(iterator)` statements; the first that raises ends the run.  An exhausted iterator raises a new
    Stop(Async)Iteration object (id `fresh+1`). -/
def runNexts (m : Mode) (g : UserGen) (recv : CallArgs) (fresh : Nat) : Nat → UState → List Ev × Option Exc × UState
  | 0, u => ([], none, u)
  | n + 1, u =>
    match userNext g recv u with
    | (evs, .yielded _, u') => let r := runNexts m g recv fresh n u'; (evs ++ r.1, r.2.1, r.2.2)
    | (evs, .stop, u') => (evs, some { kind := stopKind m, id := fresh + 1 }, u')
    | (evs, .raised e, u') => (evs, some e, u')

/-- the cleanup statements: every block is `try: next(it)×n except <c>: pass` (c = none: no try) -/
def runBlocks (m : Mode) (g : UserGen) (recv : CallArgs) (fresh : Nat) : List (Nat × Caught) → UState → List Ev × Option Exc × UState
  | [], u => ([], none, u)
  | (n, c) :: rest, u =>
    let r := runNexts m g recv fresh n u
    match r.2.1 with
    | some e =>
      if catches c e.kind then let r2 := runBlocks m g recv fresh rest r.2.2; (r.1 ++ r2.1, r2.2.1, r2.2.2)
      else r
    | none => let r2 := runBlocks m g recv fresh rest r.2.2; (r.1 ++ r2.1, r2.2.1, r2.2.2)

def cleanupBlock (m : Mode) (g : UserGen) (recv : CallArgs) (fresh : Nat) (u : UState) : List Ev × Option Exc × UState :=
  runBlocks m g recv fresh (shape m).cleanup u

/-- the `except` clauses around the cleanup `next(iterator)` calls have the body `pass` (what the translator found: `handlersPass`).
    A handler that does something can look at the caught Stop(Async)Iteration, whose `.value` is what the user generator RETURNED; the
    model then assumes the worst it could do with it: a truthy value ends the wrapper normally (a `return` inside `finally`), which
    drops a pending exception — an `__exit__`-like verdict.  `u`, `u'`: the user generator before and after the cleanup (the value
    arrives only with the `next` call during which the generator returns). -/
def verdict (m : Mode) (g : UserGen) (u u' : UState) : Bool := !(shape m).handlersPass && g.returns == .truthy && !u.done && u'.done

/-- exception `e` is pending at the `yield next(iterator)` statement of the wrapper -/
def unwind (m : Mode) (g : UserGen) (recv : CallArgs) (fresh : Nat) (e : Exc) (u : UState) : List Ev × GRes :=
  if (shape m).cleanupInFinally then
    match cleanupBlock m g recv fresh u with
    | (evs, some e', _) => (evs, .raised (leave m fresh e'))     -- an exception in `finally` replaces the pending one
    | (evs, none, u') => if verdict m g u u' then (evs, .stop) else (evs, .raised (leave m fresh e))
  else ([], .raised (leave m fresh e))

inductive WState where
  | notStarted | suspended (u : UState) | done
deriving DecidableEq, Repr

/-- `next(wrapper_generator)` -/
def wrapNext (m : Mode) (g : UserGen) (recv : CallArgs) (fresh : Nat) : WState → List Ev × GRes × WState
  | .notStarted =>
    -- `iterator = f(*args, **kwargs)` stands in front of the `try`: a tuple that does not bind raises TypeError right there
    if !recv.fits then ([], .raised { kind := .exception, id := fresh }, .done) else
    match userNext g recv {} with
    | (evs, .yielded v, u) =>
      -- `yield next(iterator)`: the wrapper hands on the object the user generator yielded (`yieldsNextResult`; else some other object: 0)
      (evs, .yielded (if (shape m).yieldsNextResult then v else 0), .suspended u)
    | (evs, .stop, u) =>
      let r := unwind m g recv fresh { kind := stopKind m, id := fresh } u
      (evs ++ r.1, r.2, .done)
    | (evs, .raised e, u) =>
      let r := unwind m g recv fresh e u
      (evs ++ r.1, r.2, .done)
  | .suspended u =>
    match cleanupBlock m g recv fresh u with
    | (evs, some e', _) => (evs, .raised (leave m fresh e'), .done)
    | (evs, none, _) => (evs, .stop, .done)
  | .done => ([], .stop, .done)

/-- `wrapper_generator.throw(value)` -/
def wrapThrow (m : Mode) (g : UserGen) (recv : CallArgs) (fresh : Nat) (value : Exc) : WState → List Ev × GRes × WState
  | .suspended u => let r := unwind m g recv fresh value u; (r.1, r.2, .done)
  | _ => ([], .raised value, .done)

/-- what the statements of a program do when they end -/
inductive Final where
  | normal                 -- fell off the end
  | left                   -- `return` / `break`: control leaves the enclosing blocks without an exception
  | raised (e : Exc)
deriving DecidableEq, Repr

/-- the decision part of `_GeneratorContextManager.__exit__(type(value), value, tb)` given what `gen.throw(value)` did:
    `ok true` = suppress, `ok false` = let `value` propagate, `error e` = `__exit__` raises `e` -/
def exitDecision (m : Mode) (fresh : Nat) (value : Exc) : GRes → Except Exc Bool
  | .stop => .ok true                      -- `except StopIteration as exc: return exc is not value` (a new object)
  | .raised exc =>
    if exc.kind = .runtimeError then
      if exc = value then .ok false
      else if exitIsStop m value.kind ∧ exc.cause = some value.id then .ok false
      else .error exc
    else if exc = value then .ok false else .error exc
  | .yielded _ => .error { kind := .runtimeError, id := fresh + 4 }     -- "generator didn't stop after throw()"

/-- leaving the `with` block of a manager whose wrapper generator is in state `w`, the block having ended with `fin` -/
def exitWith (m : Mode) (g : UserGen) (recv : CallArgs) (fresh : Nat) (w : WState) : Final → List Ev × Final
  | .raised e =>
    let r := wrapThrow m g recv fresh e w
    (r.1, match exitDecision m fresh e r.2.1 with
          | .ok true => .normal
          | .ok false => .raised e
          | .error e' => .raised e')
  | fin =>                                  -- `__exit__(None, None, None)`: normal end, return, break
    match wrapNext m g recv fresh w with
    | (evs, .stop, _) => (evs, fin)
    | (evs, .raised e, _) => (evs, .raised e)
    | (evs, .yielded _, _) => (evs, .raised { kind := .runtimeError, id := fresh + 4 })   -- "generator didn't stop"

/-- NOT what the library does — what `contextlib.contextmanager(f)` applied to the user's generator function itself would do when the
    block ends (no protecting wrapper in between): the block's exception is thrown INTO the user generator.  Only for generators with
    one yield; used by the witnesses that show why the decorators must not hand `f` to contextlib directly (`no_bypass`). -/
def directExit (m : Mode) (g : UserGen) (fresh : Nat) : Final → List Ev × Final
  | .raised e =>
    let r := g.thrown e
    (r.1, match exitDecision m fresh e (match r.2 with | none => .stop | some x => .raised (leave m fresh x)) with
          | .ok true => .normal
          | .ok false => .raised e
          | .error e' => .raised e')
  | fin => (g.after.1, match g.after.2 with | none => fin | some c => .raised (leave m fresh c))

inductive BodyOut where
  | normal | early | raises (e : Exc)
deriving DecidableEq, Repr

def BodyOut.final : BodyOut → Final
  | .normal => .normal | .early => .left | .raises e => .raised e

/-- programs: leaf bodies, `with cm(args) as v: inner`, and sequencing -/
inductive Prog where
  | body (n : Nat) (b : BodyOut)
  | withCm (g : UserGen) (args : CallArgs) (inner : Prog)
  | seq (p q : Prog)
deriving Repr

/-- the argument tuple the user generator function is called with: the wrapper's own `(*args, **kwargs)` handed on as
    `f(*args, **kwargs)`, or (any other call expression) not the caller's tuple -/
def passArgs (m : Mode) (args : CallArgs) : CallArgs := if (shape m).forwardsArgs then args else { pos := [], kw := [], fits := false }

/-- run a program; `fresh` = first unused object id for exceptions the interpreter creates (5 per `with`) -/
def exec (m : Mode) : Prog → Nat → List Ev × Final × Nat
  | .body n b, fresh => ([.body n], b.final, fresh)
  | .seq p q, fresh =>
    let r := exec m p fresh
    match r.2.1 with
    | .normal => let s := exec m q r.2.2; (r.1 ++ s.1, s.2.1, s.2.2)
    | f => (r.1, f, r.2.2)
  | .withCm g args inner, fresh =>
    let recv := passArgs m args
    match wrapNext m g recv fresh .notStarted with            -- `__enter__`
    | (evs, .raised e, _) => (evs, .raised e, fresh + 5)
    | (evs, .stop, _) => (evs, .raised { kind := .runtimeError, id := fresh + 3 }, fresh + 5)   -- "generator didn't yield"
    | (evs, .yielded v, w) =>
      let r := exec m inner (fresh + 5)
      let x := exitWith m g recv fresh w r.2.1
      (evs ++ [.bind g.tag v] ++ r.1 ++ x.1, x.2, r.2.2)

def run (m : Mode) (p : Prog) : List Ev × Final := ((exec m p 1000).1, (exec m p 1000).2.1)

/-! decoration time -/

/-- how a call of the decorator ends: the statements around the inner function as the translator read them.  `o`: the values of
    the tests of that chain that are no inspect kind tests (none on the tree the proofs were written for); `opt`: python -O -/
def decoPre : Mode → FnKind → (Nat → Bool) → Bool → Pre
  | .sync => syncPre
  | .async => asyncPre

inductive DecoOut where
  | rejected (cls : String)             -- the decorator raised an exception of this class
  | manager (via : Wrap)                -- the decorator returned `via(wrapper)`
deriving DecidableEq, Repr

def DecoOut.isRejected : DecoOut → Bool
  | .rejected _ => true
  | .manager _ => false

def testsOnParam : Mode → Bool
  | .sync => syncTestsOnParam
  | .async => asyncTestsOnParam

/-- `safe_[async_]contextmanager(f)` for an `f` of kind `k`; `uk`: the kind of `inspect.unwrap(f)` (what a `__wrapped__` chain set by
    `functools.wraps` / `update_wrapper` leads to; `k` itself when `f` carries none); `hasName`: `f.__name__` exists; `opt`: the
    interpreter runs in optimised mode (-O, -OO, PYTHONOPTIMIZE).  Which of the two kinds the tests look at is read from the source.
    Tests the model cannot evaluate count as false (`decoration_chain_is_kind_tests_only`: there are none). -/
def decorate (m : Mode) (k uk : FnKind) (hasName : Bool) (opt : Bool := false) : DecoOut :=
  match decoPre m (if testsOnParam m then k else uk) (fun _ => false) opt with
  | .reject r => .rejected (if r.needsName && !hasName then "AttributeError" else r.cls)
  | .bypass w _ => .manager w
  | .build => .manager (shape m).wrappedBy

/-- the contextlib factory that fits the mode -/
def expectedWrap : Mode → Wrap
  | .sync => .contextmanager
  | .async => .asynccontextmanager

/-! ## Overlapping uses of ONE decorated manager: histories of enter / exit events

Every `enter` calls the manager (a new wrapper generator and a new user generator are created) and runs `__enter__`; `exit i fin`
ends the block of the `i`-th use with `fin` and runs its `__exit__`.  Uses may overlap in any order (two tasks inside
`async with m()` at the same time, generators suspended inside `with m()`, `ExitStack`, the manager nested in itself).

The wrapper frame of use `i` reaches its user generator through the variable `iterator`.  If that variable is a local of the
wrapper call (`iteratorPerUse`, read from the source) the frame of use `i` refers to the generator use `i` created; if it is one
`nonlocal` / `global` cell, every frame refers to the generator created LAST. -/

structure UseRec where
  g : UserGen
  recv : CallArgs
  fresh : Nat
  u : UState          -- state of the user generator this use created
  live : Bool         -- its wrapper frame is suspended at the yield (the block is running)
deriving DecidableEq, Repr

inductive Op where
  | enter (g : UserGen) (args : CallArgs)
  | exit (i : Nat) (fin : Final)
deriving DecidableEq, Repr

/-- what the caller of one operation sees besides the journal -/
inductive OpOut where
  | entered (v : Nat)            -- the block runs with `as` bound to `v`
  | enterFailed (e : Exc)        -- `__enter__` raised
  | exited (fin : Final)         -- how the `with` statement ended
  | ignored                      -- `exit` of a use that is not live
deriving DecidableEq, Repr

/-- first object id the interpreter may use for the `i`-th use (5 per use, as in `exec`) -/
def freshOf (i : Nat) : Nat := 1000 + 5 * i

/-- the user generator the wrapper frame of use `i` finds in `iterator` when `n` uses have been started -/
def target (m : Mode) (n i : Nat) : Nat := if (shape m).iteratorPerUse then i else n - 1

/-- state of the user generator after the wrapper frame that refers to it was resumed / thrown into at its yield -/
def genAfterExit (m : Mode) (g : UserGen) (recv : CallArgs) (fresh : Nat) (u : UState) : Final → UState
  | .raised _ => if (shape m).cleanupInFinally then (cleanupBlock m g recv fresh u).2.2 else u
  | _ => (cleanupBlock m g recv fresh u).2.2

def stepOp (m : Mode) (us : List UseRec) : Op → List Ev × OpOut × List UseRec
  | .enter g args =>
    let recv := passArgs m args
    let fresh := freshOf us.length
    match wrapNext m g recv fresh .notStarted with
    | (evs, .yielded v, .suspended u) => (evs ++ [.bind g.tag v], .entered v, us ++ [⟨g, recv, fresh, u, true⟩])
    | (evs, .yielded v, _) => (evs ++ [.bind g.tag v], .entered v, us ++ [⟨g, recv, fresh, {}, false⟩])      -- not reachable
    | (evs, .raised e, _) => (evs, .enterFailed e, us ++ [⟨g, recv, fresh, (userNext g recv {}).2.2, false⟩])
    | (evs, .stop, _) =>
      (evs, .enterFailed { kind := .runtimeError, id := fresh + 3 }, us ++ [⟨g, recv, fresh, (userNext g recv {}).2.2, false⟩])
  | .exit i fin =>
    match us[i]? with
    | none => ([], .ignored, us)
    | some r =>
      if !r.live then ([], .ignored, us) else
      match us[target m us.length i]? with
      | none => ([], .ignored, us)
      | some c =>
        let x := exitWith m c.g c.recv r.fresh (.suspended c.u) fin
        let us1 := us.set (target m us.length i) { c with u := genAfterExit m c.g c.recv r.fresh c.u fin }
        (x.1, .exited x.2, us1.modify i (fun r => { r with live := false }))

/-- a whole history: per operation its journal and what its caller saw -/
def runOps (m : Mode) : List UseRec → List Op → List (List Ev × OpOut) × List UseRec
  | us, [] => ([], us)
  | us, op :: rest =>
    let r := stepOp m us op
    let t := runOps m r.2.2 rest
    ((r.1, r.2.1) :: t.1, t.2)

end PedVerif.CtxMgr
