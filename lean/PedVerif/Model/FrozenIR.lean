import PedVerif.Gen.FrozenIR
import PedVerif.Model.Frozen
import PedVerif.Model.TypeSafe
/-!
Interpreter of the statement programs that `harness/gen/frozen_ir.py` regenerates from
`pedantic/decorators/cls_deco_frozen_dataclass.py` (+ `pedantic/get_context.py`) on every run (`Gen/FrozenIR.lean`).

Each program is executed statement by statement, over the data types of the two hand models:

* `decorator` / `frozen_dataclass` / `frozen_type_safe_dataclass`: a small state machine (`runD`) that records what was bound, what
  `dataclass(...)` received, what was attached to which class object, what is returned (`decoOut`);
* `_get_context_of_caller`, `get_context`: frame walks over `TypeSafe.Frame` stacks (`runCaller`, `runGetContext`);
* `validate_types`, `new_post_init`: over `Checker.Env` / `TypeSafe.Field × Val` (`runValidate`, `runHook`) — the checker itself
  (`Checker.checkType`) is C01 / C02's;
* `copy_with`, `deep_copy_with`: over `Frozen.Inst` / `Frozen.Obj` with the allocator threaded through (`runC`).

Every run also returns the **path**: the ids of the statements it executed, in order, in the convention of CPython's line events
(a loop header is visited once more when the loop ends; a statement that raises ends the path).  The harness compares it with the lines
the real library executes on the same case (`props/_frozentrace_common.py`).  `Lemmas/FrozenIR.lean` proves that the result components
are the hand models' definitions, for all inputs.
-/
namespace PedVerif.FrozenIR
open PedVerif.Gen.FrozenIR

/-! ## parameters, Boolean expressions -/

structure Params where
  typeSafe : Bool
  order : Bool
  kwOnly : Bool
  slots : Bool
deriving DecidableEq, Repr

def Params.get (p : Params) : Param → Bool
  | .typeSafe => p.typeSafe | .order => p.order | .kwOnly => p.kwOnly | .slots => p.slots

def evalB (p : Params) : BExpr → Bool
  | .const b => b
  | .param q => p.get q
  | .not e => !(evalB p e)
  | .and a b => evalB p a && evalB p b
  | .or a b => evalB p a || evalB p b
  | .ite c a b => if evalB p c then evalB p a else evalB p b
  | .eq a b => evalB p a == evalB p b
  | .ne a b => evalB p a != evalB p b

def fnName : Fn → String
  | .newPostInit => "new_post_init" | .copyWith => "copy_with" | .deepCopyWith => "deep_copy_with" | .validateTypes => "validate_types"

/-! ## `frozen_type_safe_dataclass`, the tail of `frozen_dataclass` -/

/-- the parameters `frozen_type_safe_dataclass` decorates with: the literals it writes, the defaults elsewhere -/
def shortcutParams : Option (Params × List Nat) :=
  match shortcutProg with
  | [(i, .retShortcut ts o k s)] =>
    some (⟨ts.getD defaultParams.1, o.getD defaultParams.2.1, k.getD defaultParams.2.2.1, s.getD defaultParams.2.2.2⟩, [i])
  | _ => none

inductive OuterRes where
  | decorator          -- the decorator itself is returned (`@frozen_dataclass(...)`)
  | applied            -- the decorated class is returned (`@frozen_dataclass`)
  | nothing            -- falls off the end: None
deriving DecidableEq, Repr

def outerSimple : OSimple → OuterRes
  | .retDecorator => .decorator
  | .retApplied => .applied

def runOuter (clsGiven : Bool) : List (Nat × OStmt) → Bool → List Nat → OuterRes × List Nat
  | [], _, p => (.nothing, p)
  | (i, .defDecorator) :: rest, _, p => runOuter clsGiven rest true (p ++ [i])
  | (i, .ifClsNone body) :: rest, d, p =>
    if !clsGiven then
      match body with
      | (j, s) :: _ => (if d then outerSimple s else .nothing, p ++ [i, j])
      | [] => runOuter clsGiven rest d (p ++ [i])
    else runOuter clsGiven rest d (p ++ [i])
  | (i, .simple s) :: _, d, p => (if d then outerSimple s else .nothing, p ++ [i])

/-! ## `decorator` -/

structure DcArgs where
  frozen : Bool
  order : Bool
  kwOnly : Bool
  slots : Bool
deriving DecidableEq, Repr

structure DState where
  args : Option DcArgs := none                     -- the options dict
  defined : List Fn := []
  oldSaved : Option (ClsRef × Bool) := none        -- the previous `__post_init__` was read from which class, with the no-op default?
  installed : Option (ClsRef × Fn) := none         -- what was installed as `__post_init__`, on which class
  installedEarly : Bool := false                   -- … before `dataclass()` ran, the function defined and the previous hook saved by then
  dataclass : Option (DcArgs × ClsRef) := none     -- what `dataclass(...)` received, applied to which class
  methodList : Option (List Fn) := none
  attached : List (Fn × Bool) := []                -- methods set with `setattr`; does the attribute end up on the class `dataclass()` returned?
  returned : Option ClsRef := none
  wellFormed : Bool := true                        -- false: a name was used before it was bound (NameError at decoration time)
  path : List Nat := []
deriving Repr

/-- can the class expression be evaluated at this point of `decorator`? -/
def clsBound (st : DState) : ClsRef → Bool
  | .oldClass => true
  | .newClass => st.dataclass.isSome
  | .typeSelf => false

/-- does an attribute set on that class object now end up on the class the decorator hands back?  On the result of `dataclass()`: yes.  On the
    class handed in: before `dataclass()` ran yes (with `slots=True` the new class is built from the `__dict__` of the old one), afterwards only
    if `dataclass()` returned the same object, i.e. without `slots` -/
def landsOnResult (st : DState) : ClsRef → Bool
  | .newClass => true
  | .oldClass => match st.dataclass with | none => true | some (a, _) => !a.slots
  | .typeSelf => false

def stepSimple (st : DState) : DSimple → DState
  | .saveOldPostInit frm d => { st with oldSaved := some (frm, d), wellFormed := st.wellFormed && clsBound st frm }
  | .defFn f => { st with defined := st.defined ++ [f] }
  | .installPostInit on f =>
    { st with installed := some (on, f),
              installedEarly := st.dataclass.isNone && st.oldSaved.isSome && st.defined.contains f,
              wellFormed := st.wellFormed && clsBound st on && st.defined.contains f }
  | .setMethod f on =>
    { st with attached := st.attached ++ [(f, landsOnResult st on)], wellFormed := st.wellFormed && clsBound st on && st.defined.contains f }

def runSimples (st : DState) : List (Nat × DSimple) → DState
  | [] => st
  | (i, s) :: rest => runSimples (stepSimple { st with path := st.path ++ [i] } s) rest

def argsOf (p : Params) (st : DState) : ArgSrc → Option DcArgs
  | .fromArgs => st.args
  | .direct f o k s => some ⟨evalB p f, evalB p o, evalB p k, evalB p s⟩

/-- one statement of `decorator` (its id is already on the path) -/
def stepD (p : Params) (i : Nat) (st : DState) : DStmt → DState
  | .bindArgs f o k s => { st with args := some ⟨evalB p f, evalB p o, evalB p k, evalB p s⟩ }
  | .ifCond c body => if evalB p c then runSimples st body else st
  | .simple s => stepSimple st s
  | .callDataclass src on =>
    let a := argsOf p st src
    { st with dataclass := a.map (fun x => (x, on)), wellFormed := st.wellFormed && a.isSome && clsBound st on && st.dataclass.isNone }
  | .bindMethods fs => { st with methodList := some fs, wellFormed := st.wellFormed && fs.all st.defined.contains }
  | .forMethods b on =>
    match st.methodList with
    | none => { st with wellFormed := false }
    | some fs => { st with attached := st.attached ++ fs.map (fun f => (f, landsOnResult st on)),
                           wellFormed := st.wellFormed && clsBound st on,
                           path := st.path ++ (fs.map fun _ => [b, i]).flatten }
  | .returnCls c => { st with returned := some c, wellFormed := st.wellFormed && clsBound st c }

def isReturn : DStmt → Bool
  | .returnCls _ => true
  | _ => false

def runD (p : Params) : List (Nat × DStmt) → DState → DState
  | [], st => st
  | (i, s) :: rest, st =>
    let st' := stepD p i { st with path := st.path ++ [i] } s
    if isReturn s then st' else runD p rest st'

/-- what a run of `decorator` amounts to -/
structure DecoOut where
  dc : Option DcArgs          -- the options `dataclass()` received, if it was applied (once) to the class handed in
  returnsNew : Bool           -- the decorator hands back the class `dataclass()` produced
  methods : List String       -- names of the methods that end up on that class, in the order they were attached
  wrapper : Bool              -- `new_post_init` is installed as `__post_init__` on the class handed in — before `dataclass()` ran (which decides
                              -- whether the generated `__init__` calls it), after the previous hook was read from that class with the no-op default
deriving DecidableEq, Repr

def decoState (p : Params) : DState := runD p decoProg {}

def decoOut (p : Params) : Option DecoOut :=
  let st := decoState p
  if !st.wellFormed then none else
  some { dc := match st.dataclass with | some (a, .oldClass) => some a | _ => none,
         returnsNew := st.returned == some .newClass,
         methods := (st.attached.filter (·.2)).map (fun x => fnName x.1),
         wrapper := st.installed == some (.oldClass, .newPostInit) && st.installedEarly && st.oldSaved == some (.oldClass, true) }

def decoPath (p : Params) : List Nat := (decoState p).path

/-! ## frame walks: `_get_context_of_caller`, `get_context` -/

section Frames
open PedVerif.TypeSafe

def testHolds (skip : List String) (f : Frame) : FrameTest → Bool
  | .codeInSkip => skip.contains f.code
  | .moduleIsDataclasses => f.inDataclasses
  | .holdsInstance => f.holdsInstance
  | .other _ => false

/-- the loop test of the walk, for one frame -/
def irInternal (tests : List FrameTest) (skip : List String) (f : Frame) : Bool := tests.any (fun t => testHolds skip f t)

/-- `while [frame.f_back is not None and] internal(frame): frame = frame.f_back`: the index the walk stops at, and the statements it executes -/
def irWalk (stops : Bool) (tests : List FrameTest) (skip : List String) (w : Nat) (body : List Nat) : List Frame → Nat → Nat × List Nat
  | f :: g :: rest, i =>
    if irInternal tests skip f then
      let r := irWalk stops tests skip w body (g :: rest) (i + 1)
      (r.1, w :: body ++ r.2)
    else (i, [w])
  | [f], i => if irInternal tests skip f && !stops then (i + 1, w :: body ++ [w]) else (i, [w])
  | [], i => (i, [w])

/-- `_get_context_of_caller(instance, skip)` on the stack above it (innermost first; index 0 = depth 1): the index of the frame whose names it
    returns and the order in which they are merged; `none` = the function returns `None` / uses its frame variable before binding it -/
def runCaller (skip : List String) (stack : List Frame) : List (Nat × WStmt) → Option Nat → List Nat → Option (Nat × List CtxPart) × List Nat
  | [], _, p => (none, p)
  | (i, .startFrame d) :: rest, _, p => runCaller skip stack rest (some (d - 1)) (p ++ [i])
  | (i, .whileInternal stops tests body) :: rest, cur, p =>
    match cur with
    | none => (none, p ++ [i])
    | some k =>
      let r := irWalk stops tests skip i (body.map (·.1)) (stack.drop k) k
      runCaller skip stack rest (some r.1) (p ++ r.2)
  | (i, .retContext parts) :: _, cur, p => (cur.map (fun k => (k, parts)), p ++ [i])

/-- `get_context(depth, names)` seen from its caller: `stack[0]` is the frame at depth 1 -/
def runGetContext (depth : Nat) (names : List String) (stack : List Frame) :
    List (Nat × GStmt) → Option Nat → Option String → List Nat → Option (Nat × List CtxPart) × List Nat
  | [], _, _, p => (none, p)
  | (i, .frameAt e) :: rest, _, nm, p => runGetContext depth names stack rest (some (depth + e - 1)) nm (p ++ [i])
  | (i, .bindName) :: rest, cur, _, p =>
    runGetContext depth names stack rest cur (cur.bind fun k => (stack[k]?).map (·.name)) (p ++ [i])
  | (i, .ifNameMatches body) :: rest, cur, nm, p =>
    match nm with
    | none => (none, p ++ [i])
    | some n =>
      if names.contains n then
        match body with
        | (j, .frameAt e) :: _ => runGetContext depth names stack rest (some (depth + e - 1)) nm (p ++ [i, j])
        | [] => runGetContext depth names stack rest cur nm (p ++ [i])
      else runGetContext depth names stack rest cur nm (p ++ [i])
  | (i, .retContext parts) :: _, cur, _, p => (cur.map (fun k => (k, parts)), p ++ [i])

end Frames

/-! ## `validate_types`, `new_post_init` over the type-safe model -/

section TS
open PedVerif.Checker PedVerif.TypeSafe

/-- a context value as the model sees it -/
inductive CtxVal where
  | pyNone           -- `None`
  | otherFrame       -- the names of a frame that is not the caller's (none of them is modelled)
  | callerFrame      -- the names of the frame that executes the operation (`locals`)
deriving DecidableEq, Repr

inductive VRes where
  | passed                         -- returns None
  | raised (o : Outcome)
  | illFormed                      -- outside what the model can interpret (a name used before it is bound, a check whose arguments are not the field's)
deriving DecidableEq, Repr

def VRes.ofOption : Option Outcome → VRes
  | none => .passed
  | some o => .raised o

def idxOf (x : CtxPart) : List CtxPart → Nat
  | [] => 0
  | y :: ys => if x == y then 0 else idxOf x ys + 1

/-- `_context = {**_context, **self.__init__.__globals__, self.__class__.__name__: self.__class__}`: `env.ctx` holds the names of the module
    that defines the class and the class itself; the handed-in names are those of `locals` if they come from the caller's frame.  Later entries
    of a dict display win. -/
def mergeEnv (env : Env) (locals : List (NameId × ClsId)) (parts : List CtxPart) : CtxVal → Option Env
  | .pyNone => if parts.contains .given then none else some env
  | .otherFrame => if parts.contains .moduleGlobals && parts.contains .ownClass then some env else none
  | .callerFrame =>
    if !(parts.contains .moduleGlobals && parts.contains .ownClass) then none
    else if !parts.contains .given then some env
    else if idxOf .given parts < idxOf .moduleGlobals parts then
      some { env with ctx := fun n => match env.ctx n with | some c => some c | none => locals.lookup n }
    else some { env with ctx := fun n => match locals.lookup n with | some c => some c | none => env.ctx n }

inductive BodyRes where
  | next | stop | exit | raise (o : Outcome) | ill
deriving DecidableEq, Repr

/-- the statements of the loop body for one field -/
def runBody (env : Env) (orc : Nat → Val → Raw) (f : Field) (v : Val) : List (Nat × VBody) → List Nat → BodyRes × List Nat
  | [], p => (.next, p)
  | (i, .assertField uv ut ftv pc) :: rest, p =>
    if !(uv && ut && ftv && pc) then (.ill, p ++ [i]) else
    match checkType env orc f.ann v with
    | .accept => runBody env orc f v rest (p ++ [i])
    | .reject => (.raise .pedTypeCheck, p ++ [i])
    | .pedErr => (.raise .pedTypeCheck, p ++ [i])
    | .tvMismatch => (.raise .pedTVMismatch, p ++ [i])
    | .escape => (.raise .escape, p ++ [i])
  | (i, .ret) :: _, p => (.stop, p ++ [i])
  | (i, .brk) :: _, p => (.exit, p ++ [i])
  | (i, .cont) :: _, p => (.next, p ++ [i])

inductive LoopRes where
  | done | returned | raised (o : Outcome) | ill
deriving DecidableEq, Repr

/-- `for field in …:` — the header is visited before every iteration and once more when the fields are used up -/
def loopFields (env : Env) (orc : Nat → Val → Raw) (hdr : Nat) (body : List (Nat × VBody)) : List (Field × Val) → List Nat → LoopRes × List Nat
  | [], p => (.done, p ++ [hdr])
  | (f, v) :: rest, p =>
    match runBody env orc f v body (p ++ [hdr]) with
    | (.next, p') => loopFields env orc hdr body rest p'
    | (.exit, p') => (.done, p')
    | (.stop, p') => (.returned, p')
    | (.raise o, p') => (.raised o, p')
    | (.ill, p') => (.ill, p')

/-- what a run of `validate_types` works with -/
structure VIn where
  env : Env                                   -- names of the module that defines the class + the class itself
  locals : List (NameId × ClsId)              -- names bound in the frame of the function that executes the operation
  orc : Nat → Val → Raw
  fvs : List (Field × Val)                    -- `dataclasses.fields(type(self))` with the values the instance holds, in field order
  nProps : Nat                                -- how many of them belong to the class the method's closure captured (a prefix: base fields come first)
  given : CtxVal                              -- the `_context` argument
  /-- what `get_context(depth)` called from inside `validate_types` returns, and the statements it executes -/
  getCtx : Nat → Option CtxVal × List Nat

structure VState where
  ctx : CtxVal
  envNow : Option Env := none
  props : Option (List (Field × Val)) := none

def fieldsFor (vi : VIn) (st : VState) : FieldsSrc → Option (List (Field × Val))
  | .ofSelf => some vi.fvs
  | .ofTypeSelf => some vi.fvs
  | .ofNewClass => some (vi.fvs.take vi.nProps)
  | .ofOldClass => some (vi.fvs.take vi.nProps)
  | .props => st.props

def runVSimple (vi : VIn) (st : VState) (i : Nat) (p : List Nat) : VSimple → (Option VRes) × VState × List Nat
  | .ctxFromGetContext d =>
    match vi.getCtx d with
    | (some c, q) => (none, { st with ctx := c }, p ++ [i] ++ q)
    | (none, q) => (some .illFormed, st, p ++ [i] ++ q)
  | .ret => (some .passed, st, p ++ [i])

def runValidate (vi : VIn) : List (Nat × VStmt) → VState → List Nat → VRes × List Nat
  | [], _, p => (.passed, p)
  | (i, .bindProps src) :: rest, st, p =>
    match fieldsFor vi st src with
    | none => (.illFormed, p ++ [i])
    | some fs => runValidate vi rest { st with props := some fs } (p ++ [i])
  | (i, .ifContextNone body) :: rest, st, p =>
    if st.ctx == .pyNone then
      match body with
      | [] => runValidate vi rest st (p ++ [i])
      | (j, s) :: _ =>
        match runVSimple vi st j (p ++ [i]) s with
        | (some r, _, q) => (r, q)
        | (none, st', q) => runValidate vi rest st' q
    else runValidate vi rest st (p ++ [i])
  | (i, .ctxMerge parts) :: rest, st, p =>
    if st.ctx == .pyNone && parts.contains .given then (.raised .escape, p ++ [i])       -- `{**None}`: TypeError
    else match mergeEnv vi.env vi.locals parts st.ctx with
      | none => (.illFormed, p ++ [i])
      | some e => runValidate vi rest { st with envNow := some e } (p ++ [i])
  | (i, .forFields src body) :: rest, st, p =>
    match fieldsFor vi st src, st.envNow with
    | some fs, some e =>
      match loopFields e vi.orc i body fs p with
      | (.done, q) => runValidate vi rest st q
      | (.returned, q) => (.passed, q)
      | (.raised o, q) => (.raised o, q)
      | (.ill, q) => (.illFormed, q)
    | _, _ => (.illFormed, p ++ [i])
  | (i, .simple s) :: rest, st, p =>
    match runVSimple vi st i p s with
    | (some r, _, q) => (r, q)
    | (none, st', q) => runValidate vi rest st' q

def vtFrame : Frame := { name := "validate_types", code := "validate_types", holdsInstance := true }

/-- `get_context(depth)` called by `validate_types` when the user calls `inst.validate_types()` from `caller`: depth 1 = `validate_types` -/
def userGetCtx (caller : Frame) (outer : List Frame) (depth : Nat) : Option CtxVal × List Nat :=
  match runGetContext depth [] ([vtFrame, caller] ++ outer) getContextProg none none [] with
  | (some (k, parts), q) => (some (if k == 1 && parts.contains .frameLocals then .callerFrame else .otherFrame), q)
  | (none, q) => (none, q)

/-- `inst.validate_types()` called by `caller` -/
def irValidateCall (env : Env) (locals : List (NameId × ClsId)) (orc : Nat → Val → Raw) (fvs : List (Field × Val)) (caller : Frame)
    (outer : List Frame) : VRes × List Nat :=
  runValidate ⟨env, locals, orc, fvs, fvs.length, .pyNone, userGetCtx caller outer⟩ validateProg { ctx := .pyNone } []

/-- the chain of `__post_init__` hooks of a class: nothing / the user's own method (which journals, and may raise) / the validating wrapper
    of a type-safe class around the hook it found (`nProps`: the number of fields of the class whose decorator installed it) -/
inductive Hook where
  | noop
  | user (raises : Option Nat)
  | wrapped (nProps : Nat) (inner : Hook)      -- `nProps`: the number of fields `validate_types` (looked up on the instance) ranges over
deriving Repr

def Hook.ofUser : UserPost → Hook
  | .absent => .noop
  | .runs => .user none
  | .raises e => .user (some e)

/-- what a run of `__post_init__` works with -/
structure PIn where
  env : Env
  locals : List (NameId × ClsId)
  orc : Nat → Val → Raw
  fvs : List (Field × Val)
  path : Path
  caller : Frame
  outer : List Frame

def npiFrame : Frame := { name := "new_post_init", code := "new_post_init", holdsInstance := true }
def initFrame : Frame := { name := "__init__", holdsInstance := true }

/-- the frames above `_get_context_of_caller` when the wrapper at nesting depth `d` (0 = the outermost one, called by `__init__`) calls it -/
def chainAt (d : Nat) : List Frame := List.replicate d npiFrame ++ [initFrame]

inductive PRes where
  | done | raised (o : Outcome) | illFormed
deriving DecidableEq, Repr

structure PState where
  ctx : Option CtxVal := none
  evs : List Ev := []
  p : List Nat := []

/-- `get_context(depth)` called by `validate_types` when the wrapper passes no context: depth 1 = `validate_types`, 2 = the wrapper, … -/
def getCtxInPostInit (pi : PIn) (d : Nat) (depth : Nat) : Option CtxVal × List Nat :=
  let stack := [vtFrame] ++ stackOf pi.path (chainAt d) pi.caller pi.outer
  match runGetContext depth [] stack getContextProg none none [] with
  | (some (k, parts), q) => (some (if k == 1 + callerIndex pi.path (chainAt d) && parts.contains .frameLocals then .callerFrame else .otherFrame), q)
  | (none, q) => (none, q)

/-- the statements of `new_post_init` of the wrapper at depth `d`; `innerRes`: what calling the hook it wraps does -/
def runP (pi : PIn) (k : Nat) (innerRes : PRes × List Ev × List Nat) (d : Nat) : List (Nat × PStmt) → PState → PRes × List Ev × List Nat
  | [], st => (.done, st.evs, st.p)
  | (i, .callOld) :: rest, st =>
    match innerRes with
    | (.done, evs, q) => runP pi k innerRes d rest { st with evs := st.evs ++ evs, p := st.p ++ [i] ++ q }
    | (r, evs, q) => (r, st.evs ++ evs, st.p ++ [i] ++ q)
  | (i, .bindCallerContext isSelf skip) :: rest, st =>
    if !isSelf then (.illFormed, st.evs, st.p ++ [i]) else
    match runCaller (skip.map fnName) (stackOf pi.path (chainAt d) pi.caller pi.outer) callerProg none [] with
    | (some (sel, parts), q) =>
      let c : CtxVal := if sel == callerIndex pi.path (chainAt d) && parts.contains .frameLocals then .callerFrame else .otherFrame
      runP pi k innerRes d rest { st with ctx := some c, p := st.p ++ [i] ++ q }
    | (none, q) => runP pi k innerRes d rest { st with ctx := some .pyNone, p := st.p ++ [i] ++ q }
  | (i, .callValidate arg) :: rest, st =>
    let given : Option CtxVal := match arg with | .callerContext => st.ctx | .noContext => some .pyNone
    match given with
    | none => (.illFormed, st.evs, st.p ++ [i])
    | some g =>
      match runValidate ⟨pi.env, pi.locals, pi.orc, pi.fvs, k, g, getCtxInPostInit pi d⟩ validateProg { ctx := g } [] with
      | (.passed, q) => runP pi k innerRes d rest { st with evs := st.evs ++ [.validate], p := st.p ++ [i] ++ q }
      | (.raised o, q) => (.raised o, st.evs ++ [.validate], st.p ++ [i] ++ q)
      | (.illFormed, q) => (.illFormed, st.evs ++ [.validate], st.p ++ [i] ++ q)

/-- a hook called as `hook(self)` from the wrapper at depth `d - 1` (or from `__init__` when `d = 0`) -/
def runHook (pi : PIn) : Hook → Nat → PRes × List Ev × List Nat
  | .noop, _ => (.done, [], noopHookId.toList)
  | .user none, _ => (.done, [.post], [])
  | .user (some e), _ => (.raised (.postInitExc e), [.post], [])
  | .wrapped k inner, d => runP pi k (runHook pi inner (d + 1)) d postInitProg {}

/-- the hook a class ends up with: the decorator wraps the user's hook iff it installs the wrapper for these parameters -/
def hookFor (typeSafe : Bool) (up : UserPost) (n : Nat) : Option Hook :=
  match decoOut ⟨typeSafe, defaultParams.2.1, defaultParams.2.2.1, defaultParams.2.2.2⟩ with
  | none => none
  | some o => some (if o.wrapper then .wrapped n (.ofUser up) else .ofUser up)

/-- `__init__` calls `self.__post_init__()` iff the class has one -/
def runInit (pi : PIn) : Hook → PRes × List Ev × List Nat
  | .noop => (.done, [], [])
  | h => runHook pi h 0

/-- does the copy method end in a call that runs the generated `__init__` (`dataclasses.replace` / a constructor call)?  Together with the
    statements it executes up to there (collecting the fields does not fail in the type-safe model: every field is set) -/
def copyReachesInit : List (Nat × CStmt) → List Nat → Bool × List Nat
  | [], p => (false, p)
  | (i, .collect _ _ _) :: rest, p => copyReachesInit rest (p ++ [i])
  | (i, .bindMerged _) :: rest, p => copyReachesInit rest (p ++ [i])
  | (i, .retReplace _ _) :: _, p => (true, p ++ [i])
  | (i, .retConstruct _ _) :: _, p => (true, p ++ [i])

def pathProg : Path → List (Nat × CStmt)
  | .constructor => []
  | .copyWith => copyWithProg
  | .deepCopyWith => deepCopyWithProg

def reachesInit (p : Path) : Bool × List Nat :=
  match p with
  | .constructor => (true, [])
  | _ => copyReachesInit (pathProg p) []

def PRes.outcome : PRes → Option Outcome
  | .done => some .instance
  | .raised o => some o
  | .illFormed => none

/-- a construction path of the type-safe model, executed by `caller`: the copy method (if any) up to the call that enters `__init__`, then
    the `__post_init__` chain; `none` = outside what the model can interpret -/
def irConstructIn (env : Env) (locals : List (NameId × ClsId)) (caller : Frame) (outer : List Frame) (orc : Nat → Val → Raw)
    (typeSafe : Bool) (up : UserPost) (p : Path) (fvs : List (Field × Val)) : Option (List Ev × Outcome) × List Nat :=
  match hookFor typeSafe up fvs.length with
  | none => (none, [])
  | some h =>
    let (reaches, q) := reachesInit p
    if reaches then
      let r := runInit ⟨env, locals, orc, fvs, p, caller, outer⟩ h
      (r.1.outcome.map (fun o => (r.2.1, o)), q ++ r.2.2)
    else (some ([], .instance), q)

/-! ### which values the new instance holds: the copy methods over the values of the type-safe model

In `Model/TypeSafe.lean` the harness hands in the field values the new instance holds.  Here they are *computed*: the statements of
`copy_with` / `deep_copy_with` are run over the receiver's current `(field, value)` list and the keyword arguments.  Values of the type-safe
model carry no identity, so `deepcopy` is the identity on them ("a structurally equal value"); every field is an init field without default
(what defaults and `init=False` do is C11's subject). -/

/-- `{**a, **b}`: `b` wins -/
def mergeAL {α : Type} (a b : List (Nat × α)) : List (Nat × α) := b ++ a.filter (fun kv => (b.lookup kv.1).isNone)

structure TRegs where
  cur : Option (List (NameId × Val)) := none
  merged : Option (List (NameId × Val)) := none

def evalDT (r : TRegs) (kw : List (NameId × Val)) : DictExpr → Option (List (NameId × Val))
  | .cur => r.cur
  | .kwargs => some kw
  | .merged => r.merged
  | .merge a b => match evalDT r kw a, evalDT r kw b with | some x, some y => some (mergeAL x y) | _, _ => none

/-- the keyword arguments the generated `__init__` receives from a copy method (`none`: the method returns without constructing, or uses a
    name it has not bound).  `replace(self, **changes)` passes the changes and, for every field they do not name, the receiver's value. -/
def runCT (cur : List (Field × Val)) (kw : List (NameId × Val)) : List (Nat × CStmt) → TRegs → Option (List (NameId × Val))
  | [], _ => none
  | (_, .collect _ _ _) :: rest, r => runCT cur kw rest { r with cur := some (cur.map fun fv => (fv.1.name, fv.2)) }
  | (_, .bindMerged e) :: rest, r =>
    match evalDT r kw e with
    | none => none
    | some d => runCT cur kw rest { r with merged := some d }
  | (_, .retReplace _ e) :: _, r => (evalDT r kw e).map fun ch => mergeAL (cur.map fun fv => (fv.1.name, fv.2)) ch
  | (_, .retConstruct _ e) :: _, r => evalDT r kw e

/-- the generated `__init__` binds its keyword arguments to the fields: every field must be given, nothing else may be (TypeError otherwise) -/
def bindAll (d : List (NameId × Val)) : List Field → Option (List (Field × Val))
  | [] => some []
  | f :: fs => match d.lookup f.name, bindAll d fs with | some v, some r => some ((f, v) :: r) | _, _ => none
def bindFields (fs : List Field) (d : List (NameId × Val)) : Option (List (Field × Val)) :=
  if d.all (fun kv => fs.any (fun f => f.name == kv.1)) then bindAll d fs else none

/-- the fields of the instance a copy method constructs -/
def copiedFields (p : Path) (cur : List (Field × Val)) (kw : List (NameId × Val)) : Option (List (Field × Val)) :=
  match p with
  | .constructor => bindFields (cur.map (·.1)) kw
  | _ => (runCT cur kw (pathProg p) {}).bind (bindFields (cur.map (·.1)))

/-- what the property says the copy holds: the keyword's value where one is given, the receiver's otherwise -/
def replacedFields (cur : List (Field × Val)) (kw : List (NameId × Val)) : List (Field × Val) :=
  cur.map fun fv => (fv.1, match kw.lookup fv.1.name with | some w => w | none => fv.2)

/-- `inst.copy_with(**kw)` / `inst.deep_copy_with(**kw)` executed by `caller`, on a receiver that holds `cur`: the statements of the method
    compute the keyword arguments of `__init__`, `__init__` binds them, `__post_init__` validates what was bound -/
def irCopyIn (env : Env) (locals : List (NameId × ClsId)) (caller : Frame) (outer : List Frame) (orc : Nat → Val → Raw)
    (typeSafe : Bool) (up : UserPost) (p : Path) (cur : List (Field × Val)) (kw : List (NameId × Val)) : Option (List Ev × Outcome) :=
  match copiedFields p cur kw with
  | none => none
  | some fvs => (irConstructIn env locals caller outer orc typeSafe up p fvs).1

end TS

/-! ## `copy_with`, `deep_copy_with` over the frozen model -/

section FZ
open PedVerif.Frozen PedVerif.Gen.Frozen

/-- `isinstance(v, Hashable)`: the *class* has a `__hash__` (a tuple has one whatever it holds; list / dict / set do not) -/
def hashableCls : Obj → Bool
  | .atom _ => true
  | .tup _ _ => true
  | .box k _ _ => !(k == .list || k == .dict || k == .set)

def evalCond : VCond → Obj → Bool
  | .hashable, v => hashableCls v
  | .not c, v => !(evalCond c v)

/-- the value a comprehension stores for a field whose current value is `v` -/
def evalV : VExpr → Obj → Nat → Except Exc (Obj × Nat)
  | .field, v, n => .ok (v, n)
  | .deepcopy e, v, n =>
    match evalV e v n with
    | .error x => .error x
    | .ok (v', n') => if deepcopyRaises v' then .error .typeError else .ok (if v'.copyable then deepcopy v' n' else (v', n'))
  | .ite c a b, v, n => if evalCond c v then evalV a v n else evalV b v n

/-- `{f.name: <val> for f in <fields> [if f.init]}` -/
def irCollect (initOnly : Bool) (val : VExpr) (self : Inst) : List FieldR → Nat → Except Exc (List (Name × Obj) × Nat)
  | [], n => .ok ([], n)
  | f :: fs, n =>
    if initOnly && !f.init then irCollect initOnly val self fs n else
    match self.fields.lookup f.name with
    | none => .error .attributeError
    | some v =>
      match evalV val v n with
      | .error e => .error e
      | .ok (v', n1) =>
        match irCollect initOnly val self fs n1 with
        | .error e => .error e
        | .ok (r, n2) => .ok ((f.name, v') :: r, n2)

/-- the class object handed to the decorator, seen from an instance: the class `dataclass()` returned unless `slots=True` made it build a new
    one — then a different class with the same fields -/
def oldClsOf (c : Cls) : Cls :=
  match decoratedPart c with
  | [] => c
  | l :: rest => if l.effSlots then { l with cid := l.cid + 1000 } :: rest else l :: rest

def clsOf (self : Inst) : ClsRef → Cls
  | .typeSelf => self.cls
  | .newClass => decoratedPart self.cls
  | .oldClass => oldClsOf self.cls

def fieldsOfSrc (self : Inst) : FieldsSrc → Option (List FieldR)
  | .ofSelf => some (fieldsOf self.cls)
  | .ofTypeSelf => some (fieldsOf self.cls)
  | .ofNewClass => some (fieldsOf (decoratedPart self.cls))
  | .ofOldClass => some (fieldsOf (decoratedPart self.cls))
  | .props => none

structure CRegs where
  cur : Option (List (Name × Obj)) := none
  merged : Option (List (Name × Obj)) := none
  next : Nat

def evalD (r : CRegs) (kw : List (Name × Obj)) : DictExpr → Option (List (Name × Obj))
  | .cur => r.cur
  | .kwargs => some kw
  | .merged => r.merged
  | .merge a b => match evalD r kw a, evalD r kw b with | some x, some y => some (mergeDict x y) | _, _ => none

/-- a copy method, statement by statement: `none` = no instance and no exception the model can name (the method returns `None`, or uses a name
    it has not bound) -/
def runC (self : Inst) (kw : List (Name × Obj)) : List (Nat × CStmt) → CRegs → List Nat → Option (Except Exc CopyOut) × List Nat
  | [], _, p => (none, p)
  | (i, .collect src io val) :: rest, r, p =>
    match fieldsOfSrc self src with
    | none => (none, p ++ [i])
    | some fs =>
      match irCollect io val self fs r.next with
      | .error e => (some (.error e), p ++ [i])
      | .ok (cur, n1) => runC self kw rest { r with cur := some cur, next := n1 } (p ++ [i])
  | (i, .bindMerged e) :: rest, r, p =>
    match evalD r kw e with
    | none => (none, p ++ [i])
    | some d => runC self kw rest { r with merged := some d } (p ++ [i])
  | (i, .retReplace deepSelf e) :: _, r, p =>
    match evalD r kw e with
    | none => (none, p ++ [i])
    | some d =>
      let (src, n0) := if deepSelf then
          (let (fs', n') := deepFields self.fields r.next; ({ self with fields := fs' }, n')) else (self, r.next)
      match replaceChanges src (fieldsOf src.cls) d with
      | .error x => (some (.error x), p ++ [i])
      | .ok ch => (some (finishCopy self (construct src.cls [] ch n0)), p ++ [i])
  | (i, .retConstruct c e) :: _, r, p =>
    match evalD r kw e with
    | none => (none, p ++ [i])
    | some d => (some (finishCopy self (construct (clsOf self c) [] d r.next)), p ++ [i])

def irCopyWith (self : Inst) (kw : List (Name × Obj)) (n : Nat) : Option (Except Exc CopyOut) := (runC self kw copyWithProg { next := n } []).1
def irDeepCopyWith (self : Inst) (kw : List (Name × Obj)) (n : Nat) : Option (Except Exc CopyOut) := (runC self kw deepCopyWithProg { next := n } []).1

def layerParams (l : Layer) : Params := ⟨l.typeSafe, l.order, l.kwOnly, l.slots⟩

/-- what `dataclass()` receives for one class statement, according to the decorator program -/
def irLayerArgs (l : Layer) : Option DcArgs := (decoOut (layerParams l)).bind (·.dc)

/-- does the decorator program install the validating wrapper for this class statement? -/
def irWrapper (l : Layer) : Bool := match decoOut (layerParams l) with | some o => o.wrapper | none => false

/-- the events of one run of `new_post_init` around the events `old` of the hook it wraps: statement by statement -/
def irWrapEvents (old : List Frozen.Ev) : List (Nat × PStmt) → List Frozen.Ev
  | [] => []
  | (_, .callOld) :: rest => old ++ irWrapEvents old rest
  | (_, .bindCallerContext _ _) :: rest => irWrapEvents old rest
  | (_, .callValidate _) :: rest => Frozen.Ev.validate :: irWrapEvents old rest

/-- what `self.__post_init__()` journals for an instance of the class -/
def irPostInitEvents : Cls → List Frozen.Ev
  | [] => []
  | l :: rest =>
    if !l.decorated then irPostInitEvents rest else
    let old := if l.postInit then [Frozen.Ev.post] else irPostInitEvents rest
    if irWrapper l then irWrapEvents old postInitProg else old

/-- the hook chain of a class of the frozen model (`noop` at the top = the class has no `__post_init__`).  Every wrapper calls
    `self.validate_types(...)`, i.e. the method of the instance's own (nearest decorated) class: each of them validates all `n` fields -/
def hookChain (n : Nat) : Cls → Hook
  | [] => .noop
  | l :: rest =>
    if !l.decorated then hookChain n rest else
    let old := if l.postInit then Hook.user none else hookChain n rest
    if irWrapper l then .wrapped n old else old

def hookOfCls (c : Cls) : Hook := hookChain (fieldsOf c).length c

/-- methods the decorator program attaches to the class it returns -/
def irMethods (l : Layer) : List String := match decoOut (layerParams l) with | some o => o.methods | none => []

/-- does the decorator program hand back the class `dataclass()` built? -/
def irReturnsNew (l : Layer) : Bool := match decoOut (layerParams l) with | some o => o.returnsNew | none => false

/-- special methods that would change what assignment / deletion on an instance does -/
def attrHookNames : List String :=
  ["__setattr__", "__delattr__", "__getattribute__", "__getattr__", "__set_name__", "__set__", "__delete__", "__get__", "__dir__", "__init_subclass__"]

/-- the class table says what the decorator program does: every decorated class statement hands `dataclass()` exactly the options the model
    reads off the layer, gets the class `dataclass()` built back, and has no attribute-protocol method attached -/
def irClsFaithful (c : Cls) : Bool :=
  c.all fun l => !l.decorated ||
    (irLayerArgs l == some ⟨l.frozen, l.effOrder, l.effKwOnly, l.effSlots⟩ && (irMethods l).all (fun m => !attrHookNames.contains m)
      && irReturnsNew l)

/-- `setattr(inst, name, v)` / `delattr(inst, name)` on an instance of a class built by the decorator program -/
def irSetattr (self : Inst) (name : Name) (v : Obj) : Option (Except Exc Inst) :=
  if irClsFaithful self.cls then some (setattr self name v) else none
def irDelattr (self : Inst) (name : Name) : Option (Except Exc Inst) :=
  if irClsFaithful self.cls then some (delattr self name) else none

end FZ

end PedVerif.FrozenIR
