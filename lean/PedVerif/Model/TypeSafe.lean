import PedVerif.Model.CheckerWF
import PedVerif.Gen.TypeSafe
/-!
Model of the type-safe half of `@frozen_dataclass(type_safe=True)` / `@frozen_type_safe_dataclass`:
`validate_types` (one `assert_value_matches_type` per `dataclasses.fields()` entry, in order, first failure wins),
`new_post_init` (the user's `__post_init__`, then the validation), and the three construction paths, which all end in the
dataclass-generated `__init__` and hence in `__post_init__` (constructor; `copy_with` = `dataclasses.replace`;
`deep_copy_with` = constructor on deep copies).  The dataclass machinery itself (defaults, `replace`, slots, inheritance
of fields) is environment: the harness supplies the field list of the class and the values the fields hold when
`__post_init__` runs.  Each field check consults `Checker.checkType`.
-/
namespace PedVerif.TypeSafe
open PedVerif.Checker PedVerif.Gen.TypeSafe

structure Field where
  name : NameId
  ann : Ann
deriving Repr

inductive Ev where | post | validate
deriving DecidableEq, Repr

inductive Outcome where
  | instance                     -- an instance is handed to the caller
  | pedTypeCheck | pedTVMismatch | escape
  | postInitExc (e : Nat)        -- the user's __post_init__ raised
deriving DecidableEq, Repr

/-- `validate_types`: the loop over the fields; `none` = every field passed -/
def validateTypes (env : Env) (orc : Nat → Val → Raw) : List (Field × Val) → Option Outcome
  | [] => none
  | (f, v) :: rest =>
    match checkType env orc f.ann v with
    | .accept => if validateLeavesLoopEarly then none else validateTypes env orc rest
    | .reject => some .pedTypeCheck
    | .pedErr => some .pedTypeCheck
    | .tvMismatch => some .pedTVMismatch
    | .escape => some .escape

/-- what the user's own `__post_init__` does: nothing, journals, or raises -/
inductive UserPost where | absent | runs | raises (e : Nat)
deriving DecidableEq, Repr

/-- `new_post_init` as installed by the decorator -/
def postInit (env : Env) (orc : Nat → Val → Raw) (typeSafe : Bool) (up : UserPost) (fvs : List (Field × Val)) : List Ev × Outcome :=
  let validate : List Ev × Outcome :=
    match validateTypes env orc fvs with
    | some o => ([.validate], o)
    | none => ([.validate], .instance)
  let user : Option (List Ev × Option Nat) :=
    match up with | .absent => none | .runs => some ([.post], none) | .raises e => some ([.post], some e)
  if !(typeSafe && postInitOnlyWhenTypeSafe) then
    (match user with | none => ([], .instance) | some (evs, none) => (evs, .instance) | some (evs, some e) => (evs, .postInitExc e))
  else if postInitOrder == ["old", "validate"] then
    (match user with
     | none => validate
     | some (evs, none) => (evs ++ validate.1, validate.2)
     | some (evs, some e) => (evs, .postInitExc e))
  else if postInitOrder == ["validate", "old"] then
    (match validate.2, user with
     | .instance, some (evs, none) => (validate.1 ++ evs, .instance)
     | .instance, some (evs, some e) => (validate.1 ++ evs, .postInitExc e)
     | o, _ => (validate.1, o))
  else if postInitOrder == ["validate"] then validate
  else (match user with | none => ([], .instance) | some (evs, none) => (evs, .instance) | some (evs, some e) => (evs, .postInitExc e))

/-- the construction paths: each ends in `__init__` -> `__post_init__` with the field values `fvs` the new instance holds
    (for copy_with: the original's values overridden by the keywords; for deep_copy_with: structurally equal deep copies) -/
inductive Path where | constructor | copyWith | deepCopyWith
deriving DecidableEq, Repr

def construct (env : Env) (orc : Nat → Val → Raw) (typeSafe : Bool) (up : UserPost) (p : Path) (fvs : List (Field × Val)) : List Ev × Outcome :=
  match p with
  | .constructor => postInit env orc typeSafe up fvs
  | .copyWith => if copyWithIsReplace then postInit env orc typeSafe up fvs else ([], .instance)
  | .deepCopyWith => if deepCopyCallsConstructor then postInit env orc typeSafe up fvs else ([], .instance)

/-- the public `validate_types()` on an existing instance -/
def validateCall (env : Env) (orc : Nat → Val → Raw) (fvs : List (Field × Val)) : Outcome :=
  match validateTypes env orc fvs with
  | some o => o
  | none => .instance          -- returns None: no exception

/-- spec: every field value conforms to its annotation -/
def allConform (env : Env) (fvs : List (Field × Val)) : Bool := fvs.all (fun fv => conforms env fv.1.ann fv.2)

end PedVerif.TypeSafe
