import PedVerif.Model.CheckerWF
import PedVerif.Gen.TypeSafe
/-!
Model of the type-safe half of `@frozen_dataclass(type_safe=True)` / `@frozen_type_safe_dataclass`:
`validate_types` (one `assert_value_matches_type` per `dataclasses.fields()` entry, in order, first failure wins),
`new_post_init` (the user's `__post_init__`, then the validation), and the three construction paths, which all end in the
dataclass-generated `__init__` and hence in `__post_init__` (constructor; `copy_with` = `dataclasses.replace`;
`deep_copy_with` = constructor on deep copies).  The dataclass machinery itself (defaults, `replace`, slots, inheritance
of fields) is environment: the harness supplies the field list of the class and the values the fields hold when
`__post_init__` runs.  Each field check consults `Checker.checkType`.
-/
namespace PedVerif.TypeSafe
open PedVerif.Checker PedVerif.Gen.TypeSafe

structure Field where
  name : NameId
  ann : Ann
deriving Repr

inductive Ev where | post | validate
deriving DecidableEq, Repr

inductive Outcome where
  | instance                     -- an instance is handed to the caller
  | pedTypeCheck | pedTVMismatch | escape
  | postInitExc (e : Nat)        -- the user's __post_init__ raised
deriving DecidableEq, Repr

/-- `validate_types`: the loop over the fields; `none` = every field passed -/
def validateTypes (env : Env) (orc : Nat → Val → Raw) : List (Field × Val) → Option Outcome
  | [] => none
  | (f, v) :: rest =>
    match checkType env orc f.ann v with
    | .accept => if validateLeavesLoopEarly then none else validateTypes env orc rest
    | .reject => some .pedTypeCheck
    | .pedErr => some .pedTypeCheck
    | .tvMismatch => some .pedTVMismatch
    | .escape => some .escape

/-- what the user's own `__post_init__` does: nothing, journals, or raises -/
inductive UserPost where | absent | runs | raises (e : Nat)
deriving DecidableEq, Repr

/-- `new_post_init` as installed by the decorator -/
def postInit (env : Env) (orc : Nat → Val → Raw) (typeSafe : Bool) (up : UserPost) (fvs : List (Field × Val)) : List Ev × Outcome :=
  let validate : List Ev × Outcome :=
    match validateTypes env orc fvs with
    | some o => ([.validate], o)
    | none => ([.validate], .instance)
  let user : Option (List Ev × Option Nat) :=
    match up with | .absent => none | .runs => some ([.post], none) | .raises e => some ([.post], some e)
  if !(typeSafe && postInitOnlyWhenTypeSafe) then
    (match user with | none => ([], .instance) | some (evs, none) => (evs, .instance) | some (evs, some e) => (evs, .postInitExc e))
  else if postInitOrder == ["old", "validate"] then
    (match user with
     | none => validate
     | some (evs, none) => (evs ++ validate.1, validate.2)
     | some (evs, some e) => (evs, .postInitExc e))
  else if postInitOrder == ["validate", "old"] then
    (match validate.2, user with
     | .instance, some (evs, none) => (validate.1 ++ evs, .instance)
     | .instance, some (evs, some e) => (validate.1 ++ evs, .postInitExc e)
     | o, _ => (validate.1, o))
  else if postInitOrder == ["validate"] then validate
  else (match user with | none => ([], .instance) | some (evs, none) => (evs, .instance) | some (evs, some e) => (evs, .postInitExc e))

/-- the construction paths: each ends in `__init__` -> `__post_init__` with the field values `fvs` the new instance holds
    (for copy_with: the original's values overridden by the keywords; for deep_copy_with: structurally equal deep copies) -/
inductive Path where | constructor | copyWith | deepCopyWith
deriving DecidableEq, Repr

def construct (env : Env) (orc : Nat → Val → Raw) (typeSafe : Bool) (up : UserPost) (p : Path) (fvs : List (Field × Val)) : List Ev × Outcome :=
  match p with
  | .constructor => postInit env orc typeSafe up fvs
  | .copyWith => if copyWithIsReplace then postInit env orc typeSafe up fvs else ([], .instance)
  | .deepCopyWith => if deepCopyCallsConstructor then postInit env orc typeSafe up fvs else ([], .instance)

/-- the public `validate_types()` on an existing instance -/
def validateCall (env : Env) (orc : Nat → Val → Raw) (fvs : List (Field × Val)) : Outcome :=
  match validateTypes env orc fvs with
  | some o => o
  | none => .instance          -- returns None: no exception

/-! ## In which frame are forward references resolved?

`new_post_init` asks `_get_context_of_caller(instance, skip)` for the names of *the frame that requested the instance* (called
the constructor / copy_with / deep_copy_with); `validate_types` then works with `{**that frame, **module globals, own class}`.
The helper walks up the stack while a frame is *internal* - its code object was handed in (`copy_with`, `deep_copy_with`), it
belongs to the `dataclasses` module (`replace`), or it works on the instance itself (the generated `__init__`, the
`__post_init__` wrappers and user methods of the class hierarchy).  Start depth, the tests of the loop and the code objects
are generated facts; the frames `dataclasses` puts in between are measured live by the translator. -/

structure Frame where
  name : String
  code : String := ""              -- which of the library's own functions the code object belongs to ("" = none of them)
  inDataclasses : Bool := false    -- f_globals['__name__'] == 'dataclasses'
  holdsInstance : Bool := false    -- some local of the frame is the instance under construction
deriving Repr

def Frame.internal (f : Frame) : Bool :=
  (callerSkipTests.contains "code_in_skip" && callerSkipCodes.contains f.code) ||
  (callerSkipTests.contains "module_is_dataclasses" && f.inDataclasses) ||
  (callerSkipTests.contains "holds_instance" && f.holdsInstance)

/-- `while frame.f_back is not None and internal(frame): frame = frame.f_back`, as an index into the stack -/
def walk : List Frame → Nat → Nat
  | f :: g :: rest, i => if f.internal then walk (g :: rest) (i + 1) else i
  | [f], i => if f.internal && !callerWalkStopsAtLastFrame then i + 1 else i     -- `i + 1`: falls off the stack (AttributeError)
  | [], i => i

/-- the frames the library itself puts between `__init__` and the caller, per path -/
def pathFrames : Path → List Frame
  | .constructor => []
  | .copyWith => (replaceFrames.map fun n => { name := n, inDataclasses := true }) ++ [{ name := "copy_with", code := "copy_with" }]
  | .deepCopyWith => [{ name := "deep_copy_with", code := "deep_copy_with" }]

/-- the stack above `_get_context_of_caller` (innermost first): the wrapper that called it, further frames working on the instance
    (`chain`: outer wrappers of a decorated subclass, user `__post_init__` methods calling super, the generated `__init__`), the
    path's own frames, the caller, whatever called the caller -/
def stackOf (p : Path) (chain : List Frame) (caller : Frame) (outer : List Frame) : List Frame :=
  [{ name := "new_post_init", code := "new_post_init", holdsInstance := true }] ++ chain ++ pathFrames p ++ [caller] ++ outer

def callerIndex (p : Path) (chain : List Frame) : Nat := 1 + chain.length + (pathFrames p).length

def selectFrame (stack : List Frame) : Nat :=
  let i := callerStartDepth - 1          -- depth 0 is the helper itself
  walk (stack.drop i) i

/-- does the validation triggered by path `p` see the names of the calling function? -/
def seesCaller (p : Path) (chain : List Frame) (caller : Frame) (outer : List Frame) : Bool :=
  selectFrame (stackOf p chain caller outer) == callerIndex p chain
/-- … and a direct call `obj.validate_types()`: `get_context(depth=2)` -/
def userValidateSeesCaller : Bool := validateContextDepth == 2 && validateContextOnlyWhenNone

/-- the context `validate_types` builds: the dict display merges left to right (later entries win) -/
def _root_.PedVerif.Checker.Env.withCaller (env : Env) (locals : List (NameId × ClsId)) (sees : Bool) : Env :=
  if !sees then env
  else if contextMergeOrder == ["caller", "globals", "own"] then
    { env with ctx := fun n => match env.ctx n with | some c => some c | none => locals.lookup n }
  else
    { env with ctx := fun n => match locals.lookup n with | some c => some c | none => env.ctx n }

/-- the construction paths / the user call, executed by a function `caller` whose frame binds `locals`
    (`env.ctx` = module globals + the class itself); `chains`: one entry per validating wrapper that runs (a decorated subclass
    that inherits the wrapped `__post_init__` of its decorated base runs two) -/
def constructIn (env : Env) (locals : List (NameId × ClsId)) (chains : List (List Frame)) (caller : Frame) (outer : List Frame)
    (orc : Nat → Val → Raw) (typeSafe : Bool) (up : UserPost) (p : Path) (fvs : List (Field × Val)) : List Ev × Outcome :=
  construct (env.withCaller locals (chains.all fun ch => seesCaller p ch caller outer)) orc typeSafe up p fvs
def validateCallIn (env : Env) (locals : List (NameId × ClsId)) (orc : Nat → Val → Raw) (fvs : List (Field × Val)) : Outcome :=
  validateCall (env.withCaller locals userValidateSeesCaller) orc fvs
/-- what the annotations mean at the call site: names of the module first, then those of the calling function -/
def _root_.PedVerif.Checker.Env.atCallSite (env : Env) (locals : List (NameId × ClsId)) : Env :=
  { env with ctx := fun n => match env.ctx n with | some c => some c | none => locals.lookup n }

/-- spec: every field value conforms to its annotation -/
def allConform (env : Env) (fvs : List (Field × Val)) : Bool := fvs.all (fun fv => conforms env fv.1.ann fv.2)

end PedVerif.TypeSafe
