import PedVerif.Gen.Docstring
/-!
Model of docstring checking (C19): `pedantic.decorator` (trigger), `_check_docstring`, `_assert_docstring_is_complete`,
`_parse_documented_type`, `_update_context` (+ the part of `get_type_arguments` it uses), `pedantic_require_docstring`,
`pedantic_class_require_docstring`.

Two layers:

* **layer A** (`checkDocstring`, `decorator`): the checking logic over a parsed docstring whose documented types are given
  as the *outcome class* `DT` of `_parse_documented_type` (a type object, "no type", "contains `typing.`", `NameError`,
  another exception out of `eval`).  All comparison operators, the trigger, the exception classes and the completeness
  conditions come from `PedVerif.Gen.Docstring`, which the translator regenerates from the source on every run.
* **layer B** (`parseDocumentedType`, `updateContext`, `evalD`, `annotate`): how the library obtains that outcome: the
  evaluation context it collects from the annotations and an environment model of `eval` of a documented type expression
  under CPython 3.12 `typing` (constructors, `Union` normalisation, typing-object equality `annEq`).

The parsed docstring itself (`docstring_parser.parse(func.__doc__)`) is an input: the parser is trusted.
-/
set_option linter.unusedVariables false
namespace PedVerif.Docstring
open PedVerif.Gen.Docstring

/-! ## typing objects -/

/-- identifiers / `__name__`s, interned as numbers (0–10: builtin classes and `NoneType`, 20–29: the typing names, ≥ 1000: every other identifier — the
    module's own classes and type variables, parameter names, undefined names) -/
abbrev Sym := Nat

def sInt : Sym := 0
def sStr : Sym := 1
def sFloat : Sym := 2
def sBool : Sym := 3
def sList : Sym := 4        -- the builtin class `list`
def sDict : Sym := 5
def sTuple : Sym := 6
def sSet : Sym := 7
def sBytes : Sym := 8
def sNoneType : Sym := 10   -- a `__name__`, not a builtin *name*

/-- names of `typing` (visible in check_docstring.py through `from typing import *`) used by the fragment -/
inductive Head where
  | List | Dict | Tuple | Set | Type | Optional | Union | Callable | Literal | Any
deriving DecidableEq, Repr

/-- Python objects that occur as annotations / as values of documented type expressions -/
inductive Val where
  | cls (n : Sym)                                   -- a class; `__name__ = n`
  | none                                            -- `None`
  | ellipsis
  | int (i : Int)
  | bool (b : Bool)
  | str (n : Sym)                                   -- a string whose content is the identifier `n` (forward reference)
  | tvar (n : Sym)                                  -- `TypeVar(n)`
  | special (h : Head)                              -- an unsubscripted typing name: `Any`, `List`, `Union`, …
  | fref (n : Sym)                                  -- `ForwardRef(n)` (a string inside a typing generic)
  | talias (h : Head) (args : List Val)             -- `typing._GenericAlias`: `List[int]`, `Callable[[int], str]` (args flattened), `Literal[1, 2]`
  | balias (origin : Sym) (args : List Val)         -- `types.GenericAlias`: `list[int]`
  | union (typingFlavour : Bool) (args : List Val)  -- `typing.Union[...]` (true) / `types.UnionType` (false); args flat and distinct
  | pylist (items : List Val)                       -- a Python list (first argument of `Callable[[...], r]`)
deriving Repr

/-! ### typing-object equality (`==` as CPython 3.12 `typing` / `types` implement it) -/

mutual
/-- `a == b` -/
def annEq : Val → Val → Bool
  | .cls a, .cls b => a == b
  | .none, .none => true
  | .ellipsis, .ellipsis => true
  | .int a, .int b => a == b
  | .bool a, .bool b => a == b
  | .str a, .str b => a == b
  | .tvar a, .tvar b => a == b
  | .special a, .special b => a == b
  | .fref a, .fref b => a == b
  | .talias h as, .talias h' bs =>
    -- `_GenericAlias.__eq__`: origin and args; `_LiteralGenericAlias.__eq__`: the *sets* of (value, type)
    h == h' && (if h == .Literal then subsetL as bs && bs.all (fun b => anyL as b) else eqL as bs)
  | .balias o as, .balias o' bs => o == o' && eqL as bs          -- `ga_richcompare`
  | .union _ as, .union _ bs =>
    -- `_UnionGenericAlias.__eq__` / `union_richcompare`: `set(self.__args__) == set(other.__args__)`, across both flavours
    subsetL as bs && bs.all (fun b => anyL as b)
  | .pylist as, .pylist bs => eqL as bs
  | _, _ => false
termination_by structural x => x
/-- tuple equality of the `__args__` -/
def eqL : List Val → List Val → Bool
  | [], [] => true
  | a :: as, b :: bs => annEq a b && eqL as bs
  | _, _ => false
termination_by structural x => x
/-- every element of the first list equals some element of the second -/
def subsetL : List Val → List Val → Bool
  | [], _ => true
  | a :: as, bs => bs.any (fun b => annEq a b) && subsetL as bs
termination_by structural x => x
/-- some element of the list equals `b` -/
def anyL : List Val → Val → Bool
  | [], _ => false
  | a :: as, b => annEq a b || anyL as b
termination_by structural x => x
end

/-! ### typing constructors -/

/-- first occurrences only (`_deduplicate`) -/
def dedupe : List Val → List Val
  | [] => []
  | a :: as => a :: (dedupe as).filter (fun b => !annEq a b)

/-- `_remove_dups_flatten`, first half: members that are unions are spliced in (they are flat already) -/
def flattenU : List Val → List Val
  | [] => []
  | .union _ as :: rest => as ++ flattenU rest
  | v :: rest => v :: flattenU rest

/-- `Union[...]` after the arguments were converted: flatten, deduplicate, a single member is returned itself -/
def mkUnion (typingFlavour : Bool) (args : List Val) : Val :=
  match dedupe (flattenU args) with
  | [v] => v
  | vs => .union typingFlavour vs

/-- `typing._type_convert`: `None` → `NoneType`, a string → `ForwardRef` -/
def typeConvert : Val → Val
  | .none => .cls sNoneType
  | .str n => .fref n
  | v => v

inductive EvalErr where
  | name         -- NameError
  | type         -- TypeError
  | systemExit   -- SystemExit
  | unmodelled   -- outside the modelled fragment of `typing` (never generated by the harness)
deriving DecidableEq, Repr

/-- `typing._type_check` (3.12: only plain special forms are refused) -/
def typeCheck (v : Val) : Except EvalErr Val :=
  match typeConvert v with
  | .special .Optional => .error .type
  | .special .Union => .error .type
  | .special .Literal => .error .type
  | w => .ok w

def typeCheckAll : List Val → Except EvalErr (List Val)
  | [] => .ok []
  | v :: vs => do let w ← typeCheck v; let ws ← typeCheckAll vs; pure (w :: ws)

def flattenLit : List Val → List Val
  | [] => []
  | .talias .Literal as :: rest => as ++ flattenLit rest
  | v :: rest => v :: flattenLit rest

def hasTVar : Val → Bool
  | .tvar _ => true
  | _ => false

/-- `Tuple[t, ...]`: the arguments before a final `...` (when there are at least two arguments) -/
def splitEllipsis (args : List Val) : Option (List Val) :=
  match args.reverse with
  | .ellipsis :: (r :: rest) => some (r :: rest).reverse
  | _ => none

/-- classes whose `__class_getitem__` builds a `types.GenericAlias` -/
def builtinGeneric (n : Sym) : Bool := n == sList || n == sDict || n == sTuple || n == sSet

/-- `fv[args]` (a one-element list is a plain index, longer lists are tuples) -/
def subscript (fv : Val) (args : List Val) : Except EvalErr Val :=
  match fv with
  | .special h =>
    match h with
    | .List | .Set | .Type =>
      if args.length != 1 then .error .type else do let as ← typeCheckAll args; pure (.talias h as)
    | .Dict =>
      if args.length != 2 then .error .type else do let as ← typeCheckAll args; pure (.talias h as)
    | .Tuple =>
      match splitEllipsis args with
      | some init => do let as ← typeCheckAll init; pure (.talias .Tuple (as ++ [.ellipsis]))
      | none => do let as ← typeCheckAll args; pure (.talias .Tuple as)
    | .Optional =>
      match args with
      | [a] => do let a' ← typeCheck a; pure (mkUnion true [a', .cls sNoneType])
      | _ => .error .type
    | .Union => do let as ← typeCheckAll args; pure (mkUnion true as)
    | .Callable =>
      match args with
      | [p, r] => do
        let r' ← typeCheck r
        match p with
        | .ellipsis => pure (.talias .Callable [.ellipsis, r'])
        | .pylist items => pure (.talias .Callable (items.map typeConvert ++ [r']))
        | x => pure (.talias .Callable [typeConvert x, r'])
      | _ => .error .type
    | .Literal => pure (.talias .Literal (dedupe (flattenLit args)))
    | .Any => .error .type
  | .cls n => if builtinGeneric n then pure (.balias n args) else .error .type
  | .talias _ as => if as.any hasTVar then .error .unmodelled else .error .type
  | .balias _ as => if as.any hasTVar then .error .unmodelled else .error .type
  | .union _ as => if as.any hasTVar then .error .unmodelled else .error .type
  | .str _ => .error .unmodelled       -- string indexing
  | .pylist _ => .error .unmodelled    -- list indexing
  | _ => .error .type

/-- operands whose type implements `|` through `typing` (`_GenericAlias.__or__`, `_SpecialForm.__or__`, `TypeVar.__or__`) -/
def isTypingObj : Val → Bool
  | .talias _ _ => true
  | .union true _ => true
  | .tvar _ => true
  | .special .Any => false
  | .special _ => true
  | _ => false

/-- operands that `type.__or__` / `types.GenericAlias` / `types.UnionType` accept -/
def isBuiltinOrable : Val → Bool
  | .cls _ => true
  | .balias _ _ => true
  | .union false _ => true
  | .special .Any => true      -- `typing.Any` is a class since 3.11
  | _ => false

def isNone : Val → Bool
  | .none => true
  | _ => false

/-- `l | r` -/
def orOp (l r : Val) : Except EvalErr Val :=
  if isTypingObj l || isTypingObj r then do
    let l' ← typeCheck l; let r' ← typeCheck r; pure (mkUnion true [l', r'])
  else if (isBuiltinOrable l && (isBuiltinOrable r || isNone r)) || (isNone l && isBuiltinOrable r) then
    pure (mkUnion false [typeConvert l, typeConvert r])
  else .error .type

/-! ### documented type expressions and their evaluation -/

/-- the Python expression a documented type consists of (as `ast.parse(text, mode='eval')` sees it) -/
inductive DExpr where
  | name (n : Sym)
  | none
  | ellipsis
  | int (i : Int)
  | bool (b : Bool)
  | str (n : Sym)
  | sub (f : DExpr) (args : List DExpr)
  | bor (l r : DExpr)
  | list (items : List DExpr)
  | exitCall                          -- the call `exit()` (raises SystemExit): the one expression of the fragment that is no type syntax
deriving Repr

/-- the `context` dict of `_check_docstring`; the newest binding of a name is first -/
abbrev Ctx := List (Sym × Val)

def Ctx.get (ctx : Ctx) (n : Sym) : Option Val :=
  match ctx with
  | [] => Option.none
  | (k, v) :: rest => if k == n then some v else Ctx.get rest n

def typingName (n : Sym) : Option Head :=
  if n == 20 then some .List else if n == 21 then some .Dict else if n == 22 then some .Tuple
  else if n == 23 then some .Set else if n == 24 then some .Type else if n == 25 then some .Optional
  else if n == 26 then some .Union else if n == 27 then some .Callable else if n == 28 then some .Literal
  else if n == 29 then some .Any else Option.none

/-- `globals()` of check_docstring.py (the `typing` names of the fragment) and the builtins: classes whose builtin name
    is their `__name__`.  Every other identifier of the fragment is undefined there. -/
def globalLookup (n : Sym) : Option Val :=
  match typingName n with
  | some h => some (.special h)
  | Option.none => if n ≤ sBytes then some (.cls n) else Option.none

mutual
/-- `eval(expr, globals(), context)`: locals first, then globals, then builtins; left-to-right, first exception wins -/
def evalD (ctx : Ctx) : DExpr → Except EvalErr Val
  | .name n =>
    match ctx.get n with
    | some v => .ok v
    | Option.none => match globalLookup n with
      | some v => .ok v
      | Option.none => .error .name
  | .none => .ok .none
  | .ellipsis => .ok .ellipsis
  | .int i => .ok (.int i)
  | .bool b => .ok (.bool b)
  | .str n => .ok (.str n)
  | .sub f args => do
    let fv ← evalD ctx f
    let avs ← evalDs ctx args
    subscript fv avs
  | .bor l r => do
    let lv ← evalD ctx l
    let rv ← evalD ctx r
    orOp lv rv
  | .list items => do
    let vs ← evalDs ctx items
    pure (.pylist vs)
  | .exitCall => .error .systemExit
def evalDs (ctx : Ctx) : List DExpr → Except EvalErr (List Val)
  | [] => .ok []
  | e :: es => do
    let v ← evalD ctx e
    let vs ← evalDs ctx es
    pure (v :: vs)
end

/-! ### `_update_context` -/

/-- `__name__` of a typing alias (`typing.List[int].__name__ == 'List'`) as a symbol -/
def headSym : Head → Sym
  | .List => 20 | .Dict => 21 | .Tuple => 22 | .Set => 23 | .Type => 24 | .Optional => 25 | .Union => 26
  | .Callable => 27 | .Literal => 28 | .Any => 29

mutual
/-- `_update_context(context, type_)`: a string is bound to itself; an object for which `descendTest` (generated) holds has
    its `get_type_arguments` walked; otherwise an object with a `__name__` is bound under that name.
    The three attributes the test looks at, per kind of object (CPython 3.12): typing aliases and `typing.Union`:
    `str()` starts with "typing", `__origin__`, `__args__`; builtin aliases: `__origin__`, `__args__`; `X | Y`: only
    `__args__`; unsubscripted typing names: only the `str()`; classes and type variables: none of them, but a `__name__`;
    `ForwardRef`, `...`, `None`, numbers, lists: nothing.
    `get_type_arguments` is `__args__` (nothing for unsubscripted names); for `Callable[[p…], r]` it regroups them as
    `([p…], r)` and the list is walked before it is visited itself: the same objects in the same order as the flat
    `__args__`, and a list binds nothing. -/
def updateContext (ctx : Ctx) : Val → Ctx
  | .str n => (n, .str n) :: ctx                  -- `context[type_] = type_`
  | .talias h args => if descendTest true true true then updateAll ctx args else (headSym h, .talias h args) :: ctx
  | .union true args => if descendTest true true true then updateAll ctx args
                        else ((if args.length == 2 && args.any (fun a => annEq a (.cls sNoneType)) then 25 else 26), .union true args) :: ctx
  | .balias o args => if descendTest false true true then updateAll ctx args else (o, .balias o args) :: ctx
  | .union false args => if descendTest false false true then updateAll ctx args else ctx
  | .special h => if descendTest true false false then ctx else (headSym h, .special h) :: ctx
  | .cls n => if descendTest false false false then ctx else (n, .cls n) :: ctx     -- `context[type_.__name__] = type_`
  | .tvar n => if descendTest false false false then ctx else (n, .tvar n) :: ctx
  | _ => ctx                                      -- ForwardRef, `...`, `None`, numbers, lists
def updateAll (ctx : Ctx) : List Val → Ctx
  | [] => ctx
  | v :: rest => updateAll (updateContext ctx v) rest
end

/-! ## layer A: the checks over outcome classes -/

/-- exceptions raised by the interpreter (not by a `raise` statement of the library) -/
inductive Esc where
  | syntaxError | typeError | nameError
  | systemExit          -- a BaseException that is not an Exception (the documented "type" `exit()`)
  | indexError          -- `doc.returns.args[i]` / `matching_params[0]` beyond the end (raised outside the `try`)
  | attributeError      -- `doc.returns.args` when `doc.returns is None`
  | unmodelled          -- outside the modelled fragment of Python expressions (never generated by the harness)
deriving DecidableEq, Repr

def Esc.className : Esc → String
  | .syntaxError => "SyntaxError" | .typeError => "TypeError" | .nameError => "NameError" | .systemExit => "SystemExit"
  | .indexError => "IndexError" | .attributeError => "AttributeError"
  | .unmodelled => "?"

/-- `except <handler>` catches an exception of kind `k` (SyntaxError, TypeError, NameError are `Exception`s; SystemExit is not) -/
def catches (handler : String) (k : Esc) : Bool :=
  match k with
  | .unmodelled => false
  | .systemExit => handler == "BaseException" || handler == "SystemExit"
  | k => handler == "BaseException" || handler == "Exception" || handler == k.className

/-- outcome class of `_parse_documented_type` on one documented type -/
inductive DT where
  | parsed (v : Val)        -- evaluates to the object `v`
  | untyped                 -- the entry has no type (`type_name is None`)
  | typingPrefixed          -- the text contains the needle `typing.`
  | nameError               -- `eval` raises NameError
  | evalError (k : Esc)     -- `eval` raises something else
deriving Repr

structure DocParam where
  name : Sym
  ty : DT
deriving Repr

/-- `docstring_parser.parse(func.__doc__)` as far as the library reads it -/
structure Doc where
  params : List DocParam                 -- `doc.params`: (arg_name, type_name)
  returns : Option (Nat × DT)            -- `doc.returns`: (len(args), the type in args[1])
deriving Repr

inductive RawDoc where
  | none | empty | text
deriving DecidableEq, Repr

/-- the decorated function as `DecoratedFunction` sees it -/
structure FnD where
  anns : List (Sym × Val)        -- annotated parameters in signature order
  ret : Option (Option Val)      -- none: no `'return'` key in `annotations`; some none: `-> None`; some (some v): `-> v`
  rawDoc : RawDoc                -- `func.__doc__`
deriving Repr

/-- what happens while the function is decorated -/
inductive Out where
  | ok
  | raised (cls : String)        -- a `raise <cls>(…)` statement of the library
  | escaped (k : Esc)            -- an exception of the interpreter passes through
deriving DecidableEq, Repr

/-- the exception leaving the `try … except` around `eval` when `eval` raised `k` -/
def afterHandlers (k : Esc) : List (String × String) → Out
  | [] => .escaped k
  | (h, r) :: rest => if catches h k then .raised r else afterHandlers k rest

/-- `_parse_documented_type`, given the outcome class -/
def parseOut : DT → Except Out Val
  | .parsed v => .ok v
  | .untyped => .error (.escaped .typeError)           -- `'typing.' in None`
  | .typingPrefixed => .error (.raised excTypingNeedle)
  | .nameError => .error (afterHandlers .nameError evalHandlers)
  | .evalError k => .error (afterHandlers k evalHandlers)

def retInAnnotations (f : FnD) : Bool := f.ret.isSome
def retAnnIsNone (f : FnD) : Bool :=
  match f.ret with
  | some Option.none => true
  | _ => false

/-- `_assert_docstring_is_complete`: the four `if …: raise …` in order -/
def assertComplete (f : FnD) (d : Doc) : Out :=
  let a1 := f.rawDoc == .none
  let a2 := f.rawDoc == .empty
  let nd := d.params.length
  let nt := f.anns.length
  let rn := d.returns.isNone
  let ri := retInAnnotations f
  let rz := retAnnIsNone f
  if completeTest1 a1 a2 nd nt rn ri rz then .raised completeExc1
  else if completeTest2 a1 a2 nd nt rn ri rz then .raised completeExc2
  else if completeTest3 a1 a2 nd nt rn ri rz then .raised completeExc3
  else if completeTest4 a1 a2 nd nt rn ri rz then .raised completeExc4
  else .ok

def DT.isUntyped : DT → Bool
  | .untyped => true
  | _ => false

/-- loop body for the key `'return'` (it is the first key of `annotations` when present) -/
def checkReturn (f : FnD) (d : Doc) : Out :=
  match f.ret with
  | Option.none => .ok                                             -- no such key: no iteration
  | some r =>
    if returnBranch true r.isNone then
      match r, d.returns with
      | some expected, some (n, ty) =>
        if returnArgsBad n then .raised excReturnArgs
        else if n ≤ returnTypeIndex then .escaped .indexError      -- `args[1]` of a shorter list (unreachable with `!= 2`)
        else match parseOut ty with
          | .error o => o
          | .ok actual => if returnTypeBad (annEq actual expected) then .raised excReturnType else .ok
      | _, _ => .escaped .attributeError                           -- `doc.returns is None` (excluded by the completeness check)
    else if paramBranch true r.isNone then .escaped .unmodelled    -- `'return'` treated as a parameter name (not in the source)
    else .ok

/-- loop bodies for the annotated parameters, in signature order -/
def checkParams (d : Doc) : List (Sym × Val) → Out
  | [] => .ok
  | (n, expected) :: rest =>
    if returnBranch false (isNone expected) then .escaped .unmodelled
    else if paramBranch false (isNone expected) then
      -- `matching_params = list(filter(<lookup>, doc.params))`: the model knows the lookup "the documented name EQUALS the parameter's
      -- name" (generated flag); any other lookup is outside the model
      if !paramLookupIsNameEquality then .escaped .unmodelled else
      let matching := d.params.filter (fun p => p.name == n)
      -- `len(matching_params) != 1 or matching_params[0].type_name is None`
      let typeNone := match matching with
        | p :: _ => p.ty.isUntyped
        | [] => false
      if matching.length == 0 && !(matchBad 0 false) then .escaped .indexError      -- `matching_params[0]` of an empty list
      else if matchBad matching.length typeNone then .raised excMatch
      else match matching with
        | [] => .escaped .indexError
        | p :: _ =>
          match parseOut p.ty with
          | .error o => o
          | .ok actual => if paramTypeBad (annEq expected actual) then .raised excParamType else checkParams d rest
    else checkParams d rest

/-- `_check_docstring` -/
def checkDocstring (f : FnD) (d : Doc) : Out :=
  match (if completeCalledBeforeLoop then assertComplete f d else .ok) with
  | .ok =>
    (match checkReturn f d with
     | .ok => checkParams d f.anns
     | o => o)
  | o => o

/-- what `pedantic.decorator(f)` does -/
inductive Deco where
  | original              -- returns `f` itself (pedantic disabled)
  | wrapper               -- returns the checking wrapper
  | raised (o : Out)      -- an exception leaves `decorator`: no function object is returned, nothing can be called
deriving DecidableEq, Repr

structure Env where
  enabled : Bool              -- `is_enabled()`
  parserInstalled : Bool      -- docstring_parser importable: `decorated_func.docstring is not None`
deriving Repr

/-- `pedantic(require_docstring=req).decorator(f)`; `d` is what `docstring_parser.parse(f.__doc__)` returned -/
def decorator (env : Env) (req : Bool) (f : FnD) (d : Doc) : Deco :=
  if disabledReturnsOriginal && !env.enabled then .original
  else if checkRunsBeforeWrapperIsBuilt && trigger env.parserInstalled req d.params.length then
    match checkDocstring f d with
    | .ok => .wrapper
    | o => .raised o
  else .wrapper

/-- `pedantic_require_docstring(f)` -/
def decoratorRequire (env : Env) (f : FnD) (d : Doc) : Deco := decorator env requireShortcutFlag f d

/-- the three spellings of the function decorator -/
inductive DecoKind where
  | pedantic            -- `@pedantic`
  | requireShortcut     -- `@pedantic_require_docstring`
  | requireKeyword      -- `@pedantic(require_docstring=True)`
deriving DecidableEq, Repr

def decorateAs (env : Env) (k : DecoKind) (f : FnD) (d : Doc) : Deco :=
  match k with
  | .pedantic => decorator env false f d
  | .requireShortcut => decoratorRequire env f d
  | .requireKeyword => decorator env true f d

/-- `pedantic_class_require_docstring(cls)`: `for_all_methods` decorates the functions of `cls.__dict__` in order; the first
    exception leaves the class decorator -/
def decorateClass (env : Env) : List (FnD × Doc) → Deco
  | [] => if env.enabled then .wrapper else .original
  | (f, d) :: rest =>
    if !env.enabled then .original
    else match (if classShortcutUsesRequireDocstring then decoratorRequire env f d else decorator env false f d) with
      | .raised o => .raised o
      | _ => decorateClass env rest

/-- `pedantic_class(cls)`: `for_all_methods` decorates the functions of `cls.__dict__` with `pedantic` (no `require_docstring`):
    a method is docstring-checked when its docstring documents parameters.  Like `decorateClass` a function of the class's OWN
    methods only: whether a base class has been decorated before plays no part (`for_all_methods` loops over `cls.__dict__` and
    nothing may end it before the loop: generated facts `forAllMethodsEarlyReturns`, `forAllMethodsDecoratesEveryFunction`). -/
def decorateClassPlain (env : Env) : List (FnD × Doc) → Deco
  | [] => if env.enabled then .wrapper else .original
  | (f, d) :: rest =>
    if !env.enabled then .original
    else match (if plainClassShortcutUsesPedantic then decorator env false f d else .wrapper) with
      | .raised o => .raised o
      | _ => decorateClassPlain env rest

/-! ### the members of a class that hold functions -/

/-- how a function sits in the class that `for_all_methods(..)` receives -/
inductive Role where
  | method      -- `def m(self, …)`: `getattr(cls, attr)` is a `FunctionType`
  | static      -- `@staticmethod`: `getattr(cls, attr)` is the plain function (`FunctionType`)
  | classm      -- `@classmethod`: `getattr(cls, attr)` is a bound method (`MethodType`)
  | fget        -- the getter of a property (`@property`, `property(fget=…)`)
  | fset        -- its setter (`@x.setter`)
  | fdel        -- its deleter (`@x.deleter`)
deriving DecidableEq, Repr

/-- is a function in this role handed to the decorator by the loop of `for_all_methods`?  Read from the generated facts: the classes
    of the `isinstance` test of the function branch (the translator lists them only when the loop is `for attr in cls.__dict__:
    attr_value = getattr(cls, attr)` and the branch's body is `setattr(cls, attr, decorator(attr_value))`), and the accessors of a
    property that the property branch passes through `decorator` and stores, decorated, in the property the class gets back. -/
def roleDecorated : Role → Bool
  | .method => forAllMethodsFunctionTypes.contains "FunctionType"
  | .static => forAllMethodsFunctionTypes.contains "FunctionType"
  | .classm => forAllMethodsFunctionTypes.contains "MethodType"
  | .fget => forAllMethodsHandlesProperties && forAllMethodsPropertyParts.contains "fget"
  | .fset => forAllMethodsHandlesProperties && forAllMethodsPropertyParts.contains "fset"
  | .fdel => forAllMethodsHandlesProperties && forAllMethodsPropertyParts.contains "fdel"

/-- a function of the class with its role and its parsed docstring -/
abbrev Member := Role × FnD × Doc

/-- the functions the decorator receives, in the order of `cls.__dict__` (accessors of one property: getter, setter, deleter) -/
def ownDecorated (dec : Role → Bool) (ms : List Member) : List (FnD × Doc) :=
  (ms.filter (fun m => dec m.1)).map (fun m => m.2)

/-- `pedantic_class_require_docstring(cls)` / `pedantic_class(cls)` (`plain`) for a class given by ALL the functions it holds -/
def decorateMembersWith (dec : Role → Bool) (env : Env) (plain : Bool) (ms : List Member) : Deco :=
  if !env.enabled then .original                                          -- `if not is_enabled(): return cls`
  -- a test under which `decorate` hands the class back BEFORE the loop (generated list): whether it holds for a class is not part
  -- of a case — outside the model
  else if !forAllMethodsEarlyReturns.isEmpty then .raised (.escaped .unmodelled)
  else if plain then decorateClassPlain env (ownDecorated dec ms) else decorateClass env (ownDecorated dec ms)

def decorateMembers (env : Env) (plain : Bool) (ms : List Member) : Deco := decorateMembersWith roleDecorated env plain ms

/-! ### the same `def` executed several times -/

/-- several decorations one after the other in one interpreter (a factory called repeatedly, a loop, a reloaded module: the same
    code object, annotations evaluated anew each time).  `pedantic.decorator` keeps nothing between two of them (generated fact
    `decorationState = []`): each one is `decorateAs` of its own function; the first exception ends the sequence. -/
def decorateSeq (env : Env) : List (DecoKind × FnD × Doc) → Deco
  | [] => if env.enabled then .wrapper else .original
  | (k, f, d) :: rest =>
    if !env.enabled then .original
    else match decorateAs env k f d with
      | .raised o => .raised o
      | _ => decorateSeq env rest

/-! ## layer B: from the documented text to the outcome class -/

/-- one documented type as the harness hands it over: the text and, when it is a Python expression, its syntax tree -/
structure TypeText where
  text : String
  expr : Option DExpr      -- none: `compile(text, …, 'eval')` raises SyntaxError
deriving Repr

def isInfixChars (needle : List Char) : List Char → Bool
  | [] => needle.isEmpty
  | c :: cs => needle.isPrefixOf (c :: cs) || isInfixChars needle cs

/-- `_parse_documented_type(type_, context, err)` -/
def parseDocumentedType (ctx : Ctx) : Option TypeText → DT
  | Option.none => .untyped
  | some t =>
    if isInfixChars typingNeedle.toList t.text.toList then .typingPrefixed
    else match t.expr with
      | Option.none => .evalError .syntaxError
      | some e => match evalD ctx e with
        | .ok v => .parsed v
        | .error .name => .nameError
        | .error .type => .evalError .typeError
        | .error .systemExit => .evalError .systemExit
        | .error .unmodelled => .evalError .unmodelled

structure RawParam where
  name : Sym
  ty : Option TypeText
deriving Repr

/-- the parsed docstring with the documented types still as text -/
structure RawDocstring where
  params : List RawParam
  returns : Option (Nat × Option TypeText)
deriving Repr

/-- `context` as `_check_docstring` sets it up before the loop: empty (`context = {}`), or — generated flag
    `contextSeededWithModuleNames` — a copy of the globals `g` of the module that defines the function
    (`context = dict(decorated_func.globals)`): the names the author of the module can use; the `__name__`s found in the annotations are
    bound on top of them (the newest binding of a name is first) -/
def initialCtx (g : Ctx) : Ctx := if contextSeededWithModuleNames then g else []

/-- `context` after the loop body of `'return'` (first key) ran `_update_context`, starting from `c0` -/
def ctxAfterReturn (c0 : Ctx) (f : FnD) : Ctx :=
  match f.ret with
  | some (some v) => if contextUpdatedFirst then updateContext c0 v else c0
  | _ => c0          -- no key, or `None` (binds nothing)

/-- … starting from what `_check_docstring` starts from in a module whose globals are `g` -/
def ctxStart (g : Ctx) (f : FnD) : Ctx := ctxAfterReturn (initialCtx g) f

/-- `context` when the documented type of the parameter `n` is evaluated: the annotations up to and including `n` -/
def ctxAt (ctx : Ctx) (n : Sym) : List (Sym × Val) → Ctx
  | [] => ctx
  | (m, v) :: rest =>
    let ctx' := if contextUpdatedFirst then updateContext ctx v else ctx
    if m == n then ctx' else ctxAt ctx' n rest

def ctxFinal (ctx : Ctx) : List (Sym × Val) → Ctx
  | [] => ctx
  | (_, v) :: rest => ctxFinal (if contextUpdatedFirst then updateContext ctx v else ctx) rest

/-- every documented type with the outcome class it has *where the loop evaluates it* (an entry whose name is not an
    annotated parameter is never evaluated; it gets the final context); `c0`: the context before the loop -/
def annotateFrom (c0 : Ctx) (f : FnD) (r : RawDocstring) : Doc :=
  { params := r.params.map (fun p => ⟨p.name, parseDocumentedType (ctxAt (ctxAfterReturn c0 f) p.name f.anns) p.ty⟩)
    returns := r.returns.map (fun (n, t) => (n, parseDocumentedType (ctxAfterReturn c0 f) t)) }

/-- … for a function defined in a module whose globals are `g` -/
def annotate (g : Ctx) (f : FnD) (r : RawDocstring) : Doc :=
  { params := r.params.map (fun p => ⟨p.name, parseDocumentedType (ctxAt (ctxStart g f) p.name f.anns) p.ty⟩)
    returns := r.returns.map (fun (n, t) => (n, parseDocumentedType (ctxStart g f) t)) }

def decorateRawFrom (c0 : Ctx) (env : Env) (req : Bool) (f : FnD) (r : RawDocstring) : Deco := decorator env req f (annotateFrom c0 f r)

def decorateRaw (env : Env) (req : Bool) (g : Ctx) (f : FnD) (r : RawDocstring) : Deco := decorator env req f (annotate g f r)

end PedVerif.Docstring
