import PedVerif.Lemmas.CallLayer3
/-! Completeness side of the call layer (C04): conforming values pass every check (through C02). -/
namespace PedVerif.Call
open PedVerif.Checker PedVerif.Gen.CallTables PedVerif.Gen.TypeTables

/-- the side conditions under which `checkType` is complete (C02) -/
structure CompleteCtx (env : Env) (f : Fn) (args : List Val) (kw : List (NameId × Val)) : Prop where
  hw : WfEnv env
  anns : ∀ p ∈ f.params, ∀ a, p.ann = some a → (a.okC env = true ∨ a = .none)
  ret : ∀ a, f.retAnn = some a → (a.okC env = true ∨ a = .none)
  dflts : ∀ p ∈ f.params, ∀ d, p.dflt = some d → d.wf env = true ∧ d.plain = true
  args : ∀ v ∈ args, v.wf env = true ∧ v.plain = true
  kw : ∀ kv ∈ kw, kv.2.wf env = true ∧ kv.2.plain = true

theorem incompleteTop_of_okC (env : Env) (a : Ann) (h : a.okC env = true ∨ a = .none) : incompleteTop a = false := by
  rcases h with h | rfl
  · cases a <;> simp_all [incompleteTop, Ann.okC, cfg_req_seq, cfg_req_map]
    case union sp ms => rw [cfg_req_union]; cases sp <;> simp_all
    case tuple sp items =>
      have : 1 ≤ items.length := by cases items <;> simp_all
      cases sp <;> simp [tupleName, cfg_req_Tuple, cfg_req_tuple, this]
    case tupleVar sp a => cases sp <;> simp [tupleName, cfg_req_Tuple, cfg_req_tuple]
  · simp [incompleteTop]

theorem checkVal_good {env : Env} {orc} {f : Fn} {args : List Val} (hw : WfEnv env) (hc : f.clazzFails args = false)
    {a : Ann} {v : Val} (hok : a.okC env = true ∨ a = .none) (hv : v.wf env = true ∧ v.plain = true) (hg : conforms env a v = true) :
    checkVal env orc f args a v = none := by
  simp only [checkVal, hc, Bool.false_eq_true, ↓reduceIte, complete_checkType env orc hw a v hok hv.1 hv.2 hg, ofOut]

theorem usedValue_okC {env : Env} {f : Fn} {args : List Val} {kw : List (NameId × Val)} (ctx : CompleteCtx env f args kw)
    {p : Param} (hp : p ∈ f.params) {v : Val} (hu : usedValue kw p = some v) : v.wf env = true ∧ v.plain = true := by
  simp only [usedValue] at hu
  split at hu
  · rename_i w hl; simp at hu; subst hu; exact ctx.kw _ (lookup_mem hl)
  · exact ctx.dflts p hp v hu

theorem checkParams_good {env : Env} {orc} {f : Fn} {args : List Val} {kw : List (NameId × Val)} (ctx : CompleteCtx env f args kw)
    (hc : f.clazzFails args = false) :
    ∀ (ps : List Param) (idx : Nat), (∀ p ∈ ps, p ∈ f.params) → (∀ p ∈ ps, goodParam env kw p = true) →
      checkParams env orc f args kw ps idx = none := by
  intro ps
  induction ps with
  | nil => intro idx _ _; simp [checkParams]
  | cons q qs ih =>
    intro idx hsub hgood
    have hq : q ∈ f.params := hsub q (by simp)
    have hrest : ∀ idx', checkParams env orc f args kw qs idx' = none :=
      fun idx' => ih idx' (fun p hp => hsub p (by simp [hp])) (fun p hp => hgood p (by simp [hp]))
    have hg := hgood q (by simp)
    simp only [goodParam] at hg
    cases hann : q.ann with
    | none => simp [hann] at hg
    | some a =>
      cases hu : usedValue kw q with
      | none => simp [hann, hu] at hg
      | some v =>
        simp only [hann, hu] at hg
        have hcv := checkVal_good (orc := orc) ctx.hw hc (ctx.anns q hq a hann) (usedValue_okC ctx hq hu) hg
        simp only [checkParams, hann, cfg_fallback, ↓reduceIte]
        simp only [usedValue] at hu
        cases hd : q.dflt with
        | none =>
          cases hl : lookup kw q.name with
          | none => simp [hl, hd] at hu
          | some w =>
            simp only [hl] at hu; simp at hu; subst hu
            simp only
            split <;> simp [orElse, hcv, hrest]
        | some d =>
          cases hl : lookup kw q.name with
          | none => simp only [hl, hd] at hu; simp at hu; subst hu; simp [orElse, hcv, hrest, hl]
          | some w => simp only [hl] at hu; simp at hu; subst hu; simp [orElse, hcv, hrest, hl]

theorem checkAll_good {env : Env} {orc} {f : Fn} {args : List Val} (hw : WfEnv env) (hc : f.clazzFails args = false)
    {a : Ann} (hok : a.okC env = true ∨ a = .none) :
    ∀ (vs : List Val), (∀ v ∈ vs, v.wf env = true ∧ v.plain = true) → (∀ v ∈ vs, conforms env a v = true) →
      checkAll env orc f args a vs = none := by
  intro vs
  induction vs with
  | nil => intro _ _; simp [checkAll]
  | cons x xs ih =>
    intro hv hg
    simp only [checkAll, checkVal_good (orc := orc) hw hc hok (hv x (by simp)) (hg x (by simp)), orElse]
    exact ih (fun w hw' => hv w (by simp [hw'])) (fun w hw' => hg w (by simp [hw']))

theorem checkArguments_good {env : Env} {orc} {f : Fn} {args : List Val} {kw : List (NameId × Val)} (ctx : CompleteCtx env f args kw)
    (hc : f.clazzFails args = false) (hgood : f.plain.all (goodParam env kw) = true) (hsa : starAnnotated f = true)
    (hstar : badStar env f args = false) (hdstar : badDStar env f kw = false) :
    checkArguments env orc f args kw = none := by
  rw [checkArguments_eq, orElse_none]
  refine ⟨checkParams_good ctx hc f.plain _ (plain_sub f) (by simpa using hgood), ?_⟩
  rw [orElse_none]
  simp only [starAnnotated, Bool.and_eq_true] at hsa
  constructor
  · simp only [checkStar, cfg_star, Bool.true_and, ↓reduceIte]
    cases hs : f.star with
    | none => rfl
    | some p =>
      simp only [hs] at hsa
      simp only [badStar, hs] at hstar
      cases ha : p.ann with
      | none => simp [ha] at hsa
      | some a =>
        have hok := ctx.anns p (star_mem f hs) a ha
        simp only [ha] at hstar
        simp only [ha, incompleteTop_of_okC env a hok, Bool.false_eq_true, ↓reduceIte]
        apply checkAll_good ctx.hw hc hok
        · intro v hv; exact ctx.args v (List.mem_of_mem_drop hv)
        · simpa using hstar
  · simp only [checkDStar, cfg_dstar, Bool.true_and, ↓reduceIte]
    cases hs : f.dstar with
    | none => rfl
    | some p =>
      simp only [hs] at hsa
      simp only [badDStar, hs] at hdstar
      cases ha : p.ann with
      | none => simp [ha] at hsa
      | some a =>
        have hok := ctx.anns p (dstar_mem f hs) a ha
        simp only [ha] at hdstar
        simp only [ha, incompleteTop_of_okC env a hok, Bool.false_eq_true, ↓reduceIte]
        apply checkAll_good ctx.hw hc hok
        · intro v hv
          simp only [List.mem_map] at hv
          obtain ⟨kv, hkv, rfl⟩ := hv
          simp only [extraKw, List.mem_filter] at hkv
          exact ctx.kw kv hkv.1
        · intro v hv
          simp only [List.mem_map] at hv
          obtain ⟨kv, hkv, rfl⟩ := hv
          simp only [List.any_eq_false, Bool.not_eq_true, Bool.not_eq_false'] at hdstar
          simpa using hdstar kv hkv

end PedVerif.Call
