import PedVerif.Lemmas.Checker
/-! Soundness of the checker model: node lemmas and the mutual induction (`sound_raw`). -/
namespace PedVerif.Checker
open PedVerif.Gen.TypeTables

theorem not_iterator_of_iterFree {env : Env} {v : Val} (hwf : v.wf env = true) (hp : v.iterFree = true) :
    env.sub (v.typeOf env) env.iteratorCls = false := by
  have hs := wf_shape hwf
  cases v <;> simp_all [Val.shapeB, Val.iterFree]

theorem plain_iterFree_all : (∀ v : Val, v.plain = true → v.iterFree = true) ∧ (∀ kvs, plainKV kvs = true → iterFreeKV kvs = true) ∧
    (∀ xs, plainL xs = true → iterFreeL xs = true) := by
  apply Val.plain.mutual_induct
    (motive_1 := fun v => v.plain = true → v.iterFree = true)
    (motive_3 := fun xs => plainL xs = true → iterFreeL xs = true)
    (motive_2 := fun kvs => plainKV kvs = true → iterFreeKV kvs = true)
  all_goals (intros; simp_all [Val.plain, plainL, plainKV, Val.iterFree, iterFreeL, iterFreeKV])
  all_goals (try (rename_i t _ _ _ _ _; cases t <;> simp_all [Val.iterFree]))
theorem iterFree_eq_all : (∀ v : Val, v.iterFree = !v.hasIter) ∧ (∀ kvs, iterFreeKV kvs = !hasIterKV kvs) ∧ (∀ xs, iterFreeL xs = !hasIterL xs) := by
  apply Val.iterFree.mutual_induct
    (motive_1 := fun v => v.iterFree = !v.hasIter)
    (motive_3 := fun xs => iterFreeL xs = !hasIterL xs)
    (motive_2 := fun kvs => iterFreeKV kvs = !hasIterKV kvs)
  all_goals (intros; simp_all [Val.iterFree, iterFreeL, iterFreeKV, Val.hasIter, hasIterL, hasIterKV])
/-- the guard of C01: the value contains no one-shot iterator -/
theorem iterFree_eq (v : Val) : v.iterFree = !v.hasIter := iterFree_eq_all.1 v
/-- the guard of the C02 theorems (no NamedTuple instance, no iterator) implies the guard of C01 (no iterator) -/
theorem iterFree_of_plain {v : Val} (h : v.plain = true) : v.iterFree = true := plain_iterFree_all.1 v h

theorem not_asdict_of_plain {v : Val} (hp : v.plain = true) : v.hasAsdict = false := by
  cases v <;> simp_all [Val.plain, Val.hasAsdict]
theorem not_iterator_of_plain {env : Env} {v : Val} (hwf : v.wf env = true) (hp : v.plain = true) :
    env.sub (v.typeOf env) env.iteratorCls = false := not_iterator_of_iterFree hwf (iterFree_of_plain hp)
theorem tupleItems_plain_wf {env : Env} {v : Val} {xs : List Val} (hwf : v.wf env = true) (hp : v.plain = true)
    (hi : v.tupleItems = some xs) : wfL env xs = true ∧ plainL xs = true := by
  cases v <;> simp_all [Val.tupleItems, Val.wf, Val.plain]
theorem items_plain_wf {env : Env} {v : Val} {kvs : List (Val × Val)} (hwf : v.wf env = true) (hp : v.plain = true)
    (hi : v.items = some kvs) : wfKV env kvs = true ∧ plainKV kvs = true := by
  cases v <;> simp_all [Val.items, Val.wf, Val.plain]
/-- the NamedTuple block on a value without NamedTuple instances: such a value is no instance of a NamedTuple class -/
theorem ntNode_of_plain {env : Env} (hw : WfEnv env) {c : ClsId} {v : Val} {f} (hnt : env.isNT c = true) (hwf : v.wf env = true)
    (hp : v.plain = true) : ntNode env c v f = .ok (env.sub (v.typeOf env) c) := by
  cases hs : env.sub (v.typeOf env) c with
  | false => simp [ntNode, hs]
  | true =>
    have h1 := hw.ntDown _ _ hs hnt
    have h2 := wf_shape hwf
    have h3 := not_asdict_of_plain hp
    simp [Val.shapeB, h1, h3] at h2

/-- **the two exclusions of `plain`, separately**: no NamedTuple instance anywhere (region `namedtupleStructural`, witness
    `sound_fails_namedtupleStructural`) and no one-shot iterator anywhere (region `iteratorItemsUnchecked`, witness
    `sound_fails_iteratorSkip`) -/
private theorem bool4 (a b c d : Bool) : (!a && !b && (!c && !d)) = (!a && !c && (!b && !d)) := by
  cases a <;> cases b <;> cases c <;> cases d <;> rfl
private theorem bool6 (a b c d e f : Bool) : (!a && !b && (!c && !d) && (!e && !f)) = (!a && !c && !e && (!b && !d && !f)) := by
  cases a <;> cases b <;> cases c <;> cases d <;> cases e <;> cases f <;> rfl
theorem plain_eq_all : (∀ v : Val, v.plain = (!v.hasNT && !v.hasIter)) ∧ (∀ kvs, plainKV kvs = (!hasNTKV kvs && !hasIterKV kvs)) ∧
    (∀ xs, plainL xs = (!hasNTL xs && !hasIterL xs)) := by
  apply Val.plain.mutual_induct
    (motive_1 := fun v => v.plain = (!v.hasNT && !v.hasIter))
    (motive_3 := fun xs => plainL xs = (!hasNTL xs && !hasIterL xs))
    (motive_2 := fun kvs => plainKV kvs = (!hasNTKV kvs && !hasIterKV kvs))
  case case8 =>
    intro x xs ih2 ih1
    simp only [plainL, hasNTL, hasIterL, ih1, ih2, Bool.not_or]
    exact bool4 _ _ _ _
  case case10 =>
    intro k w kvs ih3 ih2 ih1
    simp only [plainKV, hasNTKV, hasIterKV, ih1, ih2, ih3, Bool.not_or]
    exact bool6 _ _ _ _ _ _
  all_goals (intros; simp_all [Val.plain, plainL, plainKV, Val.hasNT, hasNTL, hasNTKV, Val.hasIter, hasIterL, hasIterKV])
theorem plain_eq (v : Val) : v.plain = (!v.hasNT && !v.hasIter) := plain_eq_all.1 v
theorem plain_of {v : Val} (hnt : v.hasNT = false) (hit : v.hasIter = false) : v.plain = true := by simp [plain_eq, hnt, hit]

theorem ntNode_true {env : Env} {c : ClsId} {v : Val} {f} (h : ntNode env c v f = .ok true) : env.sub (v.typeOf env) c = true := by
  unfold ntNode at h
  split at h
  · simp at h
  · simp_all

theorem clsNode_true {env : Env} {c : ClsId} {v : Val} (h : clsNode env c v = .ok true) :
    env.sub (v.typeOf env) c = true := by
  unfold clsNode at h
  split at h
  · exact ntNode_true h
  · simpa using h

theorem clsFNode_true {env : Env} {c : ClsId} {names : List NameId} {v : Val} {f}
    (h : clsFNode env c names v f = .ok true) : env.sub (v.typeOf env) c = true := by
  unfold clsFNode at h
  split at h
  · exact ntNode_true h
  · simpa using h

theorem unionNode_true {sp : USpell} {n : Nat} {m : Raw} (h : unionNode sp n m = .ok true) : m = .ok true := by
  unfold unionNode at h
  split at h; · simp at h
  simpa [cfg_unionDispatch] using h

theorem literalNode_true {ls : List Lit} {v : Val} (h : literalNode ls v = .ok true) :
    ∃ l, v = .lit l ∧ ls.any (litEq l) = true := by
  unfold literalNode at h
  simp only [cfg_special_literal] at h
  cases v <;> simp_all

theorem fwdNode_true {env : Env} {n : NameId} {v : Val} (h : fwdNode env n v = .ok true) :
    ∃ c, env.ctx n = some c ∧ env.sub (v.typeOf env) c = true := by
  unfold fwdNode at h
  cases hc : env.ctx n with
  | none => simp [hc] at h
  | some c =>
    refine ⟨c, rfl, ?_⟩
    simp only [hc] at h
    split at h
    · exact ntNode_true h
    · simpa using h

theorem memberSub_sound (env : Env) (c : ClsId) (m : Ann) : memberSub env c m = true → memberSpec env c m = true := by
  cases m with
  | seq sp o a => cases sp <;> simp [memberSub, memberSpec]
  | map sp o k w => cases sp <;> simp [memberSub, memberSpec]
  | tuple sp items => cases sp <;> simp [memberSub, memberSpec]
  | tupleVar sp a => cases sp <;> simp [memberSub, memberSpec]
  | typeOf sp a => cases sp <;> simp [memberSub, memberSpec]
  | _ => simp [memberSub, memberSpec]

theorem isSubtypeCls_sound (env : Env) (_hw : WfEnv env) (c : ClsId) (a : Ann) :
    isSubtypeCls env c a = .ok true → subSpec env c a = true := by
  cases a <;> simp [isSubtypeCls, subSpec, cfg_unionSuper.1, cfg_unionSuper.2]
  case union sp ms =>
    intro x hx hm
    exact ⟨x, hx, memberSub_sound env c x hm⟩

theorem typeOfNode_true {env : Env} (hw : WfEnv env) {pc : Bool} {sp0 : Spell} {a : Ann} {v : Val} (hwf : v.wf env = true)
    (h : typeOfNode env pc sp0 a v = .ok true) : ∃ c, v = .clsObj c ∧ subSpec env c a = true := by
  unfold typeOfNode at h
  simp only [cfg_req_type, cfg_req_Type, cfg_genericChecksOrigin, cfg_origin_type, Bool.true_and, Bool.not_true, Bool.false_eq_true, ↓reduceIte] at h
  split at h; · simp at h
  split at h; · simp at h
  rename_i _ hsub
  have hs := wf_shape hwf
  have hcls : ∃ c, v = .clsObj c := by
    cases v <;> simp_all [Val.shapeB]
  obtain ⟨c, rfl⟩ := hcls
  refine ⟨c, rfl, ?_⟩
  split at h
  · simp [subSpec]
  · exact isSubtypeCls_sound env hw c _ h

theorem seqNode_true {env : Env} {pc : Bool} {sp0 : Spell} {o : SeqOrigin} {a : Ann} {v : Val} {elem : Bool → Val → Raw}
    (hwf : v.wf env = true) (hp : v.iterFree = true) (h : seqNode env pc sp0 o a v elem = .ok true) :
    env.sub (v.typeOf env) (env.seqCls o) = true ∧
      ∃ xs, v.iter = some xs ∧ ∀ x ∈ xs, elem (sp0 == .pep585) x = .ok true := by
  unfold seqNode at h
  simp only [cfg_req_seq, cfg_req_seqT, cfg_genericChecksOrigin, cfg_origin_seq, cfg_iteratorSkip, not_iterator_of_iterFree hwf hp,
    elemQuant_eq, Bool.true_and, Bool.not_true, Bool.false_eq_true, ↓reduceIte, Bool.and_false] at h
  split at h; · simp at h
  split at h; · simp at h
  rename_i hsub
  refine ⟨by simpa using hsub, ?_⟩
  split at h
  · rename_i xs hi
    exact ⟨xs, hi, (allRaw_true_iff _ _).1 h⟩
  · simp at h

theorem mapNode_true {env : Env} {pc : Bool} {sp0 : Spell} {o : MapOrigin} {k w : Ann} {v : Val} {key val : Bool → Val → Raw}
    (hp : v.iterFree = true) (h : mapNode env pc sp0 o k w v key val = .ok true) :
    env.sub (v.typeOf env) (env.mapCls o) = true ∧
      ∃ kvs, v.items = some kvs ∧ ∀ kv ∈ kvs, key (sp0 == .pep585) kv.1 = .ok true ∧ val (sp0 == .pep585) kv.2 = .ok true := by
  unfold mapNode at h
  simp only [cfg_req_map, cfg_req_mapT, cfg_genericChecksOrigin, cfg_origin_map, cfg_itemsChecksKey, cfg_itemsChecksValue,
    Bool.and_false,
    Bool.true_and, Bool.not_true, Bool.false_eq_true, ↓reduceIte] at h
  split at h; · simp at h
  split at h; · simp at h
  rename_i hsub
  refine ⟨by simpa using hsub, ?_⟩
  split at h
  · rename_i kvs hi
    refine ⟨kvs, hi, ?_⟩
    intro kv hkv
    have := (allRaw_true_iff _ _).1 h kv hkv
    exact and2_true_iff.1 this
  · simp at h

theorem tupleNode_true {env : Env} {pc : Bool} {sp0 : Spell} {items : List Ann} {v : Val} {zip : Bool → List Val → Raw}
    (h : tupleNode env pc sp0 items v zip = .ok true) :
    env.sub (v.typeOf env) env.tupleCls = true ∧
      ∃ xs, v.tupleItems = some xs ∧ xs.length = items.length ∧ zip (sp0 == .pep585) xs = .ok true := by
  unfold tupleNode at h
  simp only [cfg_genericChecksOrigin, cfg_origin_tuple, cfg_tupleLengthTest,
    Bool.true_and, Bool.not_true, Bool.false_eq_true, ↓reduceIte] at h
  split at h; · simp at h
  split at h; · simp at h
  split at h; · simp at h
  split at h; · simp at h
  rename_i hsub
  refine ⟨by simpa using hsub, ?_⟩
  split at h
  · rename_i xs hi
    split at h
    · simp at h
    · rename_i hlen
      exact ⟨xs, hi, by simpa using hlen, h⟩
  · simp at h

theorem tupleVarNode_true {env : Env} {pc : Bool} {sp0 : Spell} {a : Ann} {v : Val} {elem : Bool → Val → Raw}
    (h : tupleVarNode env pc sp0 a v elem = .ok true) :
    env.sub (v.typeOf env) env.tupleCls = true ∧
      ∃ xs, v.tupleItems = some xs ∧ ∀ x ∈ xs, elem (sp0 == .pep585) x = .ok true := by
  unfold tupleVarNode at h
  simp only [cfg_genericChecksOrigin, cfg_origin_tuple,
    Bool.true_and, Bool.not_true, Bool.false_eq_true, ↓reduceIte] at h
  split at h; · simp at h
  split at h; · simp at h
  split at h; · simp at h
  split at h; · simp at h
  rename_i hsub
  refine ⟨by simpa using hsub, ?_⟩
  split at h
  · rename_i xs hi
    exact ⟨xs, hi, (allRaw_true_iff _ _).1 h⟩
  · simp at h

/-- C06 core: a bare generic never yields a positive verdict, whatever the value -/
theorem bareNode_ne_true (env : Env) (o : BareOrigin) (v : Val) : bareNode env o v ≠ .ok true := by
  unfold bareNode
  by_cases hb : o.isBuiltin = true
  · simp only [cfg_req_bare_builtin o hb, hb, cfg_bare o hb, Bool.not_true, Bool.false_eq_true, ↓reduceIte]
    simp
  · have hb' : o.isBuiltin = false := by simpa using hb
    simp [cfg_req_bare o hb']

theorem tupleItems_iterFree_wf {env : Env} {v : Val} {xs : List Val} (hwf : v.wf env = true) (hp : v.iterFree = true)
    (hi : v.tupleItems = some xs) : wfL env xs = true ∧ iterFreeL xs = true := by
  cases v <;> simp_all [Val.tupleItems, Val.wf, Val.iterFree]

theorem items_iterFree_wf {env : Env} {v : Val} {kvs : List (Val × Val)} (hwf : v.wf env = true) (hp : v.iterFree = true)
    (hi : v.items = some kvs) : wfKV env kvs = true ∧ iterFreeKV kvs = true := by
  cases v <;> simp_all [Val.items, Val.wf, Val.iterFree]

theorem noSpecialL_mem {ms : List Ann} (h : Ann.noSpecial.noSpecialL ms = true) : ∀ m ∈ ms, m.noSpecial = true := by
  induction ms with
  | nil => simp
  | cons a as ih =>
    simp [Ann.noSpecial.noSpecialL] at h; intro m hm; simp at hm
    rcases hm with rfl | hm
    · exact h.1
    · exact ih h.2 m hm

theorem conformsAny_of_mem {env : Env} {ms : List Ann} {v : Val} :
    (∃ m ∈ ms, conforms env m v = true) → conformsAny env ms v = true := by
  induction ms with
  | nil => simp
  | cons a as ih =>
    intro ⟨m, hm, h⟩
    simp only [conformsAny, Bool.or_eq_true]
    simp at hm
    rcases hm with rfl | hm
    · exact Or.inl h
    · exact Or.inr (ih ⟨m, hm, h⟩)

abbrev S1 (env : Env) (orc : Nat → Val → Raw) (pc : Bool) (a : Ann) (v : Val) : Prop :=
  a.noSpecial = true → v.wf env = true → v.iterFree = true → isInstance env orc pc a v = .ok true → conforms env a v = true
abbrev S2 (env : Env) (orc : Nat → Val → Raw) (pc : Bool) (as : List Ann) (xs : List Val) : Prop :=
  Ann.noSpecial.noSpecialL as = true → wfL env xs = true → iterFreeL xs = true → xs.length = as.length →
    zipRaw env orc pc as xs = .ok true → conformsZip env as xs = true
abbrev S3 (env : Env) (orc : Nat → Val → Raw) (pc : Bool) (ms : List Ann) (v : Val) : Prop :=
  Ann.noSpecial.noSpecialL ms = true → v.wf env = true → v.iterFree = true → anyRaw env orc pc ms v = .ok true →
    conformsAny env ms v = true

theorem sound_raw (env : Env) (orc : Nat → Val → Raw) (hw : WfEnv env) :
    (∀ pc a v, S1 env orc pc a v) ∧ (∀ pc as xs, S2 env orc pc as xs) ∧ (∀ pc ms v, S3 env orc pc ms v) ∧
    (∀ (_ : Bool) (_ : List NameId) (_ : List Ann) (_ : List NameId) (_ : List Val), True) := by
  apply isInstance.mutual_induct
    (motive_1 := fun pc a v => S1 env orc pc a v)
    (motive_2 := fun pc as xs => S2 env orc pc as xs)
    (motive_3 := fun pc ms v => S3 env orc pc ms v)
    (motive_4 := fun _ _ _ _ _ => True)
  case case1 => intro _ _ _ _ _ h; simp [isInstance] at h
  case case2 => intro _ c v _ _ _ h; simp only [isInstance] at h; simpa [conforms] using clsNode_true h
  case case3 => intro _ c names anns v _ _ _ hp h; simp only [isInstance] at h; simpa [conforms] using clsFNode_true h
  case case4 => intro _ _ _ _ _ _; simp [conforms]
  case case5 =>
    intro _ sp ms v ih hns hwf hp h
    simp only [isInstance] at h
    simp only [conforms]
    exact ih (by simpa [Ann.noSpecial] using hns) hwf hp (unionNode_true h)
  case case6 =>
    intro _ ls v _ _ _ h
    simp only [isInstance] at h
    obtain ⟨l, rfl, hl⟩ := literalNode_true h
    simpa [conforms] using hl
  case case7 => intro _ s v _ _ _ h; simpa [isInstance, conforms] using h
  case case8 =>
    intro pc sp0 a v _ hwf _ h
    simp only [isInstance] at h
    obtain ⟨c, rfl, hc⟩ := typeOfNode_true hw hwf h
    simpa [conforms] using hc
  case case9 =>
    intro _ n v _ _ hp h
    simp only [isInstance] at h
    obtain ⟨c, hc, hsub⟩ := fwdNode_true h
    simp [conforms, hc, hsub]
  case case10 => intro _ _ _ _ _ _ h; simp [isInstance] at h
  case case11 =>
    intro pc sp0 o a v ih hns hwf hp h
    simp only [isInstance] at h
    obtain ⟨hsub, xs, hi, hall⟩ := seqNode_true hwf hp h
    simp only [conforms, hsub, hi, Bool.true_and, List.all_eq_true]
    intro x hx
    have := wf_iterFree_iter hw hwf hp hi x hx
    exact ih _ x (by simpa [Ann.noSpecial] using hns) this.1 this.2 (hall x hx)
  case case12 =>
    intro pc sp0 o k w v ihk ihw hns hwf hp h
    simp only [isInstance] at h
    obtain ⟨hsub, kvs, hi, hall⟩ := mapNode_true hp h
    simp only [conforms, hsub, hi, Bool.true_and, List.all_eq_true, Bool.and_eq_true]
    have hkv := items_iterFree_wf hwf hp hi
    simp only [Ann.noSpecial, Bool.and_eq_true] at hns
    intro ⟨a, b⟩ hab
    have h1 := wfKV_mem hkv.1 a b hab
    have h2 := iterFreeKV_mem hkv.2 a b hab
    have h3 := hall (a, b) hab
    exact ⟨ihk _ a hns.1 h1.1 h2.1 h3.1, ihw _ b hns.2 h1.2 h2.2 h3.2⟩
  case case13 =>
    intro pc sp0 items v ih hns hwf hp h
    simp only [isInstance] at h
    obtain ⟨hsub, xs, hi, hlen, hz⟩ := tupleNode_true h
    simp only [conforms, hsub, hi, Bool.true_and]
    have := tupleItems_iterFree_wf hwf hp hi
    exact ih _ xs (by simpa [Ann.noSpecial] using hns) this.1 this.2 hlen hz
  case case14 =>
    intro pc sp0 a v ih hns hwf hp h
    simp only [isInstance] at h
    obtain ⟨hsub, xs, hi, hall⟩ := tupleVarNode_true h
    simp only [conforms, hsub, hi, Bool.true_and, List.all_eq_true]
    have := tupleItems_iterFree_wf hwf hp hi
    intro x hx
    exact ih _ x (by simpa [Ann.noSpecial] using hns) (wfL_mem this.1 x hx) (iterFreeL_mem this.2 x hx) (hall x hx)
  case case15 => intro _ o v _ _ _ h; simp only [isInstance] at h; exact absurd h (bareNode_ne_true env o v)
  case case16 => intro _ k v hns; simp [Ann.noSpecial] at hns
  case case17 =>
    intro pc a as x xs ih1 ih2 hns hwf hp hlen h
    simp only [zipRaw, and2_true_iff] at h
    simp only [Ann.noSpecial.noSpecialL, Bool.and_eq_true] at hns
    simp only [wfL, Bool.and_eq_true] at hwf
    simp only [iterFreeL, Bool.and_eq_true] at hp
    simp only [conformsZip, Bool.and_eq_true]
    exact ⟨ih1 hns.1 hwf.1 hp.1 h.1, ih2 hns.2 hwf.2 hp.2 (by simpa using hlen) h.2⟩
  case case18 =>
    intro t pc xs hne _ _ _ hlen _
    cases t with
    | nil => cases xs with
      | nil => simp [conformsZip]
      | cons x xs => simp at hlen
    | cons a as => cases xs with
      | nil => simp at hlen
      | cons x xs => exact (hne a as x xs rfl rfl).elim
  case case19 => intro _ _ _ _ _ h; simp [anyRaw] at h
  case case20 =>
    intro pc a as v ih1 ih3 hns hwf hp h
    simp only [anyRaw] at h
    simp only [Ann.noSpecial.noSpecialL, Bool.and_eq_true] at hns
    simp only [conformsAny, Bool.or_eq_true]
    rcases anyStep_true h with h1 | h2
    · exact Or.inl (ih1 hns.1 hwf hp h1)
    · exact Or.inr (ih3 hns.2 hwf hp h2)
  all_goals (intros; trivial)

/-- the former, global form of the guard (a property of the whole class table: no class anywhere carries a name the context does
    not bind).  It is false for every realistic table - `object` is never a name of the context - and is kept only to show that it
    implies the local guard. -/
def StrAnnGuard (env : Env) : Prop :=
  ∀ (t : ClsId) (n : NameId), env.ctx n = Option.none → (env.mroNames t).contains n = false

theorem strAnnOk_of_guard {env : Env} (h : StrAnnGuard env) (a : Ann) (v : Val) : a.strAnnOk env v = true := by
  cases a <;> simp only [Ann.strAnnOk]
  rename_i n
  cases hc : env.ctx n with
  | some c => simp
  | none => simpa using h (v.typeOf env) n hc

/-- an annotation that is no string annotation meets the guard, whatever the class table and the value -/
theorem strAnnOk_of_not_str {env : Env} {a : Ann} (h : ∀ n, a ≠ .strAnn n) (v : Val) : a.strAnnOk env v = true := by
  cases a <;> simp_all [Ann.strAnnOk]

/-- soundness of `_check_type` (the statement of C01; restated in Props/C01.lean) -/
theorem sound_checkType (env : Env) (orc : Nat → Val → Raw) (hw : WfEnv env)
    (a : Ann) (v : Val) (hs : a.strAnnOk env v = true) (hns : a.noSpecial = true) (hwf : v.wf env = true) (hp : v.iterFree = true) :
    checkType env orc a v = .accept → conforms env a v = true := by
  intro h
  cases a
  case none => simp_all [checkType, conforms]
  case strAnn n =>
    simp only [checkType, cfg_strBranch.1, ↓reduceIte] at h
    simp only [conforms]
    cases hc : env.ctx n with
    | some c => simp only [hc] at h ⊢; split at h <;> simp_all
    | none =>
      simp only [Ann.strAnnOk, hc, Option.isSome_none, Bool.false_or, Bool.not_eq_true'] at hs
      simp only [hc, strAnnByName, cfg_strBranch.2, ↓reduceIte, hs] at h
      simp at h
  all_goals (simp only [checkType, wrap_accept] at h; exact (sound_raw env orc hw).1 _ _ v hns hwf hp h)


end PedVerif.Checker
