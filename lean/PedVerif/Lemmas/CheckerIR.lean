import PedVerif.Model.CheckerIR
import PedVerif.Lemmas.CheckerNoTV
/-!
Proof that the *generated* programs of `PedVerif.Gen.IsInstanceIR`, run by the interpreter of `Model/CheckerIR.lean` on the
introspection record `intro`, compute the hand-written model `PedVerif.Checker.isInstance` / `checkType`.

Method: `ir_exec` executes the generated `_is_instance` symbolically on `intro env pc <constructor>` (simp with the equations of the
interpreter and the generated definitions), the tests that depend on the class table / the value remain as case distinctions
and are matched against the node function of the hand model (`node_*`, one lemma per annotation constructor); the recursive calls
are abstracted as `Kids`.  `ir_refines_all` then is the mutual induction of the hand model.  Nothing here mentions a statement
id or the order of the branches: a reordered / changed / dropped branch changes `isInstanceProg`, and the lemma of every
constructor whose behaviour that changes fails.
-/
namespace PedVerif.CheckerIR
open PedVerif.Checker PedVerif.Gen.TypeTables PedVerif.Gen.IsInstanceIR

theorem prog_isInstance : lookupProg progs "_is_instance" = some isInstanceProg := by simp [lookupProg, progs]
theorem prog_fwd : lookupProg progs "_is_forward_ref" = some isForwardRefProg := by simp [lookupProg, progs]
theorem prog_newType : lookupProg progs "_is_type_new_type" = some isNewTypeProg := by simp [lookupProg, progs]
theorem prog_union : lookupProg progs "_instancecheck_union" = some unionProg := by simp [lookupProg, progs]
theorem prog_checkUnion : lookupProg progs "_check_union" = some checkUnionProg := by simp [lookupProg, progs]
theorem prog_literal : lookupProg progs "_instancecheck_literal" = some literalProg := by simp [lookupProg, progs]
theorem prog_iterable : lookupProg progs "_instancecheck_iterable" = some iterableProg := by simp [lookupProg, progs]
theorem prog_mapping : lookupProg progs "_instancecheck_mapping" = some mappingProg := by simp [lookupProg, progs]
theorem prog_itemsView : lookupProg progs "_instancecheck_items_view" = some itemsViewProg := by simp [lookupProg, progs]
theorem prog_tuple : lookupProg progs "_instancecheck_tuple" = some tupleProg := by simp [lookupProg, progs]
theorem prog_type : lookupProg progs "_instancecheck_type" = some typeProg := by simp [lookupProg, progs]
theorem prog_checkType : lookupProg progs "_check_type" = some checkTypeProg := by simp [lookupProg, progs]

/-! ### facts about the generated tables (by evaluation: re-checked against the source on every run) -/
theorem sp_any : lookupS specialCheckers "Any" = some "const_true" := by decide
theorem sp_union : lookupS specialCheckers "Union" = some "_instancecheck_union" := by decide
theorem sp_optional : lookupS specialCheckers "Optional" = some "_instancecheck_union" := by decide
theorem sp_literal : lookupS specialCheckers "Literal" = some "_instancecheck_literal" := by decide
theorem sp_callable : lookupS specialCheckers "Callable" = some "_instancecheck_callable" := by decide
theorem sp_Type : lookupS specialCheckers "Type" = none := by decide
theorem sp_Tuple : lookupS specialCheckers "Tuple" = none := by decide
theorem sp_fwd : lookupS specialCheckers "orwardRef" = none := by decide
theorem sp_seq (o : SeqOrigin) : lookupS specialCheckers o.typingName = none := by cases o <;> decide
theorem sp_map (o : MapOrigin) : lookupS specialCheckers o.typingName = none := by cases o <;> decide
theorem or_seq (o : SeqOrigin) : lookupS originCheckers ("typing." ++ o.typingName) = some "_instancecheck_iterable" := by cases o <;> decide
theorem or_map (o : MapOrigin) : lookupS originCheckers ("typing." ++ o.typingName) = some "_instancecheck_mapping" := by cases o <;> decide
theorem or_tuple : lookupS originCheckers "typing.Tuple" = some "_instancecheck_tuple" := by decide
theorem or_type : lookupS originCheckers "typing.Type" = some "_instancecheck_type" := by decide
theorem req_none : requiredArgsOk "oneType" 0 = true := by decide
theorem req_str : requiredArgsOk "tr" 0 = true := by decide
theorem req_any : requiredArgsOk "Any" 0 = true := by decide
theorem req_fwd : requiredArgsOk "orwardRef" 0 = true := by decide
theorem req_Union (n : Nat) : requiredArgsOk "Union" n = decide (2 ≤ n) := by simpa [unionName] using cfg_req_union .union n
theorem req_Optional (n : Nat) : requiredArgsOk "Optional" n = decide (2 = n) := by simpa [unionName] using cfg_req_union .optional n
theorem req_pipe (n : Nat) : requiredArgsOk "nionType" n = true := by simp [requiredArgsOk, lookup, requiredExact, requiredMin]

/-- symbolic execution of the generated programs -/
macro "ir_exec" "[" extra:Lean.Parser.Tactic.simpLemma,* "]" : tactic => `(tactic|
  simp [node, runFn, prog_isInstance, isInstanceProg, runBlock, runStmt, runHandlers, evalG, doAct, intro, introResolved, reqOk, ext, callDepth,
    predOf, prog_fwd, prog_newType, isForwardRefProg, isNewTypeProg, noExt, moduleHasAttr, typingAttrs, typesAttrs, inTable,
    prog_union, prog_checkUnion, prog_literal, prog_iterable, prog_mapping, prog_itemsView, prog_tuple, prog_type,
    unionProg, checkUnionProg, literalProg, iterableProg, mappingProg, itemsViewProg, tupleProg, typeProg,
    quant, excOf, catches, Raw.isExc, Raw.isTrue, viewOf, Frame.iter, effSpell, oob, unionIntroName, unionCheckerName,
    req_none, req_str, req_any, req_fwd, req_pipe, req_Union, req_Optional, cfg_req_seq, cfg_req_seqT, cfg_req_map, cfg_req_mapT, cfg_req_Tuple, cfg_req_tuple,
    cfg_req_type, cfg_req_Type, sp_any, sp_union, sp_optional, sp_literal, sp_callable, sp_Type, sp_Tuple, sp_fwd, sp_seq, sp_map, or_seq, or_map, or_tuple, or_type, $extra,*])
macro "ir_exec" : tactic => `(tactic| ir_exec [oob])

set_option maxRecDepth 4000 in
theorem node_none (env : Env) (pc : Bool) (v : Val) (K : Kids) : (node env pc .none v K).raw = .raisedOther := by
  ir_exec

set_option maxRecDepth 4000 in
theorem node_strAnn (env : Env) (pc : Bool) (n : NameId) (v : Val) (K : Kids) : (node env pc (.strAnn n) v K).raw = .raisedOther := by
  ir_exec

set_option maxRecDepth 4000 in
theorem node_cls (env : Env) (pc : Bool) (c : ClsId) (v : Val) (K : Kids) (hK : ∀ b vn xs, K.fields b vn xs = []) :
    (node env pc (.cls c) v K).raw = clsNode env c v := by
  ir_exec [hK]
  cases h0 : env.isNT c
  · simp [clsNode, h0]
  · simp [clsNode, ntNode, h0]
    cases h1 : env.sub (Val.typeOf env v) c <;> simp
    cases v <;> simp [Val.hasAsdict, allEager]

set_option maxRecDepth 4000 in
theorem node_any (env : Env) (pc : Bool) (v : Val) (K : Kids) : (node env pc .any v K).raw = anyNode := by
  ir_exec
  simp [anyNode, cfg_special_any]

set_option maxRecDepth 4000 in
theorem node_newType (env : Env) (pc : Bool) (s : ClsId) (v : Val) (K : Kids) :
    (node env pc (.newType s) v K).raw = .ok (env.sub (v.typeOf env) s) := by
  ir_exec

set_option maxRecDepth 4000 in
theorem node_literal (env : Env) (pc : Bool) (ls : List Lit) (v : Val) (K : Kids) :
    (node env pc (.literal ls) v K).raw = literalNode ls v := by
  ir_exec
  simp [literalNode, cfg_special_literal]
  cases v <;> rfl

set_option maxRecDepth 4000 in
theorem node_fwd (env : Env) (pc : Bool) (n : NameId) (v : Val) (K : Kids) :
    (node env pc (.fwd n) v K).raw = fwdNode env n v := by
  ir_exec
  cases h1 : env.ctx n <;> simp [fwdNode, h1]
  rename_i c
  cases h0 : env.isNT c
  · simp [h0]
  simp [ntNode, h0]
  cases h2 : env.sub (Val.typeOf env v) c <;> simp
  cases v <;> simp [Val.hasAsdict, Val.asdictKeys]
  rename_i c' vn xs
  generalize (env.fieldNames c).getD [] = fs
  induction fs with
  | nil => simp [allEager]
  | cons f fs ih =>
    by_cases hf : f ∈ vn
    · simp [hf, allEager, Raw.isExc]
    · simpa [hf] using ih

set_option maxRecDepth 4000 in
theorem node_clsF (env : Env) (pc : Bool) (c : ClsId) (names : List NameId) (anns : List Ann) (v : Val) (K : Kids) :
    (node env pc (.clsF c names anns) v K).raw = clsFNode env c names v (fun vn xs => (allEager (K.fields true vn xs)).raw) := by
  ir_exec
  cases h0 : env.isNT c
  · simp [clsFNode, h0]
  · simp [clsFNode, ntNode, h0]
    cases h1 : env.sub (Val.typeOf env v) c <;> simp
    cases v <;> simp [Val.hasAsdict, Val.asdictKeys, Val.tupleItems]

set_option maxRecDepth 4000 in
theorem node_union (env : Env) (pc : Bool) (sp : USpell) (ms : List Ann) (v : Val) (K : Kids) :
    (node env pc (.union sp ms) v K).raw = unionNode sp ms.length (anyEager (K.each v)).raw := by
  cases sp
  · ir_exec
    by_cases h : 2 ≤ ms.length <;> simp [h, unionNode, unionName, req_Union, cfg_unionDispatch]
    cases hr : (anyEager (K.each v)).raw
    · rename_i b; cases b <;> simp
    all_goals simp
  · ir_exec
    by_cases h : 2 = ms.length <;> simp [h, unionNode, unionName, req_Optional, cfg_unionDispatch]
    cases hr : (anyEager (K.each v)).raw
    · rename_i b; cases b <;> simp
    all_goals simp
  · ir_exec
    simp [unionNode, unionName, req_pipe, cfg_unionDispatch]
    cases hr : (anyEager (K.each v)).raw
    · rename_i b; cases b <;> simp
    all_goals simp

/-! ### the quantified loops, on the outcome component -/
theorem allLazy_map_raw {α} (g : α → Res) (xs : List α) : (allLazy (xs.map g)).raw = allRaw (fun x => (g x).raw) xs := by
  induction xs with
  | nil => rfl
  | cons x xs ih =>
    simp only [List.map_cons, allLazy, allRaw]
    cases h : (g x).raw with
    | ok b => cases b <;> simp [ih]
    | _ => simp

theorem req_seqR (o : SeqOrigin) : requiredArgsOk o.runtimeName 1 = true := by simpa [seqName] using cfg_req_seq .pep585 o
theorem req_mapR (o : MapOrigin) : requiredArgsOk o.runtimeName 2 = true := by simpa [mapName] using cfg_req_map .pep585 o
theorem sameKeys_nil (l : List NameId) : sameKeys l [] = l.isEmpty := by cases l <;> simp [sameKeys]

set_option maxRecDepth 4000 in
theorem node_seq (env : Env) (pc : Bool) (sp0 : Spell) (o : SeqOrigin) (a : Ann) (v : Val) (K : Kids) (elem : Bool → Val → Raw)
    (h : ∀ x, (K.arg 0 x).raw = elem (sp0 == .pep585) x) :
    (node env pc (.seq sp0 o a) v K).raw = seqNode env pc sp0 o a v elem := by
  have hf : (fun x => (K.arg 0 x).raw) = elem (sp0 == .pep585) := funext h
  cases pc <;> cases sp0
  case false.pep585 =>
    ir_exec
    simp [seqNode, effSpell, cfg_req_seqT, req_seqR, cfg_genericChecksOrigin, cfg_origin_seq, cfg_iteratorSkip, elemQuant_eq,
      allLazy_map_raw, hf, seqName]
    cases h4 : originConvertible o.runtimeName <;> simp
    cases h5 : convOk a <;> simp
    cases h1 : env.sub (Val.typeOf env v) (env.seqCls o) <;> simp
    cases h2 : env.sub (Val.typeOf env v) env.iteratorCls <;> simp
    cases h3 : v.iter <;> simp
  all_goals
    ir_exec
    simp [seqNode, effSpell, cfg_req_seq, cfg_req_seqT, cfg_genericChecksOrigin, cfg_origin_seq, cfg_iteratorSkip, elemQuant_eq,
      allLazy_map_raw, hf, seqName]
    cases h1 : env.sub (Val.typeOf env v) (env.seqCls o) <;> simp
    cases h2 : env.sub (Val.typeOf env v) env.iteratorCls <;> simp
    cases h3 : v.iter <;> simp

theorem conjRes_and2 (r1 r2 : Res) : (conjRes "and" [r1, r2]).raw = r1.raw.and2 (fun _ => r2.raw) := by
  have : ("and" != "or") = true := by decide
  cases h : r1.raw with
  | ok b => cases b <;> simp [conjRes, h, this, Raw.and2]
  | _ => simp [conjRes, h, Raw.and2]

set_option maxRecDepth 4000 in
theorem node_map (env : Env) (pc : Bool) (sp0 : Spell) (o : MapOrigin) (k w : Ann) (v : Val) (K : Kids) (key val : Bool → Val → Raw)
    (hk : ∀ x, (K.arg 0 x).raw = key (sp0 == .pep585) x) (hw : ∀ x, (K.arg 1 x).raw = val (sp0 == .pep585) x) :
    (node env pc (.map sp0 o k w) v K).raw = mapNode env pc sp0 o k w v key val := by
  cases pc <;> cases sp0
  case false.pep585 =>
    ir_exec
    simp [mapNode, effSpell, cfg_req_mapT, req_mapR, cfg_genericChecksOrigin, cfg_origin_map, cfg_itemsChecksKey, cfg_itemsChecksValue,
      allLazy_map_raw, mapName, conjRes_and2, hk, hw]
    cases h4 : originConvertible o.runtimeName <;> simp
    cases h5 : convOk k <;> simp
    cases h5' : convOk w <;> simp
    cases h1 : env.sub (Val.typeOf env v) (env.mapCls o) <;> simp
    cases h3 : v.items <;> simp
  all_goals
    ir_exec
    simp [mapNode, effSpell, cfg_req_map, cfg_req_mapT, cfg_genericChecksOrigin, cfg_origin_map, cfg_itemsChecksKey, cfg_itemsChecksValue,
      allLazy_map_raw, mapName, conjRes_and2, hk, hw]
    cases h1 : env.sub (Val.typeOf env v) (env.mapCls o) <;> simp
    cases h3 : v.items <;> simp

theorem allLazy_raw_zip (rs : List Res) : (allLazy rs).raw = allRaw (fun r : Res => r.raw) rs := by
  simpa using allLazy_map_raw (fun r : Res => r) rs

set_option maxRecDepth 4000 in
theorem node_tuple (env : Env) (pc : Bool) (sp0 : Spell) (items : List Ann) (v : Val) (K : Kids) (zip : Bool → List Val → Raw)
    (hz : ∀ xs, (allLazy (K.zip xs)).raw = zip (sp0 == .pep585) xs) :
    (node env pc (.tuple sp0 items) v K).raw = tupleNode env pc sp0 items v zip := by
  cases pc <;> cases sp0
  case false.pep585 =>
    ir_exec
    simp [tupleNode, effSpell, cfg_req_Tuple, cfg_req_tuple, cfg_genericChecksOrigin, cfg_origin_tuple, cfg_tupleLengthTest, tupleName, hz]
    cases h4 : originConvertible "tuple" <;> simp
    cases h5 : convOk.convOkL items <;> simp
    cases items with
    | nil => simp
    | cons i is =>
      simp
      cases h1 : env.sub (Val.typeOf env v) env.tupleCls <;> simp
      cases h3 : v.tupleItems <;> simp
      rename_i xs
      cases h7 : (xs.length != is.length + 1) <;> simp_all
  all_goals
    ir_exec
    simp [tupleNode, effSpell, cfg_req_Tuple, cfg_req_tuple, cfg_genericChecksOrigin, cfg_origin_tuple, cfg_tupleLengthTest, tupleName, hz]
    cases items with
    | nil => simp
    | cons i is =>
      simp
      cases h1 : env.sub (Val.typeOf env v) env.tupleCls <;> simp
      cases h3 : v.tupleItems <;> simp
      rename_i xs
      cases h7 : (xs.length != is.length + 1) <;> simp_all

set_option maxRecDepth 4000 in
theorem node_tupleVar (env : Env) (pc : Bool) (sp0 : Spell) (a : Ann) (v : Val) (K : Kids) (elem : Bool → Val → Raw)
    (h : ∀ x, (K.arg 0 x).raw = elem (sp0 == .pep585) x) :
    (node env pc (.tupleVar sp0 a) v K).raw = tupleVarNode env pc sp0 a v elem := by
  have hf : (fun x => (K.arg 0 x).raw) = elem (sp0 == .pep585) := funext h
  cases pc <;> cases sp0
  case false.pep585 =>
    ir_exec
    simp [tupleVarNode, effSpell, cfg_req_Tuple, cfg_req_tuple, cfg_genericChecksOrigin, cfg_origin_tuple, tupleName, allLazy_map_raw, hf]
    cases h4 : originConvertible "tuple" <;> simp
    cases h5 : convOk a <;> simp
    cases h1 : env.sub (Val.typeOf env v) env.tupleCls <;> simp
    cases h3 : v.tupleItems <;> simp
  all_goals
    ir_exec
    simp [tupleVarNode, effSpell, cfg_req_Tuple, cfg_req_tuple, cfg_genericChecksOrigin, cfg_origin_tuple, tupleName, allLazy_map_raw, hf]
    cases h1 : env.sub (Val.typeOf env v) env.tupleCls <;> simp
    cases h3 : v.tupleItems <;> simp

theorem req_type1 : requiredArgsOk "type" 1 = true := by decide

set_option maxRecDepth 4000 in
theorem node_typeOf (env : Env) (pc : Bool) (sp0 : Spell) (a : Ann) (v : Val) (K : Kids) :
    (node env pc (.typeOf sp0 a) v K).raw = typeOfNode env pc sp0 a v := by
  cases pc <;> cases sp0
  case false.pep585 =>
    ir_exec
    simp [typeOfNode, effSpell, req_type1, cfg_req_Type, cfg_genericChecksOrigin, cfg_origin_type, typeName]
    cases h4 : originConvertible "type" <;> simp
    cases h5 : convOk a <;> simp
    cases h1 : env.sub (Val.typeOf env v) env.typeCls <;> simp
    cases a <;> simp
    all_goals (cases v <;> simp)
  all_goals
    ir_exec
    simp [typeOfNode, effSpell, req_type1, cfg_req_Type, cfg_genericChecksOrigin, cfg_origin_type, typeName]
    cases h1 : env.sub (Val.typeOf env v) env.typeCls <;> simp
    cases a <;> simp
    all_goals (cases v <;> simp)

theorem req_bare0 (o : BareOrigin) : requiredArgsOk o.name 0 = o.isBuiltin := by cases o <;> decide
theorem bare_in (o : BareOrigin) : bareBuiltins.contains o.name = o.isBuiltin := by cases o <;> decide

set_option maxRecDepth 4000 in
theorem node_bare (env : Env) (pc : Bool) (o : BareOrigin) (v : Val) (K : Kids) :
    (node env pc (.bare o) v K).raw = bareNode env o v := by
  have hr := req_bare0 o
  have hb := bare_in o
  cases o
  all_goals
    simp only [BareOrigin.name, BareOrigin.isBuiltin] at hr hb
    ir_exec [hr, BareOrigin.name, BareOrigin.isBuiltin]
    simp [bareNode, BareOrigin.name, BareOrigin.isBuiltin, hr, hb]
    try (simpa using hb)

/-- `interpIsInstance` and its three list companions agree with the hand-written model, for every input -/
theorem ir_refines_all (env : Env) (orc : Nat → Val → Raw) :
    (∀ pc a v, (interpIsInstance env orc pc a v).raw = isInstance env orc pc a v) ∧
    (∀ pc as xs, (allLazy (interpZip env orc pc as xs)).raw = zipRaw env orc pc as xs) ∧
    (∀ pc ms v, (anyEager (interpEach env orc pc ms v)).raw = anyRaw env orc pc ms v) ∧
    (∀ pc ns as vn xs, (allEager (interpFields env orc true pc ns as vn xs)).raw = fieldsRaw env orc pc ns as vn xs) := by
  apply isInstance.mutual_induct
    (motive_1 := fun pc a v => (interpIsInstance env orc pc a v).raw = isInstance env orc pc a v)
    (motive_2 := fun pc as xs => (allLazy (interpZip env orc pc as xs)).raw = zipRaw env orc pc as xs)
    (motive_3 := fun pc ms v => (anyEager (interpEach env orc pc ms v)).raw = anyRaw env orc pc ms v)
    (motive_4 := fun pc ns as vn xs => (allEager (interpFields env orc true pc ns as vn xs)).raw = fieldsRaw env orc pc ns as vn xs)
  case case1 => intro pc v; simp only [interpIsInstance, isInstance]; exact node_none env pc v {}
  case case2 => intro pc c v; simp only [interpIsInstance, isInstance]; exact node_cls env pc c v {} (fun _ _ _ => rfl)
  case case3 =>
    intro pc c names anns v ih
    simp only [interpIsInstance, isInstance]
    rw [node_clsF]
    congr 1
    funext vn xs
    exact ih vn xs
  case case4 => intro pc v; simp only [interpIsInstance, isInstance]; exact node_any env pc v {}
  case case5 =>
    intro pc sp ms v ih
    simp only [interpIsInstance, isInstance]
    rw [node_union]
    simp only [ih]
  case case6 => intro pc ls v; simp only [interpIsInstance, isInstance]; exact node_literal env pc ls v {}
  case case7 => intro pc s v; simp only [interpIsInstance, isInstance]; exact node_newType env pc s v {}
  case case8 => intro pc sp0 a v; simp only [interpIsInstance, isInstance]; exact node_typeOf env pc sp0 a v {}
  case case9 => intro pc n v; simp only [interpIsInstance, isInstance]; exact node_fwd env pc n v {}
  case case10 => intro pc n v; simp only [interpIsInstance, isInstance]; exact node_strAnn env pc n v {}
  case case11 =>
    intro pc sp0 o a v ih
    simp only [interpIsInstance, isInstance]
    exact node_seq env pc sp0 o a v _ _ (fun x => ih _ x)
  case case12 =>
    intro pc sp0 o k w v ihk ihw
    simp only [interpIsInstance, isInstance]
    exact node_map env pc sp0 o k w v _ _ _ (fun x => ihk _ x) (fun x => ihw _ x)
  case case13 =>
    intro pc sp0 items v ih
    simp only [interpIsInstance, isInstance]
    exact node_tuple env pc sp0 items v _ _ (fun xs => ih _ xs)
  case case14 =>
    intro pc sp0 a v ih
    simp only [interpIsInstance, isInstance]
    exact node_tupleVar env pc sp0 a v _ _ (fun x => ih _ x)
  case case15 => intro pc o v; simp only [interpIsInstance, isInstance]; exact node_bare env pc o v {}
  case case16 => intro pc k v; simp only [interpIsInstance, isInstance]
  case case17 =>
    intro pc a as x xs ih1 ih2
    simp only [interpZip, zipRaw, allLazy, ih1]
    cases h : isInstance env orc pc a x with
    | ok b => cases b <;> simp [Raw.and2, ih2]
    | _ => simp [Raw.and2]
  case case18 =>
    intro t pc xs hne
    cases t with
    | nil => simp [interpZip, zipRaw, allLazy]
    | cons a as => cases xs with
      | nil => simp [interpZip, zipRaw, allLazy]
      | cons x xs => exact (hne a as x xs rfl rfl).elim
  case case19 => intro pc v; simp [interpEach, anyRaw, anyEager]
  case case20 =>
    intro pc a as v ih1 ih3
    simp only [interpEach, anyRaw, anyEager, ih1]
    cases h : isInstance env orc pc a v <;> simp [Raw.isExc, anyStep, ih3]
  case case21 =>
    intro pc n ns a as vn xs hl ih4
    simp only [interpFields, fieldsRaw, hl, ↓reduceIte]; exact ih4
  case case22 =>
    intro pc n ns a as vn xs x hl ih1 ih4
    simp only [interpFields, fieldsRaw, hl, allEager, ih1]
    cases h : isInstance env orc pc a x <;> simp [Raw.isExc, allStep, ih4]
  case case23 =>
    intro t pc ns vn xs hne
    cases ns with
    | nil => simp [interpFields, fieldsRaw, allEager]
    | cons n ns => cases t with
      | nil => simp [interpFields, fieldsRaw, allEager]
      | cons a as => exact (hne n ns a as rfl rfl).elim

/-- **Refinement.**  The generated `_is_instance`, interpreted, is the hand-written model - for every class table, every behaviour of
    unsupported annotation objects, every annotation of the syntax (converted or not) and every value. -/
theorem interp_eq_isInstance (env : Env) (orc : Nat → Val → Raw) (pc : Bool) (a : Ann) (v : Val) :
    (interpIsInstance env orc pc a v).raw = isInstance env orc pc a v := (ir_refines_all env orc).1 pc a v


theorem intro_plain (env : Env) (a : Ann) (h1 : a ≠ .none) (h2 : ∀ n, a ≠ .strAnn n) :
    (intro env false a).isNone = false ∧ (intro env false a).strName = none := by
  cases a <;> simp [intro] at h1 h2 ⊢
  case union sp ms => cases sp <;> simp
  case typeOf sp a => cases sp <;> simp [effSpell]
  case seq sp o a => cases sp <;> simp [effSpell]
  case map sp o k w => cases sp <;> simp [effSpell]
  case tuple sp items => cases sp <;> simp [effSpell]
  case tupleVar sp a => cases sp <;> simp [effSpell]
  case bare o => split <;> simp

set_option maxRecDepth 4000 in
/-- the `try` of `_check_type`: what the three `except` arms make of the outcome of `_is_instance` -/
theorem checkType_try (F : Frame) (h1 : F.I.isNone = false) (h2 : F.I.strName = none) :
    toOut (runFn (ext 0) "_check_type" F).raw = wrap (F.K.self ()).raw := by
  simp [runFn, prog_checkType, checkTypeProg, runBlock, runStmt, runHandlers, evalG, doAct, h1, h2, ext]
  cases h : (F.K.self ()).raw with
  | ok b => cases b <;> simp [Raw.isExc, toOut, wrap]
  | _ => simp [Raw.isExc, catches, excOf, toOut, wrap, cfg_catchesAll]

set_option maxRecDepth 4000 in
/-- **Refinement of `_check_type`.** -/
theorem checkTypeIR_eq_checkType (env : Env) (orc : Nat → Val → Raw) (a : Ann) (v : Val) :
    checkTypeIR env orc a v = checkType env orc a v := by
  by_cases h1 : a = .none
  · subst h1
    simp [checkTypeIR, interpCheckType, runFn, prog_checkType, checkTypeProg, runBlock, runStmt, runHandlers, evalG, doAct, intro, ext, checkType]
    cases v.isNone <;> simp [toOut]
  by_cases h2 : ∃ n, a = .strAnn n
  · obtain ⟨n, rfl⟩ := h2
    simp [checkTypeIR, interpCheckType, runFn, prog_checkType, checkTypeProg, runBlock, runStmt, runHandlers, evalG, doAct, intro, ext, checkType,
      cfg_strBranch.1, cfg_strBranch.2, strAnnByName]
    cases h : env.ctx n <;> simp
    · by_cases hm : n ∈ env.mroNames (Val.typeOf env v) <;> simp [toOut, hm]
    · rename_i c; cases env.sub (Val.typeOf env v) c <;> simp [toOut]
  · have h2' : ∀ n, a ≠ .strAnn n := fun n hn => h2 ⟨n, hn⟩
    obtain ⟨hn, hs⟩ := intro_plain env a h1 h2'
    unfold checkTypeIR interpCheckType
    rw [checkType_try _ hn hs]
    simp only [interp_eq_isInstance]
    cases a <;> simp_all [checkType]

end PedVerif.CheckerIR

