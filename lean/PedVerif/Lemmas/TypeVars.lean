import PedVerif.Spec.TypeVars
import PedVerif.Lemmas.TypeVarsAttr
/-!
Lemmas for C07: binding maps, an induction principle for the nested annotation syntax, the TypeVar branch in
"decision first, update second" form (`tvBranch_eq`, proved about the generated statement list), the frame lemma.
-/
namespace PedVerif.TypeVars
open PedVerif.Gen.TypeVars

/-! ### the threaded checker, in the form the proofs use: ONE dict handed from element to element, to the caller, through
every container (`tvEq`).  Each equation is proved from the generated facts — `iterablePass`, `mappingPass`, `tupleVarPass`,
`tuplePass`, `unionMembersPass`, `dispatchPass` (the check of an element receives the very dict the container received) and
`unionMembersEager` (every non-TypeVar member of a union is evaluated): handing a COPY to the elements of one container, or a lazy
`any` over the union members, flips a fact and leaves the equation — and with it every theorem below — unproved. -/

theorem allWithP_same (f : Val → TVMap → R × TVMap) : ∀ xs m, allWithP .same f xs m = allWith f xs m := by
  intro xs
  induction xs with
  | nil => intro m; rfl
  | cons x xs ih =>
    intro m
    simp only [allWithP, allWith, passNext]
    rcases f x m with ⟨r, m'⟩
    cases r with
    | ok b => cases b with
      | true => exact ih m'
      | false => rfl
    | _ => rfl

theorem pairsWithP_same (fk fw : Val → TVMap → R × TVMap) : ∀ kvs m, pairsWithP .same fk fw kvs m = pairsWith fk fw kvs m := by
  intro kvs
  induction kvs with
  | nil => intro m; rfl
  | cons kv rest ih =>
    intro m
    obtain ⟨x, y⟩ := kv
    simp only [pairsWithP, pairsWith, passNext]
    rcases fk x m with ⟨r, m'⟩
    cases r with
    | ok b => cases b with
      | true =>
        simp only
        rcases fw y m' with ⟨r2, m''⟩
        cases r2 with
        | ok b2 => cases b2 with
          | true => exact ih m''
          | false => rfl
        | _ => rfl
      | false => rfl
    | _ => rfl

theorem dispatch_same (m : TVMap) (res : R × TVMap) : dispatch m res = res := by
  simp [dispatch, dispatchPass, passNext]

@[tvEq] theorem isInst_cls (env : Env) (c : ClsId) (v : Val) (m : TVMap) : isInst env (.cls c) v m = (clsAnn env c v, m) := by simp [isInst]
@[tvEq] theorem isInst_any (env : Env) (v : Val) (m : TVMap) : isInst env .any v m = (.ok true, m) := by simp [isInst]
@[tvEq] theorem isInst_tv (env : Env) (t : TVId) (v : Val) (m : TVMap) : isInst env (.tv t) v m = tvBranch env t v m := by simp [isInst]
@[tvEq] theorem isInst_typeOf (env : Env) (a : A) (v : Val) (m : TVMap) : isInst env (.typeOf a) v m = (typeNode env a v, m) := by simp [isInst]
@[tvEq] theorem isInst_listOf (env : Env) (a : A) (v : Val) (m : TVMap) :
    isInst env (.listOf a) v m = (match v with | .list xs => allWith (isInst env a) xs m | _ => (.ok false, m)) := by
  cases v <;> simp [isInst, dispatch_same, iterablePass, allWithP_same]
@[tvEq] theorem isInst_tupleVar (env : Env) (a : A) (v : Val) (m : TVMap) :
    isInst env (.tupleVar a) v m = (match v with | .tuple xs => allWith (isInst env a) xs m | _ => (.ok false, m)) := by
  cases v <;> simp [isInst, dispatch_same, tupleVarPass, allWithP_same]
@[tvEq] theorem isInst_dictOf (env : Env) (k w : A) (v : Val) (m : TVMap) :
    isInst env (.dictOf k w) v m = (match v with | .dict kvs => pairsWith (isInst env k) (isInst env w) kvs m | _ => (.ok false, m)) := by
  cases v <;> simp [isInst, dispatch_same, mappingPass, pairsWithP_same]
@[tvEq] theorem isInst_tupleOf (env : Env) (items : List A) (v : Val) (m : TVMap) :
    isInst env (.tupleOf items) v m =
      (if !PedVerif.Gen.TypeTables.requiredArgsOk "Tuple" items.length then (.raisedPed, m) else
       (match v with
        | .tuple xs => if xs.length != items.length then (.ok false, m) else zipInst env items xs m
        | _ => (.ok false, m))) := by
  cases v <;> simp [isInst, dispatch_same]
@[tvEq] theorem isInst_union (env : Env) (ms : List A) (v : Val) (m : TVMap) :
    isInst env (.union ms) v m =
      (match membersInst env ms v m with
       | (.ok true, m') => (.ok true, m')
       | (.ok false, m') => unionTVs env (tvMembers ms) v m m'
       | r => r) := by
  simp only [isInst, dispatch_same]
  rcases membersInst env ms v m with ⟨r, m'⟩
  cases r with
  | ok b => cases b <;> rfl
  | _ => rfl
@[tvEq] theorem zipInst_cons (env : Env) (a : A) (as : List A) (x : Val) (xs : List Val) (m : TVMap) :
    zipInst env (a :: as) (x :: xs) m = (match isInst env a x m with
      | (.ok true, m') => zipInst env as xs m'
      | r => r) := by
  simp only [zipInst, tuplePass, passNext]
  rcases isInst env a x m with ⟨r, m'⟩
  cases r with
  | ok b => cases b <;> rfl
  | _ => rfl
@[tvEq] theorem zipInst_nil (env : Env) (xs : List Val) (m : TVMap) : zipInst env [] xs m = (.ok true, m) := by simp [zipInst]
@[tvEq] theorem zipInst_nil' (env : Env) (as : List A) (m : TVMap) : zipInst env as [] m = (.ok true, m) := by cases as <;> simp [zipInst]
@[tvEq] theorem membersInst_nil (env : Env) (v : Val) (m : TVMap) : membersInst env [] v m = (.ok false, m) := by simp [membersInst]
@[tvEq] theorem membersInst_cons (env : Env) (a : A) (rest : List A) (v : Val) (m : TVMap) :
    membersInst env (a :: rest) v m =
      (if a.isTV then membersInst env rest v m else
       match isInst env a v m with
       | (.ok b, m') => (match membersInst env rest v m' with
           | (.ok b', m'') => (.ok (b || b'), m'')
           | r => r)
       | r => r) := by
  simp only [membersInst, unionMembersPass, unionMembersEager, passNext, Bool.not_true, Bool.and_false, Bool.false_eq_true, ↓reduceIte]
  split
  · rfl
  · rcases isInst env a v m with ⟨r, m'⟩
    cases r <;> rfl

/-! ### induction over annotations (nested through `List A`) -/

theorem A.ind {P : A → Prop} {PL : List A → Prop}
    (cls : ∀ c, P (.cls c)) (any : P .any) (tv : ∀ t, P (.tv t))
    (listOf : ∀ a, P a → P (.listOf a)) (dictOf : ∀ k w, P k → P w → P (.dictOf k w))
    (tupleOf : ∀ items, PL items → P (.tupleOf items)) (tupleVar : ∀ a, P a → P (.tupleVar a))
    (union : ∀ ms, PL ms → P (.union ms)) (typeOf : ∀ a, P a → P (.typeOf a))
    (nil : PL []) (cons : ∀ a as, P a → PL as → PL (a :: as)) : ∀ a, P a :=
  fun a => A.rec (motive_1 := P) (motive_2 := PL) cls any tv listOf dictOf tupleOf tupleVar union typeOf nil cons a

theorem A.indL {P : A → Prop} {PL : List A → Prop}
    (cls : ∀ c, P (.cls c)) (any : P .any) (tv : ∀ t, P (.tv t))
    (listOf : ∀ a, P a → P (.listOf a)) (dictOf : ∀ k w, P k → P w → P (.dictOf k w))
    (tupleOf : ∀ items, PL items → P (.tupleOf items)) (tupleVar : ∀ a, P a → P (.tupleVar a))
    (union : ∀ ms, PL ms → P (.union ms)) (typeOf : ∀ a, P a → P (.typeOf a))
    (nil : PL []) (cons : ∀ a as, P a → PL as → PL (a :: as)) : ∀ l, PL l := by
  intro l
  induction l with
  | nil => exact nil
  | cons a as ih => exact cons a as (A.ind cls any tv listOf dictOf tupleOf tupleVar union typeOf nil cons a) ih

/-! ### binding maps -/

theorem get?_set (m : TVMap) (t t' : TVId) (b : TBind) :
    (m.set t b).get? t' = if t' = t then some b else m.get? t' := by
  induction m with
  | nil =>
    simp only [TVMap.set, TVMap.get?]
    by_cases h : t' = t
    · subst h; simp
    · have : (t == t') = false := by simp; exact fun h' => h h'.symm
      simp [this, h]
  | cons kv rest ih =>
    obtain ⟨k, x⟩ := kv
    simp only [TVMap.set]
    by_cases hk : k = t
    · subst hk
      simp only [beq_self_eq_true, ↓reduceIte, TVMap.get?]
      by_cases h : t' = k
      · subst h; simp
      · have h1 : (k == t') = false := by simp; exact fun h' => h h'.symm
        simp [h1, h]
    · have hk' : (k == t) = false := by simp [hk]
      simp only [hk', Bool.false_eq_true, ↓reduceIte, TVMap.get?]
      by_cases h1 : k = t'
      · subst h1
        simp [hk]
      · have h1' : (k == t') = false := by simp [h1]
        simp only [h1', Bool.false_eq_true, ↓reduceIte]
        exact ih

theorem get?_set_self (m : TVMap) (t : TVId) (b : TBind) : (m.set t b).get? t = some b := by
  rw [get?_set]; simp

theorem get?_set_ne (m : TVMap) {t t' : TVId} (b : TBind) (h : t' ≠ t) : (m.set t b).get? t' = m.get? t' := by
  rw [get?_set]; simp [h]

/-! ### the TypeVar branch: decision first, update second -/

/-- the tests that do not look at the binding dict: constraints, then the bound (`.ok true` = passed) -/
def tvPre (env : Env) (t : TVId) (v : Val) : R :=
  if !(env.tv t).constraints.isEmpty && !(env.tv t).constraints.contains (v.typeOf env) then .ok false else
  match (env.tv t).bound with
  | some b => if (env.tv t).boundFwd then clsAnn env b v else .ok (env.sub (v.typeOf env) b)
  | none => .ok true

/-- comparison with the stored binding -/
def tvCmp (env : Env) (t : TVId) (other : TBind) (v : Val) : R :=
  if (env.tv t).variance == .contra then contraCheck env other v else
  match other with
  | .cls c => .ok (env.sub (v.typeOf env) c)
  | .any => .ok true
  | a => closedInst env a v

def tvSem (env : Env) (t : TVId) (v : Val) (m : TVMap) : R × TVMap :=
  match tvPre env t v with
  | .ok true =>
      (match m.get? t with
       | none => (.ok true, m.set t (.cls (v.typeOf env)))
       | some other =>
          (match tvCmp env t other v with
           | .ok true => (.ok true, m)
           | .ok false => (.raisedTV, m)
           | r => (r, m)))
  | r => (r, m)

/-- the previously-bound statement followed by the binding statement, as generated -/
theorem tvTail_eq (env : Env) (t : TVId) (v : Val) (m : TVMap) :
    tvRun env (env.tv t) t v [.prevBound, .bind] m =
      (match m.get? t with
       | none => (.ok true, m.set t (.cls (v.typeOf env)))
       | some other =>
          (match tvCmp env t other v with
           | .ok true => (.ok true, m)
           | .ok false => (.raisedTV, m)
           | r => (r, m))) := by
  simp only [tvRun, tvArm, tvCmp, varianceDispatch, covIsinstanceForClass, anyCountsAsClass, mismatchRaisesTypeVarMismatch,
    bindOnlyWhenUnbound, covCheck, Bool.true_and, Bool.and_false, ↓reduceIte, Bool.false_eq_true]
  cases hm : m.get? t with
  | none => simp [hm]
  | some other =>
    simp only
    by_cases hv : ((env.tv t).variance == Variance.contra) = true
    · simp only [hv, ↓reduceIte]
      cases hcc : contraCheck env other v with
      | ok b => cases b <;> simp [hm]
      | _ => simp
    · have hv' : ((env.tv t).variance == Variance.contra) = false := by simpa using hv
      simp only [hv', Bool.false_eq_true, ↓reduceIte]
      cases other with
      | cls c => cases hs : env.sub (v.typeOf env) c <;> simp [hm, hs]
      | any => simp [hm]
      | listOf a => simp only; cases closedInst env (.listOf a) v with | ok b => cases b <;> simp [hm] | _ => simp
      | dictOf k w => simp only; cases closedInst env (.dictOf k w) v with | ok b => cases b <;> simp [hm] | _ => simp
      | tupleOf items => simp only; cases closedInst env (.tupleOf items) v with | ok b => cases b <;> simp [hm] | _ => simp
      | tupleVar a => simp only; cases closedInst env (.tupleVar a) v with | ok b => cases b <;> simp [hm] | _ => simp
      | union ms => simp only; cases closedInst env (.union ms) v with | ok b => cases b <;> simp [hm] | _ => simp
      | typeOf a => simp only; cases closedInst env (.typeOf a) v with | ok b => cases b <;> simp [hm] | _ => simp
      | tv t' => simp only; cases closedInst env (.tv t') v with | ok b => cases b <;> simp [hm] | _ => simp

/-- the generated statement list of the TypeVar branch computes `tvSem`.  Every clause theorem goes through this
    lemma: reordering the tests, dropping one, rebinding unconditionally, comparing a class binding with `_is_instance`,
    sending `Any` down the `isinstance` path or returning from the forward-reference arm breaks it. -/
theorem tvBranch_eq (env : Env) (t : TVId) (v : Val) (m : TVMap) : tvBranch env t v m = tvSem env t v m := by
  have tail := tvTail_eq env t v m
  unfold tvBranch tvSem tvPre
  simp only [tvArms]
  simp only [tvRun, tvArm, inConstraints, constraintsExactClass, ↓reduceIte] at tail ⊢
  by_cases hc : (!(env.tv t).constraints.isEmpty && !(env.tv t).constraints.contains (v.typeOf env)) = true
  · simp only [hc, ↓reduceIte]
  · simp only [hc, Bool.false_eq_true, ↓reduceIte]
    cases hb : (env.tv t).bound with
    | none => simp only; exact tail
    | some b =>
      simp only
      by_cases hf : (env.tv t).boundFwd = true
      · simp only [hf, ↓reduceIte, Bool.not_true, Bool.false_and, Bool.false_eq_true]
        cases hca : clsAnn env b v with
        | ok bb =>
          cases bb with
          | false => simp
          | true => simp only; exact tail
        | _ => simp
      · have hf' : (env.tv t).boundFwd = false := by simpa using hf
        simp only [hf', Bool.false_eq_true, ↓reduceIte, Bool.not_false, Bool.true_and]
        cases hs : env.sub (v.typeOf env) b with
        | false => simp
        | true => simp only [Bool.not_true, Bool.false_eq_true, ↓reduceIte]; exact tail

/-! ### frame lemma: a check looks only at the bindings of the TypeVars that occur in its annotation -/

def AgreeOn (ks : List TVId) (m₁ m₂ : TVMap) : Prop := ∀ t ∈ ks, m₁.get? t = m₂.get? t

mutual
/-- every TypeVar the check can read or bind is in `ks` (`Type[T]` never looks at `T`) -/
def tvsIn (ks : List TVId) : A → Bool
  | .tv t => ks.contains t
  | .cls _ => true
  | .any => true
  | .listOf a => tvsIn ks a
  | .dictOf k w => tvsIn ks k && tvsIn ks w
  | .tupleOf items => tvsInL ks items
  | .tupleVar a => tvsIn ks a
  | .union ms => tvsInL ks ms
  | .typeOf _ => true
def tvsInL (ks : List TVId) : List A → Bool
  | [] => true
  | a :: as => tvsIn ks a && tvsInL ks as
end

/-- a state transformer whose verdict depends only on the bindings of `ks`, and which keeps agreement on `ks` -/
def FrameM (ks : List TVId) (g : TVMap → R × TVMap) : Prop :=
  ∀ m₁ m₂, AgreeOn ks m₁ m₂ → (g m₁).1 = (g m₂).1 ∧ AgreeOn ks (g m₁).2 (g m₂).2

theorem agree_set {ks : List TVId} {m₁ m₂ : TVMap} (h : AgreeOn ks m₁ m₂) (t : TVId) (b : TBind) :
    AgreeOn ks (m₁.set t b) (m₂.set t b) := by
  intro t' ht'
  rw [get?_set, get?_set]
  split
  · rfl
  · exact h t' ht'

theorem tvSem_frame (env : Env) (ks : List TVId) (t : TVId) (ht : t ∈ ks) (v : Val) : FrameM ks (tvSem env t v) := by
  intro m₁ m₂ h
  unfold tvSem
  rw [h t ht]
  cases tvPre env t v with
  | ok b =>
    cases b with
    | false => exact ⟨rfl, h⟩
    | true =>
      simp only
      cases m₂.get? t with
      | none => exact ⟨rfl, agree_set h _ _⟩
      | some other =>
        simp only
        cases tvCmp env t other v with
        | ok b => cases b <;> exact ⟨rfl, h⟩
        | _ => exact ⟨rfl, h⟩
  | _ => exact ⟨rfl, h⟩

theorem tvBranch_frame (env : Env) (ks : List TVId) (t : TVId) (ht : t ∈ ks) (v : Val) : FrameM ks (tvBranch env t v) := by
  intro m₁ m₂ h
  rw [tvBranch_eq, tvBranch_eq]
  exact tvSem_frame env ks t ht v m₁ m₂ h

theorem allWith_frame (ks : List TVId) (f : Val → TVMap → R × TVMap) (hf : ∀ x, FrameM ks (f x)) :
    ∀ xs, FrameM ks (allWith f xs) := by
  intro xs
  induction xs with
  | nil => intro m₁ m₂ h; exact ⟨rfl, h⟩
  | cons x xs ih =>
    intro m₁ m₂ h
    have hx := hf x m₁ m₂ h
    simp only [allWith]
    rcases h1 : f x m₁ with ⟨r1, a1⟩
    rcases h2 : f x m₂ with ⟨r2, a2⟩
    rw [h1, h2] at hx
    simp only at hx
    obtain ⟨hr, ha⟩ := hx
    subst hr
    cases r1 with
    | ok b =>
      cases b with
      | true => exact ih a1 a2 ha
      | false => exact ⟨rfl, ha⟩
    | _ => exact ⟨rfl, ha⟩

theorem pairsWith_frame (ks : List TVId) (fk fw : Val → TVMap → R × TVMap) (hk : ∀ x, FrameM ks (fk x)) (hw : ∀ x, FrameM ks (fw x)) :
    ∀ kvs, FrameM ks (pairsWith fk fw kvs) := by
  intro kvs
  induction kvs with
  | nil => intro m₁ m₂ h; exact ⟨rfl, h⟩
  | cons kv rest ih =>
    obtain ⟨x, y⟩ := kv
    intro m₁ m₂ h
    have hx := hk x m₁ m₂ h
    simp only [pairsWith]
    rcases h1 : fk x m₁ with ⟨r1, a1⟩
    rcases h2 : fk x m₂ with ⟨r2, a2⟩
    rw [h1, h2] at hx
    simp only at hx
    obtain ⟨hr, ha⟩ := hx
    subst hr
    cases r1 with
    | ok b =>
      cases b with
      | true =>
        simp only
        have hy := hw y a1 a2 ha
        rcases h3 : fw y a1 with ⟨r3, a3⟩
        rcases h4 : fw y a2 with ⟨r4, a4⟩
        rw [h3, h4] at hy
        simp only at hy
        obtain ⟨hr', ha'⟩ := hy
        subst hr'
        cases r3 with
        | ok b =>
          cases b with
          | true => exact ih a3 a4 ha'
          | false => exact ⟨rfl, ha'⟩
        | _ => exact ⟨rfl, ha'⟩
      | false => exact ⟨rfl, ha⟩
    | _ => exact ⟨rfl, ha⟩

theorem tryBounded_frame (env : Env) (ks : List TVId) (v : Val) :
    ∀ (ts : List TVId), (∀ t ∈ ts, t ∈ ks) → ∀ m₁ m₂, AgreeOn ks m₁ m₂ →
      (tryBounded env ts v m₁).1 = (tryBounded env ts v m₂).1 ∧ AgreeOn ks (tryBounded env ts v m₁).2 (tryBounded env ts v m₂).2 := by
  intro ts
  induction ts with
  | nil => intro _ m₁ m₂ h; exact ⟨rfl, h⟩
  | cons t ts ih =>
    intro hts m₁ m₂ h
    have hf := tvBranch_frame env ks t (hts t (by simp)) v m₁ m₂ h
    simp only [tryBounded]
    rcases h1 : tvBranch env t v m₁ with ⟨r1, a1⟩
    rcases h2 : tvBranch env t v m₂ with ⟨r2, a2⟩
    rw [h1, h2] at hf
    simp only at hf
    obtain ⟨hr, ha⟩ := hf
    subst hr
    have ih' := ih (fun t ht => hts t (by simp [ht])) a1 a2 ha
    cases r1 with
    | ok b =>
      cases b with
      | true => exact ⟨rfl, ha⟩
      | false => simp only; split; exact ih'; exact ⟨rfl, ha⟩
    | raisedTV => simp only; split; exact ih'; exact ⟨rfl, ha⟩
    | raisedPed => simp only; split; exact ih'; exact ⟨rfl, ha⟩
    | raisedOther => simp only; split; exact ih'; exact ⟨rfl, ha⟩

theorem filter_congr' {α} (p q : α → Bool) (l : List α) (h : ∀ x ∈ l, p x = q x) : l.filter p = l.filter q := by
  induction l with
  | nil => rfl
  | cons x xs ih =>
    simp only [List.filter_cons, h x (by simp)]
    rw [ih (fun y hy => h y (by simp [hy]))]

/-- `m0`/`n0`: the dicts at entry of `_check_union` (they decide the bounded / unbounded split) -/
theorem unionTVs_frame (env : Env) (ks : List TVId) (tvs : List TVId) (hin : ∀ t ∈ tvs, t ∈ ks) (v : Val)
    (m0 n0 m n : TVMap) (h0 : AgreeOn ks m0 n0) (h : AgreeOn ks m n) :
    (unionTVs env tvs v m0 m).1 = (unionTVs env tvs v n0 n).1 ∧ AgreeOn ks (unionTVs env tvs v m0 m).2 (unionTVs env tvs v n0 n).2 := by
  unfold unionTVs
  have hb : tvs.filter (fun t => (m0.get? t).isSome) = tvs.filter (fun t => (n0.get? t).isSome) :=
    filter_congr' _ _ _ (fun t ht => by rw [h0 t (hin t ht)])
  simp only [hb]
  have hbin : ∀ t ∈ tvs.filter (fun t => (n0.get? t).isSome), t ∈ ks := fun t ht => hin t (List.mem_filter.mp ht).1
  have htb := tryBounded_frame env ks v _ hbin m n h
  rcases h1 : tryBounded env (tvs.filter (fun t => (n0.get? t).isSome)) v m with ⟨o1, a1⟩
  rcases h2 : tryBounded env (tvs.filter (fun t => (n0.get? t).isSome)) v n with ⟨o2, a2⟩
  rw [h1, h2] at htb
  simp only at htb
  obtain ⟨ho, ha⟩ := htb
  subst ho
  cases o1 with
  | some r => exact ⟨rfl, ha⟩
  | none =>
    simp only
    cases hl : tvs.filter (fun t => !(tvs.filter (fun t => (n0.get? t).isSome)).contains t) with
    | nil => exact ⟨rfl, ha⟩
    | cons t rest =>
      cases rest with
      | nil =>
        have : t ∈ ks := by
          have : t ∈ tvs.filter (fun t => !(tvs.filter (fun t => (n0.get? t).isSome)).contains t) := by rw [hl]; simp
          exact hin t (List.mem_filter.mp this).1
        simp only
        split
        · exact tvBranch_frame env ks t this v a1 a2 ha
        · exact ⟨rfl, ha⟩
      | cons _ _ => exact ⟨rfl, ha⟩

theorem tvMembers_in {ks : List TVId} : ∀ {ms : List A}, tvsInL ks ms = true → ∀ t ∈ tvMembers ms, t ∈ ks := by
  intro ms
  induction ms with
  | nil => intro _ t ht; simp [tvMembers] at ht
  | cons a as ih =>
    intro h t ht
    simp only [tvsInL, Bool.and_eq_true] at h
    cases a with
    | tv t' =>
      simp only [tvMembers, List.mem_cons] at ht
      rcases ht with rfl | ht
      · simpa [tvsIn] using h.1
      · exact ih h.2 t ht
    | _ => simp only [tvMembers] at ht; exact ih h.2 t ht

/-- **frame lemma** -/
theorem isInst_frame (env : Env) (ks : List TVId) : ∀ a, tvsIn ks a = true → ∀ v, FrameM ks (isInst env a v) := by
  apply A.ind (P := fun a => tvsIn ks a = true → ∀ v, FrameM ks (isInst env a v))
    (PL := fun l => tvsInL ks l = true → (∀ xs, FrameM ks (zipInst env l xs)) ∧ (∀ v, FrameM ks (membersInst env l v)))
  · intro c _ v m₁ m₂ h; simp only [tvEq]; exact ⟨trivial, h⟩
  · intro _ v m₁ m₂ h; simp only [tvEq]; exact ⟨trivial, h⟩
  · intro t ht v m₁ m₂ h
    simp only [tvEq]
    exact tvBranch_frame env ks t (by simpa [tvsIn] using ht) v m₁ m₂ h
  · intro a ih ha v m₁ m₂ h
    simp only [tvEq]
    cases v with
    | list xs => exact allWith_frame ks _ (ih (by simpa [tvsIn] using ha)) xs m₁ m₂ h
    | _ => exact ⟨rfl, h⟩
  · intro k w ihk ihw ha v m₁ m₂ h
    simp only [tvsIn, Bool.and_eq_true] at ha
    simp only [tvEq]
    cases v with
    | dict kvs => exact pairsWith_frame ks _ _ (ihk ha.1) (ihw ha.2) kvs m₁ m₂ h
    | _ => exact ⟨rfl, h⟩
  · intro items ih ha v m₁ m₂ h
    simp only [tvEq]
    split
    · exact ⟨rfl, h⟩
    · cases v with
      | tuple xs =>
        simp only
        split
        · exact ⟨rfl, h⟩
        · exact (ih (by simpa [tvsIn] using ha)).1 xs m₁ m₂ h
      | _ => exact ⟨rfl, h⟩
  · intro a ih ha v m₁ m₂ h
    simp only [tvEq]
    cases v with
    | tuple xs => exact allWith_frame ks _ (ih (by simpa [tvsIn] using ha)) xs m₁ m₂ h
    | _ => exact ⟨rfl, h⟩
  · intro ms ih ha v m₁ m₂ h
    have hms : tvsInL ks ms = true := by simpa [tvsIn] using ha
    have hm := (ih hms).2 v m₁ m₂ h
    simp only [tvEq]
    rcases h1 : membersInst env ms v m₁ with ⟨r1, a1⟩
    rcases h2 : membersInst env ms v m₂ with ⟨r2, a2⟩
    rw [h1, h2] at hm
    simp only at hm
    obtain ⟨hr, hag⟩ := hm
    subst hr
    cases r1 with
    | ok b =>
      cases b with
      | true => exact ⟨rfl, hag⟩
      | false => exact unionTVs_frame env ks _ (tvMembers_in hms) v m₁ m₂ a1 a2 h hag
    | _ => exact ⟨rfl, hag⟩
  · intro a _ _ v m₁ m₂ h; simp only [tvEq]; exact ⟨trivial, h⟩
  · intro _
    refine ⟨?_, ?_⟩
    · intro xs m₁ m₂ h; simp only [tvEq]; exact ⟨trivial, h⟩
    · intro v m₁ m₂ h; simp only [tvEq]; exact ⟨trivial, h⟩
  · intro a as iha ihas hl
    simp only [tvsInL, Bool.and_eq_true] at hl
    have ha := iha hl.1
    have has := ihas hl.2
    refine ⟨?_, ?_⟩
    · intro xs m₁ m₂ h
      cases xs with
      | nil => simp only [tvEq]; exact ⟨trivial, h⟩
      | cons x xs =>
        have hx := ha x m₁ m₂ h
        simp only [tvEq]
        rcases h1 : isInst env a x m₁ with ⟨r1, a1⟩
        rcases h2 : isInst env a x m₂ with ⟨r2, a2⟩
        rw [h1, h2] at hx
        simp only at hx
        obtain ⟨hr, hag⟩ := hx
        subst hr
        cases r1 with
        | ok b =>
          cases b with
          | true => exact has.1 xs a1 a2 hag
          | false => exact ⟨rfl, hag⟩
        | _ => exact ⟨rfl, hag⟩
    · intro v m₁ m₂ h
      simp only [tvEq]
      split
      · exact has.2 v m₁ m₂ h
      · have hx := ha v m₁ m₂ h
        rcases h1 : isInst env a v m₁ with ⟨r1, a1⟩
        rcases h2 : isInst env a v m₂ with ⟨r2, a2⟩
        rw [h1, h2] at hx
        simp only at hx
        obtain ⟨hr, hag⟩ := hx
        subst hr
        cases r1 with
        | ok b =>
          simp only
          have hrest := has.2 v a1 a2 hag
          rcases h3 : membersInst env as v a1 with ⟨r3, a3⟩
          rcases h4 : membersInst env as v a2 with ⟨r4, a4⟩
          rw [h3, h4] at hrest
          simp only at hrest
          obtain ⟨hr', hag'⟩ := hrest
          subst hr'
          cases r3 with
          | ok b' => exact ⟨rfl, hag'⟩
          | _ => exact ⟨rfl, hag'⟩
        | _ => exact ⟨rfl, hag⟩

/-! ### a value that meets a TypeVar with a forbidden class is not accepted, whatever the bindings are -/

mutual
/-- the value, or a part of it reached through List / Dict / Tuple / Optional, stands at a position annotated with a
    TypeVar `t` and its runtime class `c` satisfies `bad t c` -/
def meets (env : Env) (bad : TVId → ClsId → Bool) : A → Val → Bool
  | .tv t, v => bad t (v.typeOf env)
  | .cls _, _ => false
  | .any, _ => false
  | .listOf a, v => (match v with | .list xs => xs.any (meets env bad a) | _ => false)
  | .dictOf k w, v => (match v with | .dict kvs => kvs.any (fun kv => meets env bad k kv.1 || meets env bad w kv.2) | _ => false)
  | .tupleOf items, v => (match v with | .tuple xs => meetsZip env bad items xs | _ => false)
  | .tupleVar a, v => (match v with | .tuple xs => xs.any (meets env bad a) | _ => false)
  | .union ms, v => meetsOpt env bad ms v
  | .typeOf _, _ => false
def meetsZip (env : Env) (bad : TVId → ClsId → Bool) : List A → List Val → Bool
  | a :: as, x :: xs => meets env bad a x || meetsZip env bad as xs
  | _, _ => false
/-- `Optional[a]` = `Union[a, None]`: a value that is not None stands at `a` -/
def meetsOpt (env : Env) (bad : TVId → ClsId → Bool) : List A → Val → Bool
  | [a, .cls n], v => n == env.noneCls && v.typeOf env != env.noneCls && meets env bad a v
  | _, _ => false
end

theorem allWith_not_true (f : Val → TVMap → R × TVMap) : ∀ (xs : List Val),
    (∃ x ∈ xs, ∀ m, (f x m).1 ≠ .ok true) → ∀ m, (allWith f xs m).1 ≠ .ok true := by
  intro xs
  induction xs with
  | nil => intro ⟨x, hx, _⟩; simp at hx
  | cons x0 rest ih =>
    intro ⟨x, hx, hbad⟩ m
    simp only [allWith]
    rcases h0 : f x0 m with ⟨r0, m0⟩
    cases r0 with
    | ok b =>
      cases b with
      | true =>
        simp only
        simp only [List.mem_cons] at hx
        rcases hx with rfl | hx
        · have := hbad m; rw [h0] at this; simp at this
        · exact ih ⟨x, hx, hbad⟩ m0
      | false => simp
    | _ => simp

theorem pairsWith_not_true (fk fw : Val → TVMap → R × TVMap) : ∀ (kvs : List (Val × Val)),
    (∃ kv ∈ kvs, (∀ m, (fk kv.1 m).1 ≠ .ok true) ∨ (∀ m, (fw kv.2 m).1 ≠ .ok true)) → ∀ m, (pairsWith fk fw kvs m).1 ≠ .ok true := by
  intro kvs
  induction kvs with
  | nil => intro ⟨x, hx, _⟩; simp at hx
  | cons kv0 rest ih =>
    obtain ⟨x0, y0⟩ := kv0
    intro ⟨kv, hkv, hbad⟩ m
    simp only [pairsWith]
    rcases h0 : fk x0 m with ⟨r0, m0⟩
    cases r0 with
    | ok b =>
      cases b with
      | true =>
        simp only
        rcases h1 : fw y0 m0 with ⟨r1, m1⟩
        cases r1 with
        | ok b =>
          cases b with
          | true =>
            simp only
            simp only [List.mem_cons] at hkv
            rcases hkv with rfl | hkv
            · rcases hbad with hb | hb
              · have := hb m; rw [h0] at this; simp at this
              · have := hb m0; rw [h1] at this; simp at this
            · exact ih ⟨kv, hkv, hbad⟩ m1
          | false => simp
        | _ => simp
      | false => simp
    | _ => simp

/-- what the union part needs from the environment: only `None` is an instance of `NoneType` -/
def NoneOnly (env : Env) : Prop := ∀ c, c ≠ env.noneCls → env.sub c env.noneCls = false

theorem swallowed_or_not (r : R) : swallows r = true ∨ swallows r = false := by
  cases swallows r <;> simp

/-- `Union[T, None]` with a value that is not None and that the TypeVar branch does not accept: not accepted -/
theorem optionalTV_not_true (env : Env) (hn : NoneOnly env) (t : TVId) (n : ClsId) (hnn : n = env.noneCls) (v : Val)
    (hv : v.typeOf env ≠ env.noneCls) (hbad : ∀ m, (tvBranch env t v m).1 ≠ .ok true) (m : TVMap) :
    (isInst env (.union [.tv t, .cls n]) v m).1 ≠ .ok true := by
  subst hnn
  have hsub : env.sub (v.typeOf env) env.noneCls = false := hn _ hv
  simp only [tvEq, tvEq, A.isTV, ↓reduceIte, Bool.false_eq_true, clsAnn, tvMembers]
  by_cases hb : env.bareBuiltin env.noneCls = true
  · simp [hb]
  · simp only [hb, Bool.false_eq_true, ↓reduceIte, hsub, Bool.or_self]
    simp only [unionTVs, List.filter_cons, List.filter_nil]
    cases hg : (m.get? t).isSome with
    | true =>
      simp only [↓reduceIte, List.contains_cons, beq_self_eq_true, List.contains_nil, Bool.or_false, Bool.not_true, Bool.false_eq_true,
        tryBounded]
      have := hbad m
      rcases hr : tvBranch env t v m with ⟨r, m'⟩
      rw [hr] at this
      cases r with
      | ok b =>
        cases b with
        | true => simp at this
        | false => simp [unionBoundedTestsVerdict, unionNoUnboundRejects]
      | raisedTV => rcases swallowed_or_not .raisedTV with h | h <;> simp [h, unionNoUnboundRejects]
      | raisedPed => rcases swallowed_or_not .raisedPed with h | h <;> simp [h, unionNoUnboundRejects]
      | raisedOther => rcases swallowed_or_not .raisedOther with h | h <;> simp [h, unionNoUnboundRejects]
    | false =>
      simp only [Bool.false_eq_true, ↓reduceIte, List.contains_nil, Bool.not_false, tryBounded, unionSingleUnboundChecked]
      exact hbad m

theorem isTV_cls (n : ClsId) : (A.cls n).isTV = false := rfl

theorem isInst_none_member (env : Env) (n : ClsId) (v : Val) (m : TVMap) :
    isInst env (.cls n) v m = (clsAnn env n v, m) := by simp [tvEq]

/-- `Union[a, None]`, `a` not a TypeVar, with a value that is not None and that `a` does not accept: not accepted -/
theorem optionalNonTV_not_true (env : Env) (hn : NoneOnly env) (a : A) (ha : a.isTV = false) (n : ClsId) (hnn : n = env.noneCls) (v : Val)
    (hv : v.typeOf env ≠ env.noneCls) (hbad : ∀ m, (isInst env a v m).1 ≠ .ok true) (m : TVMap) :
    (isInst env (.union [a, .cls n]) v m).1 ≠ .ok true := by
  subst hnn
  have hsub : env.sub (v.typeOf env) env.noneCls = false := hn _ hv
  have htv : tvMembers [a, .cls env.noneCls] = [] := by
    cases a <;> simp_all [tvMembers, A.isTV]
  simp only [tvEq, tvEq, ha, isTV_cls, ↓reduceIte, Bool.false_eq_true, clsAnn, htv]
  have := hbad m
  rcases hr : isInst env a v m with ⟨r, m'⟩
  rw [hr] at this
  cases r with
  | ok b =>
    cases b with
    | true => simp at this
    | false =>
      by_cases hb : env.bareBuiltin env.noneCls = true
      · simp [hb]
      · simp [hb, hsub, unionTVs, tryBounded, unionNoUnboundRejects]
  | _ => simp

/-- if the TypeVar branch never accepts a class with `bad t c`, then no value that meets such a position is accepted,
    with whatever bindings the check starts -/
theorem meets_not_true (env : Env) (hn : NoneOnly env) (bad : TVId → ClsId → Bool)
    (hbad : ∀ t v, bad t (v.typeOf env) = true → ∀ m, (tvBranch env t v m).1 ≠ .ok true) :
    ∀ a v, meets env bad a v = true → ∀ m, (isInst env a v m).1 ≠ .ok true := by
  apply A.ind (P := fun a => ∀ v, meets env bad a v = true → ∀ m, (isInst env a v m).1 ≠ .ok true)
    (PL := fun l => (∀ a ∈ l, ∀ v, meets env bad a v = true → ∀ m, (isInst env a v m).1 ≠ .ok true) ∧
                    (∀ xs, meetsZip env bad l xs = true → ∀ m, (zipInst env l xs m).1 ≠ .ok true))
  · intro c v h; simp [meets] at h
  · intro v h; simp [meets] at h
  · intro t v h m; simp only [tvEq]; exact hbad t v (by simpa [meets] using h) m
  · intro a ih v h m
    cases v with
    | list xs =>
      simp only [meets, List.any_eq_true] at h
      obtain ⟨x, hx, hm⟩ := h
      simp only [tvEq]
      exact allWith_not_true _ xs ⟨x, hx, ih x hm⟩ m
    | _ => simp [meets] at h
  · intro k w ihk ihw v h m
    cases v with
    | dict kvs =>
      simp only [meets, List.any_eq_true, Bool.or_eq_true] at h
      obtain ⟨kv, hkv, hm⟩ := h
      simp only [tvEq]
      refine pairsWith_not_true _ _ kvs ⟨kv, hkv, ?_⟩ m
      rcases hm with hm | hm
      · exact Or.inl (ihk kv.1 hm)
      · exact Or.inr (ihw kv.2 hm)
    | _ => simp [meets] at h
  · intro items ih v h m
    cases v with
    | tuple xs =>
      simp only [meets] at h
      simp only [tvEq]
      split
      · simp
      · split
        · simp
        · exact ih.2 xs h m
    | _ => simp [meets] at h
  · intro a ih v h m
    cases v with
    | tuple xs =>
      simp only [meets, List.any_eq_true] at h
      obtain ⟨x, hx, hm⟩ := h
      simp only [tvEq]
      exact allWith_not_true _ xs ⟨x, hx, ih x hm⟩ m
    | _ => simp [meets] at h
  · intro ms ih v h m
    simp only [meets] at h
    match ms, h, ih with
    | [a, .cls n], h, ih =>
      simp only [meetsOpt, Bool.and_eq_true, beq_iff_eq, bne_iff_ne, ne_eq] at h
      obtain ⟨⟨hnn, hv⟩, hm⟩ := h
      have iha := ih.1 a (by simp) v hm
      by_cases htv : a.isTV = true
      · cases a with
        | tv t => exact optionalTV_not_true env hn t n hnn v hv (fun m => by simpa [tvEq] using iha m) m
        | _ => simp [A.isTV] at htv
      · exact optionalNonTV_not_true env hn a (by simpa using htv) n hnn v hv iha m
  · intro a _ v h; simp [meets] at h
  · exact ⟨by intro a ha; simp at ha, by intro xs h; simp [meetsZip] at h⟩
  · intro a as iha ihas
    refine ⟨?_, ?_⟩
    · intro b hb
      simp only [List.mem_cons] at hb
      rcases hb with rfl | hb
      · exact iha
      · exact ihas.1 b hb
    · intro xs h m
      cases xs with
      | nil => simp [meetsZip] at h
      | cons x xs =>
        simp only [meetsZip, Bool.or_eq_true] at h
        simp only [tvEq]
        rcases h0 : isInst env a x m with ⟨r0, m0⟩
        cases r0 with
        | ok b =>
          cases b with
          | true =>
            simp only
            rcases h with h | h
            · have := iha x h m; rw [h0] at this; simp at this
            · exact ihas.2 xs h m0
          | false => simp
        | _ => simp

/-! ### the vocabulary of the clause theorems, and TypeVar-free annotations -/

open Spec in
/-- assumptions on the class table: issubclass is reflexive, only `None` is an instance of `NoneType`, `NoneType` is not
    one of the container classes, and no TypeVar is bound by a bare builtin container -/
structure EnvWF (env : Env) : Prop where
  refl : ∀ c, env.sub c c = true
  noneOnly : NoneOnly env
  noneNotBare : env.bareBuiltin env.noneCls = false
  listNotNone : env.listCls ≠ env.noneCls
  dictNotNone : env.dictCls ≠ env.noneCls
  tupleNotNone : env.tupleCls ≠ env.noneCls
  typeNotNone : env.typeCls ≠ env.noneCls
  boundNotBare : ∀ t b, (env.tv t).bound = some b → env.bareBuiltin b = false

def A.isUnion : A → Bool
  | .union _ => true
  | _ => false

mutual
/-- annotation vocabulary of the clause theorems: classes other than the bare builtin containers, `Any`, TypeVars,
    `List` / `Dict` / non-empty `Tuple` / `Tuple[x, ...]`, TypeVar-free unions, and `Optional[a]` (spelled `[a, None]`,
    `a` not a union).  `Type[...]` is outside. -/
def frag (env : Env) : A → Bool
  | .cls c => !env.bareBuiltin c
  | .any => true
  | .tv _ => true
  | .listOf a => frag env a
  | .dictOf k w => frag env k && frag env w
  | .tupleOf items => !items.isEmpty && fragL env items
  | .tupleVar a => frag env a
  | .union ms => (Spec.closedL ms || fragOpt env ms) && fragL env ms
  | .typeOf _ => false
def fragL (env : Env) : List A → Bool
  | [] => true
  | a :: as => frag env a && fragL env as
def fragOpt (env : Env) : List A → Bool
  | [a, .cls n] => n == env.noneCls && !a.isUnion
  | _ => false
end

theorem tuple_args_ok (n : Nat) : PedVerif.Gen.TypeTables.requiredArgsOk "Tuple" n = decide (1 ≤ n) := by
  simp [PedVerif.Gen.TypeTables.requiredArgsOk, PedVerif.Gen.TypeTables.lookup, PedVerif.Gen.TypeTables.requiredExact,
    PedVerif.Gen.TypeTables.requiredMin]

theorem tuple_args_ok' {α} (items : List α) (h : items.isEmpty = false) :
    (!PedVerif.Gen.TypeTables.requiredArgsOk "Tuple" items.length) = false := by
  rw [tuple_args_ok]
  cases items with
  | nil => simp at h
  | cons a as => simp

theorem closedAllWith_ok (f : Val → R) (g : Val → Bool) (h : ∀ x, f x = .ok (g x)) : ∀ xs, closedAllWith f xs = .ok (xs.all g) := by
  intro xs
  induction xs with
  | nil => rfl
  | cons x xs ih =>
    simp only [closedAllWith, h x, List.all_cons]
    cases g x with
    | true => simpa using ih
    | false => simp

theorem closedPairsWith_ok (fk fw : Val → R) (gk gw : Val → Bool) (hk : ∀ x, fk x = .ok (gk x)) (hw : ∀ x, fw x = .ok (gw x)) :
    ∀ kvs, closedPairsWith fk fw kvs = .ok (kvs.all (fun kv => gk kv.1 && gw kv.2)) := by
  intro kvs
  induction kvs with
  | nil => rfl
  | cons kv rest ih =>
    obtain ⟨x, y⟩ := kv
    simp only [closedPairsWith, hk x, hw y, List.all_cons]
    cases gk x with
    | true =>
      cases gw y with
      | true => simpa using ih
      | false => simp
    | false => simp

/-- on a TypeVar-free annotation of the vocabulary the checker never raises and answers `conforms` -/
theorem closedInst_conforms (env : Env) : ∀ a, frag env a = true → Spec.closed a = true → ∀ v, closedInst env a v = .ok (Spec.conforms env a v) := by
  apply A.ind (P := fun a => frag env a = true → Spec.closed a = true → ∀ v, closedInst env a v = .ok (Spec.conforms env a v))
    (PL := fun l => fragL env l = true → Spec.closedL l = true →
      (∀ xs, closedZip env l xs = .ok (Spec.conformsZip env l xs)) ∧ (∀ v, closedAny env l v = .ok (Spec.conformsAny env l v)))
  · intro c hf _ v
    have : env.bareBuiltin c = false := by simpa [frag] using hf
    simp [closedInst, clsAnn, this, Spec.conforms]
  · intro _ _ v; simp [closedInst, Spec.conforms]
  · intro t _ hc; simp [Spec.closed] at hc
  · intro a ih hf hc v
    have iha := ih (by simpa [frag] using hf) (by simpa [Spec.closed] using hc)
    cases v with
    | list xs => simp only [closedInst, Spec.conforms]; exact closedAllWith_ok _ _ iha xs
    | _ => simp [closedInst, Spec.conforms]
  · intro k w ihk ihw hf hc v
    simp only [frag, Bool.and_eq_true] at hf
    simp only [Spec.closed, Bool.and_eq_true] at hc
    cases v with
    | dict kvs => simp only [closedInst, Spec.conforms]; exact closedPairsWith_ok _ _ _ _ (ihk hf.1 hc.1) (ihw hf.2 hc.2) kvs
    | _ => simp [closedInst, Spec.conforms]
  · intro items ih hf hc v
    simp only [frag, Bool.and_eq_true, Bool.not_eq_eq_eq_not, Bool.not_true] at hf
    have hz := (ih hf.2 (by simpa [Spec.closed] using hc)).1
    simp only [closedInst, tuple_args_ok' items hf.1, Bool.false_eq_true, ↓reduceIte]
    cases v with
    | tuple xs =>
      simp only [Spec.conforms, hz xs]
      by_cases hl : xs.length = items.length
      · simp [hl]
      · simp [hl]
    | _ => simp [Spec.conforms]
  · intro a ih hf hc v
    have iha := ih (by simpa [frag] using hf) (by simpa [Spec.closed] using hc)
    cases v with
    | tuple xs => simp only [closedInst, Spec.conforms]; exact closedAllWith_ok _ _ iha xs
    | _ => simp [closedInst, Spec.conforms]
  · intro ms ih hf hc v
    simp only [frag, Bool.and_eq_true] at hf
    simp only [closedInst, Spec.conforms]
    exact (ih hf.2 (by simpa [Spec.closed] using hc)).2 v
  · intro a _ hf; simp [frag] at hf
  · intro _ _
    exact ⟨by intro xs; simp [closedZip, Spec.conformsZip], by intro v; simp [closedAny, Spec.conformsAny]⟩
  · intro a as iha ihas hf hc
    simp only [fragL, Bool.and_eq_true] at hf
    simp only [Spec.closedL, Bool.and_eq_true] at hc
    have ha := iha hf.1 hc.1
    have has := ihas hf.2 hc.2
    refine ⟨?_, ?_⟩
    · intro xs
      cases xs with
      | nil => simp [closedZip, Spec.conformsZip]
      | cons x xs =>
        simp only [closedZip, ha x, Spec.conformsZip]
        cases Spec.conforms env a x with
        | true => simpa using has.1 xs
        | false => simp
    · intro v
      simp only [closedAny, ha v, has.2 v, Spec.conformsAny]

theorem allWith_pure (f : Val → R) (F : Val → TVMap → R × TVMap) (h : ∀ x m, F x m = (f x, m)) :
    ∀ xs m, allWith F xs m = (closedAllWith f xs, m) := by
  intro xs
  induction xs with
  | nil => intro m; rfl
  | cons x xs ih =>
    intro m
    simp only [allWith, closedAllWith, h x m]
    cases f x with
    | ok b => cases b with | true => exact ih m | false => rfl
    | _ => rfl

theorem pairsWith_pure (fk fw : Val → R) (Fk Fw : Val → TVMap → R × TVMap) (hk : ∀ x m, Fk x m = (fk x, m)) (hw : ∀ x m, Fw x m = (fw x, m)) :
    ∀ kvs m, pairsWith Fk Fw kvs m = (closedPairsWith fk fw kvs, m) := by
  intro kvs
  induction kvs with
  | nil => intro m; rfl
  | cons kv rest ih =>
    obtain ⟨x, y⟩ := kv
    intro m
    simp only [pairsWith, closedPairsWith, hk x m]
    cases fk x with
    | ok b =>
      cases b with
      | true =>
        simp only [hw y m]
        cases fw y with
        | ok b => cases b with | true => exact ih m | false => rfl
        | _ => rfl
      | false => rfl
    | _ => rfl

theorem closed_not_tv {a : A} (h : Spec.closed a = true) : a.isTV = false := by
  cases a <;> simp_all [Spec.closed, A.isTV]

theorem unionTVs_nil (env : Env) (v : Val) (m0 m : TVMap) : unionTVs env [] v m0 m = (.ok false, m) := by
  simp [unionTVs, tryBounded, unionNoUnboundRejects]

/-- on a TypeVar-free annotation the threaded checker is the TypeVar-free checker and leaves the dict alone -/
theorem isInst_closed (env : Env) : ∀ a, Spec.closed a = true → ∀ v m, isInst env a v m = (closedInst env a v, m) := by
  apply A.ind (P := fun a => Spec.closed a = true → ∀ v m, isInst env a v m = (closedInst env a v, m))
    (PL := fun l => Spec.closedL l = true →
      (∀ xs m, zipInst env l xs m = (closedZip env l xs, m)) ∧ (∀ v m, membersInst env l v m = (closedAny env l v, m)) ∧ tvMembers l = [])
  · intro c _ v m; simp [tvEq, closedInst]
  · intro _ v m; simp [tvEq, closedInst]
  · intro t hc; simp [Spec.closed] at hc
  · intro a ih hc v m
    have iha := ih (by simpa [Spec.closed] using hc)
    cases v with
    | list xs => simp only [tvEq, closedInst]; exact allWith_pure _ _ iha xs m
    | _ => simp [tvEq, closedInst]
  · intro k w ihk ihw hc v m
    simp only [Spec.closed, Bool.and_eq_true] at hc
    cases v with
    | dict kvs => simp only [tvEq, closedInst]; exact pairsWith_pure _ _ _ _ (ihk hc.1) (ihw hc.2) kvs m
    | _ => simp [tvEq, closedInst]
  · intro items ih hc v m
    have hz := (ih (by simpa [Spec.closed] using hc)).1
    simp only [tvEq, closedInst]
    split
    · rfl
    · cases v with
      | tuple xs =>
        simp only
        split
        · rfl
        · exact hz xs m
      | _ => rfl
  · intro a ih hc v m
    have iha := ih (by simpa [Spec.closed] using hc)
    cases v with
    | tuple xs => simp only [tvEq, closedInst]; exact allWith_pure _ _ iha xs m
    | _ => simp [tvEq, closedInst]
  · intro ms ih hc v m
    obtain ⟨_, hm, htv⟩ := ih (by simpa [Spec.closed] using hc)
    simp only [tvEq, closedInst, hm v m, htv, unionTVs_nil]
    cases closedAny env ms v with
    | ok b => cases b <;> rfl
    | _ => rfl
  · intro a _ _ v m; simp [tvEq, closedInst]
  · intro _
    exact ⟨by intro xs m; simp [tvEq, closedZip], by intro v m; simp [tvEq, closedAny], rfl⟩
  · intro a as iha ihas hc
    simp only [Spec.closedL, Bool.and_eq_true] at hc
    have ha := iha hc.1
    obtain ⟨hz, hm, htv⟩ := ihas hc.2
    refine ⟨?_, ?_, ?_⟩
    · intro xs m
      cases xs with
      | nil => simp [tvEq, closedZip]
      | cons x xs =>
        simp only [tvEq, closedZip, ha x m]
        cases closedInst env a x with
        | ok b => cases b with | true => exact hz xs m | false => rfl
        | _ => rfl
    · intro v m
      simp only [tvEq, closedAny, closed_not_tv hc.1, Bool.false_eq_true, ↓reduceIte, ha v m]
      cases closedInst env a v with
      | ok b =>
        simp only [hm v m]
        cases closedAny env as v with
        | ok b' => rfl
        | _ => rfl
      | _ => rfl
    · cases a <;> simp_all [tvMembers, Spec.closed]

theorem isInst_closed_conforms (env : Env) (a : A) (hf : frag env a = true) (hc : Spec.closed a = true) (v : Val) (m : TVMap) :
    isInst env a v m = (.ok (Spec.conforms env a v), m) := by
  rw [isInst_closed env a hc v m, closedInst_conforms env a hf hc v]

/-- a value whose class is NoneType is `None` -/
theorem none_is_inst (env : Env) (wf : EnvWF env) (v : Val) (h : v.typeOf env = env.noneCls) : v = .inst env.noneCls := by
  cases v with
  | inst c => simp only [Val.typeOf] at h; rw [h]
  | list _ => exact absurd h wf.listNotNone
  | dict _ => exact absurd h wf.dictNotNone
  | tuple _ => exact absurd h wf.tupleNotNone
  | clsObj _ => exact absurd h wf.typeNotNone

/-- `List[..]` / `Dict[..]` / `Tuple[..]` against `None`: False, no exception, the dict is not touched -/
theorem container_on_none (env : Env) (wf : EnvWF env) (x : A) (hf : frag env x = true) (hc : Spec.closed x = false)
    (hu : x.isUnion = false) (ht : x.isTV = false) (v : Val) (hv : v.typeOf env = env.noneCls) (m : TVMap) :
    isInst env x v m = (.ok false, m) := by
  rw [none_is_inst env wf v hv]
  cases x with
  | cls c => simp [Spec.closed] at hc
  | any => simp [Spec.closed] at hc
  | tv t => simp [A.isTV] at ht
  | listOf a => simp [tvEq]
  | dictOf k w => simp [tvEq]
  | tupleOf items =>
    simp only [frag, Bool.and_eq_true, Bool.not_eq_eq_eq_not, Bool.not_true] at hf
    simp [tvEq, tuple_args_ok' items hf.1]
  | tupleVar a => simp [tvEq]
  | union ms => simp [A.isUnion] at hu
  | typeOf a => simp [frag] at hf

theorem sub_none (env : Env) (wf : EnvWF env) (v : Val) : env.sub (v.typeOf env) env.noneCls = (v.typeOf env == env.noneCls) := by
  by_cases h : v.typeOf env = env.noneCls
  · rw [h]; simp [wf.refl]
  · rw [wf.noneOnly _ h]; simp [h]

/-! ### the per-call store refines the specification (simulation) -/

def keys (g : TVMap) : List TVId := g.map (·.1)

theorem get?_mem : ∀ (g : TVMap) (t : TVId) (X : TBind), g.get? t = some X → (t, X) ∈ g := by
  intro g
  induction g with
  | nil => intro t X h; simp [TVMap.get?] at h
  | cons kv rest ih =>
    obtain ⟨k, b⟩ := kv
    intro t X h
    simp only [TVMap.get?] at h
    by_cases hk : k = t
    · subst hk; simp at h; subst h; simp
    · have : (k == t) = false := by simp [hk]
      simp only [this, Bool.false_eq_true, ↓reduceIte] at h
      exact List.mem_cons_of_mem _ (ih t X h)

theorem get?_of_key : ∀ (g : TVMap) (t : TVId), t ∈ keys g → ∃ X, g.get? t = some X := by
  intro g
  induction g with
  | nil => intro t h; simp [keys] at h
  | cons kv rest ih =>
    obtain ⟨k, b⟩ := kv
    intro t h
    simp only [TVMap.get?]
    by_cases hk : k = t
    · subst hk; exact ⟨b, by simp⟩
    · have : (k == t) = false := by simp [hk]
      simp only [this, Bool.false_eq_true, ↓reduceIte]
      apply ih
      simp only [keys, List.map_cons, List.mem_cons] at h
      rcases h with h | h
      · exact absurd h.symm hk
      · exact h

/-- the dict of the call binds every class parameter of `g` to its `X`, and of the other TypeVars exactly those the
    specification has seen, each to the class it saw first (`g = []`: the per-call store) -/
def Inv (g : TVMap) (s : Spec.Seen) (m : TVMap) : Prop :=
  (∀ t ∈ keys g, m.get? t = g.get? t) ∧ (∀ t, t ∉ keys g → m.get? t = (Spec.Seen.get? s t).map A.cls)

/-- how a rejection demanded by the specification may look: False; on a generic instance also the mismatch raised for a
    value that does not conform to the `X` of a class parameter -/
def RejectOK (g : TVMap) (r : R) : Prop := r = .ok false ∨ (g ≠ [] ∧ r = .raisedTV)

/-- what a result of the model has to be for a result of the specification walk -/
def Refines (g : TVMap) (w : Spec.W) (res : R × TVMap) : Prop :=
  match w with
  | .cont s' => res.1 = .ok true ∧ Inv g s' res.2
  | .stop .tvm => res.1 = .raisedTV
  | .stop .tvmInUnion => res.1 = .ok false
  | .stop .reject => RejectOK g res.1
  | .stop .unclaimed => True
  | .stop .accept => False

theorem inv_nil : Inv [] [] [] := by
  refine ⟨by intro t ht; simp [keys] at ht, ?_⟩
  intro t _; simp [TVMap.get?, Spec.Seen.get?]

theorem inv_bind {g : TVMap} {s : Spec.Seen} {m : TVMap} (h : Inv g s m) (t : TVId) (ht : t ∉ keys g) (c : ClsId) :
    Inv g ((t, c) :: s) (m.set t (.cls c)) := by
  refine ⟨?_, ?_⟩
  · intro t' ht'
    have : t' ≠ t := fun e => ht (e ▸ ht')
    rw [get?_set_ne _ _ this]
    exact h.1 t' ht'
  · intro t' ht'
    rw [get?_set]
    simp only [Spec.Seen.get?]
    by_cases hte : t' = t
    · subst hte; simp
    · have : (t == t') = false := by simp; exact fun h' => hte h'.symm
      simp [hte, this, h.2 t' ht']

/-- the runtime class `c` is not one of the constraints of TypeVar `t` -/
def violatesConstraints (env : Env) (t : TVId) (c : ClsId) : Bool :=
  !(env.tv t).constraints.isEmpty && !(env.tv t).constraints.contains c

/-- the runtime class `c` is not a subclass of the bound of TypeVar `t` (spelled as a class or as its name) -/
def violatesBound (env : Env) (t : TVId) (c : ClsId) : Bool :=
  match (env.tv t).bound with
  | some b => !env.sub c b
  | none => false

theorem tvSem_of_pre (env : Env) (t : TVId) (v : Val) (m : TVMap) (h : tvPre env t v ≠ .ok true) :
    tvSem env t v m = (tvPre env t v, m) := by
  unfold tvSem
  cases hp : tvPre env t v with
  | ok b => cases b with | true => exact absurd hp h | false => rfl
  | _ => rfl

theorem tvPre_constraints (env : Env) (t : TVId) (v : Val) (h : violatesConstraints env t (v.typeOf env) = true) :
    tvPre env t v = .ok false := by
  unfold tvPre
  unfold violatesConstraints at h
  rw [if_pos h]

theorem tvPre_bound (env : Env) (t : TVId) (v : Val) (h : violatesBound env t (v.typeOf env) = true) :
    tvPre env t v ≠ .ok true := by
  unfold tvPre
  unfold violatesBound at h
  split
  · simp
  · cases hb : (env.tv t).bound with
    | none => rw [hb] at h; simp at h
    | some b =>
      rw [hb] at h
      have hs : env.sub (v.typeOf env) b = false := by simpa using h
      simp only
      split
      · unfold clsAnn
        split
        · simp
        · simp [hs]
      · simp [hs]

/-- with bounds that are not bare builtins the map-independent tests never raise -/
theorem tvPre_eq (env : Env) (wf : EnvWF env) (t : TVId) (v : Val) :
    tvPre env t v = .ok (!violatesConstraints env t (v.typeOf env) && !violatesBound env t (v.typeOf env)) := by
  unfold tvPre violatesConstraints violatesBound
  split
  · rename_i h; simp only [h, Bool.not_true, Bool.false_and]
  · rename_i h
    have h' : (!(env.tv t).constraints.isEmpty && !(env.tv t).constraints.contains (v.typeOf env)) = false := by simpa using h
    rw [h']
    cases hb : (env.tv t).bound with
    | none => simp
    | some b =>
      simp only [clsAnn, wf.boundNotBare t b hb, Bool.false_eq_true, ↓reduceIte, ite_self, Bool.not_false, Bool.true_and, Bool.not_not]

/-- the part of the TypeVar branch that looks at the dict -/
def tvTailSem (env : Env) (t : TVId) (v : Val) (m : TVMap) : R × TVMap :=
  match m.get? t with
  | none => (.ok true, m.set t (.cls (v.typeOf env)))
  | some other =>
     (match tvCmp env t other v with
      | .ok true => (.ok true, m)
      | .ok false => (.raisedTV, m)
      | r => (r, m))

theorem tvSem_ok (env : Env) (t : TVId) (v : Val) (m : TVMap) (h : tvPre env t v = .ok true) : tvSem env t v m = tvTailSem env t v m := by
  unfold tvSem tvTailSem
  rw [h]

/-- the part of the specification of a TypeVar position that looks at what was seen before -/
def walkTail (env : Env) (t : TVId) (v : Val) (s : Spec.Seen) : Spec.W :=
  match s.get? t with
  | none => .cont ((t, v.typeOf env) :: s)
  | some c0 =>
      if v.typeOf env == c0 then .cont s
      else if (env.tv t).variance == .contra && env.sub c0 (v.typeOf env) then .cont s
      else if !env.sub (v.typeOf env) c0 && !env.sub c0 (v.typeOf env) then .stop .tvm
      else .stop .unclaimed

theorem walkTV_eq (env : Env) (t : TVId) (v : Val) (s : Spec.Seen) :
    Spec.walkTV env t v s =
      if violatesConstraints env t (v.typeOf env) then .stop .reject
      else if violatesBound env t (v.typeOf env) then .stop .reject
      else walkTail env t v s := rfl

theorem tail_refines (env : Env) (wf : EnvWF env) (g : TVMap) (t : TVId) (ht : t ∉ keys g) (v : Val) (s : Spec.Seen) (m : TVMap) (h : Inv g s m) :
    Refines g (walkTail env t v s) (tvTailSem env t v m) := by
  unfold walkTail tvTailSem
  rw [h.2 t ht]
  cases hs : s.get? t with
  | none => exact ⟨rfl, inv_bind h t ht _⟩
  | some c0 =>
    simp only [Option.map_some, tvCmp, contraCheck]
    by_cases heq : v.typeOf env = c0
    · subst heq
      simp only [beq_self_eq_true, ↓reduceIte, wf.refl]
      by_cases hv : ((env.tv t).variance == Variance.contra) = true
      · simp only [hv, ↓reduceIte]; exact ⟨rfl, h⟩
      · have hv' : ((env.tv t).variance == Variance.contra) = false := by simpa using hv
        simp only [hv', Bool.false_eq_true, ↓reduceIte]; exact ⟨rfl, h⟩
    · have hne : (v.typeOf env == c0) = false := by simp [heq]
      simp only [hne, Bool.false_eq_true, ↓reduceIte]
      by_cases hv : ((env.tv t).variance == Variance.contra) = true
      · simp only [hv, Bool.true_and, ↓reduceIte]
        cases h1 : env.sub c0 (v.typeOf env) with
        | true => exact ⟨rfl, h⟩
        | false =>
          simp only [Bool.false_eq_true, ↓reduceIte, Bool.not_false, Bool.and_true]
          cases h2 : env.sub (v.typeOf env) c0 with
          | true => simp [Refines]
          | false => simp [Refines]
      · have hv' : ((env.tv t).variance == Variance.contra) = false := by simpa using hv
        simp only [hv', Bool.false_and, Bool.false_eq_true, ↓reduceIte]
        cases h2 : env.sub (v.typeOf env) c0 with
        | true => simp [Refines]
        | false =>
          cases h1 : env.sub c0 (v.typeOf env) with
          | true => simp [Refines]
          | false => simp [Refines]

/-- the TypeVar branch against the specification of one TypeVar position -/
theorem tv_refines (env : Env) (wf : EnvWF env) (g : TVMap) (t : TVId) (ht : t ∉ keys g) (v : Val) (s : Spec.Seen) (m : TVMap) (h : Inv g s m) :
    Refines g (Spec.walkTV env t v s) (tvBranch env t v m) := by
  rw [tvBranch_eq, walkTV_eq]
  have hpre := tvPre_eq env wf t v
  cases hc : violatesConstraints env t (v.typeOf env) with
  | true =>
    rw [tvSem_of_pre env t v m (by rw [hpre, hc]; simp), hpre, hc]
    simp [Refines, RejectOK]
  | false =>
    cases hb : violatesBound env t (v.typeOf env) with
    | true =>
      rw [tvSem_of_pre env t v m (by rw [hpre, hc, hb]; simp), hpre, hc, hb]
      simp [Refines, RejectOK]
    | false =>
      rw [tvSem_ok env t v m (by rw [hpre, hc, hb]; rfl)]
      simp only [Bool.false_eq_true, ↓reduceIte]
      exact tail_refines env wf g t ht v s m h

theorem refines_stop_fst {g : TVMap} {vd : Spec.Verdict} {r1 r2 : R × TVMap} (h : r1.1 = r2.1) (hr : Refines g (.stop vd) r1) : Refines g (.stop vd) r2 := by
  cases vd <;> simp_all [Refines]

theorem allWith_refines (g : TVMap) (f : Val → Spec.Seen → Spec.W) (F : Val → TVMap → R × TVMap)
    (h : ∀ x s m, Inv g s m → Refines g (f x s) (F x m)) :
    ∀ xs s m, Inv g s m → Refines g (Spec.walkAllWith f xs s) (allWith F xs m) := by
  intro xs
  induction xs with
  | nil => intro s m hs; exact ⟨rfl, hs⟩
  | cons x xs ih =>
    intro s m hs
    have hx := h x s m hs
    simp only [Spec.walkAllWith, allWith]
    rcases hF : F x m with ⟨r, m'⟩
    rw [hF] at hx
    cases hw : f x s with
    | cont s' =>
      rw [hw] at hx
      obtain ⟨hr, hsim⟩ := hx
      simp only at hr hsim
      subst hr
      exact ih s' m' hsim
    | stop vd =>
      rw [hw] at hx
      simp only
      cases vd with
      | accept => exact hx.elim
      | unclaimed => trivial
      | tvm => have hr : r = .raisedTV := hx; subst hr; rfl
      | tvmInUnion => have hr : r = .ok false := hx; subst hr; rfl
      | reject =>
        have hr : RejectOK g r := hx
        rcases hr with rfl | ⟨hg, rfl⟩
        · exact Or.inl rfl
        · exact Or.inr ⟨hg, rfl⟩

theorem pairsWith_refines (g : TVMap) (fk fw : Val → Spec.Seen → Spec.W) (Fk Fw : Val → TVMap → R × TVMap)
    (hk : ∀ x s m, Inv g s m → Refines g (fk x s) (Fk x m)) (hw : ∀ x s m, Inv g s m → Refines g (fw x s) (Fw x m)) :
    ∀ kvs s m, Inv g s m → Refines g (Spec.walkPairsWith fk fw kvs s) (pairsWith Fk Fw kvs m) := by
  intro kvs
  induction kvs with
  | nil => intro s m hs; exact ⟨rfl, hs⟩
  | cons kv rest ih =>
    obtain ⟨x, y⟩ := kv
    intro s m hs
    have hx := hk x s m hs
    simp only [Spec.walkPairsWith, pairsWith]
    rcases hF : Fk x m with ⟨r, m'⟩
    rw [hF] at hx
    cases hwk : fk x s with
    | cont s' =>
      rw [hwk] at hx
      obtain ⟨hr, hsim⟩ := hx
      simp only at hr hsim
      subst hr
      simp only
      have hy := hw y s' m' hsim
      rcases hF2 : Fw y m' with ⟨r2, m''⟩
      rw [hF2] at hy
      cases hww : fw y s' with
      | cont s'' =>
        rw [hww] at hy
        obtain ⟨hr2, hsim2⟩ := hy
        simp only at hr2 hsim2
        subst hr2
        exact ih s'' m'' hsim2
      | stop vd =>
        rw [hww] at hy
        simp only
        cases vd with
        | accept => exact hy.elim
        | unclaimed => trivial
        | tvm => have hr : r2 = .raisedTV := hy; subst hr; rfl
        | tvmInUnion => have hr : r2 = .ok false := hy; subst hr; rfl
        | reject =>
        have hr : RejectOK g r2 := hy
        rcases hr with rfl | ⟨hg, rfl⟩
        · exact Or.inl rfl
        · exact Or.inr ⟨hg, rfl⟩
    | stop vd =>
      rw [hwk] at hx
      simp only
      cases vd with
      | accept => exact hx.elim
      | unclaimed => trivial
      | tvm => have hr : r = .raisedTV := hx; subst hr; rfl
      | tvmInUnion => have hr : r = .ok false := hx; subst hr; rfl
      | reject =>
        have hr : RejectOK g r := hx
        rcases hr with rfl | ⟨hg, rfl⟩
        · exact Or.inl rfl
        · exact Or.inr ⟨hg, rfl⟩

theorem walkUnion_closed (env : Env) (ms : List A) (h : Spec.closedL ms = true) (v : Val) (s : Spec.Seen) :
    Spec.walkUnion env ms v s = if Spec.conformsAny env ms v then .cont s else .stop .reject := by
  match ms, h with
  | [], _ => simp [Spec.walkUnion, Spec.conformsAny]
  | [a], h => simp [Spec.walkUnion, h]
  | [a, b], h =>
    simp only [Spec.closedL, Bool.and_true, Bool.and_eq_true] at h
    simp [Spec.walkUnion, h.1, h.2, Spec.conformsAny]
  | a :: b :: c :: r, h => simp [Spec.walkUnion, h]

/-! ### the specification on TypeVar-free annotations is conformance -/

theorem walkAllWith_closed (f : Val → Spec.Seen → Spec.W) (g : Val → Bool)
    (h : ∀ x s, f x s = if g x then .cont s else .stop .reject) :
    ∀ xs s, Spec.walkAllWith f xs s = if xs.all g then .cont s else .stop .reject := by
  intro xs
  induction xs with
  | nil => intro s; rfl
  | cons x xs ih =>
    intro s
    simp only [Spec.walkAllWith, h x s, List.all_cons]
    by_cases hg : g x = true
    · simp [hg, ih s]
    · simp [hg]

theorem walkPairsWith_closed (fk fw : Val → Spec.Seen → Spec.W) (gk gw : Val → Bool)
    (hk : ∀ x s, fk x s = if gk x then .cont s else .stop .reject) (hw : ∀ x s, fw x s = if gw x then .cont s else .stop .reject) :
    ∀ kvs s, Spec.walkPairsWith fk fw kvs s = if kvs.all (fun kv => gk kv.1 && gw kv.2) then .cont s else .stop .reject := by
  intro kvs
  induction kvs with
  | nil => intro s; rfl
  | cons kv rest ih =>
    obtain ⟨x, y⟩ := kv
    intro s
    simp only [Spec.walkPairsWith, hk x s, List.all_cons]
    by_cases hg : gk x = true
    · simp only [hg, ↓reduceIte, hw y s, Bool.true_and]
      by_cases hg2 : gw y = true
      · simp only [hg2, ↓reduceIte, Bool.true_and]; exact ih s
      · simp [hg2]
    · simp [hg]

theorem walk_closed (env : Env) : ∀ a, Spec.closed a = true → ∀ v s,
    Spec.walk env a v s = if Spec.conforms env a v then .cont s else .stop .reject := by
  apply A.ind (P := fun a => Spec.closed a = true → ∀ v s, Spec.walk env a v s = if Spec.conforms env a v then .cont s else .stop .reject)
    (PL := fun l => Spec.closedL l = true → ∀ xs s, Spec.walkZip env l xs s = if Spec.conformsZip env l xs then .cont s else .stop .reject)
  · intro c _ v s
    by_cases h : env.sub (v.typeOf env) c = true <;> simp [Spec.walk, Spec.conforms, h]
  · intro _ v s; simp [Spec.walk, Spec.conforms]
  · intro t h; simp [Spec.closed] at h
  · intro a ih hc v s
    have iha := ih (by simpa [Spec.closed] using hc)
    cases v with
    | list xs => simp only [Spec.walk, Spec.conforms]; exact walkAllWith_closed _ _ iha xs s
    | _ => simp [Spec.walk, Spec.conforms]
  · intro k w ihk ihw hc v s
    simp only [Spec.closed, Bool.and_eq_true] at hc
    cases v with
    | dict kvs => simp only [Spec.walk, Spec.conforms]; exact walkPairsWith_closed _ _ _ _ (ihk hc.1) (ihw hc.2) kvs s
    | _ => simp [Spec.walk, Spec.conforms]
  · intro items ih hc v s
    have hz := ih (by simpa [Spec.closed] using hc)
    cases v with
    | tuple xs =>
      simp only [Spec.walk, Spec.conforms, hz xs s]
      by_cases hl : xs.length = items.length <;> simp [hl]
    | _ => simp [Spec.walk, Spec.conforms]
  · intro a ih hc v s
    have iha := ih (by simpa [Spec.closed] using hc)
    cases v with
    | tuple xs => simp only [Spec.walk, Spec.conforms]; exact walkAllWith_closed _ _ iha xs s
    | _ => simp [Spec.walk, Spec.conforms]
  · intro ms _ hc v s
    simp only [Spec.walk, Spec.conforms]
    exact walkUnion_closed env ms (by simpa [Spec.closed] using hc) v s
  · intro a _ hc v s
    have : Spec.closed a = true := by simpa [Spec.closed] using hc
    simp [Spec.walk, this]
  · intro _ xs s; simp [Spec.walkZip, Spec.conformsZip]
  · intro a as iha ihas hc xs s
    simp only [Spec.closedL, Bool.and_eq_true] at hc
    cases xs with
    | nil => simp [Spec.walkZip, Spec.conformsZip]
    | cons x xs =>
      simp only [Spec.walkZip, iha hc.1 x s, Spec.conformsZip]
      by_cases hg : Spec.conforms env a x = true
      · simp [hg, ihas hc.2 xs s]
      · simp [hg]

/-- putting TypeVar-free `X` in for every TypeVar of an annotation of the vocabulary leaves no TypeVar -/
theorem subst_is_closed (env : Env) (g : TVMap) (hg : ∀ t X, g.get? t = some X → Spec.closed X = true) :
    ∀ a, frag env a = true → tvsIn (keys g) a = true → Spec.closed (Spec.subst g a) = true := by
  have hkey := get?_of_key g
  apply A.ind (P := fun a => frag env a = true → tvsIn (keys g) a = true → Spec.closed (Spec.subst g a) = true)
    (PL := fun l => fragL env l = true → tvsInL (keys g) l = true → Spec.closedL (Spec.substL g l) = true)
  · intro c _ _; rfl
  · intro _ _; rfl
  · intro t _ ht
    obtain ⟨X, hX⟩ := hkey t (by simpa [tvsIn] using ht)
    simp only [Spec.subst, hX]
    exact hg t X hX
  · intro a ih hf ht; simp only [Spec.subst, Spec.closed]; exact ih (by simpa [frag] using hf) (by simpa [tvsIn] using ht)
  · intro k w ihk ihw hf ht
    simp only [frag, Bool.and_eq_true] at hf
    simp only [tvsIn, Bool.and_eq_true] at ht
    simp only [Spec.subst, Spec.closed, ihk hf.1 ht.1, ihw hf.2 ht.2, Bool.and_self]
  · intro items ih hf ht
    simp only [frag, Bool.and_eq_true] at hf
    simp only [Spec.subst, Spec.closed]; exact ih hf.2 (by simpa [tvsIn] using ht)
  · intro a ih hf ht; simp only [Spec.subst, Spec.closed]; exact ih (by simpa [frag] using hf) (by simpa [tvsIn] using ht)
  · intro ms ih hf ht
    simp only [frag, Bool.and_eq_true] at hf
    simp only [Spec.subst, Spec.closed]; exact ih hf.2 (by simpa [tvsIn] using ht)
  · intro a _ hf; simp [frag] at hf
  · intro _ _; rfl
  · intro a as iha ihas hf ht
    simp only [fragL, Bool.and_eq_true] at hf
    simp only [tvsInL, Bool.and_eq_true] at ht
    simp only [Spec.substL, Spec.closedL, iha hf.1 ht.1, ihas hf.2 ht.2, Bool.and_self]

end PedVerif.TypeVars
