import PedVerif.Lemmas.CheckerExact
import PedVerif.Lemmas.CheckerLit
/-! Concrete class tables used by negation witnesses and non-vacuity examples. -/
namespace PedVerif.Checker

/-! ### a concrete class table for witnesses and non-vacuity: 0 object, 1 type, 2 int, 3 str, 4 list, 5 tuple, 6 Iterator,
    7 A (user class), 8 A' (another class with the *same name* as A), 9 NT1, 10 NT2 (NamedTuples, same fields) -/
def envW : Env where
  sub := fun a b => a == b || b == 0 || (a == 9 && b == 5) || (a == 10 && b == 5)
  name := fun c => if c == 8 then 7 else c
  baseName := fun c => if c == 0 then none else some 0
  ctx := fun n => if n == 7 then some 7 else none
  fieldNames := fun c => if c == 9 || c == 10 then some [20, 21] else if c ≥ 7 then some [] else none
  litCls := fun k => match k with | .int => 2 | .str => 3 | _ => 0
  tupleCls := 5
  typeCls := 1
  iteratorCls := 6
  seqCls := fun _ => 4
  mapCls := fun _ => 11
  metaOf := fun _ => 1

theorem envW_wf : WfEnv envW := by
  refine ⟨?_, ?_, ?_, ?_⟩
  · intro c; simp [envW]
  · intro c; simp [envW]
  · decide
  · intro c d _ h; simp [envW] at h


/-! ### regions: negation witnesses on the class table `envC`
    0 object, 1 type, 2 int, 3 str, 4 list, 5 tuple, 6 Iterator, 7 P, 8 C1(P), 9 G(C1) (grandchild of P), 10 NT1, 12 bool -/
def envC : Env where
  sub := fun a b => a == b || b == 0 || (a == 8 && b == 7) || (a == 9 && (b == 8 || b == 7)) || (a == 10 && b == 5) || (a == 12 && b == 2)
  name := fun c => c
  baseName := fun c => if c == 0 then none else if c == 8 then some 7 else if c == 9 then some 8 else if c == 10 then some 5
                        else if c == 12 then some 2 else some 0
  ctx := fun n => if n == 7 then some 7 else none
  fieldNames := fun c => if c == 10 then some [20, 21] else if c ≥ 7 then some [] else none
  litCls := fun k => match k with | .int => 2 | .str => 3 | .bool => 12 | _ => 0
  tupleCls := 5
  typeCls := 1
  iteratorCls := 6
  seqCls := fun _ => 4
  mapCls := fun _ => 11
  metaOf := fun _ => 1

theorem envC_wf : WfEnv envC := by
  refine ⟨?_, ?_, ?_, ?_⟩
  · intro c; simp [envC]
  · intro c; simp [envC]
  · decide
  · intro c d _ h; simp [envC] at h


/-- class table for the iterator region: as `envW`, with 12 = collections.abc.Iterable (origin of `Iterable[..]`) and the one-shot
    iterator class 6 registered as an Iterable -/
def envI : Env := { envW with
  sub := fun a b => a == b || b == 0 || (a == 6 && b == 12) || (a == 4 && b == 12)
  seqCls := fun o => if o == .iterable then 12 else 4 }


/-- a realistic class table: every class has its own name and `object` in its MRO, the context binds the one user class `A` (7) only.
    The former global guard is false on it (as on every table the harness sends), the local guard is met by every case that has
    no unresolvable string annotation - and by such a string too when the value's MRO does not carry the name. -/
def envR : Env := { envW with
  name := fun c => c
  mroNames := fun c => if c == 0 then [0] else if c == 9 || c == 10 then [c, 5, 0] else [c, 0] }

theorem envI_wf : WfEnv envI := by
  refine ⟨?_, ?_, ?_, ?_⟩
  · intro c; simp [envI, envW]
  · intro c; simp [envI, envW]
  · decide
  · intro c d _ h; simp [envI, envW] at h

/-- `envW` with 9 = NT1 and 10 = NT2 being NamedTuple classes (tuple subclasses with `_fields`), and 13 = a subclass of NT1 -/
def envN : Env := { envW with
  sub := fun a b => a == b || b == 0 || ((a == 9 || a == 10 || a == 13) && b == 5) || (a == 13 && b == 9)
  isNT := fun c => c == 9 || c == 10 || c == 13 }
theorem envN_wf : WfEnv envN := by
  refine ⟨?_, ?_, ?_, ?_⟩
  · intro c; simp [envN, envW]
  · intro c; simp [envN, envW]
  · decide
  · intro c d hs hd
    simp only [envN, envW, Bool.or_eq_true, Bool.and_eq_true, beq_iff_eq] at hs hd ⊢
    rcases hd with (rfl | rfl) | rfl
    all_goals first | (simp_all; done) | (simp at hs; omega) | (simp at hs; rcases hs with h | h <;> simp_all)

theorem envR_wf : WfEnv envR := by
  refine ⟨?_, ?_, ?_, ?_⟩
  · intro c; simp [envR, envW]
  · intro c; simp [envR, envW]
  · decide
  · intro c d _ h; simp [envR, envW] at h


end PedVerif.Checker
