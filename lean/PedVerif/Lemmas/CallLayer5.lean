import PedVerif.Lemmas.CallLayer4
/-!
The `*args` needle (`wants_args`) is the one source-text predicate that still reads the whole source.  It only matters for
positional calls: for a call that passes every required declared parameter by keyword and nothing positionally (beyond the
implicit self / cls) the model does not depend on it.
-/
namespace PedVerif.Call
open PedVerif.Checker PedVerif.Gen.CallTables

/-- the same callable with another value of the `wants_args` flag -/
def Fn.withWantsArgs (f : Fn) (w : Bool) : Fn := { f with flags := { f.flags with wantsArgs := w } }

/-- every required (non-defaulted) declared parameter in `ps` is passed by keyword -/
def requiredByKeyword (kw : List (NameId × Val)) (ps : List Param) : Prop :=
  ∀ p ∈ ps, p.dflt = none → (lookup kw p.name).isSome = true

theorem checkVal_withWantsArgs (env : Env) (orc : Nat → Val → Raw) (f : Fn) (w : Bool) (args : List Val) (a : Ann) (v : Val) :
    checkVal env orc (f.withWantsArgs w) args a v = checkVal env orc f args a v := rfl

theorem checkAll_withWantsArgs (env : Env) (orc : Nat → Val → Raw) (f : Fn) (w : Bool) (args : List Val) (a : Ann) :
    ∀ vs, checkAll env orc (f.withWantsArgs w) args a vs = checkAll env orc f args a vs
  | [] => rfl
  | v :: vs => by simp only [checkAll, checkVal_withWantsArgs, checkAll_withWantsArgs env orc f w args a vs]

theorem checkParams_withWantsArgs (env : Env) (orc : Nat → Val → Raw) (f : Fn) (w : Bool) (args : List Val)
    (kw : List (NameId × Val)) :
    ∀ (ps : List Param) (idx idx' : Nat), requiredByKeyword kw ps →
      checkParams env orc (f.withWantsArgs w) args kw ps idx = checkParams env orc f args kw ps idx'
  | [], _, _, _ => rfl
  | p :: ps, idx, idx', h => by
    have hps : requiredByKeyword kw ps := fun q hq => h q (by simp [hq])
    have ih := fun i i' => checkParams_withWantsArgs env orc f w args kw ps i i' hps
    simp only [checkParams, checkVal_withWantsArgs]
    cases ha : p.ann with
    | none => rfl
    | some a =>
      cases hd : p.dflt with
      | some d => simp only [ih idx idx']
      | none =>
        obtain ⟨v, hv⟩ := Option.isSome_iff_exists.mp (h p (by simp) hd)
        simp only [hv, cfg_fallback, ↓reduceIte, ih idx idx']
        split <;> split <;> rfl

theorem checkArguments_withWantsArgs (env : Env) (orc : Nat → Val → Raw) (f : Fn) (w : Bool) (args : List Val)
    (kw : List (NameId × Val)) (h : requiredByKeyword kw f.plain) :
    checkArguments env orc (f.withWantsArgs w) args kw = checkArguments env orc f args kw := by
  have hp : (f.withWantsArgs w).plain = f.plain := rfl
  have hs : (f.withWantsArgs w).firstIsSelf = f.firstIsSelf := rfl
  unfold checkArguments
  rw [hp, hs, checkParams_withWantsArgs env orc f w args kw f.plain _ _ h]
  have hstar : checkStar env orc (f.withWantsArgs w) args = checkStar env orc f args := by
    unfold checkStar
    simp only [show (f.withWantsArgs w).star = f.star from rfl, show (f.withWantsArgs w).nPositional = f.nPositional from rfl,
      checkAll_withWantsArgs]
  have hdstar : checkDStar env orc (f.withWantsArgs w) args kw = checkDStar env orc f args kw := by
    unfold checkDStar
    simp only [show (f.withWantsArgs w).dstar = f.dstar from rfl, show extraKw (f.withWantsArgs w) kw = extraKw f kw from rfl,
      checkAll_withWantsArgs]
  rw [hstar, hdstar]

theorem invoke_withWantsArgs (env : Env) (orc : Nat → Val → Raw) (f : Fn) (w : Bool) (args : List Val)
    (kw : List (NameId × Val)) (body : BodyOut) :
    invoke env orc (f.withWantsArgs w) args kw body = invoke env orc f args kw body := rfl

/-- **the `*args` needle is irrelevant for keyword calls**: a call that passes nothing positionally (beyond the implicit self /
    cls) and every required declared parameter by keyword has the same outcome whatever `wants_args` says -/
theorem runCall_withWantsArgs (env : Env) (orc : Nat → Val → Raw) (f : Fn) (w : Bool) (args : List Val)
    (kw : List (NameId × Val)) (body : BodyOut)
    (hpos : (f.argsWithoutSelf args).isEmpty = true) (hreq : requiredByKeyword kw f.plain) :
    runCall env orc (f.withWantsArgs w) args kw body = runCall env orc f args kw body := by
  have hs : (f.withWantsArgs w).initFails args = f.initFails args := rfl
  have ha : (f.withWantsArgs w).argsWithoutSelf args = f.argsWithoutSelf args := rfl
  have hm : (f.withWantsArgs w).mode = f.mode := rfl
  unfold runCall
  rw [hs, ha, hm, hpos, checkArguments_withWantsArgs env orc f w args kw hreq, invoke_withWantsArgs]
  simp only [Bool.not_true, Bool.and_false]

end PedVerif.Call
