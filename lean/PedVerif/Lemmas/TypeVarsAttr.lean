import Lean.Meta.Tactic.Simp.RegisterCommand
/-! The simp set `tvEq`: the equations of `isInst` / `zipInst` / `membersInst` in the form "one dict handed from element to
element", proved in `Lemmas/TypeVars.lean` from the generated facts about which dict every container check hands on. -/

/-- equations of the threaded checker under the generated container-threading facts -/
register_simp_attr tvEq
