import PedVerif.Lemmas.CallLayer2
/-! Structure of `runCall`, and what the checks can never produce. -/
namespace PedVerif.Call
open PedVerif.Checker PedVerif.Gen.CallTables

theorem initFails_of_not {α} (f : Fn) (args : List α) (h : (f.firstIsSelf && args.isEmpty) = false) : f.initFails args = false := by
  simp only [Fn.initFails, h, Bool.false_and]
theorem initFails_imp {α} (f : Fn) (args : List α) (h : f.initFails args = true) : (f.firstIsSelf && args.isEmpty) = true := by
  simp only [Fn.initFails, Bool.and_eq_true] at h; simp [h.1.1, h.1.2]

/-- a pedantic call that is not stopped by the two entry tests: argument checks, then invocation (`hinit`: `__init__` does not fail - the
    receiver is positional, or may be passed by keyword since the repair `receiverMayBeKeyword`) -/
theorem runCall_pedantic' (env : Env) (orc : Nat → Val → Raw) (f : Fn) (args : List Val) (kw : List (NameId × Val)) (body : BodyOut)
    (hmode : f.mode = .pedantic) (hinit : f.initFails args = false)
    (hkw : (f.shouldHaveKwargs && !(f.argsWithoutSelf args).isEmpty) = false) :
    runCall env orc f args kw body =
      (match checkArguments env orc f args kw with
       | some c => ⟨c, false, [], []⟩
       | none => invoke env orc f args kw body) := by
  unfold runCall
  simp only [hinit, hkw, Bool.false_eq_true, ↓reduceIte, hmode, cfg_argsBeforeBody]
  rfl
theorem runCall_pedantic (env : Env) (orc : Nat → Val → Raw) (f : Fn) (args : List Val) (kw : List (NameId × Val)) (body : BodyOut)
    (hmode : f.mode = .pedantic) (hinit : (f.firstIsSelf && args.isEmpty) = false)
    (hkw : (f.shouldHaveKwargs && !(f.argsWithoutSelf args).isEmpty) = false) :
    runCall env orc f args kw body =
      (match checkArguments env orc f args kw with
       | some c => ⟨c, false, [], []⟩
       | none => invoke env orc f args kw body) :=
  runCall_pedantic' env orc f args kw body hmode (initFails_of_not f args hinit) hkw

theorem runCall_requireKwargs' (env : Env) (orc : Nat → Val → Raw) (f : Fn) (args : List Val) (kw : List (NameId × Val)) (body : BodyOut)
    (hmode : f.mode = .requireKwargs) (hinit : f.initFails args = false)
    (hkw : (f.shouldHaveKwargs && !(f.argsWithoutSelf args).isEmpty) = false) :
    runCall env orc f args kw body = invoke env orc f args kw body := by
  unfold runCall
  simp only [hinit, hkw, Bool.false_eq_true, ↓reduceIte, hmode]
theorem runCall_requireKwargs (env : Env) (orc : Nat → Val → Raw) (f : Fn) (args : List Val) (kw : List (NameId × Val)) (body : BodyOut)
    (hmode : f.mode = .requireKwargs) (hinit : (f.firstIsSelf && args.isEmpty) = false)
    (hkw : (f.shouldHaveKwargs && !(f.argsWithoutSelf args).isEmpty) = false) :
    runCall env orc f args kw body = invoke env orc f args kw body :=
  runCall_requireKwargs' env orc f args kw body hmode (initFails_of_not f args hinit) hkw

/-- the outcomes a failed check can have: exceptions of the checking machinery, never a return or a positional-call error -/
def Caller.isCheckFailure : Caller → Bool
  | .pedTypeCheck | .pedTVMismatch | .escape _ => true
  | _ => false

theorem ofOut_fail (o : Out) : ∀ c, ofOut o = some c → c.isCheckFailure = true := by
  intro c h; cases o <;> simp [ofOut] at h <;> subst h <;> rfl
theorem checkVal_fail (env : Env) (orc) (f : Fn) (args : List Val) (a : Ann) (v : Val) :
    ∀ c, checkVal env orc f args a v = some c → c.isCheckFailure = true := by
  intro c h
  simp only [checkVal] at h
  split at h
  · simp at h; subst h; rfl
  · exact ofOut_fail _ c h
theorem orElse_fail {a : Option Caller} {b : Unit → Option Caller} (ha : ∀ c, a = some c → c.isCheckFailure = true)
    (hb : ∀ c, b () = some c → c.isCheckFailure = true) : ∀ c, orElse a b = some c → c.isCheckFailure = true := by
  intro c h
  cases a with
  | none => exact hb c (by simpa [orElse] using h)
  | some x => exact ha c (by simpa [orElse] using h)

theorem checkParams_fail (env : Env) (orc) (f : Fn) (args : List Val) (kw : List (NameId × Val)) :
    ∀ (ps : List Param) (idx : Nat) (c : Caller), checkParams env orc f args kw ps idx = some c → c.isCheckFailure = true := by
  intro ps
  induction ps with
  | nil => intro idx c h; simp [checkParams] at h
  | cons p ps ih =>
    intro idx c h
    simp only [checkParams] at h
    have T : ∀ c : Caller, some Caller.pedTypeCheck = some c → c.isCheckFailure = true := by intro c h; simp at h; subst h; rfl
    have E : ∀ c : Caller, some (Caller.escape "IndexError") = some c → c.isCheckFailure = true := by intro c h; simp at h; subst h; rfl
    split at h
    · exact T c h
    · split at h
      · split at h
        · split at h
          · exact T c h
          · exact orElse_fail (checkVal_fail _ _ _ _ _ _) (fun c hc => ih _ c hc) c h
        · split at h
          · split at h
            · exact orElse_fail (checkVal_fail _ _ _ _ _ _) (fun c hc => ih _ c hc) c h
            · split at h
              · exact orElse_fail (checkVal_fail _ _ _ _ _ _) (fun c hc => ih _ c hc) c h
              · exact E c h
          · split at h
            · exact orElse_fail (checkVal_fail _ _ _ _ _ _) (fun c hc => ih _ c hc) c h
            · split at h
              · exact T c h
              · exact E c h
      · exact orElse_fail (checkVal_fail _ _ _ _ _ _) (fun c hc => ih _ c hc) c h

theorem checkAll_fail (env : Env) (orc) (f : Fn) (args : List Val) (a : Ann) :
    ∀ vs c, checkAll env orc f args a vs = some c → c.isCheckFailure = true := by
  intro vs
  induction vs with
  | nil => intro c h; simp [checkAll] at h
  | cons v vs ih => intro c h; simp only [checkAll] at h; exact orElse_fail (checkVal_fail _ _ _ _ _ _) (fun c hc => ih c hc) c h

theorem checkArguments_fail (env : Env) (orc) (f : Fn) (args : List Val) (kw : List (NameId × Val)) :
    ∀ c, checkArguments env orc f args kw = some c → c.isCheckFailure = true := by
  rw [checkArguments_eq]
  have T : ∀ c : Caller, some Caller.pedTypeCheck = some c → c.isCheckFailure = true := by intro c h; simp at h; subst h; rfl
  refine orElse_fail (checkParams_fail _ _ _ _ _ _ _) (orElse_fail ?_ ?_)
  · intro c h
    simp only [checkStar] at h
    split at h
    · simp at h
    · split at h
      · split at h
        · exact T c h
        · split at h
          · simp at h
          · exact T c h
      · split at h
        · exact T c h
        · exact checkAll_fail _ _ _ _ _ _ c h
  · intro c h
    simp only [checkDStar] at h
    split at h
    · simp at h
    · split at h
      · split at h
        · exact T c h
        · simp at h
      · split at h
        · exact T c h
        · exact checkAll_fail _ _ _ _ _ _ c h

theorem checkArguments_ne_cwa (env : Env) (orc) (f : Fn) (args : List Val) (kw : List (NameId × Val)) :
    checkArguments env orc f args kw ≠ some .pedCallWithArgs := by
  intro h; have := checkArguments_fail env orc f args kw _ h; simp [Caller.isCheckFailure] at this
theorem checkArguments_ne_ret (env : Env) (orc) (f : Fn) (args : List Val) (kw : List (NameId × Val)) :
    checkArguments env orc f args kw ≠ some .ret ∧ checkArguments env orc f args kw ≠ some .retGen := by
  constructor <;> (intro h; have := checkArguments_fail env orc f args kw _ h; simp [Caller.isCheckFailure] at this)
theorem checkVal_ne_cwa (env : Env) (orc) (f : Fn) (args : List Val) (a : Ann) (v : Val) :
    checkVal env orc f args a v ≠ some .pedCallWithArgs := by
  intro h; have := checkVal_fail env orc f args a v _ h; simp [Caller.isCheckFailure] at this
theorem checkVal_ne_ret (env : Env) (orc) (f : Fn) (args : List Val) (a : Ann) (v : Val) :
    checkVal env orc f args a v ≠ some .ret := by
  intro h; have := checkVal_fail env orc f args a v _ h; simp [Caller.isCheckFailure] at this

theorem retCheck_ne_cwa (env : Env) (orc) (f : Fn) (args : List Val) (body : BodyOut) (fp : List Nat) (fk : List NameId) :
    (retCheck env orc f args body fp fk).caller ≠ .pedCallWithArgs := by
  unfold retCheck
  split
  · simp
  · split
    · simp
    · split
      · split
        · simp
        · split <;> simp
      · split
        · rename_i c hc
          intro h; simp only at h; subst h
          exact checkVal_ne_cwa _ _ _ _ _ _ hc
        · simp

theorem invoke_ne_cwa (env : Env) (orc) (f : Fn) (args : List Val) (kw : List (NameId × Val)) (body : BodyOut) :
    (invoke env orc f args kw body).caller ≠ .pedCallWithArgs := by
  unfold invoke
  simp only
  split
  · simp
  · split
    · split <;> simp
    · exact retCheck_ne_cwa _ _ _ _ _ _ _

/-- PedanticCallWithArgsException is raised exactly by `assert_uses_kwargs` -/
theorem callWithArgs_iff (env : Env) (orc) (f : Fn) (args : List Val) (kw : List (NameId × Val)) (body : BodyOut) :
    (runCall env orc f args kw body).caller = .pedCallWithArgs ↔
      (f.initFails args = false ∧ f.shouldHaveKwargs = true ∧ (f.argsWithoutSelf args).isEmpty = false) := by
  by_cases hinit : f.initFails args = true
  · unfold runCall; simp [hinit]
  · have hinit' : f.initFails args = false := by simpa using hinit
    by_cases hk : (f.shouldHaveKwargs && !(f.argsWithoutSelf args).isEmpty) = true
    · have : (runCall env orc f args kw body).caller = .pedCallWithArgs := by unfold runCall; simp [hinit', hk]
      simp only [Bool.and_eq_true, Bool.not_eq_true'] at hk
      simp [this, hinit', hk.1, hk.2]
    · have hk' : (f.shouldHaveKwargs && !(f.argsWithoutSelf args).isEmpty) = false := by simpa using hk
      have hne : (runCall env orc f args kw body).caller ≠ .pedCallWithArgs := by
        cases hm : f.mode with
        | requireKwargs => rw [runCall_requireKwargs' _ _ _ _ _ _ hm hinit' hk']; exact invoke_ne_cwa _ _ _ _ _ _
        | pedantic =>
          rw [runCall_pedantic' _ _ _ _ _ _ hm hinit' hk']
          split
          · rename_i c hc; intro h; simp only at h; subst h; exact checkArguments_ne_cwa _ _ _ _ _ hc
          · exact invoke_ne_cwa _ _ _ _ _ _
      constructor
      · intro h; exact absurd h hne
      · intro ⟨_, h2, h3⟩; simp [h2, h3] at hk'

end PedVerif.Call
