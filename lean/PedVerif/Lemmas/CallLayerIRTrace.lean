import PedVerif.Model.CallLayerIR
/-!
Recording the path does not change the result.  The interpreter of the translated call layer (`Model/CallLayerIR.lean`) pushes the id
of every executed statement on `Obs.trace` when `Ctx.tracing` is set - that is the run whose path the harness compares with the lines
CPython executes - and leaves the trace alone otherwise - that is the run the refinement theorems (`Lemmas/CallLayerIR.lean`) are
about.  This file proves, for EVERY program of the IR (by induction on the statement; nothing here looks at the generated
definitions except their names in the callee tables), that the two runs agree on everything but the trace:
`runCallTraced_result`.
-/
set_option linter.unusedSimpArgs false
set_option linter.unusedVariables false
namespace PedVerif.CallIR
open PedVerif.Checker PedVerif.Call PedVerif.Gen.CallLayerIR

/-! erasing the recorded path -/
def Obs.erase (b : Obs) : Obs := { b with trace := [] }
def Obj.erase (o : Obj) : Obj := { o with obs := o.obs.erase }
def St.erase (s : St) : St := { s with obj := s.obj.erase }
def Res.erase : Res → Res
  | .cont s => .cont s.erase
  | .raised cl b => .raised cl b.erase
  | .returned v o => .returned v o.erase
def Out.erase : Out → Out
  | .done v o => .done v o.erase
  | .fail cl b => .fail cl b.erase

/-- two callee tables that agree up to the recorded path -/
structure CsRel (cs cs' : Callees) : Prop where
  clazz : ∀ o o', o.erase = o'.erase → (cs.clazz o).erase = (cs'.clazz o').erase
  argsWithoutSelf : ∀ o o', o.erase = o'.erase → (cs.argsWithoutSelf o).erase = (cs'.argsWithoutSelf o').erase
  typeVars : ∀ o o', o.erase = o'.erase → (cs.typeVars o).erase = (cs'.typeVars o').erase
  assertHasAnnotation : ∀ p o o', o.erase = o'.erase → (cs.assertHasAnnotation p o).erase = (cs'.assertHasAnnotation p o').erase
  assertComplete : ∀ a o o', o.erase = o'.erase → (cs.assertComplete a o).erase = (cs'.assertComplete a o').erase
  checkFn : ∀ w ps o o', o.erase = o'.erase → (cs.checkFn w ps o).erase = (cs'.checkFn w ps o').erase
  checkArguments : ∀ o o', o.erase = o'.erase → (cs.checkArguments o).erase = (cs'.checkArguments o').erase
  getReturnValue : ∀ b o o', o.erase = o'.erase → (cs.getReturnValue b o).erase = (cs'.getReturnValue b o').erase
  checkTypesReturn : ∀ v o o', o.erase = o'.erase → (cs.checkTypesReturn v o).erase = (cs'.checkTypesReturn v o').erase
  init : ∀ o o', o.erase = o'.erase → (cs.init o).erase = (cs'.init o').erase
  assertUsesKwargs : ∀ o o', o.erase = o'.erase → (cs.assertUsesKwargs o).erase = (cs'.assertUsesKwargs o').erase
  checkTypes : ∀ b o o', o.erase = o'.erase → (cs.checkTypes b o).erase = (cs'.checkTypes b o').erase
  notYetChecked : ∀ o o', o.erase = o'.erase → (cs.notYetChecked o).erase = (cs'.notYetChecked o').erase

/-- the two contexts differ in the tracing flag only -/
def CtxRel (c c' : Ctx) : Prop := c.env = c'.env ∧ c.orc = c'.orc ∧ c.f = c'.f ∧ c.args = c'.args ∧ c.kw = c'.kw ∧ c.body = c'.body ∧ c.w = c'.w ∧ c.up = c'.up

theorem Obj.erase_fields {o o' : Obj} (h : o.erase = o'.erase) :
    o.hasFunc = o'.hasFunc ∧ o.hasArgs = o'.hasArgs ∧ o.hasKwargs = o'.hasKwargs ∧ o.hasTypeVars = o'.hasTypeVars ∧ o.hasGetter = o'.hasGetter ∧
    o.ctxSrcs = o'.ctxSrcs ∧ o.inst = o'.inst ∧ o.paramsWS = o'.paramsWS ∧ o.checked = o'.checked ∧ o.resolved = o'.resolved ∧
    o.obs.bodyRan = o'.obs.bodyRan ∧ o.obs.fwdPos = o'.obs.fwdPos ∧ o.obs.fwdKw = o'.obs.fwdKw ∧ o.obs.bodyCalls = o'.obs.bodyCalls := by
  obtain ⟨a1, a2, a3, a4, a5, a6, a7, a8, a9, a10, ⟨b0, b1, b2, b3, b4⟩⟩ := o
  obtain ⟨a1', a2', a3', a4', a5', a6', a7', a8', a9', a10', ⟨b0', b1', b2', b3', b4'⟩⟩ := o'
  simp only [Obj.erase, Obs.erase, Obj.mk.injEq, Obs.mk.injEq] at h
  simp [h]

theorem St.erase_iff {s s' : St} : s.erase = s'.erase ↔ s.loc = s'.loc ∧ s.obj.erase = s'.obj.erase := by
  obtain ⟨o, l⟩ := s; obtain ⟨o', l'⟩ := s'
  simp [St.erase, and_comm]

theorem vne_erase (x y : Out) : x.erase = y.erase →
    (match x with | .done (.vals l) _ => !l.isEmpty | _ => false) = (match y with | .done (.vals l) _ => !l.isEmpty | _ => false) := by
  intro h
  cases x with
  | done v o => cases y with
    | done v' o' => simp only [Out.erase, Out.done.injEq] at h; obtain ⟨rfl, _⟩ := h; cases v <;> rfl
    | fail _ _ => simp [Out.erase] at h
  | fail _ _ => cases y with
    | done _ _ => simp [Out.erase] at h
    | fail _ _ => rfl

theorem evalA_erase {c c' : Ctx} (hc : CtxRel c c') {cs cs' : Callees} (hcs : CsRel cs cs') {s s' : St} (h : s.erase = s'.erase) (a : Atom) :
    evalA c cs s a = evalA c' cs' s' a := by
  obtain ⟨hl, ho⟩ := St.erase_iff.mp h
  have hf := Obj.erase_fields ho
  obtain ⟨h1, h2, h3, h4, h5, h6, h7, h8⟩ := hc
  cases a <;> simp only [evalA, hl, h3, h4, h5, h7, hf.2.2.2.2.2.2.1, hf.2.2.2.2.2.2.2.2.2.1, hf.2.2.2.2.2.2.2.2.1]
  case argsWithoutSelfNonEmpty => exact vne_erase _ _ (hcs.argsWithoutSelf s.obj s'.obj ho)
mutual
theorem evalN_erase {c c' : Ctx} (hc : CtxRel c c') {cs cs' : Callees} (hcs : CsRel cs cs') {s s' : St} (h : s.erase = s'.erase) :
    ∀ e : NatE, evalN c cs s e = evalN c' cs' s' e
  | .lit n => by simp [evalN]
  | .loc i => by simp [evalN, St.getN, (St.erase_iff.mp h).1]
  | .lenArgs => by simp [evalN, hc.2.2.2.1]
  | .numDecorators => by simp [evalN, hc.2.2.1]
  | .add a b => by simp [evalN, evalN_erase hc hcs h a, evalN_erase hc hcs h b]
  | .cond g a b => by simp [evalN, evalG_erase hc hcs h g, evalN_erase hc hcs h a, evalN_erase hc hcs h b]
  | .countOcc _ _ => by simp [evalN]
theorem evalG_erase {c c' : Ctx} (hc : CtxRel c c') {cs cs' : Callees} (hcs : CsRel cs cs') {s s' : St} (h : s.erase = s'.erase) :
    ∀ g : Guard, evalG c cs s g = evalG c' cs' s' g
  | .tt => by simp [evalG]
  | .ff => by simp [evalG]
  | .atom a => by simp [evalG, evalA_erase hc hcs h a]
  | .not g => by simp [evalG, evalG_erase hc hcs h g]
  | .and a b => by simp [evalG, evalG_erase hc hcs h a, evalG_erase hc hcs h b]
  | .or a b => by simp [evalG, evalG_erase hc hcs h a, evalG_erase hc hcs h b]
  | .cmp op a b => by simp [evalG, evalN_erase hc hcs h a, evalN_erase hc hcs h b]
end
theorem evalV_erase {c c' : Ctx} (hc : CtxRel c c') {cs cs' : Callees} (hcs : CsRel cs cs') {s s' : St} (h : s.erase = s'.erase) (v : ValSrc) :
    evalV c cs s v = evalV c' cs' s' v := by
  cases v <;> simp [evalV, (St.erase_iff.mp h).1, hc.2.2.2.1, hc.2.2.2.2.1, evalN_erase hc hcs h]
theorem evalAnn_erase {c c' : Ctx} (hc : CtxRel c c') {s s' : St} (h : s.erase = s'.erase) (a : AnnSrc) : evalAnn c s a = evalAnn c' s' a := by
  cases a <;> simp [evalAnn, (St.erase_iff.mp h).1, hc.2.2.1]

theorem valsOf_erase (x y : Out) : x.erase = y.erase →
    (match x with | .done (.vals l) _ => l | _ => []) = (match y with | .done (.vals l) _ => l | _ => []) := by
  intro h
  cases x with
  | done v o => cases y with
    | done v' o' => simp only [Out.erase, Out.done.injEq] at h; obtain ⟨rfl, _⟩ := h; cases v <;> rfl
    | fail _ _ => simp [Out.erase] at h
  | fail _ _ => cases y with
    | done _ _ => simp [Out.erase] at h
    | fail _ _ => rfl
theorem fmtRaises_erase {c c' : Ctx} (hc : CtxRel c c') {cs cs' : Callees} (hcs : CsRel cs cs') {s s' : St} (h : s.erase = s'.erase) (l : List FmtArg) :
    fmtRaises c cs s l = fmtRaises c' cs' s' l := by
  obtain ⟨hl, ho⟩ := St.erase_iff.mp h
  have hv : ∀ src, fmtVals c cs s src = fmtVals c' cs' s' src := by
    intro src
    cases src <;> simp only [fmtVals, hl, hc.2.2.2.1, hc.2.2.2.2.1]
    exact valsOf_erase _ _ (hcs.argsWithoutSelf _ _ ho)
  simp only [fmtRaises, hv, hc.2.2.2.2.2.2.2]
theorem evalInst_erase {c c' : Ctx} (hc : CtxRel c c') {cs cs' : Callees} (hcs : CsRel cs cs') {s s' : St} (h : s.erase = s'.erase) :
    ∀ e : InstE, evalInst c cs s e = evalInst c' cs' s' e
  | .none => by simp [evalInst]
  | .firstArg => by simp [evalInst, hc.2.2.2.1]
  | .kwargsGet n => by simp [evalInst, hc.2.2.2.2.1, hc.2.2.1]
  | .cond g a b => by simp [evalInst, evalG_erase hc hcs h g, evalInst_erase hc hcs h a, evalInst_erase hc hcs h b]

theorem ofCallee_erase {s s' : St} (h : s.erase = s'.erase) {x y : Out} (hxy : x.erase = y.erase) : (ofCallee s x).erase = (ofCallee s' y).erase := by
  obtain ⟨hl, _⟩ := St.erase_iff.mp h
  cases x <;> cases y <;> simp [Out.erase] at hxy <;> simp [ofCallee, Res.erase, St.setObj, St.erase, hl, hxy]
theorem esc_erase {s s' : St} (h : s.erase = s'.erase) (k : String) : (esc k s).erase = (esc k s').erase := by
  have := Obj.erase_fields (St.erase_iff.mp h).2
  simp [esc, Res.erase, Obs.erase, this]
theorem obs_erase_eq {o o' : Obj} (h : o.erase = o'.erase) : o.obs.erase = o'.obs.erase := by
  have := Obj.erase_fields h; simp [Obs.erase, this]
/-- a state update that does not look at the path keeps the relation -/
theorem cont_erase {s s' : St} (h : s.erase = s'.erase) (fo : Obj → Obj) (fl : Loc → Loc)
    (hfo : ∀ o o' : Obj, o.erase = o'.erase → (fo o).erase = (fo o').erase) :
    (Res.cont ⟨fo s.obj, fl s.loc⟩).erase = (Res.cont ⟨fo s'.obj, fl s'.loc⟩).erase := by
  obtain ⟨hl, ho⟩ := St.erase_iff.mp h
  simp [Res.erase, St.erase, hl, hfo _ _ ho]
theorem withTypeVars_erase {cs cs' : Callees} (hcs : CsRel cs cs') (wtv : Bool) {o o' : Obj} (ho : o.erase = o'.erase) :
    match withTypeVars cs wtv o, withTypeVars cs' wtv o' with
    | .error (cl, b), .error (cl', b') => cl = cl' ∧ b.erase = b'.erase
    | .ok x, .ok x' => x.erase = x'.erase
    | _, _ => False := by
  cases wtv with
  | false => simp [withTypeVars, ho]
  | true =>
    have := hcs.typeVars o o' ho
    simp only [withTypeVars, if_true]
    cases h1 : cs.typeVars o <;> cases h2 : cs'.typeVars o' <;> simp [h1, h2, Out.erase] at this ⊢ <;> simp [this]

theorem doAct_erase {c c' : Ctx} (hc : CtxRel c c') {cs cs' : Callees} (hcs : CsRel cs cs') {s s' : St} (h : s.erase = s'.erase) (a : Action) :
    (doAct c cs s a).erase = (doAct c' cs' s' a).erase := by
  have hl := (St.erase_iff.mp h).1
  have ho := (St.erase_iff.mp h).2
  have hf := Obj.erase_fields ho
  have hob := obs_erase_eq ho
  have eG := fun g => evalG_erase hc hcs h g
  have eN := fun e => evalN_erase hc hcs h e
  have eV := fun v => evalV_erase hc hcs h v
  have eA := fun a => evalAnn_erase hc h a
  have eF := fun l => fmtRaises_erase hc hcs h l
  have eI := fun e => evalInst_erase hc hcs h e
  have eGp : ∀ (p : Param) g, evalG c cs { s with loc := { s.loc with p := some p } } g = evalG c' cs' { s' with loc := { s'.loc with p := some p } } g :=
    fun p g => evalG_erase hc hcs (by simp [St.erase_iff, hl, St.erase] at h ⊢; exact ho) g
  obtain ⟨h1, h2, h3, h4, h5, h6, h7, h8⟩ := hc
  cases a <;> simp only [doAct, eG, eN, eV, eA, eGp, eF, eI]
  case callCheckArguments => exact ofCallee_erase h (hcs.checkArguments _ _ ho)
  case callAssertUsesKwargs => exact ofCallee_erase h (hcs.assertUsesKwargs _ _ ho)
  case construct => exact ofCallee_erase h (hcs.init _ _ ho)
  case bindSelfTypeVarToClazz => exact ofCallee_erase h (hcs.clazz _ _ ho)
  case assertHasAnnotation =>
    rw [hl]; cases s'.loc.p with
    | none => exact esc_erase h _
    | some p => exact ofCallee_erase h (hcs.assertHasAnnotation p _ _ ho)
  case assertComplete a =>
    cases evalAnn c' s' a with
    | error k => exact esc_erase h _
    | ok x => exact ofCallee_erase h (hcs.assertComplete x _ _ ho)
  case callCheck w g =>
    rw [hf.2.2.2.2.2.2.2.1]; cases s'.obj.paramsWS with
    | none => exact esc_erase h _
    | some ps => exact ofCallee_erase h (hcs.checkFn w _ _ _ ho)
  all_goals (try (first
    | (exact esc_erase h _)
    | (simp [Res.erase, St.erase, St.setObj, St.setN, esc, Obj.erase, Obs.erase, hl, hf, hob, h4, h3]; done)))
  case assignN i e => cases i <;> simp [St.setN, Res.erase, St.erase, hl, ho]
  case assignV v => cases evalV c' cs' s' v <;> simp [Res.erase, St.erase, hl, ho, esc, hob]
  case assignA a => cases evalAnn c' s' a <;> simp [Res.erase, St.erase, hl, ho, esc, hob]
  case checkValue v a wk wtv wctx msg =>
    have hw := withTypeVars_erase hcs wtv ho
    cases evalV c' cs' s' v with
    | error k => simp [Res.erase, esc, hob]
    | ok x =>
      cases evalAnn c' s' a with
      | error k => simp [Res.erase, esc, hob]
      | ok ann =>
        simp only []
        cases hx : withTypeVars cs wtv s.obj with
        | error e => cases hy : withTypeVars cs' wtv s'.obj with
          | error e' => obtain ⟨cl, b⟩ := e; obtain ⟨cl', b'⟩ := e'; simp [hx, hy] at hw; simp [Res.erase, hw]
          | ok y => simp [hx, hy] at hw
        | ok y => cases hy : withTypeVars cs' wtv s'.obj with
          | error e' => simp [hx, hy] at hw
          | ok y' =>
            simp [hx, hy] at hw
            have hyo := obs_erase_eq hw
            have eFF : failFmt c cs s x msg = failFmt c' cs' s' x msg := by simp only [failFmt, eF, h8, hl]
            simp only [envFor, h1, h2, eFF]
            generalize checkOutcome _ _ = r
            cases r <;> simp [Res.erase, St.erase, St.setObj, hl, hw, hyo]
  all_goals
    try simp only [hl, hf.1, hf.2.1, hf.2.2.1, hf.2.2.2.2.2.2.2.1, hf.2.2.2.2.2.2.2.2.1, hf.2.2.2.2.1, h3, h4]
    repeat' split
    all_goals simp [Res.erase, St.erase, St.setObj, Obj.erase, Obs.erase, esc, hl, hf, hob]
theorem callBody_erase {c c' : Ctx} (hc : CtxRel c c') {o o' : Obj} (ho : o.erase = o'.erase) (k a : Bool) :
    (callBody c o k a).erase = (callBody c' o' k a).erase := by
  have hf := Obj.erase_fields ho
  obtain ⟨h1, h2, h3, h4, h5, h6, h7, h8⟩ := hc
  simp only [callBody, h3, h4, h5, h6]
  cases k <;> simp only [if_true, if_false, Bool.false_eq_true] <;>
    (generalize c'.f.binds _ _ = bb) <;> cases bb <;> cases a <;> cases (c'.f.flavour == Flavour.coroutine) <;> cases c'.body <;>
    simp [Res.erase, Obs.erase, Obj.erase, hf]

theorem toRes_erase {x y : Out} (h : x.erase = y.erase) : x.toRes.erase = y.toRes.erase := by
  cases x <;> cases y <;> simp [Out.erase] at h <;> simp [Out.toRes, Res.erase, h]

theorem rawRes_erase (r r' : Res) : r.erase = r'.erase →
    (match r with | .returned (.bodyVal _) o => Res.returned .theResult o | x => x).erase =
    (match r' with | .returned (.bodyVal _) o => Res.returned .theResult o | x => x).erase := by
  intro h
  cases r with
  | cont s => cases r' <;> simp [Res.erase] at h ⊢; exact h
  | raised cl b => cases r' <;> simp [Res.erase] at h ⊢; exact h
  | returned v o => cases r' with
    | returned v' o' =>
      simp only [Res.erase, Res.returned.injEq] at h
      obtain ⟨rfl, ho⟩ := h
      cases v <;> simp [Res.erase, ho]
    | cont _ => simp [Res.erase] at h
    | raised _ _ => simp [Res.erase] at h

theorem doRet_erase {c c' : Ctx} (hc : CtxRel c c') {cs cs' : Callees} (hcs : CsRel cs cs') {s s' : St} (h : s.erase = s'.erase) (r : RetE) :
    (doRet c cs s r).erase = (doRet c' cs' s' r).erase := by
  have hl := (St.erase_iff.mp h).1
  have ho := (St.erase_iff.mp h).2
  have hf := Obj.erase_fields ho
  have hob := obs_erase_eq ho
  have eG := fun g => evalG_erase hc hcs h g
  have eN := fun e => evalN_erase hc hcs h e
  have eA := fun a => evalAnn_erase hc h a
  have hcb := fun k a => callBody_erase hc ho k a
  have eGk : ∀ (k : NameId) g, evalG c cs { s with loc := { s.loc with kwKey := some k } } g = evalG c' cs' { s' with loc := { s'.loc with kwKey := some k } } g :=
    fun k g => evalG_erase hc hcs (by simp [St.erase_iff, hl, St.erase] at h ⊢; exact ho) g
  have hc' := hc
  obtain ⟨h1, h2, h3, h4, h5, h6, h7, h8⟩ := hc
  cases r <;> simp only [doRet, eG, eN, eA, eGk]
  case callFunc k a => exact hcb k a
  case callRaw a =>
    have := hcb false (if a = true then true else c.f.flavour == Flavour.coroutine)
    rw [h3] at this ⊢
    exact rawRes_erase _ _ this
  case wrapGenerator a wtv wc =>
    have hw := withTypeVars_erase hcs wtv ho
    cases evalAnn c' s' a with
    | error k => exact esc_erase h _
    | ok x =>
      simp only []
      cases hx : withTypeVars cs wtv s.obj with
      | error e => cases hy : withTypeVars cs' wtv s'.obj with
        | error e' => obtain ⟨cl, b⟩ := e; obtain ⟨cl', b'⟩ := e'; simp [hx, hy] at hw; simp [Res.erase, hw]
        | ok y => simp [hx, hy] at hw
      | ok y => cases hy : withTypeVars cs' wtv s'.obj with
        | error e' => simp [hx, hy] at hw
        | ok y' =>
          simp [hx, hy] at hw
          have hyo := obs_erase_eq hw
          rw [h3]
          cases c'.f.genRet <;> simp [Res.erase, hyo, hw]
  case checkReturnOfBody ag awg aw =>
    split
    · exact esc_erase h _
    · have := hcs.getReturnValue ag _ _ ho
      cases hx : cs.getReturnValue ag s.obj with
      | fail cl b => cases hy : cs'.getReturnValue ag s'.obj with
        | fail cl' b' => simp [hx, hy, Out.erase] at this; simp [Res.erase, this]
        | done v o => simp [hx, hy, Out.erase] at this
      | done v o => cases hy : cs'.getReturnValue ag s'.obj with
        | fail cl' b' => simp [hx, hy, Out.erase] at this
        | done v' o' =>
          simp [hx, hy, Out.erase] at this
          obtain ⟨rfl, ho2⟩ := this
          cases v with
          | bodyVal x => exact toRes_erase (hcs.checkTypesReturn x _ _ ho2)
          | _ => simp [Res.erase, obs_erase_eq ho2]
  case checkTypes a aw =>
    split
    · exact esc_erase h _
    · exact toRes_erase (hcs.checkTypes a _ _ ho)
  all_goals
    try simp only [hl, h3, h4, h5]
    repeat' split
    all_goals simp [Res.erase, St.erase, St.setObj, Obj.erase, Obs.erase, esc, hl, hf, hob, ho]
theorem Obj.tr_erase (t : Bool) (o : Obj) (id : Nat) : (o.tr t id).erase = o.erase := by
  cases t <;> simp [Obj.tr, Obj.erase, Obs.erase]
theorem Obj.trs_erase (t : Bool) (o : Obj) (ids : List Nat) : (o.trs t ids).erase = o.erase := by
  cases t <;> simp [Obj.trs, Obj.erase, Obs.erase]
theorem St.tr_erase (t : Bool) (s : St) (id : Nat) : (s.tr t id).erase = s.erase := by
  simp [St.tr, St.erase, Obj.tr_erase]
theorem tr_rel {s s' : St} (h : s.erase = s'.erase) (t t' : Bool) (id : Nat) : (s.tr t id).erase = (s'.tr t' id).erase := by
  rw [St.tr_erase, St.tr_erase, h]

theorem bind_erase {r r' : Res} (h : r.erase = r'.erase) {k k' : St → Res} (hk : ∀ s s', s.erase = s'.erase → (k s).erase = (k' s').erase) :
    (r.bind k).erase = (r'.bind k').erase := by
  cases r <;> cases r' <;> simp [Res.erase] at h <;> simp [Res.bind, Res.erase, h]
  exact hk _ _ h

theorem iterList_erase {α : Type} (t t' : Bool) (hdr : Nat) (step step' : α → St → Res)
    (hstep : ∀ x s s', s.erase = s'.erase → (step x s).erase = (step' x s').erase) :
    ∀ (xs : List α) (s s' : St), s.erase = s'.erase → (iterList t hdr step xs s).erase = (iterList t' hdr step' xs s').erase
  | [], s, s', h => by simp only [iterList, Res.erase]; rw [tr_rel h t t' hdr]
  | x :: rest, s, s', h => by
    simp only [iterList]
    exact bind_erase (hstep x _ _ (tr_rel h t t' hdr)) (fun a b hab => iterList_erase t t' hdr step step' hstep rest a b hab)

theorem interp_erase {c c' : Ctx} (hc : CtxRel c c') {cs cs' : Callees} (hcs : CsRel cs cs') :
    ∀ (p : Stmt) (s s' : St), s.erase = s'.erase → (interp c cs p s).erase = (interp c' cs' p s').erase
  | .skip, s, s', h => by simp [interp, Res.erase, h]
  | .seq a b, s, s', h => by
    simp only [interp]
    exact bind_erase (interp_erase hc hcs a s s' h) (fun x y hxy => interp_erase hc hcs b x y hxy)
  | .act id a, s, s', h => by
    simp only [interp]
    exact doAct_erase hc hcs (tr_rel h _ _ id) a
  | .ite id g t e, s, s', h => by
    simp only [interp, evalG_erase hc hcs h g]
    have hs : ({ s with obj := (s.obj.tr c.tracing id).trs c.tracing (if c.tracing then traceG c cs s g else []) } : St).erase =
        ({ s' with obj := (s'.obj.tr c'.tracing id).trs c'.tracing (if c'.tracing then traceG c' cs' s' g else []) } : St).erase := by
      simp only [St.erase, Obj.trs_erase, Obj.tr_erase]
      have := St.erase_iff.mp h
      simp [this.1, this.2]
    split
    · exact interp_erase hc hcs t _ _ hs
    · exact interp_erase hc hcs e _ _ hs
  | .forParams id b, s, s', h => by
    simp only [interp, (St.erase_iff.mp h).1]
    refine iterList_erase _ _ id _ _ (fun p x y hxy => interp_erase hc hcs b _ _ ?_) _ s s' h
    have := St.erase_iff.mp hxy
    simp [St.erase_iff, this.1, this.2]
  | .forStarValues id b, s, s', h => by
    simp only [interp, (St.erase_iff.mp h).1]
    cases s'.loc.starVals with
    | none => exact esc_erase (tr_rel h _ _ id) _
    | some vs =>
      refine iterList_erase _ _ id _ _ (fun p x y hxy => interp_erase hc hcs b _ _ ?_) _ s s' h
      have := St.erase_iff.mp hxy
      simp [St.erase_iff, this.1, this.2]
  | .forUncheckedKwargs id b, s, s', h => by
    simp only [interp]
    have ho := (St.erase_iff.mp h).2
    have hl := (St.erase_iff.mp h).1
    have hny := hcs.notYetChecked (s.obj.tr c.tracing id) (s'.obj.tr c'.tracing id) (by rw [Obj.tr_erase, Obj.tr_erase, ho])
    cases hx : cs.notYetChecked (s.obj.tr c.tracing id) with
    | fail cl b => cases hy : cs'.notYetChecked (s'.obj.tr c'.tracing id) with
      | fail cl' b' => simp [hx, hy, Out.erase] at hny; simp [Res.erase, hny]
      | done v o => simp [hx, hy, Out.erase] at hny
    | done v o => cases hy : cs'.notYetChecked (s'.obj.tr c'.tracing id) with
      | fail cl' b' => simp [hx, hy, Out.erase] at hny
      | done v' o' =>
        simp [hx, hy, Out.erase] at hny
        obtain ⟨rfl, ho2⟩ := hny
        cases v with
        | keys ks =>
          refine iterList_erase _ _ id _ _ (fun p x y hxy => interp_erase hc hcs b _ _ ?_) _ _ _ (by simp [St.erase_iff, St.setObj, hl, ho2])
          have := St.erase_iff.mp hxy
          simp [St.erase_iff, this.1, this.2]
        | _ => simp [Res.erase, obs_erase_eq ho2]
  | .ret id r, s, s', h => by
    simp only [interp]
    exact doRet_erase hc hcs (tr_rel h _ _ id) r
theorem toOut_erase {r r' : Res} (h : r.erase = r'.erase) : r.toOut.erase = r'.toOut.erase := by
  cases r <;> cases r' <;> simp [Res.erase] at h <;> simp [Res.toOut, Out.erase, h]
  have := St.erase_iff.mp h; exact this.2

theorem runFn_erase {c c' : Ctx} (hc : CtxRel c c') {cs cs' : Callees} (hcs : CsRel cs cs') (ir : Stmt) (entry : Nat) (loc : Loc) {o o' : Obj}
    (ho : o.erase = o'.erase) : (runFn c cs ir entry loc o).erase = (runFn c' cs' ir entry loc o').erase := by
  simp only [runFn]
  exact toOut_erase (interp_erase hc hcs ir _ _ (by simp [St.erase, Obj.tr_erase, ho]))

theorem stuck_erase {o o' : Obj} (ho : o.erase = o'.erase) : (stuck o).erase = (stuck o').erase := by
  simp [stuck, Out.erase, obs_erase_eq ho]
theorem csRel_none : CsRel noCallees noCallees :=
  ⟨fun _ _ h => stuck_erase h, fun _ _ h => stuck_erase h, fun _ _ h => stuck_erase h, fun _ _ _ h => stuck_erase h, fun _ _ _ h => stuck_erase h,
   fun _ _ _ _ h => stuck_erase h, fun _ _ h => stuck_erase h, fun _ _ _ h => stuck_erase h, fun _ _ _ h => stuck_erase h, fun _ _ h => stuck_erase h,
   fun _ _ h => stuck_erase h, fun _ _ _ h => stuck_erase h, fun _ _ h => stuck_erase h⟩
theorem csRel0 {c c' : Ctx} (hc : CtxRel c c') : CsRel (cs0 c) (cs0 c') :=
  { csRel_none with
    clazz := fun _ _ h => runFn_erase hc csRel_none _ _ _ h
    argsWithoutSelf := fun _ _ h => runFn_erase hc csRel_none _ _ _ h
    assertHasAnnotation := fun _ _ _ h => runFn_erase hc csRel_none _ _ _ h
    assertComplete := fun _ _ _ h => runFn_erase hc csRel_none _ _ _ h
    init := fun _ _ h => runFn_erase hc csRel_none _ _ _ h
    getReturnValue := fun b _ _ h => by cases b <;> exact runFn_erase hc csRel_none _ _ _ h
    notYetChecked := fun _ _ h => runFn_erase hc csRel_none notYetCheckedIR 3100 {} h }
theorem csRel1 {c c' : Ctx} (hc : CtxRel c c') : CsRel (cs1 c) (cs1 c') :=
  { csRel0 hc with
    typeVars := fun _ _ h => runFn_erase hc (csRel0 hc) _ _ _ h
    assertUsesKwargs := fun _ _ h => runFn_erase hc (csRel0 hc) _ _ _ h }
theorem csRel2 {c c' : Ctx} (hc : CtxRel c c') : CsRel (cs2 c) (cs2 c') :=
  { csRel1 hc with
    checkFn := fun w _ _ _ h => by cases w <;> exact runFn_erase hc (csRel1 hc) _ _ _ h
    checkTypesReturn := fun _ _ _ h => runFn_erase hc (csRel1 hc) _ _ _ h }
theorem csRel3 {c c' : Ctx} (hc : CtxRel c c') : CsRel (cs3 c) (cs3 c') :=
  { csRel2 hc with checkArguments := fun _ _ h => runFn_erase hc (csRel2 hc) _ _ _ h }
theorem csRel4 {c c' : Ctx} (hc : CtxRel c c') : CsRel (cs4 c) (cs4 c') :=
  { csRel3 hc with checkTypes := fun b _ _ h => by cases b <;> exact runFn_erase hc (csRel3 hc) _ _ _ h }

theorem wrapperOf_erase (r r' : Res) : r.erase = r'.erase →
    (match r with | .returned (.wrapper b) _ => b | _ => false) = (match r' with | .returned (.wrapper b) _ => b | _ => false) := by
  intro h
  cases r with
  | returned v o => cases r' with
    | returned v' o' => simp only [Res.erase, Res.returned.injEq] at h; obtain ⟨rfl, _⟩ := h; cases v <;> rfl
    | cont _ => simp [Res.erase] at h
    | raised _ _ => simp [Res.erase] at h
  | cont _ => cases r' <;> simp [Res.erase] at h ⊢
  | raised _ _ => cases r' <;> simp [Res.erase] at h ⊢
theorem selectsAsync_erase {c c' : Ctx} (hc : CtxRel c c') : selectsAsync c = selectsAsync c' :=
  wrapperOf_erase _ _ (interp_erase hc csRel_none pedSelectIR ⟨{}, {}⟩ ⟨{}, {}⟩ rfl)

theorem toResult_erase {x y : Out} (h : x.erase = y.erase) : toResult x = toResult y := by
  cases x with
  | done v o => cases y with
    | done v' o' =>
      simp only [Out.erase, Out.done.injEq] at h
      obtain ⟨rfl, ho⟩ := h
      have := Obj.erase_fields ho
      cases v <;> simp [toResult, this]
    | fail _ _ => simp [Out.erase] at h
  | fail cl b => cases y with
    | done _ _ => simp [Out.erase] at h
    | fail cl' b' =>
      simp only [Out.erase, Out.fail.injEq, Obs.erase, Obs.mk.injEq] at h
      simp [toResult, h]

theorem runWrapper_erase {c c' : Ctx} (hc : CtxRel c c') : (runWrapper c).erase = (runWrapper c').erase := by
  simp only [runWrapper, selectsAsync_erase hc, hc.2.2.1]
  cases c'.f.mode with
  | requireKwargs => exact runFn_erase hc (csRel4 hc) _ _ _ rfl
  | pedantic => cases selectsAsync c' <;> exact runFn_erase hc (csRel4 hc) _ _ _ rfl

/-- **Recording the path does not change the result**: the interpretation that the driver runs (path recorded, compared with the
    lines CPython executes) returns what the interpretation of the theorems (`runCallIR`) returns, hence - `runCallIR_eq` - what the
    hand-written model returns. -/
theorem runCallTraced_result (env : Env) (orc : Nat → Val → Raw) (f : Fn) (args : List Val) (kw : List (NameId × Val)) (body : BodyOut) (w : World)
    (up : Val → Bool) :
    (runCallTraced env orc f args kw body w up).1 = runCallIR env orc f args kw body w up := by
  simp only [runCallTraced, runCallIR]
  exact toResult_erase (runWrapper_erase ⟨rfl, rfl, rfl, rfl, rfl, rfl, rfl, rfl⟩)
end PedVerif.CallIR
