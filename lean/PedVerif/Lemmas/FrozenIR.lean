import PedVerif.Model.FrozenIR
import PedVerif.Props.C10
import PedVerif.Props.C11
/-!
Refinement: the interpretation of the generated statement programs (`Model/FrozenIR.lean` on `Gen/FrozenIR.lean`) IS the hand model
(`Model/TypeSafe.lean`, `Model/Frozen.lean` on `Gen/TypeSafe.lean`, `Gen/Frozen.lean`), for all inputs.  Every proof below evaluates the
*generated* program: a source edit that changes what a function does changes the program and the proof no longer goes through; an edit
that only renames locals, rewords messages or rewrites a statement into an equivalent one yields a program with the same interpretation.
-/
set_option linter.unusedSimpArgs false
set_option linter.unusedVariables false
namespace PedVerif.FrozenIR
open PedVerif.Gen.FrozenIR

/-! ## the decorator -/

/-- what the hand models assume about a run of `decorator` (facts of `Gen/Frozen.lean`, `Gen/TypeSafe.lean`) -/
def handDeco (p : Params) : DecoOut :=
  { dc := some ⟨Gen.Frozen.frozenArg p.typeSafe p.order p.kwOnly p.slots, Gen.Frozen.orderArg p.typeSafe p.order p.kwOnly p.slots,
               Gen.Frozen.kwOnlyArg p.typeSafe p.order p.kwOnly p.slots, Gen.Frozen.slotsArg p.typeSafe p.order p.kwOnly p.slots⟩,
    returnsNew := Gen.Frozen.returnsDataclass,
    methods := Gen.Frozen.methodsAdded,
    wrapper := p.typeSafe && Gen.TypeSafe.postInitOnlyWhenTypeSafe && Gen.TypeSafe.postInitInstalledBeforeDataclass }

/-- **the decorator program does what the hand models say**, for all sixteen parameter combinations: `dataclass()` is applied once, to the
    class handed in, with `frozen=True` and the three options passed through; the three methods end up on the class it returns, which is
    handed back; the validating `__post_init__` is installed iff `type_safe`, before `dataclass()`, around the previously found hook -/
theorem deco_refines (p : Params) : decoOut p = some (handDeco p) := by
  obtain ⟨a, b, c, d⟩ := p
  cases a <;> cases b <;> cases c <;> cases d <;> decide

/-! ## the frame walks -/

section Frames
open PedVerif.TypeSafe PedVerif.Gen.TypeSafe

/-- the code objects `new_post_init` hands to the walk -/
def irSkipCodes : List String :=
  (postInitProg.map fun s => match s.2 with | .bindCallerContext _ skip => skip.map fnName | _ => []).flatten

/-- … as functions -/
def irSkipFns : List Fn := (postInitProg.map fun s => match s.2 with | .bindCallerContext _ skip => skip | _ => []).flatten

/-- if the loop test is the model's `Frame.internal`, the walk is the model's `walk` -/
theorem irWalk_fst (stops : Bool) (tests : List FrameTest) (skip : List String) (w : Nat) (body : List Nat)
    (hint : ∀ f, irInternal tests skip f = f.internal) (hstops : stops = callerWalkStopsAtLastFrame) :
    ∀ (l : List Frame) (i : Nat), (irWalk stops tests skip w body l i).1 = walk l i := by
  intro l
  induction l with
  | nil => intro i; simp [irWalk, walk]
  | cons f rest ih =>
    intro i
    cases rest with
    | nil =>
      simp only [irWalk, walk, hint, hstops]
      split <;> rfl
    | cons g rest' =>
      simp only [irWalk, walk, hint]
      split
      · exact ih (i + 1)
      · rfl

def noOther : List FrameTest → Bool
  | [] => true
  | .other _ :: _ => false
  | _ :: r => noOther r

theorem any_tests (skip : List String) (f : Frame) : ∀ tests : List FrameTest, noOther tests = true →
    tests.any (fun t => testHolds skip f t) =
      ((tests.contains .codeInSkip && skip.contains f.code) || (tests.contains .moduleIsDataclasses && f.inDataclasses) ||
        (tests.contains .holdsInstance && f.holdsInstance)) := by
  intro tests
  induction tests with
  | nil => intro _; simp
  | cons t rest ih =>
    intro h
    cases t with
    | other s => simp [noOther] at h
    | codeInSkip =>
      rw [List.any_cons, ih (by simpa [noOther] using h)]
      simp only [testHolds, List.contains_cons]
      generalize skip.contains f.code = a; generalize f.inDataclasses = b; generalize f.holdsInstance = c
      generalize rest.contains FrameTest.codeInSkip = x; generalize rest.contains FrameTest.moduleIsDataclasses = y
      generalize rest.contains FrameTest.holdsInstance = z
      cases a <;> cases b <;> cases c <;> cases x <;> cases y <;> cases z <;> decide
    | moduleIsDataclasses =>
      rw [List.any_cons, ih (by simpa [noOther] using h)]
      simp only [testHolds, List.contains_cons]
      generalize skip.contains f.code = a; generalize f.inDataclasses = b; generalize f.holdsInstance = c
      generalize rest.contains FrameTest.codeInSkip = x; generalize rest.contains FrameTest.moduleIsDataclasses = y
      generalize rest.contains FrameTest.holdsInstance = z
      cases a <;> cases b <;> cases c <;> cases x <;> cases y <;> cases z <;> decide
    | holdsInstance =>
      rw [List.any_cons, ih (by simpa [noOther] using h)]
      simp only [testHolds, List.contains_cons]
      generalize skip.contains f.code = a; generalize f.inDataclasses = b; generalize f.holdsInstance = c
      generalize rest.contains FrameTest.codeInSkip = x; generalize rest.contains FrameTest.moduleIsDataclasses = y
      generalize rest.contains FrameTest.holdsInstance = z
      cases a <;> cases b <;> cases c <;> cases x <;> cases y <;> cases z <;> decide

/-- the disjuncts of the loop test and the skipped code objects are those the model's `Frame.internal` uses (in any order, with repetitions) -/
def testsMatch (tests : List FrameTest) (skip : List String) : Bool :=
  noOther tests && skip == callerSkipCodes &&
    (tests.contains .codeInSkip == callerSkipTests.contains "code_in_skip") &&
    (tests.contains .moduleIsDataclasses == callerSkipTests.contains "module_is_dataclasses") &&
    (tests.contains .holdsInstance == callerSkipTests.contains "holds_instance")

theorem irInternal_of_match (tests : List FrameTest) (skip : List String) (h : testsMatch tests skip = true) :
    ∀ f : Frame, irInternal tests skip f = f.internal := by
  intro f
  simp only [testsMatch, Bool.and_eq_true, beq_iff_eq] at h
  obtain ⟨⟨⟨⟨h0, h1⟩, h2⟩, h3⟩, h4⟩ := h
  rw [irInternal, any_tests skip f tests h0, h1, h2, h3, h4]
  rfl

/-- **`_get_context_of_caller` is the model's frame selection**: for every stack, with the code objects `new_post_init` passes, the program
    returns the names of the frame `selectFrame` picks (merged globals first, locals last) -/
theorem caller_refines (skip : List String) (hs : skip = callerSkipCodes) (stack : List Frame) :
    (runCaller skip stack callerProg none []).1 = some (selectFrame stack, [.frameGlobals, .frameLocals]) := by
  subst hs
  simp only [runCaller, callerProg, List.map, selectFrame, Option.map]
  rw [irWalk_fst _ _ _ _ _ (irInternal_of_match _ _ (by decide)) (by decide)]
  rfl

/-- the statements the walk executes (compared with the real line trace by the harness, not constrained by the theorems) -/
def callerPath (skip : List String) (stack : List Frame) : List Nat := (runCaller skip stack callerProg none []).2

theorem caller_pair (skip : List String) (hs : skip = callerSkipCodes) (stack : List Frame) :
    runCaller skip stack callerProg none [] = (some (selectFrame stack, [.frameGlobals, .frameLocals]), callerPath skip stack) :=
  Prod.ext (caller_refines skip hs stack) rfl

end Frames

/-! ## `validate_types` -/

section TS
open PedVerif.Checker PedVerif.TypeSafe PedVerif.Gen.TypeSafe

/-- the loop body is one unconditional check of the field: its value against its annotation, with fresh TypeVars and the merged context -/
def bodyOk : List (Nat × VBody) → Bool
  | [(_, .assertField true true true true)] => true
  | _ => false

theorem runBody_of_ok (env : Env) (orc : Nat → Val → Raw) (body : List (Nat × VBody)) (h : bodyOk body = true) (f : Field) (v : Val)
    (p : List Nat) : (runBody env orc f v body p).1 =
      match checkType env orc f.ann v with
      | .accept => .next | .reject => .raise .pedTypeCheck | .pedErr => .raise .pedTypeCheck
      | .tvMismatch => .raise .pedTVMismatch | .escape => .raise .escape := by
  match body, h with
  | [(i, .assertField true true true true)], _ =>
    simp only [runBody, Bool.and_self, Bool.not_true, Bool.false_eq_true, ↓reduceIte]
    cases checkType env orc f.ann v <;> rfl

/-- **the loop of `validate_types` is the model's `validateTypes`**: every field in order, the first failure wins -/
theorem loopFields_eq (env : Env) (orc : Nat → Val → Raw) (hdr : Nat) (body : List (Nat × VBody)) (h : bodyOk body = true) :
    ∀ (fvs : List (Field × Val)) (p : List Nat), (loopFields env orc hdr body fvs p).1 =
      match validateTypes env orc fvs with | none => .done | some o => .raised o := by
  intro fvs
  induction fvs with
  | nil => intro p; simp [loopFields, validateTypes]
  | cons fv rest ih =>
    intro p
    obtain ⟨f, v⟩ := fv
    have hb := runBody_of_ok env orc body h f v (p ++ [hdr])
    rcases hrb : runBody env orc f v body (p ++ [hdr]) with ⟨r, p'⟩
    rw [hrb] at hb
    simp only at hb
    simp only [loopFields, hrb, validateTypes, cfg_validate]
    cases hc : checkType env orc f.ann v <;> simp only [hc] at hb <;> subst hb <;> simp only [Bool.false_eq_true, ↓reduceIte]
    exact ih p'

/-- the verdict of `validate_types` is the verdict of its loop (nothing follows the loop) -/
theorem afterLoop (e : Env) (orc : Nat → Val → Raw) (hdr : Nat) (body : List (Nat × VBody))
    (fvs : List (Field × Val)) (p : List Nat) (h : bodyOk body = true) :
    (match loopFields e orc hdr body fvs p with
      | (.done, q) => (VRes.passed, q)
      | (.returned, q) => (.passed, q)
      | (.raised o, q) => (.raised o, q)
      | (.ill, q) => (.illFormed, q)).1 = VRes.ofOption (validateTypes e orc fvs) := by
  rcases hl : loopFields e orc hdr body fvs p with ⟨r, q⟩
  have := loopFields_eq e orc hdr body h fvs p
  rw [hl] at this
  simp only at this
  cases hv : validateTypes e orc fvs <;> simp only [hv] at this <;> subst this <;> simp [VRes.ofOption]

theorem ctxval_ne : (CtxVal.otherFrame == CtxVal.pyNone) = false ∧ (CtxVal.callerFrame == CtxVal.pyNone) = false ∧
    (CtxVal.pyNone == CtxVal.pyNone) = true := by decide

/-- **`validate_types` with the context `new_post_init` hands in** is the model's loop in the environment `Env.withCaller`: the names of the
    selected frame (the caller's iff `sees`) below the names of the defining module and the class itself -/
theorem validate_given_refines (env : Env) (locals : List (NameId × ClsId)) (orc : Nat → Val → Raw) (fvs : List (Field × Val)) (sees : Bool)
    (getCtx : Nat → Option CtxVal × List Nat) :
    (runValidate ⟨env, locals, orc, fvs, fvs.length, if sees then .callerFrame else .otherFrame, getCtx⟩ validateProg
      { ctx := if sees then .callerFrame else .otherFrame } []).1 = VRes.ofOption (validateTypes (env.withCaller locals sees) orc fvs) := by
  cases sees
  · simp only [Bool.false_eq_true, ↓reduceIte, runValidate, validateProg, fieldsFor, List.take_length, beq_iff_eq, reduceCtorEq,
      mergeEnv, List.contains_cons, beq_self_eq_true, Bool.or_true, Bool.true_or, Bool.and_self, Env.withCaller, Bool.not_false, ctxval_ne, Bool.false_and]
    exact afterLoop _ _ _ _ _ _ (by decide)
  · simp only [↓reduceIte, runValidate, validateProg, fieldsFor, List.take_length, beq_iff_eq, reduceCtorEq,
      Bool.false_eq_true, mergeEnv, List.contains_cons, beq_self_eq_true, Bool.or_true, Bool.true_or, Bool.and_self, Bool.not_true,
      idxOf, Env.withCaller, cfg_context, ctxval_ne, Bool.false_and]
    simp only [show (0 : Nat) < 0 + 1 from by omega, ↓reduceIte]
    exact afterLoop _ _ _ _ _ _ (by decide)

def validatePath (vi : VIn) (st : VState) : List Nat := (runValidate vi validateProg st []).2

theorem validate_pair (env : Env) (locals : List (NameId × ClsId)) (orc : Nat → Val → Raw) (fvs : List (Field × Val)) (sees : Bool)
    (getCtx : Nat → Option CtxVal × List Nat) :
    runValidate ⟨env, locals, orc, fvs, fvs.length, if sees = true then .callerFrame else .otherFrame, getCtx⟩ validateProg
      { ctx := if sees = true then .callerFrame else .otherFrame } [] =
    (VRes.ofOption (validateTypes (env.withCaller locals sees) orc fvs),
     validatePath ⟨env, locals, orc, fvs, fvs.length, if sees = true then .callerFrame else .otherFrame, getCtx⟩
       { ctx := if sees = true then .callerFrame else .otherFrame }) :=
  Prod.ext (validate_given_refines env locals orc fvs sees getCtx) rfl

/-- **a direct call `inst.validate_types()`** (no context handed in: `get_context(depth=2)`, the frame of whoever called the method) is the
    model's `validateCallIn` -/
theorem validate_user_refines (env : Env) (locals : List (NameId × ClsId)) (orc : Nat → Val → Raw) (fvs : List (Field × Val))
    (caller : Frame) (outer : List Frame) :
    (irValidateCall env locals orc fvs caller outer).1 =
      VRes.ofOption (validateTypes (env.withCaller locals userValidateSeesCaller) orc fvs) := by
  have hs : userValidateSeesCaller = true := by decide
  rw [hs]
  simp only [irValidateCall, runValidate, validateProg, fieldsFor, List.take_length, beq_self_eq_true, ↓reduceIte, runVSimple, userGetCtx,
    runGetContext, getContextProg, List.contains_nil, Bool.false_eq_true, Option.map, List.contains_cons, Bool.or_true, Bool.and_true,
    beq_iff_eq, reduceCtorEq, mergeEnv, Bool.true_or, Bool.and_self, Bool.not_true, idxOf, Env.withCaller, cfg_context, ctxval_ne, Bool.false_and, Bool.true_and,
    Option.bind, List.cons_append, List.nil_append]
  simp only [show (0 : Nat) < 0 + 1 from by omega, ↓reduceIte]
  exact afterLoop _ _ _ _ _ _ (by decide)

/-! ## `new_post_init` and the construction paths -/

theorem hookFor_eq (typeSafe : Bool) (up : UserPost) (n : Nat) :
    hookFor typeSafe up n = some (if typeSafe then .wrapped n (.ofUser up) else .ofUser up) := by
  simp only [hookFor, deco_refines, handDeco]
  cases typeSafe <;> rfl

theorem reachesInit_true (p : Path) : (reachesInit p).1 = true := by
  cases p <;> rfl

/-- **the wrapper `new_post_init`, run statement by statement, is the model's `postInit`** in the environment of the frame the walk
    selects: previous hook first (its exception ends the construction), then the context of the caller, then the validation -/
theorem wrapper_refines (env : Env) (locals : List (NameId × ClsId)) (orc : Nat → Val → Raw) (up : UserPost) (p : Path)
    (caller : Frame) (outer : List Frame) (fvs : List (Field × Val)) :
    let r := runHook ⟨env, locals, orc, fvs, p, caller, outer⟩ (.wrapped fvs.length (.ofUser up)) 0
    r.1.outcome.map (fun o => (r.2.1, o)) =
      some (postInit (env.withCaller locals (seesCaller p [initFrame] caller outer)) orc true up fvs) := by
  intro r
  have hcfg : postInitOrder = ["old", "validate"] ∧ postInitOnlyWhenTypeSafe = true := by decide
  have hchain : chainAt 0 = [initFrame] := rfl
  have hsee : (selectFrame (stackOf p [initFrame] caller outer) == callerIndex p [initFrame]) = seesCaller p [initFrame] caller outer := rfl
  cases up <;>
    simp (disch := decide) only [r, runHook, runP, postInitProg, Hook.ofUser, hchain, Bool.not_true, Bool.false_eq_true, ↓reduceIte,
      postInit, hcfg, Bool.and_self, List.nil_append, List.append_nil, beq_self_eq_true, List.map, caller_pair,
      List.contains_cons, Bool.or_true, Bool.and_true, hsee, validate_pair] <;>
    cases hvt : validateTypes (env.withCaller locals (seesCaller p [initFrame] caller outer)) orc fvs <;>
    simp [VRes.ofOption, runP, PRes.outcome, hvt]

/-- **every construction path, executed by any function, is the model's `constructIn`**: the copy method reaches the generated `__init__`
    (`replace` / the constructor call), which calls the hook chain the decorator built -/
theorem construct_refines (env : Env) (locals : List (NameId × ClsId)) (caller : Frame) (outer : List Frame) (orc : Nat → Val → Raw)
    (typeSafe : Bool) (up : UserPost) (p : Path) (fvs : List (Field × Val)) :
    (irConstructIn env locals caller outer orc typeSafe up p fvs).1 =
      some (constructIn env locals [[initFrame]] caller outer orc typeSafe up p fvs) := by
  have hcfg : copyWithIsReplace = true ∧ deepCopyCallsConstructor = true := by decide
  have hcon : constructIn env locals [[initFrame]] caller outer orc typeSafe up p fvs =
      postInit (env.withCaller locals (seesCaller p [initFrame] caller outer)) orc typeSafe up fvs := by
    cases p <;> simp [constructIn, construct, hcfg]
  rw [hcon]
  simp only [irConstructIn, hookFor_eq]
  rcases hr : reachesInit p with ⟨b, q⟩
  have hb : b = true := by have := reachesInit_true p; rw [hr] at this; exact this
  subst hb
  cases typeSafe
  · cases up <;> simp [runInit, Hook.ofUser, runHook, PRes.outcome, postInit]
  · simp only [↓reduceIte]
    have := wrapper_refines env locals orc up p caller outer fvs
    simp only at this
    simpa [runInit] using this

/-! ## which values the copy holds -/

theorem lookup_filter_keys' {α : Type} (p : Nat → Bool) : ∀ (l : List (Nat × α)) (k : Nat),
    List.lookup k (l.filter (fun kv => p kv.1)) = if p k = true then l.lookup k else none := by
  intro l
  induction l with
  | nil => intro k; simp
  | cons a l ih =>
    intro k
    obtain ⟨k0, v⟩ := a
    by_cases hp : p k0 = true
    · simp only [List.filter_cons, hp, ↓reduceIte]
      by_cases hk : k = k0
      · subst hk; simp [hp, List.lookup_cons]
      · have hb : (k == k0) = false := by simpa using hk
        simp only [List.lookup_cons, hb]; exact ih k
    · simp only [List.filter_cons, hp, Bool.false_eq_true, ↓reduceIte]
      by_cases hk : k = k0
      · subst hk; rw [ih k]; simp [hp]
      · have hb : (k == k0) = false := by simpa using hk
        simp only [List.lookup_cons, hb]; exact ih k

theorem mergeAL_lookup {α : Type} (a b : List (Nat × α)) (k : Nat) :
    (mergeAL a b).lookup k = match b.lookup k with | some v => some v | none => a.lookup k := by
  unfold mergeAL
  rw [List.lookup_append, lookup_filter_keys' (fun k => (b.lookup k).isNone)]
  cases b.lookup k <;> simp

theorem lookup_own_of_nodup : ∀ (cur : List (Field × Val)), (cur.map (·.1.name)).Nodup → ∀ fv ∈ cur,
    (cur.map fun x => (x.1.name, x.2)).lookup fv.1.name = some fv.2 := by
  intro cur
  induction cur with
  | nil => intro _ fv h; simp at h
  | cons x rest ih =>
    intro hnd fv hm
    have hnd' := List.nodup_cons.mp hnd
    simp only [List.mem_cons] at hm
    rcases hm with rfl | hm
    · simp [List.lookup_cons]
    · have hne : fv.1.name ≠ x.1.name := by
        intro he; exact hnd'.1 (List.mem_map.mpr ⟨fv, hm, he⟩)
      have hb : (fv.1.name == x.1.name) = false := by simpa using hne
      simp only [List.map_cons, List.lookup_cons, hb]
      exact ih hnd'.2 fv hm

theorem bindAll_of_pointwise (d : List (NameId × Val)) (g : Field × Val → Val) : ∀ (l : List (Field × Val)),
    (∀ fv ∈ l, d.lookup fv.1.name = some (g fv)) → bindAll d (l.map (·.1)) = some (l.map fun fv => (fv.1, g fv)) := by
  intro l
  induction l with
  | nil => intro _; rfl
  | cons x rest ih =>
    intro h
    simp only [List.map_cons, bindAll, h x (by simp), ih (fun fv hfv => h fv (by simp [hfv]))]

/-- **the copy holds the keyword's value where one is given and the receiver's value otherwise** — computed by running the statements of
    `copy_with` / `deep_copy_with` (the comprehension, the `{**…, **…}` merge, `replace` / the constructor call) and the argument binding of
    the generated `__init__`, for receivers with distinct field names and keywords that name fields -/
theorem copiedFields_eq (p : Path) (hp : p ≠ .constructor) (cur : List (Field × Val)) (kw : List (NameId × Val))
    (hnd : (cur.map (·.1.name)).Nodup) (hkw : ∀ kv ∈ kw, ∃ fv ∈ cur, fv.1.name = kv.1) :
    copiedFields p cur kw = some (replacedFields cur kw) := by
  have hrun : runCT cur kw (pathProg p) {} = some (mergeAL (cur.map fun fv => (fv.1.name, fv.2)) kw) := by
    cases p with
    | constructor => exact absurd rfl hp
    | copyWith => simp [pathProg, copyWithProg, runCT, evalDT]
    | deepCopyWith => simp [pathProg, deepCopyWithProg, runCT, evalDT]
  have hcf : copiedFields p cur kw = bindFields (cur.map (·.1)) (mergeAL (cur.map fun fv => (fv.1.name, fv.2)) kw) := by
    cases p with
    | constructor => exact absurd rfl hp
    | copyWith => simp only [copiedFields, hrun, Option.bind]
    | deepCopyWith => simp only [copiedFields, hrun, Option.bind]
  rw [hcf]
  have hall : (mergeAL (cur.map fun fv => (fv.1.name, fv.2)) kw).all (fun kv => (cur.map (·.1)).any (fun f => f.name == kv.1)) = true := by
    rw [List.all_eq_true]
    intro kv hm
    simp only [mergeAL, List.mem_append, List.mem_filter, List.mem_map] at hm
    rw [List.any_eq_true]
    rcases hm with hm | ⟨⟨fv, hfv, rfl⟩, _⟩
    · obtain ⟨fv, hfv, he⟩ := hkw kv hm
      exact ⟨fv.1, List.mem_map.mpr ⟨fv, hfv, rfl⟩, by simp [he]⟩
    · exact ⟨fv.1, List.mem_map.mpr ⟨fv, hfv, rfl⟩, by simp⟩
  simp only [bindFields, hall, ↓reduceIte]
  have := bindAll_of_pointwise (mergeAL (cur.map fun fv => (fv.1.name, fv.2)) kw)
    (fun fv => match kw.lookup fv.1.name with | some w => w | none => fv.2) cur
    (by
      intro fv hfv
      rw [mergeAL_lookup, lookup_own_of_nodup cur hnd fv hfv]
      cases kw.lookup fv.1.name <;> rfl)
  exact this

end TS

/-! ## `copy_with`, `deep_copy_with`, the hook chain and the class options over the frozen model -/

section FZ
open PedVerif.Frozen PedVerif.Gen.Frozen

theorem fieldsOf_decoratedPart : ∀ c : Cls, fieldsOf (decoratedPart c) = fieldsOf c := by
  intro c
  induction c with
  | nil => rfl
  | cons l rest ih =>
    by_cases hd : l.decorated = true
    · simp [decoratedPart, hd]
    · simp [decoratedPart, fieldsOf, hd, ih]

/-- what a comprehension value does with the field value: `some false` = takes it as it is, `some true` = `deepcopy` of it (the same on both
    branches of a conditional), `none` = something the hand model's `CopyBody` cannot say -/
def deepFlag : VExpr → Option Bool
  | .field => some false
  | .deepcopy .field => some true
  | .deepcopy _ => none
  | .ite _ a b => if deepFlag a == deepFlag b then deepFlag a else none

theorem evalV_of_flag : ∀ (e : VExpr) (b : Bool), deepFlag e = some b → ∀ (v : Obj) (n : Nat),
    evalV e v n = (if (b && deepcopyRaises v) = true then .error .typeError
                   else .ok (if (b && v.copyable) = true then deepcopy v n else (v, n))) := by
  intro e
  induction e with
  | field => intro b h v n; simp [deepFlag] at h; subst h; simp [evalV]
  | deepcopy e ih =>
    intro b h v n
    cases e with
    | field => simp [deepFlag] at h; subst h; simp [evalV]
    | deepcopy _ => simp [deepFlag] at h
    | ite _ _ _ => simp [deepFlag] at h
  | ite c a b iha ihb =>
    intro f h v n
    simp only [deepFlag] at h
    split at h
    · rename_i heq
      have hb : deepFlag b = some f := by rw [← h]; exact (beq_iff_eq.mp heq).symm
      simp only [evalV, iha f h v n, ihb f hb v n, ite_self]
    · cases h

/-- **the dict comprehension is the model's `readCur`** -/
theorem irCollect_of_flag (io : Bool) (e : VExpr) (b : Bool) (h : deepFlag e = some b) (self : Inst) :
    ∀ (fs : List FieldR) (n : Nat), irCollect io e self fs n = readCur b io self fs n := by
  intro fs
  induction fs with
  | nil => intro n; rfl
  | cons f fs ih =>
    intro n
    simp only [irCollect, readCur]
    split
    · exact ih n
    · cases hl : self.fields.lookup f.name with
      | none => rfl
      | some v =>
        simp only [evalV_of_flag e b h v n]
        by_cases hr : (b && deepcopyRaises v) = true
        · simp [hr]
        · simp only [hr, Bool.false_eq_true, ↓reduceIte]
          rw [ih]
          rfl

/-- **`copy_with`, run statement by statement, is the model's `copyWith`** — for every receiver, all keyword arguments, every allocator state -/
theorem copy_with_refines (self : Inst) (kw : List (Name × Obj)) (n : Nat) : irCopyWith self kw n = some (copyWith self kw n) := by
  simp only [irCopyWith, runC, copyWithProg, evalD, copyWith, runCopy, copyWithBody, Bool.false_eq_true, ↓reduceIte]
  cases replaceChanges self (fieldsOf self.cls) kw <;> rfl

/-- **`deep_copy_with`, run statement by statement, is the model's `deepCopyWith`** -/
theorem deep_copy_with_refines (self : Inst) (kw : List (Name × Obj)) (n : Nat) : irDeepCopyWith self kw n = some (deepCopyWith self kw n) := by
  simp only [irDeepCopyWith, runC, deepCopyWithProg, fieldsOfSrc, fieldsOf_decoratedPart, deepCopyWith, runCopy, deepCopyWithBody]
  rw [irCollect_of_flag _ _ true (by decide)]
  cases readCur true true self (fieldsOf self.cls) n with
  | error e => rfl
  | ok r => obtain ⟨cur, n1⟩ := r; simp [runC, evalD, clsOf, instCls]

/-- **what `dataclass()` receives for a class statement** is what the model reads off the layer -/
theorem irLayerArgs_eq (l : Layer) : irLayerArgs l = some ⟨l.frozen, l.effOrder, l.effKwOnly, l.effSlots⟩ := by
  simp [irLayerArgs, deco_refines, handDeco, layerParams, Layer.frozen, Layer.effOrder, Layer.effKwOnly, Layer.effSlots]

theorem irWrapper_eq (l : Layer) : irWrapper l = l.typeSafe := by
  simp only [irWrapper, deco_refines, handDeco, layerParams]
  cases l.typeSafe <;> decide

/-- **the journal of `__post_init__`** (user hook and validations, innermost class first) is the model's `postInitEvents` -/
theorem irPostInitEvents_eq : ∀ c : Cls, irPostInitEvents c = postInitEvents c := by
  intro c
  have hcfg : postInitCallsOld = true ∧ postInitOldFirst = true := by decide
  induction c with
  | nil => rfl
  | cons l rest ih =>
    simp only [irPostInitEvents, postInitEvents, irWrapper_eq, ih, hcfg, ↓reduceIte]
    split
    · rfl
    · cases l.typeSafe
      · rfl
      · simp [irWrapEvents, postInitProg]

theorem irClsFaithful_true (c : Cls) : irClsFaithful c = true := by
  simp only [irClsFaithful, List.all_eq_true]
  intro l _
  have hm : (irMethods l).all (fun m => !attrHookNames.contains m) = true := by
    simp only [irMethods, deco_refines, handDeco]; decide
  have hr : irReturnsNew l = true := by
    simp only [irReturnsNew, deco_refines, handDeco]; decide
  rw [irLayerArgs_eq, hm, hr]
  simp

/-- assignment / deletion on an instance of a class built by the decorator program are the model's `setattr` / `delattr` -/
theorem irSetattr_eq (self : Inst) (name : Name) (v : Obj) : irSetattr self name v = some (setattr self name v) := by
  simp [irSetattr, irClsFaithful_true]
theorem irDelattr_eq (self : Inst) (name : Name) : irDelattr self name = some (delattr self name) := by
  simp [irDelattr, irClsFaithful_true]

end FZ

end PedVerif.FrozenIR
