import PedVerif.Spec.CallLayer
import PedVerif.Lemmas.CheckerNoTV
/-! Helper lemmas for the call-layer properties (C03 C04 C05, call level of C06 C08). -/
namespace PedVerif.Call
open PedVerif.Checker PedVerif.Gen.CallTables

/-! ### facts about the generated call tables (re-checked against the source on every run) -/
theorem cfg_argsBeforeBody : argsCheckedBeforeBody = true ∧ asyncArgsCheckedBeforeBody = true := by decide
theorem cfg_returnAfterBody : returnCheckedAfterBody = true ∧ asyncReturnCheckedAfterBody = true := by decide
theorem cfg_argumentChecks : argumentChecks = ["_check_type_param", "_check_types_args", "_check_types_kwargs"] := by decide
theorem cfg_wrappers : wrapperAssertsKwargsFirst = true ∧ asyncWrapperAssertsKwargsFirst = true ∧ asyncWrapperIsAsync = true ∧
    asyncInvocationSame = true ∧ requireKwargsAssertsThenCalls = true ∧ requireKwargsForwards = true := by decide
theorem cfg_invocation : kwargsOnlyCall = "self.func.func(**self.kwargs)" ∧ normalCall = "self.func.func(*self.args, **self.kwargs)" := by decide
theorem cfg_kwOnly (a b : Bool) : kwargsOnlyInvocation a b = (a || b) := by cases a <;> cases b <;> decide
theorem cfg_star : starRequiresAnnotation = true ∧ starRequiresComplete = true ∧ starChecksBoundValuesOnly = true := by decide
theorem cfg_dstar : dstarRequiresAnnotation = true ∧ dstarRequiresComplete = true := by decide
theorem cfg_fallback : positionalParamFallsBack = true := by decide
theorem cfg_raises : assertUsesKwargsRaises = "PedanticCallWithArgsException" := by decide
/-- `should_have_kwargs`, semantically: not a setter, no `*args` text, and not an operator method outside the list -/
theorem cfg_shk (s w sd ed l : Bool) :
    PedVerif.Gen.CallTables.shouldHaveKwargs s w sd ed l = (!s && !w && (!(sd && ed) || l)) := by
  cases s <;> cases w <;> cases sd <;> cases ed <;> cases l <;> decide
theorem cfg_strips (a b c : Bool) : stripsFirst a b c = (a || b || c) := by cases a <;> cases b <;> cases c <;> decide
theorem cfg_stripFrom : stripFrom = 1 := by decide
theorem cfg_maxAllowed (p : Bool) : maxAllowed p = if p then 1 else 0 := by cases p <;> decide
theorem cfg_usesMultiple (n : Nat) (p : Bool) : usesMultiple n p = decide (n > if p then 1 else 0) := by
  simp [usesMultiple, cfg_maxAllowed]
theorem cfg_completeBare (o : BareOrigin) (h : o.isBuiltin = true) : completeBareList.contains o.name = true := by
  cases o <;> first | decide | simp [BareOrigin.isBuiltin] at h
theorem cfg_completeUsesRequired : completeUsesRequiredArgs = true := by decide
theorem cfg_classDecorator : classDecoratorWrapsFunctions = true ∧ classDecoratorWrapsProperties = true ∧
    classDecoratorPropertyParts = ["fget", "fset", "fdel"] := by decide

theorem argsWithoutSelf_eq {α} (f : Fn) (args : List α) : f.argsWithoutSelf args = if f.strips then args.drop 1 else args := by
  simp [Fn.argsWithoutSelf, cfg_stripFrom]

/-! ### single checks -/
theorem ofOut_cases (env : Env) (orc : Nat → Val → Raw) (horc : ∀ k v, orc k v ≠ .raisedTV) (a : Ann) (v : Val) :
    (ofOut (checkType env orc a v) = none ∧ checkType env orc a v = .accept) ∨
    (ofOut (checkType env orc a v) = some .pedTypeCheck ∧ checkType env orc a v ≠ .accept) := by
  have h1 := checkType_ne_escape env orc a v
  have h2 := checkType_ne_tv env orc horc a v
  cases h : checkType env orc a v <;> simp_all [ofOut]

theorem checkVal_cases (env : Env) (orc : Nat → Val → Raw) (horc : ∀ k v, orc k v ≠ .raisedTV) (f : Fn) (args : List Val)
    (hc : f.clazzFails args = false) (a : Ann) (v : Val) :
    (checkVal env orc f args a v = none ∧ checkType env orc a v = .accept) ∨
    (checkVal env orc f args a v = some .pedTypeCheck ∧ checkType env orc a v ≠ .accept) := by
  simp only [checkVal, hc, Bool.false_eq_true, ↓reduceIte]
  exact ofOut_cases env orc horc a v

/-- whatever the clazz evaluation does, a check that passes means the checker accepted -/
theorem checkVal_none (env : Env) (orc : Nat → Val → Raw) (f : Fn) (args : List Val) (a : Ann) (v : Val)
    (h : checkVal env orc f args a v = none) : checkType env orc a v = .accept := by
  simp only [checkVal] at h
  split at h
  · simp at h
  · cases hc : checkType env orc a v <;> simp_all [ofOut]

theorem orElse_none {a : Option Caller} {b : Unit → Option Caller} : orElse a b = none ↔ a = none ∧ b () = none := by
  cases a <;> simp [orElse]
theorem orElse_some_tc {a : Option Caller} {b : Unit → Option Caller}
    (ha : ∀ c, a = some c → c = .pedTypeCheck) (hb : ∀ c, b () = some c → c = .pedTypeCheck) :
    ∀ c, orElse a b = some c → c = .pedTypeCheck := by
  intro c h
  cases a with
  | none => exact hb c (by simpa [orElse] using h)
  | some x => exact ha c (by simpa [orElse] using h)

/-! ### the folds: every way they can stop is a PedanticTypeCheckException -/
theorem checkParams_some_tc (env : Env) (orc : Nat → Val → Raw) (horc : ∀ k v, orc k v ≠ .raisedTV) (f : Fn) (args : List Val)
    (kw : List (NameId × Val)) (hc : f.clazzFails args = false) :
    ∀ (ps : List Param) (idx : Nat) (c : Caller), checkParams env orc f args kw ps idx = some c → c = .pedTypeCheck := by
  intro ps
  induction ps with
  | nil => intro idx c h; simp [checkParams] at h
  | cons p ps ih =>
    intro idx c h
    have hv : ∀ a v c, checkVal env orc f args a v = some c → c = .pedTypeCheck := by
      intro a v c hcv
      rcases checkVal_cases env orc horc f args hc a v with ⟨h1, _⟩ | ⟨h1, _⟩ <;> simp_all
    simp only [checkParams, cfg_fallback, ↓reduceIte] at h
    split at h
    · simp_all
    · rename_i a _
      split at h
      · split at h
        · split at h
          · simp_all
          · exact orElse_some_tc (hv a _) (fun c hc' => ih _ c hc') c h
        · split at h
          · exact orElse_some_tc (hv a _) (fun c hc' => ih _ c hc') c h
          · split at h
            · exact orElse_some_tc (hv a _) (fun c hc' => ih _ c hc') c h
            · simp_all
      · exact orElse_some_tc (hv a _) (fun c hc' => ih _ c hc') c h

theorem checkAll_some_tc (env : Env) (orc : Nat → Val → Raw) (horc : ∀ k v, orc k v ≠ .raisedTV) (f : Fn) (args : List Val)
    (hc : f.clazzFails args = false) (a : Ann) :
    ∀ (vs : List Val) (c : Caller), checkAll env orc f args a vs = some c → c = .pedTypeCheck := by
  intro vs
  induction vs with
  | nil => intro c h; simp [checkAll] at h
  | cons v vs ih =>
    intro c h
    simp only [checkAll] at h
    refine orElse_some_tc ?_ (fun c hc' => ih c hc') c h
    intro c hcv
    rcases checkVal_cases env orc horc f args hc a v with ⟨h1, _⟩ | ⟨h1, _⟩ <;> simp_all

theorem checkStar_some_tc (env : Env) (orc : Nat → Val → Raw) (horc : ∀ k v, orc k v ≠ .raisedTV) (f : Fn) (args : List Val)
    (hc : f.clazzFails args = false) : ∀ c, checkStar env orc f args = some c → c = .pedTypeCheck := by
  intro c h
  simp only [checkStar, cfg_star, Bool.true_and, ↓reduceIte] at h
  split at h
  · simp at h
  · split at h
    · simp_all
    · split at h
      · simp_all
      · exact checkAll_some_tc env orc horc f args hc _ _ c h

theorem checkDStar_some_tc (env : Env) (orc : Nat → Val → Raw) (horc : ∀ k v, orc k v ≠ .raisedTV) (f : Fn) (args : List Val)
    (kw : List (NameId × Val)) (hc : f.clazzFails args = false) : ∀ c, checkDStar env orc f args kw = some c → c = .pedTypeCheck := by
  intro c h
  simp only [checkDStar, cfg_dstar, Bool.true_and, ↓reduceIte] at h
  split at h
  · simp at h
  · split at h
    · simp_all
    · split at h
      · simp_all
      · exact checkAll_some_tc env orc horc f args hc _ _ c h

theorem checkArguments_eq (env : Env) (orc : Nat → Val → Raw) (f : Fn) (args : List Val) (kw : List (NameId × Val)) :
    checkArguments env orc f args kw =
      orElse (checkParams env orc f args kw f.plain (if f.firstIsSelf then 1 else 0)) fun _ =>
      orElse (checkStar env orc f args) fun _ => checkDStar env orc f args kw := by
  simp [checkArguments, cfg_argumentChecks]

theorem checkArguments_some_tc (env : Env) (orc : Nat → Val → Raw) (horc : ∀ k v, orc k v ≠ .raisedTV) (f : Fn) (args : List Val)
    (kw : List (NameId × Val)) (hc : f.clazzFails args = false) :
    ∀ c, checkArguments env orc f args kw = some c → c = .pedTypeCheck := by
  rw [checkArguments_eq]
  exact orElse_some_tc (checkParams_some_tc env orc horc f args kw hc _ _)
    (orElse_some_tc (checkStar_some_tc env orc horc f args hc) (checkDStar_some_tc env orc horc f args kw hc))

end PedVerif.Call
