import PedVerif.Model.ValidateWorld
/-!
# `@validate`: hand-readable normal forms of the generated bodies

`Model/Validate.lean` interprets what the translator reads from the source statement by statement: the program of
`Parameter.validate` (`validateProg`), the `Write` records of the branches of the keyword / positional / zip loop, and the decision
table of the third loop (`absentAct`).  This file states what those generated definitions *amount to* — `VParam.validateRef`,
`loopKw`, `loopPos`, `loopZip`, `loopUnused`, written the way one reads the Python — and proves the equations
(`validate_unfold`, `loopKwG_eq`, `loopPosG_eq`, `loopZipG_eq`, `loopUnusedG_eq`) from the generated definitions.  The property
theorems (`Props/C12.lean`, `Props/C13.lean`) are proved about the normal forms and transported through these equations, so a
source change that alters a generated body (the validator loop in front of the conversion, another `except` class, a result filed
under another key or unvalidated, the precedence of Parameter default and signature default swapped, …) breaks an equation here.

What stays generic on purpose: where the zip branch takes the surplus positionals from (`surplusOf`, `zipRefuses` — two shapes of
the source are understood) and whether `used_args` is recorded (`writeRecord`); the theorems that depend on them say so.
-/
set_option linter.unusedSimpArgs false
namespace PedVerif.Validate
open PedVerif.Gen.Validate

/-! ## `Parameter.validate` -/

/-- the `for validator in self.validators` loop: each validator receives its predecessor's output; a `ValidatorException` `e`
    becomes `self.exception_type.from_validator_exception(exception=e, parameter_name=self.name)`, whose `parameter_name` is
    the generated `chainHandlerName self.name e.parameter_name` -/
def runValidators (name : Name) : List Step → Nat → PV → Except VExc PV
  | [], _, v => .ok v
  | f :: fs, j, v =>
    match f v with
    | .ok w => runValidators name fs (j + 1) w
    | .error (.rejected carried) => .error (.parameter (chainHandlerName name carried) (.validator j))
    | .error (.crash e) => .error (.foreign e)

/-- `Parameter.validate` as one reads it: the None rule first; then the conversion (a `ConversionError` is reported by
    `self.raise_exception`, i.e. with `parameter_name=self.name`; any other exception propagates); then every validator in
    order, each fed its predecessor's output; the last output is returned -/
def VParam.validateRef (p : VParam) (v : PV) : Except VExc PV :=
  match v with
  | .none => if p.isRequired then .error (.parameter p.name .required) else .ok .none
  | .obj i =>
    match p.conv with
    | Option.none => runValidators p.name p.validators 0 (.obj i)
    | some c =>
      match c (.obj i) with
      | .ok w => runValidators p.name p.validators 0 w
      | .error (.rejected _) => .error (.parameter p.name .convert)
      | .error (.crash e) => .error (.foreign e)

theorem runChain_eq (name : Name) (value : PV) : ∀ (fs : List Step) (j : Nat) (v : PV),
    runChain name .acc .only value fs j (some v) = (runValidators name fs j v).map some := by
  intro fs
  induction fs with
  | nil => intro j v; rfl
  | cons f fs ih =>
    intro j v
    simp only [runChain, feedPick, runValidators]
    cases hf : f v with
    | ok w => simp only; exact ih _ _
    | error r => cases r <;> rfl

/-- **the generated program of `Parameter.validate` is the normal form**: None rule (raise for a required parameter, else
    return None without touching conversion or validators), conversion *before* the validators with exactly `ConversionError`
    mapped to the parameter's exception, the validator loop over *all* validators each fed the accumulated value with exactly
    `ValidatorException` mapped, and the accumulated value returned -/
theorem validate_unfold (p : VParam) (v : PV) : p.validate v = p.validateRef v := by
  unfold VParam.validate VParam.validateRef
  cases v with
  | none =>
    simp only [validateProg, execV, PV.isNone, ↓reduceIte, Bool.true_and, raiseExceptionName, parameterExceptionStoresName]
  | obj i =>
    simp only [validateProg, execV, PV.isNone, Bool.false_eq_true, ↓reduceIte, raiseExceptionName, parameterExceptionStoresName]
    cases hc : p.conv with
    | none =>
      simp only [runChain_eq]
      cases runValidators p.name p.validators 0 (.obj i) <;> rfl
    | some c =>
      simp only
      cases hcv : c (.obj i) with
      | ok w =>
        simp only [runChain_eq]
        cases runValidators p.name p.validators 0 w <;> rfl
      | error r => cases r <;> rfl

/-! ## The loops of `_wrapper_content` -/

/-- first loop: `for k, v in kwargs.items()`: a declared key is validated, filed under the key and its Parameter marked used;
    an undeclared key raises under `strict` (test generated) and is passed through otherwise -/
def loopKw (ps : List VParam) (strict : Bool) : List (Name × PV) → Assoc → List Name → Except VExc (Assoc × List Name)
  | [], res, used => .ok (res, used)
  | (k, v) :: rest, res, used =>
    match findP ps k with
    | some p => do
        let v' ← p.validate v
        loopKw ps strict rest (res.set k v') (used ++ [p.name])
    | Option.none => if kwStrictTest strict k then .error .tooMany else loopKw ps strict rest (res.set k v) used

/-- second loop, the branches `elif k in parameter_dict` / `else`; `recv` is the value of `receiver_name`.  The last component is
    `used_args` (recorded or not: `writeRecord`, generic) -/
def loopPos (ps : List VParam) (strict : Bool) (recv : Option Name) :
    List (Name × PV) → Assoc → List Name → List PV → Except VExc (Assoc × List Name × List PV)
  | [], res, used, ua => .ok (res, used, ua)
  | (k, v) :: rest, res, used, ua =>
    match findP ps k with
    | some p => do
        let v' ← p.validate v
        loopPos ps strict recv rest (res.set k v') (used ++ [p.name]) (writeRecord posDeclaredWrite ua v)
    | Option.none =>
      if posStrictTest strict k recv then .error .tooMany
      else loopPos ps strict recv rest (res.set k v) used (writeRecord posUndeclaredWrite ua v)

/-- second loop, the inner `for arg, parameter in zip(…)`: validated, filed under the Parameter's name, marked used -/
def loopZip : List (PV × VParam) → Assoc → List Name → Except VExc (Assoc × List Name)
  | [], res, used => .ok (res, used)
  | (a, p) :: rest, res, used => do
    let v' ← p.validate a
    loopZip rest (res.set p.name v') (used ++ [p.name])

/-- third loop: `for parameter in unused_parameters`: an external source that has a value supplies it (validated); else a
    required parameter raises; else the Parameter default; else the signature default; else `ValidateException` -/
def loopUnused (sig : Sig) : List VParam → Assoc → Except VExc Assoc
  | [], res => .ok res
  | p :: rest, res =>
    match p.ext with
    | some v => do
        let v' ← p.validate v
        loopUnused sig rest (res.set p.name v')
    | Option.none =>
      if p.isRequired then .error (.parameter p.name .required) else
      match p.dflt with
      | some d => loopUnused sig rest (res.set p.name d)
      | Option.none =>
        match sig.default? p.name with
        | some d => loopUnused sig rest (res.set p.name d)
        | Option.none => .error .validate

/-- **the keyword loop is its normal form** (generated `Write` records of its two branches) -/
theorem loopKwG_eq (ps : List VParam) (strict : Bool) : ∀ (kw : List (Name × PV)) (res : Assoc) (used : List Name),
    loopKwG ps strict kw res used = loopKw ps strict kw res used := by
  intro kw
  induction kw with
  | nil => intro res used; rfl
  | cons kv rest ih =>
    intro res used
    obtain ⟨k, v⟩ := kv
    simp only [loopKwG, loopKw, kwDeclaredWrite, writeValue, writeKey, writeMark, ↓reduceIte, Bool.false_eq_true, ih]
    cases findP ps k <;> rfl

/-- **the positional loop is its normal form** -/
theorem loopPosG_eq (ps : List VParam) (strict : Bool) (recv : Option Name) :
    ∀ (bd : List (Name × PV)) (res : Assoc) (used : List Name) (ua : List PV),
      loopPosG ps strict recv bd res used ua = loopPos ps strict recv bd res used ua := by
  intro bd
  induction bd with
  | nil => intro res used ua; rfl
  | cons kv rest ih =>
    intro res used ua
    obtain ⟨k, v⟩ := kv
    simp only [loopPosG, loopPos, writeValue, writeKey, writeMark, ih]
    cases findP ps k with
    | none => rfl
    | some p => simp [posDeclaredWrite]

/-- **the inner loop of the zip branch is its normal form** -/
theorem loopZipG_eq : ∀ (pairs : List (PV × VParam)) (res : Assoc) (used : List Name),
    loopZipG pairs res used = loopZip pairs res used := by
  intro pairs
  induction pairs with
  | nil => intro res used; rfl
  | cons ap rest ih =>
    intro res used
    obtain ⟨a, p⟩ := ap
    simp only [loopZipG, loopZip, zipWrite, writeValue, writeMark, ↓reduceIte, ih]

theorem default?_isSome_named (sig : Sig) (n : Name) (h : (sig.default? n).isSome = true) : sig.named.any (·.name == n) = true := by
  unfold Sig.default? at h
  cases hf : sig.named.find? (·.name == n) with
  | none => rw [hf] at h; cases h
  | some s =>
    have := List.find?_some hf
    exact List.any_eq_true.mpr ⟨s, List.mem_of_find?_eq_some hf, this⟩

/-- **the third loop is its normal form**: the generated decision table `absentAct` is the cascade external value → required →
    Parameter default → signature default → `ValidateException`, in this order of precedence -/
theorem loopUnusedG_eq (sig : Sig) : ∀ (l : List VParam) (res : Assoc), loopUnusedG sig l res = loopUnused sig l res := by
  intro l
  induction l with
  | nil => intro res; rfl
  | cons p rest ih =>
    intro res
    simp only [loopUnusedG, loopUnused]
    cases he : p.ext with
    | some v => simp [absentAct, ih]
    | none =>
      cases hr : p.isRequired with
      | true => simp [absentAct, raiseExceptionName, parameterExceptionStoresName]
      | false =>
        cases hd : p.dflt with
        | some d => simp [absentAct, ih]
        | none =>
          cases hs : sig.default? p.name with
          | some d =>
            have := default?_isSome_named sig p.name (by simp [hs])
            simp [absentAct, ih, this]
          | none => simp [absentAct]

end PedVerif.Validate
