import PedVerif.Spec.GenWrap
/-!
Lemmas for the generator clause of C03 / C04.

* `cfg_*`: semantic facts about the *generated* programs `sendProg` / `throwProg` and the generated flags / tables, each
  proved by `decide` over every combination of check outcomes, resume outcome and `_initialized` — they are re-proved
  against the current source on every run.  An equivalent rewrite of `send` re-proves; a moved `_initialized = True`, a
  dropped or swapped check, `return ex.value` do not.
* `wrapSend_eq`: through `cfg_send_semantics` the interpreted `send` equals the readable `refWrapSend`.
* facts about the environment (`resumeGen`): what the journal of one resume can contain.
-/
namespace PedVerif.GenWrap
open PedVerif.Gen.GenWrap

instance instDecidableForallRK (p : RK → Prop) [DecidablePred p] : Decidable (∀ rk, p rk) :=
  decidable_of_iff (p .yielded ∧ p .stopped ∧ p .raised)
    ⟨fun ⟨a, b, c⟩ rk => by cases rk <;> assumption, fun h => ⟨h _, h _, h _⟩⟩

/-- an oracle from its nine values -/
def bitsOrc (a b c d e f g h i : Bool) : Src → Slot → Bool
  | .sent, .yieldT => a | .sent, .sendT => b | .sent, .returnT => c
  | .yielded, .yieldT => d | .yielded, .sendT => e | .yielded, .returnT => f
  | .stopVal, .yieldT => g | .stopVal, .sendT => h | .stopVal, .returnT => i

theorem orc_eta (orc : Src → Slot → Bool) :
    orc = bitsOrc (orc .sent .yieldT) (orc .sent .sendT) (orc .sent .returnT) (orc .yielded .yieldT) (orc .yielded .sendT)
      (orc .yielded .returnT) (orc .stopVal .yieldT) (orc .stopVal .sendT) (orc .stopVal .returnT) := by
  funext s t; cases s <;> cases t <;> rfl

/-- availability at method entry: `send` has its argument, `throw` has no checkable value of its own -/
def avSend : Avail := ⟨true, false, false⟩
def avThrow : Avail := ⟨false, false, false⟩

/-! ## facts about the generated `send` -/

/-- **the translated `send` computes `refSend`**: the sent value is checked against the *send* slot exactly when
    `_initialized` is set, before the generator is resumed; `_initialized` is set no later than the resume; the
    StopIteration value is checked against the *return* slot before the re-raise; the yielded value against the *yield*
    slot before it is returned -/
theorem cfg_send_semantics_bits : ∀ a b c d e f g h i : Bool, ∀ rk : RK, ∀ init : Bool,
    runStmts (bitsOrc a b c d e f g h i) rk sendProg avSend init false = refSend (bitsOrc a b c d e f g h i) rk init := by
  decide

theorem cfg_send_semantics (orc : Src → Slot → Bool) (rk : RK) (init : Bool) :
    runStmts orc rk sendProg avSend init false = refSend orc rk init := by
  rw [orc_eta orc]; exact cfg_send_semantics_bits _ _ _ _ _ _ _ _ _ rk init

/-- "`_initialized` is set before the generator is resumed": whenever `send` resumes the generator, the flag is set
    afterwards — whatever the resume and the later checks do -/
theorem cfg_initSetBeforeResume : ∀ a b c d e f g h i : Bool, ∀ rk : RK, ∀ init : Bool,
    (runStmts (bitsOrc a b c d e f g h i) rk sendProg avSend init false).resumed = true →
    (runStmts (bitsOrc a b c d e f g h i) rk sendProg avSend init false).init = true := by
  decide

/-- "the sent value is checked only when initialized, and then before the resume" -/
theorem cfg_sendCheckedWhenInitialized : ∀ a c d e f g h i : Bool, ∀ rk : RK,
    runStmts (bitsOrc a false c d e f g h i) rk sendProg avSend true false = ⟨.ped, true, false⟩ ∧
    (runStmts (bitsOrc a false c d e f g h i) rk sendProg avSend false false).resumed = true := by
  decide

/-- "the StopIteration value is checked (against the return slot) before the re-raise" -/
theorem cfg_stopCheckedBeforeReraise : ∀ a c d e f g h : Bool, ∀ init : Bool,
    (runStmts (bitsOrc a true c d e f g h false) .stopped sendProg avSend init false).act = .ped ∧
    (runStmts (bitsOrc a true c d e f g h true) .stopped sendProg avSend init false).act = .raiseStop := by
  decide

/-- "the yielded value is checked (against the yield slot) before it is returned" -/
theorem cfg_yieldCheckedBeforeReturn : ∀ a c e f g h i : Bool, ∀ init : Bool,
    (runStmts (bitsOrc a true c false e f g h i) .yielded sendProg avSend init false).act = .ped ∧
    (runStmts (bitsOrc a true c true e f g h i) .yielded sendProg avSend init false).act = .retYielded := by
  decide

/-! ## facts about the generated `throw`, `__next__`, `close`, `__init__` -/

/-- `throw` never clears `_initialized` -/
theorem cfg_throw_keeps_init_bits : ∀ a b c d e f g h i : Bool, ∀ rk : RK,
    (runStmts (bitsOrc a b c d e f g h i) rk throwProg avThrow true false).init = true := by
  decide

theorem cfg_throw_keeps_init (orc : Src → Slot → Bool) (rk : RK) :
    (runStmts orc rk throwProg avThrow true false).init = true := by
  rw [orc_eta orc]; exact cfg_throw_keeps_init_bits _ _ _ _ _ _ _ _ _ rk

/-- when what the generator produces in response conforms, `throw` passes it through (and resumes the generator) -/
theorem cfg_throw_transparent_bits : ∀ a b c d e f g h i : Bool, ∀ rk : RK, ∀ init : Bool,
    (rk = .yielded → d = true) → (rk = .stopped → i = true) →
    (runStmts (bitsOrc a b c d e f g h i) rk throwProg avThrow init false).act = (refThrowPassthrough rk init).act ∧
    (runStmts (bitsOrc a b c d e f g h i) rk throwProg avThrow init false).resumed = true ∧
    ((runStmts (bitsOrc a b c d e f g h i) rk throwProg avThrow init false).init = false → init = false) := by
  decide

theorem cfg_throw_transparent (orc : Src → Slot → Bool) (rk : RK) (init : Bool)
    (hy : rk = .yielded → orc .yielded .yieldT = true) (hr : rk = .stopped → orc .stopVal .returnT = true) :
    (runStmts orc rk throwProg avThrow init false).act = (refThrowPassthrough rk init).act ∧
    (runStmts orc rk throwProg avThrow init false).resumed = true ∧
    ((runStmts orc rk throwProg avThrow init false).init = false → init = false) := by
  rw [orc_eta orc]; exact cfg_throw_transparent_bits _ _ _ _ _ _ _ _ _ rk init hy hr

/-- **`throw` checks nothing** (`return self._generator.throw(*args)`): the root of finding `throwBypassesYieldCheck`.
    This fact is expected to break when `throw` is repaired. -/
theorem cfg_throw_unchecked_bits : ∀ a b c d e f g h i : Bool, ∀ rk : RK, ∀ init : Bool,
    runStmts (bitsOrc a b c d e f g h i) rk throwProg avThrow init false = refThrowPassthrough rk init := by
  decide

theorem cfg_throw_unchecked (orc : Src → Slot → Bool) (rk : RK) (init : Bool) :
    runStmts orc rk throwProg avThrow init false = refThrowPassthrough rk init := by
  rw [orc_eta orc]; exact cfg_throw_unchecked_bits _ _ _ _ _ _ _ _ _ rk init

/-- `__next__` is `send(None)`, `close` delegates, `__iter__` returns the wrapper, other attributes are the generator's;
    a new wrapper is not initialized and wraps the generator it is given; the checks share the call's TypeVar bindings -/
theorem cfg_protocol :
    nextIsSendNone = true ∧ closeDelegates = true ∧ iterReturnsSelf = true ∧ getattrDelegates = true ∧
    initInitialized = false ∧ wrapsGivenGenerator = true ∧ checksPassTypeVars = true := by
  decide

/-- `_set_and_check_return_types`: exactly `typing.Generator / Iterable / Iterator` are accepted; one type argument fills
    the yield slot, three fill (yield, send, return) in this order, everything else raises; unfilled slots are `None` -/
theorem cfg_creation :
    (∀ b, acceptedBases.contains b = ["typing.Generator", "typing.Iterable", "typing.Iterator"].contains b) ∧
    arityMap.lookup 1 = some [(.yieldT, 0)] ∧
    arityMap.lookup 3 = some [(.yieldT, 0), (.sendT, 1), (.returnT, 2)] ∧
    (∀ n, n ≠ 1 → n ≠ 3 → arityMap.lookup n = none) ∧
    otherArityRaises = true ∧ baseCheckedFirst = true ∧ setTypesAfterDefaults = true ∧
    (∀ s, slotDefaultIsNone s = true) := by
  refine ⟨?_, by decide, by decide, ?_, by decide, by decide, by decide, ?_⟩
  · intro b; simp [acceptedBases]; try grind
  · intro n h1 h3
    simp only [arityMap, List.lookup]
    split <;> simp_all
    split <;> simp_all
  · intro s; cases s <;> rfl

/-- `FunctionCall._check_types_return`: the generator of a generator function is wrapped, with the function's return
    annotation, instead of being checked like a plain result -/
theorem cfg_function_call :
    wrapsGeneratorResult = true ∧ wrapperGetsReturnAnnotation = true ∧ generatorBranchBeforePlainCheck = true ∧
    missingReturnAnnotationRaisesFirst = true ∧ isGeneratorUsesInspect = true := by
  decide

/-! ## `send` in readable form -/

/-- what `send` shows the caller once the generator was resumed: the yield / return checks -/
def sendObs (conf : Ty → V → Bool) (ts : Types) : Res → Obs
  | .yielded v => if conf ts.yieldT v then .got v else .ped
  | .returned v => if conf ts.returnT v then .stop v else .ped
  | .raised e => .exc e
  | .typeErr => .typeErr
  | .genExit => .crash

/-- `GeneratorWrapper.send` written out -/
def refWrapSend (conf : Ty → V → Bool) (ts : Types) (w : W) (x : V) : Obs × List JEv × W :=
  if w.init && !conf ts.sendT x then (.ped, [], w) else
  (sendObs conf ts (resumeGen w.gen (.send x)).1, (resumeGen w.gen (.send x)).2.1, ⟨true, (resumeGen w.gen (.send x)).2.2⟩)

theorem refWrapSend_rejected (conf : Ty → V → Bool) (ts : Types) (w : W) (x : V) (h : (w.init && !conf ts.sendT x) = true) :
    refWrapSend conf ts w x = (.ped, [], w) := by
  simp [refWrapSend, h]

theorem refWrapSend_passed (conf : Ty → V → Bool) (ts : Types) (w : W) (x : V) (h : (w.init && !conf ts.sendT x) = false) :
    refWrapSend conf ts w x =
      (sendObs conf ts (resumeGen w.gen (.send x)).1, (resumeGen w.gen (.send x)).2.1, ⟨true, (resumeGen w.gen (.send x)).2.2⟩) := by
  simp [refWrapSend, h]

theorem wrapSend_eq (conf : Ty → V → Bool) (ts : Types) (w : W) (x : V) :
    wrapResume conf ts sendProg w (.send x) = refWrapSend conf ts w x := by
  unfold wrapResume refWrapSend
  simp only [Option.isSome_some]
  have h := cfg_send_semantics (mkOrc conf ts (some x) (resumeGen w.gen (.send x)).1) (resumeGen w.gen (.send x)).1.kind w.init
  unfold avSend at h
  rw [h]
  unfold refSend
  have hs : mkOrc conf ts (some x) (resumeGen w.gen (.send x)).1 .sent .sendT = conf ts.sendT x := rfl
  rw [hs]
  by_cases hc : (w.init && !conf ts.sendT x) = true
  · simp [hc, obsOf]
  · simp only [hc, Bool.false_eq_true, ↓reduceIte]
    rcases hr : (resumeGen w.gen (.send x)).1 with v | v | e | _ | _
    · by_cases hy : conf ts.yieldT v = true <;> simp [Res.kind, mkOrc, Types.get, hy, obsOf, sendObs]
    · by_cases hy : conf ts.returnT v = true <;> simp [Res.kind, mkOrc, Types.get, hy, obsOf, sendObs]
    · simp [Res.kind, obsOf, sendObs]
    · simp [Res.kind, obsOf, sendObs]
    · simp [Res.kind, obsOf, sendObs]

/-! ## the environment: what one resume journals -/

theorem runBody_no_recv (s : List GStep) (x : V) : JEv.recv x ∉ (runBody s).2.1 := by
  unfold runBody; split <;> simp

theorem runBody_yielded (s : List GStep) (v : V) (h : JEv.yielded v ∈ (runBody s).2.1) : (runBody s).1 = .yielded v := by
  unfold runBody at *; split at h <;> simp_all

theorem runBody_returned (s : List GStep) (v : V) (h : JEv.returned v ∈ (runBody s).2.1) : (runBody s).1 = .returned v := by
  unfold runBody at *; split at h <;> simp_all

theorem runBody_yielded_mem (s : List GStep) (v : V) (h : (runBody s).1 = .yielded v) : JEv.yielded v ∈ (runBody s).2.1 := by
  unfold runBody at *; split at h <;> simp_all

theorem runBody_returned_mem (s : List GStep) (v : V) (h : (runBody s).1 = .returned v) : JEv.returned v ∈ (runBody s).2.1 := by
  unfold runBody at *; split at h <;> simp_all

theorem runBody_suspended (s : List GStep) (c : Catch) (h : (runBody s).2.2.st = .suspended c) : ∃ v, (runBody s).1 = .yielded v := by
  unfold runBody at *; split at h <;> simp_all

/-- a value arrives in the body only through `send` on a suspended generator, and it is the sent one -/
theorem resumeGen_recv (g : Gen) (inp : Inp) (x : V) (h : JEv.recv x ∈ (resumeGen g inp).2.1) :
    inp = .send x ∧ ∃ c, g.st = .suspended c := by
  unfold resumeGen at h
  split at h
  · split at h
    · split at h
      · exact absurd h (runBody_no_recv _ _)
      · simp at h
    · rename_i c _
      simp only [prepend, List.cons_append, List.nil_append, List.mem_cons, JEv.recv.injEq] at h
      rcases h with h | h
      · exact ⟨by rw [h], c, by assumption⟩
      · exact absurd h (runBody_no_recv _ _)
    · simp at h
  · split at h
    · simp at h
    · simp at h
    · simp only [prepend, List.cons_append, List.nil_append, List.mem_cons, reduceCtorEq, false_or] at h
      exact absurd h (runBody_no_recv _ _)
    · simp at h
  · split at h
    · simp at h
    · simp only [prepend, List.cons_append, List.nil_append, List.mem_cons, reduceCtorEq, false_or] at h
      exact absurd h (runBody_no_recv _ _)
    · simp at h
    · simp at h

/-- if the body journals "about to yield v" during a resume, the resume yields v -/
theorem resumeGen_yielded (g : Gen) (inp : Inp) (v : V) (h : JEv.yielded v ∈ (resumeGen g inp).2.1) :
    (resumeGen g inp).1 = .yielded v := by
  unfold resumeGen at *
  split at h <;> split at h <;> (try split at h) <;>
    simp_all [prepend] <;> exact runBody_yielded _ _ h

theorem resumeGen_returned (g : Gen) (inp : Inp) (v : V) (h : JEv.returned v ∈ (resumeGen g inp).2.1) :
    (resumeGen g inp).1 = .returned v := by
  unfold resumeGen at *
  split at h <;> split at h <;> (try split at h) <;>
    simp_all [prepend] <;> exact runBody_returned _ _ h

/-- every yielded value is journalled -/
theorem resumeGen_yielded_mem (g : Gen) (inp : Inp) (v : V) (h : (resumeGen g inp).1 = .yielded v) :
    JEv.yielded v ∈ (resumeGen g inp).2.1 := by
  unfold resumeGen at *
  split at h <;> split at h <;> (try split at h) <;>
    simp_all [prepend] <;> (try exact Or.inr (runBody_yielded_mem _ _ h)) <;> exact runBody_yielded_mem _ _ h

/-- every returned value is journalled, except the bare StopIteration of a generator that had finished before -/
theorem resumeGen_returned_mem (g : Gen) (inp : Inp) (v : V) (h : (resumeGen g inp).1 = .returned v) :
    JEv.returned v ∈ (resumeGen g inp).2.1 ∨ (g.st = .finished ∧ v = V.none ∧ (resumeGen g inp).2.1 = [] ∧ ∃ x, inp = .send x) := by
  unfold resumeGen at *
  split at h <;> split at h <;> (try split at h) <;>
    simp_all [prepend] <;> (try exact Or.inr (runBody_returned_mem _ _ h)) <;> (try exact runBody_returned_mem _ _ h)

/-- a generator is suspended after a resume only if the resume yielded, or nothing happened -/
theorem resumeGen_suspended (g : Gen) (inp : Inp) (c : Catch) (h : (resumeGen g inp).2.2.st = .suspended c) :
    (∃ v, (resumeGen g inp).1 = .yielded v) ∨ ((resumeGen g inp).2.2 = g) := by
  unfold resumeGen at *
  split at h <;> split at h <;> (try split at h) <;>
    simp_all [prepend] <;> exact Or.inl (runBody_suspended _ _ h)

/-- `throw` / `close` leave a generator suspended only if it was suspended before -/
theorem resumeGen_suspended_of_not_send (g : Gen) (inp : Inp) (c : Catch) (hi : ∀ x, inp ≠ .send x)
    (h : (resumeGen g inp).2.2.st = .suspended c) : ∃ c', g.st = .suspended c' := by
  unfold resumeGen at *
  split at h
  · exact absurd rfl (hi _)
  · split at h <;> simp_all
  · split at h <;> simp_all

theorem runBody_ne_typeErr (s : List GStep) : (runBody s).1 ≠ .typeErr := by
  unfold runBody; split <;> simp

/-- the TypeError of a failed priming only comes from `send` -/
theorem resumeGen_ne_typeErr (g : Gen) (inp : Inp) (hi : ∀ x, inp ≠ .send x) : (resumeGen g inp).1 ≠ .typeErr := by
  unfold resumeGen
  split
  · exact absurd rfl (hi _)
  · split <;> simp [prepend, runBody_ne_typeErr]
  · split <;> simp [prepend, runBody_ne_typeErr]

theorem runBody_not_unstarted (s : List GStep) : (runBody s).2.2.st ≠ .unstarted := by
  unfold runBody; split <;> simp

/-- after any resume that is not the TypeError of a failed priming the generator has started -/
theorem resumeGen_not_unstarted (g : Gen) (inp : Inp) (h : (resumeGen g inp).1 ≠ .typeErr) :
    (resumeGen g inp).2.2.st ≠ .unstarted := by
  unfold resumeGen at *
  split <;> split <;> (try split) <;> simp_all [prepend, runBody_not_unstarted]

end PedVerif.GenWrap
