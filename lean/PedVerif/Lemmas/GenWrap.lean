import PedVerif.Spec.GenWrap
/-!
Lemmas for the generator clause of C03 / C04.

* `cfg_*`: semantic facts about the *generated* programs `sendProg` / `throwProg` and the generated flags / tables, each
  proved by `decide` over every combination of check outcomes, resume outcome, generator state and `_initialized`
  (`runStmts_congr`: a method reads the check oracle only at the pairs it mentions, which `cfg_*_pairs` confines to the
  three checks of the reference semantics) — they are re-proved against the current source on every run.  An equivalent rewrite of `send` re-proves; a moved `_initialized = True`, a
  dropped or swapped check, `return ex.value` do not.
* `wrapSend_eq`: through `cfg_send_semantics` the interpreted `send` equals the readable `refWrapSend`.
* facts about the environment (`resumeGen`): what the journal of one resume can contain.
-/
namespace PedVerif.GenWrap
open PedVerif.Gen.GenWrap

instance instDecidableForallRK (p : RK → Prop) [DecidablePred p] : Decidable (∀ rk, p rk) :=
  decidable_of_iff (p .yielded ∧ p .stopped ∧ p .raised)
    ⟨fun ⟨a, b, c⟩ rk => by cases rk <;> assumption, fun h => ⟨h _, h _, h _⟩⟩

/-- availability at method entry: `send` has its argument, `throw` has no checkable value of its own -/
def avSend : Avail := ⟨true, false, false⟩
def avThrow : Avail := ⟨false, false, false⟩

instance instDecidableForallGState (p : GState → Prop) [DecidablePred p] : Decidable (∀ st, p st) :=
  decidable_of_iff (p .created ∧ p .running ∧ p .suspended ∧ p .closed)
    ⟨fun ⟨a, b, c, d⟩ st => by cases st <;> assumption, fun h => ⟨h _, h _, h _, h _⟩⟩

/-! ## a method reads the check oracle only at the (source, slot) pairs it mentions -/

def simplePairs : Simple → List (Src × Slot)
  | .check s t => [(s, t)]
  | .when _ s => simplePairs s
  | _ => []

def stmtPairs : Stmt → List (Src × Slot)
  | .simple s => simplePairs s
  | .ifC _ thn els => thn.flatMap simplePairs ++ els.flatMap simplePairs
  | .resume onStop => onStop.flatMap simplePairs

def progPairs (p : List Stmt) : List (Src × Slot) := p.flatMap stmtPairs

theorem runSimple_congr (orc orc' : Src → Slot → Bool) (av : Avail) (st : GState) :
    ∀ (s : Simple) (init : Bool), (∀ p ∈ simplePairs s, orc p.1 p.2 = orc' p.1 p.2) →
      runSimple orc av st s init = runSimple orc' av st s init := by
  intro s
  induction s with
  | check a t => intro init h; simp only [runSimple]; rw [h (a, t) (by simp [simplePairs])]
  | «when» c s ih => intro init h; simp only [runSimple]; rw [ih init (by simpa [simplePairs] using h)]
  | _ => intro init _; rfl

theorem runSimples_congr (orc orc' : Src → Slot → Bool) (av : Avail) (st : GState) :
    ∀ (l : List Simple) (init : Bool), (∀ p ∈ l.flatMap simplePairs, orc p.1 p.2 = orc' p.1 p.2) →
      runSimples orc av st l init = runSimples orc' av st l init := by
  intro l
  induction l with
  | nil => intro init _; rfl
  | cons s rest ih =>
    intro init h
    simp only [runSimples]
    rw [runSimple_congr orc orc' av st s init (fun p hp => h p (by simp [List.flatMap_cons, hp]))]
    split
    · rfl
    · exact ih _ (fun p hp => h p (by simp only [List.flatMap_cons, List.mem_append]; exact Or.inr hp))

theorem runStmts_congr (orc orc' : Src → Slot → Bool) (rk : RK) (st : GState) :
    ∀ (p : List Stmt) (av : Avail) (init resumed : Bool), (∀ q ∈ progPairs p, orc q.1 q.2 = orc' q.1 q.2) →
      runStmts orc rk st p av init resumed = runStmts orc' rk st p av init resumed := by
  intro p
  induction p with
  | nil => intro av init resumed _; rfl
  | cons s rest ih =>
    intro av init resumed h
    have hrest : ∀ q ∈ progPairs rest, orc q.1 q.2 = orc' q.1 q.2 :=
      fun q hq => h q (by simp only [progPairs, List.flatMap_cons, List.mem_append]; exact Or.inr hq)
    have hhead : ∀ q ∈ stmtPairs s, orc q.1 q.2 = orc' q.1 q.2 :=
      fun q hq => h q (by simp only [progPairs, List.flatMap_cons, List.mem_append]; exact Or.inl hq)
    cases s with
    | simple x =>
      simp only [runStmts]
      rw [runSimple_congr orc orc' av st x init hhead]
      split
      · rfl
      · exact ih _ _ _ hrest
    | ifC c thn els =>
      simp only [runStmts]
      have hb : ∀ q ∈ (if evalCond init st c = true then thn else els).flatMap simplePairs, orc q.1 q.2 = orc' q.1 q.2 := by
        intro q hq
        apply hhead q
        simp only [stmtPairs, List.mem_append]
        split at hq
        · exact Or.inl hq
        · exact Or.inr hq
      rw [runSimples_congr orc orc' av st _ init hb]
      split
      · rfl
      · exact ih _ _ _ hrest
    | resume onStop =>
      simp only [runStmts]
      split
      · rfl
      · cases rk with
        | raised => rfl
        | stopped =>
          simp only
          rw [runSimples_congr orc orc' _ st onStop init hhead]
          split
          · rfl
          · exact ih _ _ _ hrest
        | yielded => exact ih _ _ _ hrest

/-- the three checks of the reference semantics: (sent, send slot), (yielded, yield slot), (StopIteration value, return slot) -/
def refPairs : List (Src × Slot) := [(.sent, .sendT), (.yielded, .yieldT), (.stopVal, .returnT)]

/-- an oracle from the three values the reference semantics reads (false elsewhere) -/
def bits3Orc (b y r : Bool) : Src → Slot → Bool
  | .sent, .sendT => b | .yielded, .yieldT => y | .stopVal, .returnT => r | _, _ => false

/-- the oracle restricted to the reference pairs -/
def restrictOrc (orc : Src → Slot → Bool) : Src → Slot → Bool :=
  bits3Orc (orc .sent .sendT) (orc .yielded .yieldT) (orc .stopVal .returnT)

theorem restrictOrc_agrees (orc : Src → Slot → Bool) : ∀ q ∈ refPairs, orc q.1 q.2 = restrictOrc orc q.1 q.2 := by
  intro q hq
  simp only [refPairs, List.mem_cons, List.not_mem_nil, or_false] at hq
  rcases hq with rfl | rfl | rfl <;> rfl

/-! ## facts about the generated `send` -/

/-- `send` checks nothing but (sent value : send slot), (yielded value : yield slot), (StopIteration value : return slot) -/
theorem cfg_send_pairs : ∀ q ∈ progPairs sendProg, q ∈ refPairs := by decide

theorem cfg_send_semantics_bits : ∀ b y r : Bool, ∀ rk : RK, ∀ st : GState, ∀ init : Bool,
    runStmts (bits3Orc b y r) rk st sendProg avSend init false = refSend (bits3Orc b y r) rk st init := by
  decide

/-- **the translated `send` computes `refSend`**: the sent value is checked against the *send* slot exactly when the
    generator is suspended at a `yield`, before the generator is resumed; the StopIteration value is checked against the
    *return* slot before the re-raise unless the generator had already finished before this call; the yielded value
    against the *yield* slot before it is returned; nothing else is checked -/
theorem cfg_send_semantics (orc : Src → Slot → Bool) (rk : RK) (st : GState) (init : Bool) :
    runStmts orc rk st sendProg avSend init false = refSend orc rk st init := by
  rw [runStmts_congr orc (restrictOrc orc) rk st sendProg avSend init false
    (fun q hq => restrictOrc_agrees orc q (cfg_send_pairs q hq))]
  exact cfg_send_semantics_bits _ _ _ rk st init

/-- "the sent value is checked exactly when the generator is suspended, and then before the resume" -/
theorem cfg_sendCheckedWhenSuspended (orc : Src → Slot → Bool) (rk : RK) (init : Bool) (h : orc .sent .sendT = false) :
    runStmts orc rk .suspended sendProg avSend init false = ⟨.ped, init, false⟩ ∧
    (runStmts orc rk .created sendProg avSend init false).resumed = true ∧
    (runStmts orc rk .closed sendProg avSend init false).resumed = true := by
  simp only [cfg_send_semantics, refSend, h]
  cases rk <;> simp <;> (try split) <;> simp

/-- "the StopIteration value of a generator that ran is checked (against the return slot) before the re-raise; the bare
    StopIteration of a generator that had finished before passes unchecked" -/
theorem cfg_stopCheckedUnlessClosed (orc : Src → Slot → Bool) (init : Bool) (hs : orc .sent .sendT = true) :
    (orc .stopVal .returnT = false →
      (runStmts orc .stopped .suspended sendProg avSend init false).act = .ped ∧
      (runStmts orc .stopped .created sendProg avSend init false).act = .ped) ∧
    (orc .stopVal .returnT = true → (runStmts orc .stopped .suspended sendProg avSend init false).act = .raiseStop) ∧
    (runStmts orc .stopped .closed sendProg avSend init false).act = .raiseStop := by
  simp only [cfg_send_semantics, refSend, hs]
  refine ⟨fun h => ?_, fun h => ?_, ?_⟩ <;> simp_all

/-- "the yielded value is checked (against the yield slot) before it is returned" -/
theorem cfg_yieldCheckedBeforeReturn (orc : Src → Slot → Bool) (st : GState) (init : Bool) (hs : orc .sent .sendT = true) :
    (orc .yielded .yieldT = false → (runStmts orc .yielded st sendProg avSend init false).act = .ped) ∧
    (orc .yielded .yieldT = true → (runStmts orc .yielded st sendProg avSend init false).act = .retYielded) := by
  simp only [cfg_send_semantics, refSend, hs]
  refine ⟨fun h => ?_, fun h => ?_⟩ <;> simp_all

/-! ## facts about the generated `throw`, `__next__`, `close`, `__init__` -/

/-- `throw` checks nothing but (yielded value : yield slot), (StopIteration value : return slot) -/
theorem cfg_throw_pairs : ∀ q ∈ progPairs throwProg, q ∈ refPairs := by decide

theorem cfg_throw_semantics_bits : ∀ b y r : Bool, ∀ rk : RK, ∀ st : GState, ∀ init : Bool,
    runStmts (bits3Orc b y r) rk st throwProg avThrow init false = refThrow (bits3Orc b y r) rk st init := by
  decide

/-- **the translated `throw` computes `refThrow`**: it resumes the generator and checks what the body produces in
    response like `send` does -/
theorem cfg_throw_semantics (orc : Src → Slot → Bool) (rk : RK) (st : GState) (init : Bool) :
    runStmts orc rk st throwProg avThrow init false = refThrow orc rk st init := by
  rw [runStmts_congr orc (restrictOrc orc) rk st throwProg avThrow init false
    (fun q hq => restrictOrc_agrees orc q (cfg_throw_pairs q hq))]
  exact cfg_throw_semantics_bits _ _ _ rk st init

/-- when what the generator produces in response conforms, `throw` passes it through (and resumes the generator) -/
theorem cfg_throw_transparent (orc : Src → Slot → Bool) (rk : RK) (st : GState) (init : Bool)
    (hy : rk = .yielded → orc .yielded .yieldT = true) (hr : rk = .stopped → orc .stopVal .returnT = true) :
    (runStmts orc rk st throwProg avThrow init false).act =
      (match rk with | .raised => .propagate | .stopped => .raiseStop | .yielded => .retYielded) ∧
    (runStmts orc rk st throwProg avThrow init false).resumed = true := by
  rw [cfg_throw_semantics]
  cases rk <;> simp_all [refThrow]

/-- `__next__` is `send(None)`, `close` delegates, `__iter__` returns the wrapper, other attributes are the generator's;
    the wrapper wraps the generator it is given and keeps no "initialized" flag of its own (the generator's state
    decides); the checks share the call's TypeVar bindings and its context (the names forward references refer to) -/
theorem cfg_protocol :
    nextIsSendNone = true ∧ closeDelegates = true ∧ iterReturnsSelf = true ∧ getattrDelegates = true ∧
    hasInitFlag = false ∧ wrapsGivenGenerator = true ∧ checksPassTypeVars = true ∧ checksPassContext = true := by
  decide

/-- the base generics a generator function's return annotation may have: the three `typing` aliases and (since the repair
    of the `collections.abc` half of the finding `generatorAnnotationSpelling`) their `collections.abc` classes -/
def supportedBases : List String :=
  ["typing.Generator", "typing.Iterable", "typing.Iterator",
   "collections.abc.Generator", "collections.abc.Iterable", "collections.abc.Iterator"]

/-- `_set_and_check_return_types`: exactly `supportedBases` are accepted; one type argument fills
    the yield slot, three fill (yield, send, return) in this order, everything else raises; unfilled slots are `None` -/
theorem cfg_creation :
    (∀ b, acceptedBases.contains b = supportedBases.contains b) ∧
    arityMap.lookup 1 = some [(.yieldT, 0)] ∧
    arityMap.lookup 3 = some [(.yieldT, 0), (.sendT, 1), (.returnT, 2)] ∧
    (∀ n, n ≠ 1 → n ≠ 3 → arityMap.lookup n = none) ∧
    otherArityRaises = true ∧ baseCheckedFirst = true ∧ setTypesAfterDefaults = true ∧
    (∀ s, slotDefaultIsNone s = true) := by
  refine ⟨?_, by decide, by decide, ?_, by decide, by decide, by decide, ?_⟩
  · intro b; simp [acceptedBases, supportedBases]; try grind
  · intro n h1 h3
    simp only [arityMap, List.lookup]
    split <;> simp_all
    split <;> simp_all
  · intro s; cases s <;> rfl

/-- `FunctionCall._check_types_return`: the generator of a generator function is wrapped, with the function's return
    annotation, instead of being checked like a plain result -/
theorem cfg_function_call :
    wrapsGeneratorResult = true ∧ wrapperGetsReturnAnnotation = true ∧ generatorBranchBeforePlainCheck = true ∧
    missingReturnAnnotationRaisesFirst = true ∧ isGeneratorUsesInspect = true := by
  decide

/-! ## `send` and `throw` in readable form -/

/-- what `send` / `throw` show the caller once the body ran: the yield / return checks -/
def sendObs (conf : Ty → V → Bool) (ts : Types) : Res → Obs
  | .yielded v => if conf ts.yieldT v then .got v else .ped
  | .returned v => if conf ts.returnT v then .stop v else .ped
  | .raised e => .exc e
  | .typeErr => .typeErr
  | .genExit => .crash

/-- `GeneratorWrapper.send` written out -/
def refWrapSend (conf : Ty → V → Bool) (ts : Types) (w : W) (x : V) : Obs × List JEv × W :=
  match w.gen.st with
  | .suspended _ =>
    if !conf ts.sendT x then (.ped, [], w) else
    (sendObs conf ts (resumeGen w.gen (.send x)).1, (resumeGen w.gen (.send x)).2.1, ⟨w.init, (resumeGen w.gen (.send x)).2.2⟩)
  | .unstarted =>
    (sendObs conf ts (resumeGen w.gen (.send x)).1, (resumeGen w.gen (.send x)).2.1, ⟨w.init, (resumeGen w.gen (.send x)).2.2⟩)
  | .finished => (.stop V.none, [], w)

/-- `GeneratorWrapper.throw` written out -/
def refWrapThrow (conf : Ty → V → Bool) (ts : Types) (w : W) (k : Nat) : Obs × List JEv × W :=
  (sendObs conf ts (resumeGen w.gen (.throw k)).1, (resumeGen w.gen (.throw k)).2.1, ⟨w.init, (resumeGen w.gen (.throw k)).2.2⟩)

theorem wrapSend_eq (conf : Ty → V → Bool) (ts : Types) (w : W) (x : V) :
    wrapResume conf ts sendProg w (.send x) = refWrapSend conf ts w x := by
  unfold wrapResume refWrapSend
  simp only [Option.isSome_some]
  have h := cfg_send_semantics (mkOrc conf ts (some x) (resumeGen w.gen (.send x)).1) (resumeGen w.gen (.send x)).1.kind
    w.gen.st.toGState w.init
  unfold avSend at h
  rw [h]
  unfold refSend
  have hs : mkOrc conf ts (some x) (resumeGen w.gen (.send x)).1 .sent .sendT = conf ts.sendT x := rfl
  rw [hs]
  rcases hst : w.gen.st with _ | c | _
  · -- not started: nothing to check on the way in
    simp only [GSt.toGState]
    rcases hr : (resumeGen w.gen (.send x)).1 with v | v | e | _ | _
    · by_cases hy : conf ts.yieldT v = true <;> simp [Res.kind, mkOrc, Types.get, hy, obsOf, sendObs]
    · by_cases hy : conf ts.returnT v = true <;> simp [Res.kind, mkOrc, Types.get, hy, obsOf, sendObs]
    · simp [Res.kind, obsOf, sendObs]
    · simp [Res.kind, obsOf, sendObs]
    · simp [Res.kind, obsOf, sendObs]
  · simp only [GSt.toGState, beq_self_eq_true, Bool.true_and]
    by_cases hc : conf ts.sendT x = true
    · simp only [hc, Bool.not_true, Bool.false_eq_true, ↓reduceIte]
      rcases hr : (resumeGen w.gen (.send x)).1 with v | v | e | _ | _
      · by_cases hy : conf ts.yieldT v = true <;> simp [Res.kind, mkOrc, Types.get, hy, obsOf, sendObs]
      · by_cases hy : conf ts.returnT v = true <;> simp [Res.kind, mkOrc, Types.get, hy, obsOf, sendObs]
      · simp [Res.kind, obsOf, sendObs]
      · simp [Res.kind, obsOf, sendObs]
      · simp [Res.kind, obsOf, sendObs]
    · simp [hc, obsOf]
  · -- finished before: the bare StopIteration passes, whatever was sent
    have hr : resumeGen w.gen (.send x) = (.returned V.none, [], w.gen) := by simp [resumeGen, hst]
    simp [GSt.toGState, hr, Res.kind, obsOf]

/-! ## the environment: what one resume journals -/

theorem runBody_no_recv (s : List GStep) (x : V) : JEv.recv x ∉ (runBody s).2.1 := by
  unfold runBody; split <;> simp

theorem runBody_yielded (s : List GStep) (v : V) (h : JEv.yielded v ∈ (runBody s).2.1) : (runBody s).1 = .yielded v := by
  unfold runBody at *; split at h <;> simp_all

theorem runBody_returned (s : List GStep) (v : V) (h : JEv.returned v ∈ (runBody s).2.1) : (runBody s).1 = .returned v := by
  unfold runBody at *; split at h <;> simp_all

theorem runBody_yielded_mem (s : List GStep) (v : V) (h : (runBody s).1 = .yielded v) : JEv.yielded v ∈ (runBody s).2.1 := by
  unfold runBody at *; split at h <;> simp_all

theorem runBody_returned_mem (s : List GStep) (v : V) (h : (runBody s).1 = .returned v) : JEv.returned v ∈ (runBody s).2.1 := by
  unfold runBody at *; split at h <;> simp_all

theorem runBody_suspended (s : List GStep) (c : Catch) (h : (runBody s).2.2.st = .suspended c) : ∃ v, (runBody s).1 = .yielded v := by
  unfold runBody at *; split at h <;> simp_all

/-- a value arrives in the body only through `send` on a suspended generator, and it is the sent one -/
theorem resumeGen_recv (g : Gen) (inp : Inp) (x : V) (h : JEv.recv x ∈ (resumeGen g inp).2.1) :
    inp = .send x ∧ ∃ c, g.st = .suspended c := by
  unfold resumeGen at h
  split at h
  · split at h
    · split at h
      · exact absurd h (runBody_no_recv _ _)
      · simp at h
    · rename_i c _
      simp only [prepend, List.cons_append, List.nil_append, List.mem_cons, JEv.recv.injEq] at h
      rcases h with h | h
      · exact ⟨by rw [h], c, by assumption⟩
      · exact absurd h (runBody_no_recv _ _)
    · simp at h
  · split at h
    · simp at h
    · simp at h
    · simp only [prepend, List.cons_append, List.nil_append, List.mem_cons, reduceCtorEq, false_or] at h
      exact absurd h (runBody_no_recv _ _)
    · simp at h
  · split at h
    · simp at h
    · simp only [prepend, List.cons_append, List.nil_append, List.mem_cons, reduceCtorEq, false_or] at h
      exact absurd h (runBody_no_recv _ _)
    · simp at h
    · simp at h

/-- if the body journals "about to yield v" during a resume, the resume yields v -/
theorem resumeGen_yielded (g : Gen) (inp : Inp) (v : V) (h : JEv.yielded v ∈ (resumeGen g inp).2.1) :
    (resumeGen g inp).1 = .yielded v := by
  unfold resumeGen at *
  split at h <;> split at h <;> (try split at h) <;>
    simp_all [prepend] <;> exact runBody_yielded _ _ h

theorem resumeGen_returned (g : Gen) (inp : Inp) (v : V) (h : JEv.returned v ∈ (resumeGen g inp).2.1) :
    (resumeGen g inp).1 = .returned v := by
  unfold resumeGen at *
  split at h <;> split at h <;> (try split at h) <;>
    simp_all [prepend] <;> exact runBody_returned _ _ h

/-- every yielded value is journalled -/
theorem resumeGen_yielded_mem (g : Gen) (inp : Inp) (v : V) (h : (resumeGen g inp).1 = .yielded v) :
    JEv.yielded v ∈ (resumeGen g inp).2.1 := by
  unfold resumeGen at *
  split at h <;> split at h <;> (try split at h) <;>
    simp_all [prepend] <;> (try exact Or.inr (runBody_yielded_mem _ _ h)) <;> exact runBody_yielded_mem _ _ h

/-- every returned value is journalled, except the bare StopIteration of a generator that had finished before -/
theorem resumeGen_returned_mem (g : Gen) (inp : Inp) (v : V) (h : (resumeGen g inp).1 = .returned v) :
    JEv.returned v ∈ (resumeGen g inp).2.1 ∨ (g.st = .finished ∧ v = V.none ∧ (resumeGen g inp).2.1 = [] ∧ ∃ x, inp = .send x) := by
  unfold resumeGen at *
  split at h <;> split at h <;> (try split at h) <;>
    simp_all [prepend] <;> (try exact Or.inr (runBody_returned_mem _ _ h)) <;> (try exact runBody_returned_mem _ _ h)

/-- a generator is suspended after a resume only if the resume yielded, or nothing happened -/
theorem resumeGen_suspended (g : Gen) (inp : Inp) (c : Catch) (h : (resumeGen g inp).2.2.st = .suspended c) :
    (∃ v, (resumeGen g inp).1 = .yielded v) ∨ ((resumeGen g inp).2.2 = g) := by
  unfold resumeGen at *
  split at h <;> split at h <;> (try split at h) <;>
    simp_all [prepend] <;> exact Or.inl (runBody_suspended _ _ h)

/-- `throw` / `close` leave a generator suspended only if it was suspended before -/
theorem resumeGen_suspended_of_not_send (g : Gen) (inp : Inp) (c : Catch) (hi : ∀ x, inp ≠ .send x)
    (h : (resumeGen g inp).2.2.st = .suspended c) : ∃ c', g.st = .suspended c' := by
  unfold resumeGen at *
  split at h
  · exact absurd rfl (hi _)
  · split at h <;> simp_all
  · split at h <;> simp_all

theorem runBody_ne_typeErr (s : List GStep) : (runBody s).1 ≠ .typeErr := by
  unfold runBody; split <;> simp

/-- the TypeError of a failed priming only comes from `send` -/
theorem resumeGen_ne_typeErr (g : Gen) (inp : Inp) (hi : ∀ x, inp ≠ .send x) : (resumeGen g inp).1 ≠ .typeErr := by
  unfold resumeGen
  split
  · exact absurd rfl (hi _)
  · split <;> simp [prepend, runBody_ne_typeErr]
  · split <;> simp [prepend, runBody_ne_typeErr]

theorem runBody_not_unstarted (s : List GStep) : (runBody s).2.2.st ≠ .unstarted := by
  unfold runBody; split <;> simp

/-- after any resume that is not the TypeError of a failed priming the generator has started -/
theorem resumeGen_not_unstarted (g : Gen) (inp : Inp) (h : (resumeGen g inp).1 ≠ .typeErr) :
    (resumeGen g inp).2.2.st ≠ .unstarted := by
  unfold resumeGen at *
  split <;> split <;> (try split) <;> simp_all [prepend, runBody_not_unstarted]

/-- `throw` makes the generator return only if its body ran, i.e. it was suspended at a `yield` that catches -/
theorem resumeGen_throw_returned (g : Gen) (k : Nat) (v : V) (h : (resumeGen g (.throw k)).1 = .returned v) :
    ∃ c, g.st = .suspended c := by
  cases hst : g.st with
  | unstarted => simp [resumeGen, hst] at h
  | finished => simp [resumeGen, hst] at h
  | suspended c => exact ⟨c, rfl⟩

theorem wrapThrow_eq (conf : Ty → V → Bool) (ts : Types) (w : W) (k : Nat) :
    wrapResume conf ts throwProg w (.throw k) = refWrapThrow conf ts w k := by
  unfold wrapResume refWrapThrow
  simp only [Option.isSome_none]
  have h := cfg_throw_semantics (mkOrc conf ts none (resumeGen w.gen (.throw k)).1) (resumeGen w.gen (.throw k)).1.kind
    w.gen.st.toGState w.init
  unfold avThrow at h
  rw [h]
  unfold refThrow
  rcases hr : (resumeGen w.gen (.throw k)).1 with v | v | e | _ | _
  · by_cases hy : conf ts.yieldT v = true <;> simp [Res.kind, mkOrc, Types.get, hy, obsOf, sendObs]
  · obtain ⟨c, hc⟩ := resumeGen_throw_returned _ _ _ hr
    by_cases hy : conf ts.returnT v = true <;> simp [Res.kind, mkOrc, Types.get, hy, obsOf, sendObs, hc, GSt.toGState]
  · simp [Res.kind, obsOf, sendObs]
  · simp [Res.kind, obsOf, sendObs]
  · simp [Res.kind, obsOf, sendObs]

end PedVerif.GenWrap
