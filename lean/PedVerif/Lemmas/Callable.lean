import PedVerif.Spec.CallableRegions
/-! Lemmas for `Props/Callable.lean`: `_is_subtype` model vs `Spec.subTy`. -/
set_option linter.unusedSimpArgs false
namespace PedVerif.Callable
open PedVerif.Gen.Callable PedVerif.Callable.Spec

/-- what the theorems assume about the class table (checked by the driver on every table the harness sends: `wf`) -/
structure Env.WF (env : Env) : Prop where
  refl : ∀ c, env.sub c c = true
  top : ∀ c, env.sub c env.object = true
  origin1NotObject : ∀ g, env.origin1 g ≠ env.object
  origin3NotObject : ∀ g, env.origin3 g ≠ env.object

/-- `supHead` with the generated flags resolved -/
theorem supHead_eq (env : Env) (t : TA) :
    supHead env t = match t with
      | .union _ cs => .union cs
      | t => if clsOf env t = env.object then .object else .cls (clsOf env t) := by
  cases t <;> simp [supHead, objectShortcut]

theorem supHead_top {env : Env} (wf : env.WF) {t : TA} : supHead env t = .object ↔ isTop env t = true := by
  rw [supHead_eq]
  cases t with
  | cls c => by_cases h : c = env.object <;> simp [clsOf, isTop, h]
  | any => simp [clsOf, isTop]
  | union p cs => simp [isTop]
  | gen1 g t => simp [clsOf, isTop, wf.origin1NotObject g]
  | gen3 g t => simp [clsOf, isTop, wf.origin3NotObject g]

/-! ### soundness of the `_is_subtype` model -/

theorem contains_any {env : Env} (wf : env.WF) {c : ClsId} {ds : List ClsId} (h : ds.contains c = true) :
    ds.any (fun d => env.sub c d) = true := by
  simp only [List.contains_iff_mem] at h
  exact List.any_eq_true.mpr ⟨c, h, wf.refl c⟩

theorem isSubtypeCls_sound {env : Env} (wf : env.WF) (c : ClsId) (t : TA)
    (h : isSubtypeCls env c t = .ok true) : subTy env (.cls c) t = true := by
  unfold isSubtypeCls at h
  rw [supHead_eq] at h
  cases t with
  | cls d =>
    by_cases hd : d = env.object
    · simp [subTy, isTop, hd]
    · simp [clsOf, hd] at h
      simp [subTy, isTop, headCls, fits, h]
  | any => simp [subTy, isTop]
  | union p ds =>
    simp at h
    have := contains_any wf (List.contains_iff_mem.mpr h)
    simp [subTy, isTop, headCls, fits] at this ⊢
    exact this
  | gen1 g t =>
    simp [clsOf, wf.origin1NotObject g] at h
    simp [subTy, isTop, headCls, fits, h]
  | gen3 g t =>
    simp [clsOf, wf.origin3NotObject g] at h
    simp [subTy, isTop, headCls, fits, h]
theorem isSubtypeAny_sound {env : Env} (wf : env.WF) (t : TA)
    (h : isSubtypeAny env t = .ok true) : subTy env .any t = true := by
  unfold isSubtypeAny at h
  rw [supHead_eq] at h
  cases t with
  | cls d =>
    by_cases hd : d = env.object
    · simp [subTy, isTop, hd]
    · simp [clsOf, hd] at h
      simp [subTy, isTop, headCls, fits, h]
  | any => simp [subTy, isTop]
  | union p ds => simp at h
  | gen1 g t =>
    simp [clsOf, wf.origin1NotObject g] at h
    simp [subTy, isTop, headCls, fits, h]
  | gen3 g t =>
    simp [clsOf, wf.origin3NotObject g] at h
    simp [subTy, isTop, headCls, fits, h]

theorem isSubtypeEmpty_sound {env : Env} (wf : env.WF) (t : TA)
    (h : isSubtypeEmpty env t = .ok true) : isTop env t = true := by
  unfold isSubtypeEmpty at h
  rw [supHead_eq] at h
  cases t with
  | cls d =>
    by_cases hd : d = env.object
    · simp [isTop, hd]
    · simp [clsOf, hd] at h
  | any => simp [isTop]
  | union p ds => simp at h
  | gen1 g t => simp [clsOf, wf.origin1NotObject g] at h
  | gen3 g t => simp [clsOf, wf.origin3NotObject g] at h

theorem isSubtypeUnion_sound {env : Env} (wf : env.WF) (p : Bool) (cs : List ClsId) (t : TA)
    (h : isSubtypeUnion env p cs t = .ok true) : subTy env (.union p cs) t = true := by
  unfold isSubtypeUnion at h
  rw [supHead_eq] at h
  cases t with
  | cls d =>
    by_cases hd : d = env.object
    · simp [subTy, isTop, hd]
    · cases p <;> simp [clsOf, hd, notAClass, nonGenericCatchesTypeError, nonGenericCatchResult] at h
  | any => simp [subTy, isTop]
  | union q ds =>
    simp [unionSubQuantAll] at h
    simp only [subTy, isTop, Bool.false_or, List.all_eq_true]
    intro c hc
    exact contains_any wf (List.contains_iff_mem.mpr (h c hc))
  | gen1 g t => cases p <;> simp [clsOf, wf.origin1NotObject g, notAClass, nonGenericCatchesTypeError, nonGenericCatchResult] at h
  | gen3 g t => cases p <;> simp [clsOf, wf.origin3NotObject g, notAClass, nonGenericCatchesTypeError, nonGenericCatchResult] at h

theorem isSubtypeT_sound {env : Env} (wf : env.WF) (s t : TA)
    (h : isSubtypeT env s t = .ok true) : subTy env s t = true := by
  induction s generalizing t with
  | cls c => exact isSubtypeCls_sound wf c t (by simpa [isSubtypeT] using h)
  | any => exact isSubtypeAny_sound wf t (by simpa [isSubtypeT] using h)
  | union p cs => exact isSubtypeUnion_sound wf p cs t (by simpa [isSubtypeT] using h)
  | gen1 g s ih =>
    unfold isSubtypeT at h
    rw [supHead_eq] at h
    cases t with
    | cls d =>
      by_cases hd : d = env.object
      · simp [subTy, isTop, hd]
      · simp [clsOf, hd, genericOriginFailResult, argLenMismatch, argLenMismatchResult] at h
    | any => simp [subTy, isTop]
    | union q ds => simp at h
    | gen1 g' t =>
      simp [clsOf, wf.origin1NotObject g', genericOriginFailResult, argLenMismatch] at h
      by_cases hs : env.sub (env.origin1 g) (env.origin1 g') = true
      · simp [hs] at h
        simp [subTy, hs, ih t h]
      · simp [hs] at h
    | gen3 g' t =>
      simp [clsOf, wf.origin3NotObject g', genericOriginFailResult, argLenMismatch, argLenMismatchResult] at h
  | gen3 g s ih =>
    unfold isSubtypeT at h
    rw [supHead_eq] at h
    cases t with
    | cls d =>
      by_cases hd : d = env.object
      · simp [subTy, isTop, hd]
      · simp [clsOf, hd, genericOriginFailResult, argLenMismatch, argLenMismatchResult] at h
    | any => simp [subTy, isTop]
    | union q ds => simp at h
    | gen1 g' t =>
      simp [clsOf, wf.origin1NotObject g', genericOriginFailResult, argLenMismatch, argLenMismatchResult] at h
    | gen3 g' t =>
      simp [clsOf, wf.origin3NotObject g', genericOriginFailResult, argLenMismatch] at h
      by_cases hs : env.sub (env.origin3 g) (env.origin3 g') = true
      · simp [hs] at h
        have haa : isSubtypeAny env .any = .ok true := by
          simp [isSubtypeAny, supHead_eq, clsOf, objectShortcutResult]
        simp [haa, Raw.andThen] at h
        simp [subTy, hs, ih t h]
      · simp [hs] at h
/-! ### completeness of the `_is_subtype` model outside the regions -/

theorem not_top_of_supHead {env : Env} (wf : env.WF) {t : TA} (h : isTop env t = false) : supHead env t ≠ .object := by
  intro h'
  rw [supHead_top wf] at h'
  simp [h] at h'

/-- outside the regions the model of `_is_subtype` answers exactly what the spec says -/
theorem isSubtypeT_complete {env : Env} (wf : env.WF) (s t : TA)
    (hg : subRegion env s t = none) (h : subTy env s t = true) : isSubtypeT env s t = .ok true := by
  induction s generalizing t with
  | cls c =>
    simp only [isSubtypeT, isSubtypeCls]
    rw [supHead_eq]
    cases t with
    | cls d =>
      by_cases hd : d = env.object
      · simp [clsOf, hd, objectShortcutResult]
      · simpa [clsOf, hd, subTy, isTop, headCls, fits] using h
    | any => simp [clsOf, objectShortcutResult]
    | union q ds =>
      have hm : c ∈ ds := by simpa [subRegion] using hg
      simp [hm]
    | gen1 g t => simpa [clsOf, wf.origin1NotObject g, subTy, isTop, headCls, fits] using h
    | gen3 g t => simpa [clsOf, wf.origin3NotObject g, subTy, isTop, headCls, fits] using h
  | any =>
    simp only [isSubtypeT, isSubtypeAny]
    rw [supHead_eq]
    cases t with
    | cls d =>
      by_cases hd : d = env.object
      · simp [clsOf, hd, objectShortcutResult]
      · simpa [clsOf, hd, subTy, isTop, headCls, fits] using h
    | any => simp [clsOf, objectShortcutResult]
    | union q ds => simp [subRegion] at hg
    | gen1 g t => simpa [clsOf, wf.origin1NotObject g, subTy, isTop, headCls, fits] using h
    | gen3 g t => simpa [clsOf, wf.origin3NotObject g, subTy, isTop, headCls, fits] using h
  | union p cs =>
    simp only [isSubtypeT, isSubtypeUnion]
    rw [supHead_eq]
    cases t with
    | cls d =>
      by_cases hd : d = env.object
      · simp [clsOf, hd, objectShortcutResult]
      · simp [subRegion, isTop, hd] at hg
    | any => simp [clsOf, objectShortcutResult]
    | union q ds =>
      have hm : ∀ c ∈ cs, c ∈ ds := by simpa [subRegion] using hg
      simpa [unionSubQuantAll] using hm
    | gen1 g t => simp [subRegion, isTop] at hg
    | gen3 g t => simp [subRegion, isTop] at hg
  | gen1 g s ih =>
    unfold isSubtypeT
    rw [supHead_eq]
    cases t with
    | cls d =>
      by_cases hd : d = env.object
      · simp [clsOf, hd, objectShortcutResult]
      · simp [subRegion, hd] at hg
    | any => simp [clsOf, objectShortcutResult]
    | union q ds => simp [subRegion] at hg
    | gen1 g' t =>
      simp only [subTy, Bool.and_eq_true] at h
      simp only [subRegion] at hg
      simp [clsOf, wf.origin1NotObject g', h.1, argLenMismatch, ih t hg h.2]
    | gen3 g' t => simp [subTy] at h
  | gen3 g s ih =>
    unfold isSubtypeT
    rw [supHead_eq]
    cases t with
    | cls d =>
      by_cases hd : d = env.object
      · simp [clsOf, hd, objectShortcutResult]
      · simp [subRegion, hd] at hg
    | any => simp [clsOf, objectShortcutResult]
    | union q ds => simp [subRegion] at hg
    | gen1 g' t => simp [subTy] at h
    | gen3 g' t =>
      simp only [subTy, Bool.and_eq_true] at h
      simp only [subRegion] at hg
      have haa : isSubtypeAny env .any = .ok true := by
        simp [isSubtypeAny, supHead_eq, clsOf, objectShortcutResult]
      simp [clsOf, wf.origin3NotObject g', h.1, argLenMismatch, ih t hg h.2, haa, Raw.andThen]

/-! ### annotations as `inspect` reports them -/

theorem isSubtype_sound {env : Env} (wf : env.WF) (a : Ann) (t : TA)
    (h : isSubtype env a t = .ok true) : declSub env a t = true := by
  cases a with
  | empty => exact isSubtypeEmpty_sound wf t (by simpa [isSubtype] using h)
  | none => exact isSubtypeCls_sound wf env.noneCls t (by simpa [isSubtype, subNoneNormalised] using h)
  | ty s => exact isSubtypeT_sound wf s t (by simpa [isSubtype] using h)

theorem isSubtype_complete {env : Env} (wf : env.WF) (a : Ann) (t : TA)
    (hg : declRegion env a t = none) (h : declSub env a t = true) : isSubtype env a t = .ok true := by
  cases a with
  | empty =>
    simp only [declSub] at h
    simp [isSubtype, isSubtypeEmpty, (supHead_top wf).mpr h, objectShortcutResult]
  | none =>
    have := isSubtypeT_complete wf (.cls env.noneCls) t (by simpa [declRegion] using hg) (by simpa [declSub] using h)
    simpa [isSubtype, subNoneNormalised, isSubtypeT] using this
  | ty s => simpa [isSubtype] using isSubtypeT_complete wf s t (by simpa [declRegion] using hg) (by simpa [declSub] using h)

/-! ### the parameter loop -/

theorem paramsLoop_never_accepts (env : Env) (ps : List FParam) (ts : List TA) : paramsLoop env ps ts ≠ some (.ok true) := by
  induction ps generalizing ts with
  | nil => simp [paramsLoop]
  | cons p ps ih =>
    cases ts with
    | nil => simp [paramsLoop]
    | cons t ts =>
      unfold paramsLoop
      split
      · exact ih ts
      · simp [paramFailResult]
      · simp

theorem paramsLoop_sound {env : Env} (wf : env.WF) (ps : List FParam) (ts : List TA)
    (h : paramsLoop env ps ts = none) : (ps.zip ts).all (fun pt => declSub env pt.1.ann pt.2) = true := by
  induction ps generalizing ts with
  | nil => simp
  | cons p ps ih =>
    cases ts with
    | nil => simp
    | cons t ts =>
      unfold paramsLoop at h
      split at h
      · rename_i hp
        simp [isSubtype_sound wf p.ann t hp, ih ts h]
      · simp at h
      · simp at h

theorem paramsLoop_complete {env : Env} (wf : env.WF) (ps : List FParam) (ts : List TA)
    (hg : paramRegions env ps ts = [])
    (h : (ps.zip ts).all (fun pt => declSub env pt.1.ann pt.2) = true) : paramsLoop env ps ts = none := by
  induction ps generalizing ts with
  | nil => simp [paramsLoop]
  | cons p ps ih =>
    cases ts with
    | nil => simp [paramsLoop]
    | cons t ts =>
      simp only [List.zip_cons_cons, List.all_cons, Bool.and_eq_true] at h
      simp only [paramRegions, List.zip_cons_cons, List.filterMap_cons] at hg
      cases hr : declRegion env p.ann t with
      | some r => simp [hr] at hg
      | none =>
        simp only [hr] at hg
        unfold paramsLoop
        rw [isSubtype_complete wf p.ann t hr h.1]
        exact ih ts hg h.2
theorem required_eq (ps : List FParam) : required ps = Spec.required ps := by
  simp [required, Spec.required]

/-! ### the return clause -/

theorem retCheck_sound {env : Env} (wf : env.WF) (coro : Bool) (ret : Ann) (eret : TA)
    (h : retCheck env coro ret eret = .ok true) : retConforms env coro ret eret = true := by
  unfold retCheck at h
  cases coro with
  | false =>
    simp [coroTest, syncReturnChecked] at h
    simpa [retConforms] using isSubtype_sound wf ret eret h
  | true =>
    simp only [coroTest, Bool.and_self, Bool.not_true, Bool.false_eq_true, if_false] at h
    cases eret with
    | cls d => simp [coroOtherResult] at h
    | any => simp [coroOtherResult] at h
    | union q ds => simp [coroOtherResult] at h
    | gen1 g t =>
      by_cases hg : g = env.awaitableGen
      · simp [hg, pickArg, awaitableArgIndex, coroReturnChecked] at h
        simp [retConforms, isTop, hg, isSubtype_sound wf ret t h]
      · simp [hg, coroOtherResult] at h
    | gen3 g t =>
      by_cases hg : g = env.coroutineGen
      · simp [hg, pickArg, coroutineArgIndex, coroReturnChecked] at h
        simp [retConforms, isTop, hg, isSubtype_sound wf ret t h]
      · simp [hg, coroOtherResult] at h

theorem retCheck_complete {env : Env} (wf : env.WF) (coro : Bool) (ret : Ann) (eret : TA)
    (hg : retRegions env coro ret eret = []) (h : retConforms env coro ret eret = true) :
    retCheck env coro ret eret = .ok true := by
  unfold retCheck
  cases coro with
  | false =>
    simp only [retRegions, Bool.false_eq_true, if_false] at hg
    simp only [retConforms, Bool.false_eq_true, if_false] at h
    have hr : declRegion env ret eret = none := by
      cases hd : declRegion env ret eret <;> simp [hd] at hg ⊢
    simpa [coroTest, syncReturnChecked] using isSubtype_complete wf ret eret hr h
  | true =>
    simp only [retRegions, if_true] at hg
    simp only [retConforms, if_true] at h
    have htop : isTop env eret = false := by
      cases ht : isTop env eret <;> simp [ht] at hg ⊢
    simp only [htop, Bool.false_or, Bool.false_eq_true, if_false] at h hg
    simp only [coroTest, Bool.and_self, Bool.not_true, Bool.false_eq_true, if_false]
    cases eret with
    | cls d => simp at h
    | any => simp at h
    | union q ds => simp at h
    | gen1 g t =>
      simp only [Bool.and_eq_true, beq_iff_eq] at h
      have hr : declRegion env ret t = none := by
        cases hd : declRegion env ret t <;> simp [hd] at hg ⊢
      simp [h.1, pickArg, awaitableArgIndex, coroReturnChecked, isSubtype_complete wf ret t hr h.2]
    | gen3 g t =>
      simp only [Bool.and_eq_true, beq_iff_eq] at h
      have hr : declRegion env ret t = none := by
        cases hd : declRegion env ret t <;> simp [hd] at hg ⊢
      simp [h.1, pickArg, coroutineArgIndex, coroReturnChecked, isSubtype_complete wf ret t hr h.2]

/-! ### `_instancecheck_callable` -/

theorem checkSig_sound {env : Env} (wf : env.WF) (sig : SigR) (coro : Bool) (e : Exp)
    (h : checkSig env sig coro e = .ok true) :
    ∃ ps ret, sig = .ok ps ret ∧ paramsConform env ps e.ps = true ∧ retConforms env coro ret e.ret = true := by
  unfold checkSig at h
  cases sig with
  | typeError => simp [sigFails, catches, sigCaught, sigHandlerResult] at h
  | valueError => simp [sigFails, catches, sigCaught, sigHandlerResult] at h
  | ok ps ret =>
    refine ⟨ps, ret, rfl, ?_⟩
    simp only at h
    cases hps : e.ps with
    | none =>
      simp only [hps] at h
      exact ⟨by simp [paramsConform], retCheck_sound wf coro ret e.ret h⟩
    | some ts =>
      simp only [hps, arityMismatch, zipAllParams, if_true, arityMismatchResult] at h
      by_cases hl : ts.length = (required ps).length
      · simp only [hl, ne_eq, not_true_eq_false, decide_false, Bool.false_eq_true, if_false] at h
        cases hloop : paramsLoop env ps ts with
        | some r =>
          simp only [hloop] at h
          exact absurd (h ▸ hloop) (paramsLoop_never_accepts env ps ts)
        | none =>
          simp only [hloop] at h
          have := paramsLoop_sound wf ps ts hloop
          exact ⟨by simp [paramsConform, ← required_eq, hl, this], retCheck_sound wf coro ret e.ret h⟩
      · simp [hl] at h

theorem checkSig_complete {env : Env} (wf : env.WF) (ps : List FParam) (ret : Ann) (coro : Bool) (e : Exp)
    (hg1 : (match e.ps with | some ts => paramRegions env ps ts | none => []) = [])
    (hg2 : retRegions env coro ret e.ret = [])
    (h1 : paramsConform env ps e.ps = true) (h2 : retConforms env coro ret e.ret = true) :
    checkSig env (.ok ps ret) coro e = .ok true := by
  unfold checkSig
  cases hps : e.ps with
  | none => simp [retCheck_complete wf coro ret e.ret hg2 h2]
  | some ts =>
    simp only [hps] at hg1
    simp only [hps, paramsConform, Bool.and_eq_true, beq_iff_eq, ← required_eq] at h1
    simp [arityMismatch, h1.1, zipAllParams, paramsLoop_complete wf ps ts hg1 h1.2, retCheck_complete wf coro ret e.ret hg2 h2]

theorem conformsLeaf_of_sig {env : Env} {name : NameR} {sig : SigR} {coro : Bool} {e : Exp}
    (h : ∃ ps ret, sig = .ok ps ret ∧ paramsConform env ps e.ps = true ∧ retConforms env coro ret e.ret = true) :
    conformsLeaf env (.callable name sig coro) e = true := by
  obtain ⟨ps, ret, rfl, h1, h2⟩ := h
  simp [conformsLeaf, h1, h2]

theorem checkObj_nonCallable (env : Env) (name : NameR) (coro : Bool) (e : Exp) :
    checkObj env false name .typeError coro e ≠ .ok true := by
  unfold checkObj
  cases hl : lambdaShortcut <;>
    simp [isLambda, checkSig, sigFails, catches, sigCaught, sigHandlerResult]

theorem checkCallable_sound {env : Env} (wf : env.WF) (v : CVal) (e : Exp)
    (h : checkCallable env v e = .ok true) : conformsLeaf env v e = true := by
  cases v with
  | none =>
    unfold checkCallable at h
    cases hn : noneGuard
    · simp only [hn, Bool.false_eq_true, if_false] at h
      exact absurd h (checkObj_nonCallable env .missing false e)
    · simp [hn, noneResult] at h
  | nonCallable => exact absurd h (checkObj_nonCallable env .missing false e)
  | callable name sig coro =>
    simp only [checkCallable, checkObj, lambdaShortcut, if_true, isLambda, Bool.not_true, Bool.false_eq_true, if_false] at h
    cases name with
    | lambda => simp [conformsLeaf]
    | missing =>
      first
        | (simp [lambdaNameGuarded] at h; done)
        | (simp only [lambdaNameGuarded, if_true] at h; exact conformsLeaf_of_sig (checkSig_sound wf sig coro e h))
    | other => exact conformsLeaf_of_sig (checkSig_sound wf sig coro e h)

theorem checkCallable_complete {env : Env} (wf : env.WF) (v : CVal) (e : Exp)
    (hg : leafRegions env v e = []) (h : conformsLeaf env v e = true) : checkCallable env v e = .ok true := by
  cases v with
  | none => simp [conformsLeaf] at h
  | nonCallable => simp [conformsLeaf] at h
  | callable name sig coro =>
    simp only [checkCallable, checkObj, lambdaShortcut, if_true, isLambda, Bool.not_true, Bool.false_eq_true, if_false]
    cases name with
    | missing => simp [leafRegions] at hg
    | lambda => simp [lambdaResult]
    | other =>
      simp only [conformsLeaf] at h
      cases sig with
      | typeError => simp at h
      | valueError => simp at h
      | ok ps ret =>
        simp only [leafRegions] at hg
        simp at h
        simp only [List.append_eq_nil_iff] at hg
        exact checkSig_complete wf ps ret coro e hg.2.1 hg.2.2 h.1 h.2

/-! ### the route and the one-level wrappers -/

theorem leafCheck_sound {env : Env} (wf : env.WF) (sp : Spelling) (e : Exp) (v : CVal)
    (h : leafCheck env sp e v = .ok true) : conformsLeaf env v e = true := by
  cases sp with
  | typing => exact checkCallable_sound wf v e (by simpa [leafCheck] using h)
  | abc =>
    unfold leafCheck at h
    cases hr : abcRoute env e with
    | none => exact checkCallable_sound wf v e (by simpa [hr] using h)
    | some x => simp [hr] at h

/-- the Callable annotation itself is in no region: typing spelling, or a `collections.abc` spelling that converts -/
def spellingOk (env : Env) (sp : Spelling) (e : Exp) : Bool := !(sp == .abc && (abcRoute env e).isSome)

theorem leafCheck_complete {env : Env} (wf : env.WF) (sp : Spelling) (e : Exp) (v : CVal)
    (hs : spellingOk env sp e = true) (hg : leafRegions env v e = []) (h : conformsLeaf env v e = true) :
    leafCheck env sp e v = .ok true := by
  cases sp with
  | typing => simpa [leafCheck] using checkCallable_complete wf v e hg h
  | abc =>
    unfold leafCheck
    cases hr : abcRoute env e with
    | none => simpa using checkCallable_complete wf v e hg h
    | some x => simp [spellingOk, hr] at hs

theorem checkList_sound {env : Env} (wf : env.WF) (sp : Spelling) (e : Exp) (xs : List CVal)
    (h : checkList env sp e xs = .ok true) : xs.all (fun l => conformsLeaf env l e) = true := by
  induction xs with
  | nil => simp
  | cons v vs ih =>
    unfold checkList at h
    split at h
    · rename_i hv
      simp [leafCheck_sound wf sp e v hv, ih h]
    · rename_i r hne
      exact absurd h hne

theorem checkList_complete {env : Env} (wf : env.WF) (sp : Spelling) (e : Exp) (xs : List CVal)
    (hs : spellingOk env sp e = true) (hg : xs.flatMap (fun l => leafRegions env l e) = [])
    (h : xs.all (fun l => conformsLeaf env l e) = true) : checkList env sp e xs = .ok true := by
  induction xs with
  | nil => simp [checkList]
  | cons v vs ih =>
    simp only [List.flatMap_cons, List.append_eq_nil_iff] at hg
    simp only [List.all_cons, Bool.and_eq_true] at h
    unfold checkList
    rw [leafCheck_complete wf sp e v hs hg.1 h.1]
    exact ih hg.2 h.2

theorem checkDict_sound {env : Env} (wf : env.WF) (sp : Spelling) (e : Exp) (kvs : List (Bool × CVal))
    (h : checkDict env sp e kvs = .ok true) : kvs.all (fun kv => kv.1 && conformsLeaf env kv.2 e) = true := by
  induction kvs with
  | nil => simp
  | cons kv kvs ih =>
    obtain ⟨k, v⟩ := kv
    unfold checkDict at h
    cases k with
    | false => simp at h
    | true =>
      simp only [Bool.not_true, Bool.false_eq_true, if_false] at h
      split at h
      · rename_i hv
        simp [leafCheck_sound wf sp e v hv, ih h]
      · rename_i r hne
        exact absurd h hne

theorem checkDict_complete {env : Env} (wf : env.WF) (sp : Spelling) (e : Exp) (kvs : List (Bool × CVal))
    (hs : spellingOk env sp e = true) (hg : kvs.flatMap (fun kv => leafRegions env kv.2 e) = [])
    (h : kvs.all (fun kv => kv.1 && conformsLeaf env kv.2 e) = true) : checkDict env sp e kvs = .ok true := by
  induction kvs with
  | nil => simp [checkDict]
  | cons kv kvs ih =>
    obtain ⟨k, v⟩ := kv
    simp only [List.flatMap_cons, List.append_eq_nil_iff] at hg
    simp only [List.all_cons, Bool.and_eq_true] at h
    unfold checkDict
    simp only [h.1.1, Bool.not_true, Bool.false_eq_true, if_false]
    rw [leafCheck_complete wf sp e v hs hg.1 h.1.2]
    exact ih hg.2 h.2

theorem leafCheck_nonCallable_ne (env : Env) (sp : Spelling) (e : Exp) : leafCheck env sp e .nonCallable ≠ .ok true := by
  have h0 : checkCallable env .nonCallable e ≠ .ok true := checkObj_nonCallable env .missing false e
  cases sp with
  | typing => simpa [leafCheck] using h0
  | abc =>
    unfold leafCheck
    cases abcRoute env e <;> simp [h0]

/-! ### re-spelling of the expected types -/

/-- two spellings of the same expected type: a Union may be written `Union[..]`, `Optional[..]` or `X | Y`, with its members
    in any order (and repeated) -/
inductive Respell : TA → TA → Prop where
  | cls (c : ClsId) : Respell (.cls c) (.cls c)
  | any : Respell .any .any
  | union (p q : Bool) (cs ds : List ClsId) (h : ∀ c, c ∈ cs ↔ c ∈ ds) : Respell (.union p cs) (.union q ds)
  | gen1 (g : GenId) {s t : TA} (h : Respell s t) : Respell (.gen1 g s) (.gen1 g t)
  | gen3 (g : GenId) {s t : TA} (h : Respell s t) : Respell (.gen3 g s) (.gen3 g t)

theorem contains_congr {cs ds : List ClsId} (h : ∀ c, c ∈ cs ↔ c ∈ ds) (c : ClsId) : cs.contains c = ds.contains c := by
  rw [Bool.eq_iff_iff]; simp [h c]

theorem supHead_respell (env : Env) {t t' : TA} (h : Respell t t') :
    (∃ cs ds, supHead env t = .union cs ∧ supHead env t' = .union ds ∧ ∀ c, c ∈ cs ↔ c ∈ ds) ∨
    (supHead env t = supHead env t' ∧ ∀ cs, supHead env t ≠ .union cs) := by
  cases h with
  | cls c =>
    refine Or.inr ⟨rfl, fun cs => ?_⟩
    by_cases hc : c = env.object <;> simp [supHead_eq, clsOf, hc]
  | any => exact Or.inr ⟨rfl, fun cs => by simp [supHead_eq, clsOf]⟩
  | union p q cs ds h => exact Or.inl ⟨cs, ds, by simp [supHead], by simp [supHead], h⟩
  | gen1 g h =>
    refine Or.inr ⟨rfl, fun cs => ?_⟩
    by_cases hc : env.origin1 g = env.object <;> simp [supHead_eq, clsOf, hc]
  | gen3 g h =>
    refine Or.inr ⟨rfl, fun cs => ?_⟩
    by_cases hc : env.origin3 g = env.object <;> simp [supHead_eq, clsOf, hc]

theorem isSubtypeCls_respell (env : Env) (c : ClsId) {t t' : TA} (h : Respell t t') :
    isSubtypeCls env c t = isSubtypeCls env c t' := by
  unfold isSubtypeCls
  rcases supHead_respell env h with ⟨cs, ds, h1, h2, hm⟩ | ⟨h1, _⟩
  · simp [h1, h2, hm c]
  · rw [h1]

theorem isSubtypeAny_respell (env : Env) {t t' : TA} (h : Respell t t') :
    isSubtypeAny env t = isSubtypeAny env t' := by
  unfold isSubtypeAny
  rcases supHead_respell env h with ⟨cs, ds, h1, h2, hm⟩ | ⟨h1, _⟩
  · simp [h1, h2]
  · rw [h1]

theorem isSubtypeEmpty_respell (env : Env) {t t' : TA} (h : Respell t t') :
    isSubtypeEmpty env t = isSubtypeEmpty env t' := by
  unfold isSubtypeEmpty
  rcases supHead_respell env h with ⟨cs, ds, h1, h2, hm⟩ | ⟨h1, _⟩
  · simp [h1, h2]
  · rw [h1]

theorem isSubtypeUnion_respell (env : Env) (p : Bool) (xs : List ClsId) {t t' : TA} (h : Respell t t') :
    isSubtypeUnion env p xs t = isSubtypeUnion env p xs t' := by
  unfold isSubtypeUnion
  rcases supHead_respell env h with ⟨cs, ds, h1, h2, hm⟩ | ⟨h1, _⟩
  · have : cs.contains = ds.contains := funext (contains_congr hm)
    simp [h1, h2, this]
  · rw [h1]

/-- position-wise re-spelling of a list of types -/
inductive RespellList : List TA → List TA → Prop where
  | nil : RespellList [] []
  | cons {t t' : TA} {ts ts' : List TA} (h : Respell t t') (hs : RespellList ts ts') : RespellList (t :: ts) (t' :: ts')

/-- the verdict of `_is_subtype` does not depend on how the *expected* type is spelled -/
theorem isSubtypeT_respell (env : Env) (s : TA) {t t' : TA} (h : Respell t t') :
    isSubtypeT env s t = isSubtypeT env s t' := by
  induction s generalizing t t' with
  | cls c => simpa [isSubtypeT] using isSubtypeCls_respell env c h
  | any => simpa [isSubtypeT] using isSubtypeAny_respell env h
  | union p xs => simpa [isSubtypeT] using isSubtypeUnion_respell env p xs h
  | gen1 g s ih =>
    unfold isSubtypeT
    rcases supHead_respell env h with ⟨cs, ds, h1, h2, hm⟩ | ⟨h1, _⟩
    · simp [h1, h2]
    · rw [← h1]
      cases h with
      | cls c => rfl
      | any => rfl
      | union p q cs ds h => rfl
      | gen1 g' h' => simp only [ih h']
      | gen3 g' h' => rfl
  | gen3 g s ih =>
    unfold isSubtypeT
    rcases supHead_respell env h with ⟨cs, ds, h1, h2, hm⟩ | ⟨h1, _⟩
    · simp [h1, h2]
    · rw [← h1]
      cases h with
      | cls c => rfl
      | any => rfl
      | union p q cs ds h => rfl
      | gen1 g' h' => simp only [isSubtypeAny_respell env h']
      | gen3 g' h' => simp only [ih h']

theorem isSubtype_respell (env : Env) (a : Ann) {t t' : TA} (h : Respell t t') :
    isSubtype env a t = isSubtype env a t' := by
  cases a with
  | empty => simpa [isSubtype] using isSubtypeEmpty_respell env h
  | none => simp only [isSubtype, isSubtypeCls_respell env env.noneCls h]
  | ty s => simpa [isSubtype] using isSubtypeT_respell env s h

theorem paramsLoop_respell (env : Env) (ps : List FParam) {ts ts' : List TA} (h : RespellList ts ts') :
    paramsLoop env ps ts = paramsLoop env ps ts' := by
  induction ps generalizing ts ts' with
  | nil => simp [paramsLoop]
  | cons p ps ih =>
    cases h with
    | nil => rfl
    | cons h1 h2 =>
      unfold paramsLoop
      rw [isSubtype_respell env p.ann h1]
      split <;> simp [ih h2]

theorem retCheck_respell (env : Env) (coro : Bool) (ret : Ann) {t t' : TA} (h : Respell t t') :
    retCheck env coro ret t = retCheck env coro ret t' := by
  unfold retCheck
  split
  · simp only [isSubtype_respell env ret h]
  · cases h with
    | cls c => rfl
    | any => rfl
    | union p q cs ds h => rfl
    | gen1 g h' => simp only [pickArg, awaitableArgIndex, List.getElem?_cons_zero, isSubtype_respell env ret h']
    | gen3 g h' => simp [pickArg, coroutineArgIndex, isSubtype_respell env ret h']

/-- two spellings of the type arguments of a `Callable[...]` -/
structure RespellExp (e e' : Exp) : Prop where
  ps : match e.ps, e'.ps with
       | none, none => True
       | some ts, some ts' => RespellList ts ts'
       | _, _ => False
  ret : Respell e.ret e'.ret

theorem forall2_length {ts ts' : List TA} (h : RespellList ts ts') : ts.length = ts'.length := by
  induction h with
  | nil => rfl
  | cons _ _ ih => simp [ih]

theorem checkCallable_respell (env : Env) (v : CVal) {e e' : Exp} (h : RespellExp e e') :
    checkCallable env v e = checkCallable env v e' := by
  obtain ⟨hps, hret⟩ := h
  have hobj : ∀ c n s k, checkObj env c n s k e = checkObj env c n s k e' := by
    intro c n s k
    unfold checkObj checkSig
    split
    · rfl
    · rfl
    · cases s with
      | typeError => rfl
      | valueError => rfl
      | ok ps ret =>
        simp only
        cases h1 : e.ps with
        | none =>
          cases h2 : e'.ps with
          | none => simp only [retCheck_respell env k ret hret]
          | some ts' => simp [h1, h2] at hps
        | some ts =>
          cases h2 : e'.ps with
          | none => simp [h1, h2] at hps
          | some ts' =>
            simp only [h1, h2] at hps
            simp only [forall2_length hps, paramsLoop_respell env _ hps, retCheck_respell env k ret hret]
  cases v with
  | none => simp only [checkCallable, hobj]
  | nonCallable => simp only [checkCallable, hobj]
  | callable n s k => simp only [checkCallable, hobj]

theorem isBareArg_respell (env : Env) {t t' : TA} (h : Respell t t') : isBareArg env t = isBareArg env t' := by
  cases h <;> rfl

theorem any_bare_respell (env : Env) {ts ts' : List TA} (h : RespellList ts ts') :
    ts.any (isBareArg env) = ts'.any (isBareArg env) := by
  induction h with
  | nil => rfl
  | cons h1 _ ih => simp [List.any_cons, isBareArg_respell env h1, ih]

theorem abcRoute_respell (env : Env) {e e' : Exp} (h : RespellExp e e') : abcRoute env e = abcRoute env e' := by
  obtain ⟨hps, hret⟩ := h
  unfold abcRoute abcConvertible
  cases h1 : e.ps with
  | none =>
    cases h2 : e'.ps with
    | none => simp [isBareArg_respell env hret]
    | some ts' => simp [h1, h2] at hps
  | some ts =>
    cases h2 : e'.ps with
    | none => simp [h1, h2] at hps
    | some ts' =>
      simp only [h1, h2] at hps
      simp [List.any_append, any_bare_respell env hps, isBareArg_respell env hret, forall2_length hps]

theorem leafCheck_respell (env : Env) (sp : Spelling) (v : CVal) {e e' : Exp} (h : RespellExp e e') :
    leafCheck env sp e v = leafCheck env sp e' v := by
  cases sp with
  | typing => simpa [leafCheck] using checkCallable_respell env v h
  | abc => simp only [leafCheck, abcRoute_respell env h, checkCallable_respell env v h]

theorem checkList_respell (env : Env) (sp : Spelling) (xs : List CVal) {e e' : Exp} (h : RespellExp e e') :
    checkList env sp e xs = checkList env sp e' xs := by
  induction xs with
  | nil => rfl
  | cons v vs ih => unfold checkList; rw [leafCheck_respell env sp v h]; split <;> simp [ih]

theorem checkDict_respell (env : Env) (sp : Spelling) (kvs : List (Bool × CVal)) {e e' : Exp} (h : RespellExp e e') :
    checkDict env sp e kvs = checkDict env sp e' kvs := by
  induction kvs with
  | nil => rfl
  | cons kv kvs ih =>
    obtain ⟨k, v⟩ := kv
    unfold checkDict; rw [leafCheck_respell env sp v h]
    split
    · rfl
    · split <;> simp [ih]

/-- **C02, spelling of the types inside `Callable[...]`.** `Union[a, b]`, `Optional[a]`, `a | b`, the order of the members: the
    verdict of the checker model is the same, for every value, in every wrapper and Callable spelling. -/
theorem respell_invariant (env : Env) (w : Wrap) (sp : Spelling) {e e' : Exp} (h : RespellExp e e') (v : Val) :
    check env ⟨w, sp, e⟩ v = check env ⟨w, sp, e'⟩ v := by
  unfold check
  cases w with
  | bare => simp only [leafCheck_respell env sp _ h]
  | optional => simp only [leafCheck_respell env sp _ h]
  | listOf => cases v <;> simp only [checkList_respell env sp _ h]
  | dictStrOf => cases v <;> simp only [checkDict_respell env sp _ h]

/-! the spec does not look at the spelling either -/

theorem any_congr {cs ds : List ClsId} (h : ∀ c, c ∈ cs ↔ c ∈ ds) (f : ClsId → Bool) : cs.any f = ds.any f := by
  rw [Bool.eq_iff_iff]
  simp only [List.any_eq_true]
  constructor
  · rintro ⟨c, hc, hf⟩; exact ⟨c, (h c).mp hc, hf⟩
  · rintro ⟨c, hc, hf⟩; exact ⟨c, (h c).mpr hc, hf⟩

theorem isTop_respell (env : Env) {t t' : TA} (h : Respell t t') : isTop env t = isTop env t' := by
  cases h <;> rfl

theorem fits_respell (env : Env) (c : ClsId) {t t' : TA} (h : Respell t t') : fits env c t = fits env c t' := by
  cases h with
  | cls c => rfl
  | any => rfl
  | union p q cs ds h => simpa [fits] using any_congr h _
  | gen1 g h => rfl
  | gen3 g h => rfl

theorem subTy_respell (env : Env) (s : TA) {t t' : TA} (h : Respell t t') : subTy env s t = subTy env s t' := by
  induction s generalizing t t' with
  | cls c => simp only [subTy, isTop_respell env h, headCls, fits_respell env c h]
  | any => simp only [subTy, isTop_respell env h, headCls, fits_respell env _ h]
  | union p cs => simp only [subTy, isTop_respell env h, fits_respell env _ h]
  | gen1 g s ih =>
    cases h with
    | cls c => rfl
    | any => rfl
    | union p q cs ds h => simp only [subTy, isTop, headCls, fits, any_congr h]
    | gen1 g' h' => simp only [subTy, ih h']
    | gen3 g' h' => rfl
  | gen3 g s ih =>
    cases h with
    | cls c => rfl
    | any => rfl
    | union p q cs ds h => simp only [subTy, isTop, headCls, fits, any_congr h]
    | gen1 g' h' => rfl
    | gen3 g' h' => simp only [subTy, ih h']

theorem declSub_respell (env : Env) (a : Ann) {t t' : TA} (h : Respell t t') : declSub env a t = declSub env a t' := by
  cases a with
  | empty => simpa [declSub] using isTop_respell env h
  | none => simpa [declSub] using subTy_respell env _ h
  | ty s => simpa [declSub] using subTy_respell env s h

theorem zipAll_respell (env : Env) (ps : List FParam) {ts ts' : List TA} (h : RespellList ts ts') :
    (ps.zip ts).all (fun pt => declSub env pt.1.ann pt.2) = (ps.zip ts').all (fun pt => declSub env pt.1.ann pt.2) := by
  induction ps generalizing ts ts' with
  | nil => simp
  | cons p ps ih =>
    cases h with
    | nil => rfl
    | cons h1 h2 => simp [List.zip_cons_cons, List.all_cons, declSub_respell env p.ann h1, ih h2]

theorem retConforms_respell (env : Env) (coro : Bool) (ret : Ann) {t t' : TA} (h : Respell t t') :
    retConforms env coro ret t = retConforms env coro ret t' := by
  unfold retConforms
  rw [isTop_respell env h, declSub_respell env ret h]
  cases h with
  | cls c => rfl
  | any => rfl
  | union p q cs ds h => rfl
  | gen1 g h' => simp only [declSub_respell env ret h']
  | gen3 g h' => simp only [declSub_respell env ret h']

theorem conformsLeaf_respell (env : Env) (v : CVal) {e e' : Exp} (h : RespellExp e e') :
    conformsLeaf env v e = conformsLeaf env v e' := by
  obtain ⟨hps, hret⟩ := h
  cases v with
  | none => rfl
  | nonCallable => rfl
  | callable n s k =>
    cases s with
    | typeError => rfl
    | valueError => rfl
    | ok ps ret =>
      simp only [conformsLeaf, retConforms_respell env k ret hret]
      cases h1 : e.ps with
      | none =>
        cases h2 : e'.ps with
        | none => rfl
        | some ts' => simp [h1, h2] at hps
      | some ts =>
        cases h2 : e'.ps with
        | none => simp [h1, h2] at hps
        | some ts' =>
          simp only [h1, h2] at hps
          simp only [paramsConform, forall2_length hps, zipAll_respell env ps hps]

/-- the spec is spelling-independent: neither the Callable spelling nor the spelling of the types inside matters -/
theorem conforms_respell (env : Env) (w : Wrap) (sp sp' : Spelling) {e e' : Exp} (h : RespellExp e e') (v : Val) :
    conforms env ⟨w, sp, e⟩ v = conforms env ⟨w, sp', e'⟩ v := by
  have hl := fun l => conformsLeaf_respell env l h
  cases w <;> cases v <;> simp only [conforms, hl]
  all_goals (rename_i l; cases l <;> simp only [hl])
end PedVerif.Callable
