import PedVerif.Spec.CallableRegions
/-! Lemmas for `Props/Callable.lean` (tree with the repairs F1-F5): the `_is_subtype` model decides exactly `Spec.subTy`. -/
set_option linter.unusedSimpArgs false
namespace PedVerif.Callable
open PedVerif.Gen.Callable PedVerif.Callable.Spec

/-- what the theorems assume about the class table (checked by the driver on every table the harness sends: `wf`) -/
structure Env.WF (env : Env) : Prop where
  refl : ∀ c, env.sub c c = true
  top : ∀ c, env.sub c env.object = true
  origin1NotObject : ∀ g, env.origin1 g ≠ env.object
  origin3NotObject : ∀ g, env.origin3 g ≠ env.object

/-- `supHead` with the generated flags resolved -/
theorem supHead_eq (env : Env) (t : TA) :
    supHead env t = match t with
      | .union _ cs => .union cs
      | t => if clsOf env t = env.object then .object else .cls (clsOf env t) := by
  cases t <;> simp [supHead, objectShortcut]

theorem supHead_top {env : Env} (wf : env.WF) {t : TA} : supHead env t = .object ↔ isTop env t = true := by
  rw [supHead_eq]
  cases t with
  | cls c => by_cases h : c = env.object <;> simp [clsOf, isTop, h]
  | any => simp [clsOf, isTop]
  | union p cs => simp [isTop]
  | gen1 g t => simp [clsOf, isTop, wf.origin1NotObject g]
  | gen3 g t => simp [clsOf, isTop, wf.origin3NotObject g]

/-! ### a sub type against a class -/

theorem clsVsCls_eq {env : Env} (wf : env.WF) (c d : ClsId) : clsVsCls env c d = env.sub c d := by
  unfold clsVsCls
  by_cases hd : d = env.object
  · simp [hd, objectShortcut, objectShortcutResult, wf.top c]
  · simp [hd, objectShortcut]

theorem anyVsCls_eq {env : Env} (wf : env.WF) (d : ClsId) : anyVsCls env d = env.sub env.object d := by
  unfold anyVsCls
  by_cases hd : d = env.object
  · simp [hd, objectShortcut, objectShortcutResult, wf.top]
  · simp [hd, objectShortcut]

theorem emptyVsCls_eq (env : Env) (d : ClsId) : emptyVsCls env d = (d == env.object) := by
  unfold emptyVsCls
  by_cases hd : d = env.object
  · simp [hd, objectShortcut, objectShortcutResult]
  · simp [hd, objectShortcut]

theorem rawSuper_eq (n : Nat) : rawSuper n = true := by simp [rawSuper, rawSuperShortcut, rawSuperResult]

theorem genVsCls_eq {env : Env} (wf : env.WF) (o : ClsId) (n : Nat) (d : ClsId) : genVsCls env o n d = env.sub o d := by
  unfold genVsCls
  by_cases hd : d = env.object
  · simp [hd, objectShortcut, objectShortcutResult, wf.top o]
  · cases hs : env.sub o d <;> simp [hd, objectShortcut, hs, genericOriginFailResult, rawSuper_eq]

/-! ### the model of `_is_subtype` is exact -/

theorem isSubtypeClsB_eq {env : Env} (wf : env.WF) (c : ClsId) (t : TA) : isSubtypeClsB env c t = subTy env (.cls c) t := by
  unfold isSubtypeClsB
  rw [supHead_eq]
  cases t with
  | cls d =>
    by_cases hd : d = env.object
    · simp [clsOf, hd, objectShortcutResult, subTy, isTop]
    · simp [clsOf, hd, subTy, isTop, headCls, fits]
  | any => simp [clsOf, objectShortcutResult, subTy, isTop]
  | union q ds =>
    have : clsVsCls env c = fun d => env.sub c d := funext (clsVsCls_eq wf c)
    simp [unionSuperBySubtype, this, subTy, isTop, headCls, fits]
  | gen1 g t => simp [clsOf, wf.origin1NotObject g, subTy, isTop, headCls, fits]
  | gen3 g t => simp [clsOf, wf.origin3NotObject g, subTy, isTop, headCls, fits]

theorem isSubtypeAny_eq {env : Env} (wf : env.WF) (t : TA) : isSubtypeAny env t = .ok (subTy env .any t) := by
  unfold isSubtypeAny
  rw [supHead_eq]
  cases t with
  | cls d =>
    by_cases hd : d = env.object
    · simp [clsOf, hd, objectShortcutResult, subTy, isTop]
    · simp [clsOf, hd, subTy, isTop, headCls, fits]
  | any => simp [clsOf, objectShortcutResult, subTy, isTop]
  | union q ds =>
    have : anyVsCls env = fun d => env.sub env.object d := funext (anyVsCls_eq wf)
    simp [unionSuperBySubtype, this, subTy, isTop, headCls, fits]
  | gen1 g t => simp [clsOf, wf.origin1NotObject g, subTy, isTop, headCls, fits]
  | gen3 g t => simp [clsOf, wf.origin3NotObject g, subTy, isTop, headCls, fits]

theorem isSubtypeEmpty_eq {env : Env} (wf : env.WF) (t : TA) : isSubtypeEmpty env t = .ok (isTopU env t) := by
  unfold isSubtypeEmpty
  rw [supHead_eq]
  cases t with
  | cls d =>
    by_cases hd : d = env.object
    · simp [clsOf, hd, objectShortcutResult, isTopU, isTop]
    · simp [clsOf, hd, isTopU, isTop]
  | any => simp [clsOf, objectShortcutResult, isTopU, isTop]
  | union q ds =>
    have : emptyVsCls env = fun d => d == env.object := funext (emptyVsCls_eq env)
    simp [unionSuperBySubtype, this, isTopU]
  | gen1 g t => simp [clsOf, wf.origin1NotObject g, isTopU, isTop]
  | gen3 g t => simp [clsOf, wf.origin3NotObject g, isTopU, isTop]

theorem isSubtypeUnion_eq {env : Env} (wf : env.WF) (p : Bool) (cs : List ClsId) (t : TA) :
    isSubtypeUnion env p cs t = .ok (subTy env (.union p cs) t) := by
  have hB : (fun c => isSubtypeClsB env c t) = fun c => subTy env (.cls c) t := funext (fun c => isSubtypeClsB_eq wf c t)
  unfold isSubtypeUnion
  rw [supHead_eq, hB]
  cases t with
  | cls d =>
    by_cases hd : d = env.object
    · simp [clsOf, hd, objectShortcutResult, subTy, isTop]
    · have hb : (d == env.object) = false := by simp [hd]
      simp [clsOf, hd, hb, subUnionHoisted, unionSubQuantAll, subTy, isTop, headCls]
  | any => simp [clsOf, objectShortcutResult, subTy, isTop]
  | union q ds => simp [subUnionHoisted, unionSubQuantAll, subTy, isTop, headCls]
  | gen1 g t => simp [clsOf, wf.origin1NotObject g, subUnionHoisted, unionSubQuantAll, subTy, isTop, headCls]
  | gen3 g t => simp [clsOf, wf.origin3NotObject g, subUnionHoisted, unionSubQuantAll, subTy, isTop, headCls]

/-- **the model of `_is_subtype` never raises and answers exactly the spec relation** (repairs F3, F4, F5) -/
theorem isSubtypeT_exact {env : Env} (wf : env.WF) (s t : TA) : isSubtypeT env s t = .ok (subTy env s t) := by
  induction s generalizing t with
  | cls c => simp [isSubtypeT, isSubtypeCls, isSubtypeClsB_eq wf c t]
  | any => simpa [isSubtypeT] using isSubtypeAny_eq wf t
  | union p cs => simpa [isSubtypeT] using isSubtypeUnion_eq wf p cs t
  | gen1 g s ih =>
    unfold isSubtypeT
    rw [supHead_eq]
    cases t with
    | cls d =>
      by_cases hd : d = env.object
      · simp [clsOf, hd, objectShortcutResult, subTy, isTop]
      · cases hs : env.sub (env.origin1 g) d <;>
          simp [clsOf, hd, hs, genericOriginFailResult, rawSuper_eq, subTy, isTop, headCls, fits]
    | any => simp [clsOf, objectShortcutResult, subTy, isTop]
    | union q ds =>
      have : genVsCls env (env.origin1 g) 1 = fun d => env.sub (env.origin1 g) d := funext (genVsCls_eq wf _ 1)
      simp [unionSuperBySubtype, this, subTy, isTop, headCls, fits]
    | gen1 g' t =>
      cases hs : env.sub (env.origin1 g) (env.origin1 g') <;>
        simp [clsOf, wf.origin1NotObject g', hs, genericOriginFailResult, argLenMismatch, subTy, ih t]
    | gen3 g' t =>
      cases hs : env.sub (env.origin1 g) (env.origin3 g') <;>
        simp [clsOf, wf.origin3NotObject g', hs, genericOriginFailResult, argLenMismatch, argLenMismatchResult, subTy]
  | gen3 g s ih =>
    unfold isSubtypeT
    rw [supHead_eq]
    cases t with
    | cls d =>
      by_cases hd : d = env.object
      · simp [clsOf, hd, objectShortcutResult, subTy, isTop]
      · cases hs : env.sub (env.origin3 g) d <;>
          simp [clsOf, hd, hs, genericOriginFailResult, rawSuper_eq, subTy, isTop, headCls, fits]
    | any => simp [clsOf, objectShortcutResult, subTy, isTop]
    | union q ds =>
      have : genVsCls env (env.origin3 g) 3 = fun d => env.sub (env.origin3 g) d := funext (genVsCls_eq wf _ 3)
      simp [unionSuperBySubtype, this, subTy, isTop, headCls, fits]
    | gen1 g' t =>
      cases hs : env.sub (env.origin3 g) (env.origin1 g') <;>
        simp [clsOf, wf.origin1NotObject g', hs, genericOriginFailResult, argLenMismatch, argLenMismatchResult, subTy]
    | gen3 g' t =>
      have haa : isSubtypeAny env .any = .ok true := by
        simp [isSubtypeAny, supHead_eq, clsOf, objectShortcutResult]
      cases hs : env.sub (env.origin3 g) (env.origin3 g') <;>
        simp [clsOf, wf.origin3NotObject g', hs, genericOriginFailResult, argLenMismatch, subTy, ih t, haa, Raw.andThen]

/-- the two directions under their old names (`isSubtypeT_complete` needs no region hypothesis any more) -/
theorem isSubtypeT_sound {env : Env} (wf : env.WF) (s t : TA)
    (h : isSubtypeT env s t = .ok true) : subTy env s t = true := by
  rw [isSubtypeT_exact wf] at h; simpa using h

theorem isSubtypeT_complete {env : Env} (wf : env.WF) (s t : TA)
    (h : subTy env s t = true) : isSubtypeT env s t = .ok true := by
  rw [isSubtypeT_exact wf, h]

/-- annotations as `inspect` reports them -/
theorem isSubtype_exact {env : Env} (wf : env.WF) (a : Ann) (t : TA) : isSubtype env a t = .ok (declSub env a t) := by
  cases a with
  | empty => simpa [isSubtype, declSub] using isSubtypeEmpty_eq wf t
  | none => simp [isSubtype, subNoneNormalised, isSubtypeCls, declSub, isSubtypeClsB_eq wf env.noneCls t]
  | ty s => simpa [isSubtype, declSub] using isSubtypeT_exact wf s t

/-! ### the parameter loop -/

theorem paramsLoop_exact {env : Env} (wf : env.WF) (ps : List FParam) (ts : List TA) :
    paramsLoop env ps ts = bif (ps.zip ts).all (fun pt => declSub env pt.1.ann pt.2) then none else some (.ok false) := by
  induction ps generalizing ts with
  | nil => simp [paramsLoop]
  | cons p ps ih =>
    cases ts with
    | nil => simp [paramsLoop]
    | cons t ts =>
      unfold paramsLoop
      rw [isSubtype_exact wf p.ann t]
      simp only [List.zip_cons_cons, List.all_cons]
      cases hd : declSub env p.ann t <;> simp [ih ts, paramFailResult]

theorem required_eq (ps : List FParam) : required ps = Spec.required ps := by
  simp [required, Spec.required]

/-! ### the return clause -/

/-- exact for plain and for coroutine functions (since the repair of the region `asyncVsTop` a coroutine function also conforms to a
    top return type: the generated fact `coroOtherTopTest`) -/
theorem retCheck_exact {env : Env} (wf : env.WF) (coro : Bool) (ret : Ann) (eret : TA) :
    retCheck env coro ret eret = .ok (retConforms env coro ret eret) := by
  unfold retCheck
  cases coro with
  | false => simp [coroTest, syncReturnChecked, retConforms, isSubtype_exact wf ret eret]
  | true =>
    simp only [coroTest, Bool.and_self, Bool.not_true, Bool.false_eq_true, if_false, retConforms, if_true]
    cases eret with
    | cls d => simp [coroOther, coroOtherTopTest, clsOf, isTop]
    | any => simp [coroOther, coroOtherTopTest, clsOf, isTop]
    | union q ds => simp [coroOther, coroOtherTopTest, isTop]
    | gen1 g t =>
      by_cases hg : g = env.awaitableGen
      · simp [hg, pickArg, awaitableArgIndex, coroReturnChecked, isTop, isSubtype_exact wf ret t]
      · have h1 : (env.origin1 g == env.object) = false := by simpa using wf.origin1NotObject g
        simp [hg, coroOther, coroOtherTopTest, clsOf, h1, isTop]
    | gen3 g t =>
      by_cases hg : g = env.coroutineGen
      · simp [hg, pickArg, coroutineArgIndex, coroReturnChecked, isTop, isSubtype_exact wf ret t]
      · have h3 : (env.origin3 g == env.object) = false := by simpa using wf.origin3NotObject g
        simp [hg, coroOther, coroOtherTopTest, clsOf, h3, isTop]

theorem retCheck_sound {env : Env} (wf : env.WF) (coro : Bool) (ret : Ann) (eret : TA)
    (h : retCheck env coro ret eret = .ok true) : retConforms env coro ret eret = true := by
  rw [retCheck_exact wf] at h
  simpa using h

/-- the region hypothesis is kept for the callers; no region is left (`retRegions` is empty once `coroOtherTopTest` holds) -/
theorem retCheck_complete {env : Env} (wf : env.WF) (coro : Bool) (ret : Ann) (eret : TA)
    (_hg : retRegions env coro eret = []) (h : retConforms env coro ret eret = true) :
    retCheck env coro ret eret = .ok true := by
  rw [retCheck_exact wf, h]

/-! ### `_instancecheck_callable` -/

theorem checkSig_sound {env : Env} (wf : env.WF) (sig : SigR) (coro : Bool) (e : Exp)
    (h : checkSig env sig coro e = .ok true) :
    ∃ ps ret, sig = .ok ps ret ∧ paramsConform env ps e.ps = true ∧ retConforms env coro ret e.ret = true := by
  unfold checkSig at h
  cases sig with
  | typeError => simp [sigFails, catches, sigCaught, sigHandlerResult] at h
  | valueError => simp [sigFails, catches, sigCaught, sigHandlerResult] at h
  | ok ps ret =>
    refine ⟨ps, ret, rfl, ?_⟩
    simp only at h
    cases hps : e.ps with
    | none =>
      simp only [hps] at h
      exact ⟨by simp [paramsConform], retCheck_sound wf coro ret e.ret h⟩
    | some ts =>
      simp only [hps, arityMismatch, zipAllParams, if_true, arityMismatchResult, paramsLoop_exact wf] at h
      by_cases hl : ts.length = (required ps).length
      · simp only [hl, ne_eq, not_true_eq_false, decide_false, Bool.false_eq_true, if_false] at h
        cases hz : (ps.zip ts).all (fun pt => declSub env pt.1.ann pt.2)
        · simp [hz] at h
        · simp only [hz, cond_true] at h
          exact ⟨by simp [paramsConform, ← required_eq, hl, hz], retCheck_sound wf coro ret e.ret h⟩
      · simp [hl] at h

theorem checkSig_complete {env : Env} (wf : env.WF) (ps : List FParam) (ret : Ann) (coro : Bool) (e : Exp)
    (hg : retRegions env coro e.ret = [])
    (h1 : paramsConform env ps e.ps = true) (h2 : retConforms env coro ret e.ret = true) :
    checkSig env (.ok ps ret) coro e = .ok true := by
  unfold checkSig
  cases hps : e.ps with
  | none => simp [retCheck_complete wf coro ret e.ret hg h2]
  | some ts =>
    simp only [hps, paramsConform, Bool.and_eq_true, beq_iff_eq, ← required_eq] at h1
    simp [arityMismatch, h1.1, zipAllParams, paramsLoop_exact wf, h1.2, retCheck_complete wf coro ret e.ret hg h2]

theorem conformsLeaf_of_sig {env : Env} {name : NameR} {sig : SigR} {coro : Bool} {e : Exp}
    (h : ∃ ps ret, sig = .ok ps ret ∧ paramsConform env ps e.ps = true ∧ retConforms env coro ret e.ret = true) :
    conformsLeaf env (.callable name sig coro) e = true := by
  obtain ⟨ps, ret, rfl, h1, h2⟩ := h
  simp [conformsLeaf, h1, h2]

theorem checkObj_nonCallable (env : Env) (name : NameR) (coro : Bool) (e : Exp) :
    checkObj env false name .typeError coro e ≠ .ok true := by
  unfold checkObj
  cases hl : lambdaShortcut <;>
    simp [isLambda, checkSig, sigFails, catches, sigCaught, sigHandlerResult]

/-- repair F1: a callable without `__name__` is no lambda and is checked by its signature like every other callable -/
theorem checkCallable_missing_name (env : Env) (sig : SigR) (coro : Bool) (e : Exp) :
    checkCallable env (.callable .missing sig coro) e = checkCallable env (.callable .other sig coro) e := by
  simp [checkCallable, checkObj, isLambda, lambdaNameGuarded]

theorem checkCallable_named (env : Env) (sig : SigR) (coro : Bool) (e : Exp) :
    checkCallable env (.callable .other sig coro) e = checkSig env sig coro e := by
  simp [checkCallable, checkObj, isLambda, lambdaShortcut]

theorem checkCallable_sound {env : Env} (wf : env.WF) (v : CVal) (e : Exp)
    (h : checkCallable env v e = .ok true) : conformsLeaf env v e = true := by
  cases v with
  | none =>
    unfold checkCallable at h
    cases hn : noneGuard
    · simp only [hn, Bool.false_eq_true, if_false] at h
      exact absurd h (checkObj_nonCallable env .missing false e)
    · simp [hn, noneResult] at h
  | nonCallable => exact absurd h (checkObj_nonCallable env .missing false e)
  | callable name sig coro =>
    cases name with
    | lambda => simp [conformsLeaf]
    | missing =>
      rw [checkCallable_missing_name, checkCallable_named] at h
      exact conformsLeaf_of_sig (checkSig_sound wf sig coro e h)
    | other =>
      rw [checkCallable_named] at h
      exact conformsLeaf_of_sig (checkSig_sound wf sig coro e h)

theorem checkCallable_complete {env : Env} (wf : env.WF) (v : CVal) (e : Exp)
    (hg : leafRegions env v e = []) (h : conformsLeaf env v e = true) : checkCallable env v e = .ok true := by
  cases v with
  | none => simp [conformsLeaf] at h
  | nonCallable => simp [conformsLeaf] at h
  | callable name sig coro =>
    have core : name ≠ .lambda → checkSig env sig coro e = .ok true := by
      intro hn
      simp only [conformsLeaf] at h
      cases sig with
      | typeError => cases name <;> simp at h hn
      | valueError => cases name <;> simp at h hn
      | ok ps ret =>
        simp only [leafRegions] at hg
        have h' : paramsConform env ps e.ps = true ∧ retConforms env coro ret e.ret = true := by
          cases name <;> simp at h hn <;> exact h
        exact checkSig_complete wf ps ret coro e hg h'.1 h'.2
    cases name with
    | lambda => simp [checkCallable, checkObj, isLambda, lambdaShortcut, lambdaResult]
    | missing => rw [checkCallable_missing_name, checkCallable_named]; exact core (by simp)
    | other => rw [checkCallable_named]; exact core (by simp)

/-! ### the route and the one-level wrappers -/

/-- repair F2: `convert_to_typing_types` turns every `collections.abc.Callable[...]` into the same annotation in the typing spelling -/
theorem abcRoute_none (env : Env) (e : Exp) : abcRoute env e = none := by
  simp [abcRoute, convertAbcCallable, convertAbcBareTolerated]

theorem leafCheck_eq (env : Env) (sp : Spelling) (e : Exp) (v : CVal) : leafCheck env sp e v = checkCallable env v e := by
  cases sp <;> simp [leafCheck, abcRoute_none]

theorem leafCheck_sound {env : Env} (wf : env.WF) (sp : Spelling) (e : Exp) (v : CVal)
    (h : leafCheck env sp e v = .ok true) : conformsLeaf env v e = true :=
  checkCallable_sound wf v e (by rwa [leafCheck_eq] at h)

theorem leafCheck_complete {env : Env} (wf : env.WF) (sp : Spelling) (e : Exp) (v : CVal)
    (hg : leafRegions env v e = []) (h : conformsLeaf env v e = true) :
    leafCheck env sp e v = .ok true := by
  rw [leafCheck_eq]; exact checkCallable_complete wf v e hg h

theorem checkList_sound {env : Env} (wf : env.WF) (sp : Spelling) (e : Exp) (xs : List CVal)
    (h : checkList env sp e xs = .ok true) : xs.all (fun l => conformsLeaf env l e) = true := by
  induction xs with
  | nil => simp
  | cons v vs ih =>
    unfold checkList at h
    split at h
    · rename_i hv
      simp [leafCheck_sound wf sp e v hv, ih h]
    · rename_i r hne
      exact absurd h hne

theorem checkList_complete {env : Env} (wf : env.WF) (sp : Spelling) (e : Exp) (xs : List CVal)
    (hg : xs.flatMap (fun l => leafRegions env l e) = [])
    (h : xs.all (fun l => conformsLeaf env l e) = true) : checkList env sp e xs = .ok true := by
  induction xs with
  | nil => simp [checkList]
  | cons v vs ih =>
    simp only [List.flatMap_cons, List.append_eq_nil_iff] at hg
    simp only [List.all_cons, Bool.and_eq_true] at h
    unfold checkList
    rw [leafCheck_complete wf sp e v hg.1 h.1]
    exact ih hg.2 h.2

theorem checkDict_sound {env : Env} (wf : env.WF) (sp : Spelling) (e : Exp) (kvs : List (Bool × CVal))
    (h : checkDict env sp e kvs = .ok true) : kvs.all (fun kv => kv.1 && conformsLeaf env kv.2 e) = true := by
  induction kvs with
  | nil => simp
  | cons kv kvs ih =>
    obtain ⟨k, v⟩ := kv
    unfold checkDict at h
    cases k with
    | false => simp at h
    | true =>
      simp only [Bool.not_true, Bool.false_eq_true, if_false] at h
      split at h
      · rename_i hv
        simp [leafCheck_sound wf sp e v hv, ih h]
      · rename_i r hne
        exact absurd h hne

theorem checkDict_complete {env : Env} (wf : env.WF) (sp : Spelling) (e : Exp) (kvs : List (Bool × CVal))
    (hg : kvs.flatMap (fun kv => leafRegions env kv.2 e) = [])
    (h : kvs.all (fun kv => kv.1 && conformsLeaf env kv.2 e) = true) : checkDict env sp e kvs = .ok true := by
  induction kvs with
  | nil => simp [checkDict]
  | cons kv kvs ih =>
    obtain ⟨k, v⟩ := kv
    simp only [List.flatMap_cons, List.append_eq_nil_iff] at hg
    simp only [List.all_cons, Bool.and_eq_true] at h
    unfold checkDict
    simp only [h.1.1, Bool.not_true, Bool.false_eq_true, if_false]
    rw [leafCheck_complete wf sp e v hg.1 h.1.2]
    exact ih hg.2 h.2

theorem leafCheck_nonCallable_ne (env : Env) (sp : Spelling) (e : Exp) : leafCheck env sp e .nonCallable ≠ .ok true := by
  rw [leafCheck_eq]; exact checkObj_nonCallable env .missing false e

/-! ### re-spelling of the expected types -/

/-- two spellings of the same expected type: a Union may be written `Union[..]`, `Optional[..]` or `X | Y`, with its members
    in any order (and repeated) -/
inductive Respell : TA → TA → Prop where
  | cls (c : ClsId) : Respell (.cls c) (.cls c)
  | any : Respell .any .any
  | union (p q : Bool) (cs ds : List ClsId) (h : ∀ c, c ∈ cs ↔ c ∈ ds) : Respell (.union p cs) (.union q ds)
  | gen1 (g : GenId) {s t : TA} (h : Respell s t) : Respell (.gen1 g s) (.gen1 g t)
  | gen3 (g : GenId) {s t : TA} (h : Respell s t) : Respell (.gen3 g s) (.gen3 g t)

theorem contains_congr {cs ds : List ClsId} (h : ∀ c, c ∈ cs ↔ c ∈ ds) (c : ClsId) : cs.contains c = ds.contains c := by
  rw [Bool.eq_iff_iff]; simp [h c]

theorem supHead_respell (env : Env) {t t' : TA} (h : Respell t t') :
    (∃ cs ds, supHead env t = .union cs ∧ supHead env t' = .union ds ∧ ∀ c, c ∈ cs ↔ c ∈ ds) ∨
    (supHead env t = supHead env t' ∧ ∀ cs, supHead env t ≠ .union cs) := by
  cases h with
  | cls c =>
    refine Or.inr ⟨rfl, fun cs => ?_⟩
    by_cases hc : c = env.object <;> simp [supHead_eq, clsOf, hc]
  | any => exact Or.inr ⟨rfl, fun cs => by simp [supHead_eq, clsOf]⟩
  | union p q cs ds h => exact Or.inl ⟨cs, ds, by simp [supHead], by simp [supHead], h⟩
  | gen1 g h =>
    refine Or.inr ⟨rfl, fun cs => ?_⟩
    by_cases hc : env.origin1 g = env.object <;> simp [supHead_eq, clsOf, hc]
  | gen3 g h =>
    refine Or.inr ⟨rfl, fun cs => ?_⟩
    by_cases hc : env.origin3 g = env.object <;> simp [supHead_eq, clsOf, hc]

theorem any_congr {cs ds : List ClsId} (h : ∀ c, c ∈ cs ↔ c ∈ ds) (f : ClsId → Bool) : cs.any f = ds.any f := by
  rw [Bool.eq_iff_iff]
  simp only [List.any_eq_true]
  constructor
  · rintro ⟨c, hc, hf⟩; exact ⟨c, (h c).mp hc, hf⟩
  · rintro ⟨c, hc, hf⟩; exact ⟨c, (h c).mpr hc, hf⟩

theorem isSubtypeClsB_respell (env : Env) (c : ClsId) {t t' : TA} (h : Respell t t') :
    isSubtypeClsB env c t = isSubtypeClsB env c t' := by
  unfold isSubtypeClsB
  rcases supHead_respell env h with ⟨cs, ds, h1, h2, hm⟩ | ⟨h1, _⟩
  · simp only [h1, h2, any_congr hm, contains_congr hm]
  · rw [h1]

theorem isSubtypeCls_respell (env : Env) (c : ClsId) {t t' : TA} (h : Respell t t') :
    isSubtypeCls env c t = isSubtypeCls env c t' := by
  simp only [isSubtypeCls, isSubtypeClsB_respell env c h]

theorem isSubtypeAny_respell (env : Env) {t t' : TA} (h : Respell t t') :
    isSubtypeAny env t = isSubtypeAny env t' := by
  unfold isSubtypeAny
  rcases supHead_respell env h with ⟨cs, ds, h1, h2, hm⟩ | ⟨h1, _⟩
  · simp only [h1, h2, any_congr hm]
  · rw [h1]

theorem isSubtypeEmpty_respell (env : Env) {t t' : TA} (h : Respell t t') :
    isSubtypeEmpty env t = isSubtypeEmpty env t' := by
  unfold isSubtypeEmpty
  rcases supHead_respell env h with ⟨cs, ds, h1, h2, hm⟩ | ⟨h1, _⟩
  · simp only [h1, h2, any_congr hm]
  · rw [h1]

theorem isSubtypeUnion_respell (env : Env) (p : Bool) (xs : List ClsId) {t t' : TA} (h : Respell t t') :
    isSubtypeUnion env p xs t = isSubtypeUnion env p xs t' := by
  have hB : (fun c => isSubtypeClsB env c t) = fun c => isSubtypeClsB env c t' :=
    funext fun c => isSubtypeClsB_respell env c h
  unfold isSubtypeUnion
  rw [hB]
  rcases supHead_respell env h with ⟨cs, ds, h1, h2, hm⟩ | ⟨h1, _⟩
  · have : cs.contains = ds.contains := funext (contains_congr hm)
    simp only [h1, h2, this]
  · rw [h1]

/-- position-wise re-spelling of a list of types -/
inductive RespellList : List TA → List TA → Prop where
  | nil : RespellList [] []
  | cons {t t' : TA} {ts ts' : List TA} (h : Respell t t') (hs : RespellList ts ts') : RespellList (t :: ts) (t' :: ts')

/-- the verdict of `_is_subtype` does not depend on how the *expected* type is spelled -/
theorem isSubtypeT_respell (env : Env) (s : TA) {t t' : TA} (h : Respell t t') :
    isSubtypeT env s t = isSubtypeT env s t' := by
  induction s generalizing t t' with
  | cls c => simpa [isSubtypeT] using isSubtypeCls_respell env c h
  | any => simpa [isSubtypeT] using isSubtypeAny_respell env h
  | union p xs => simpa [isSubtypeT] using isSubtypeUnion_respell env p xs h
  | gen1 g s ih =>
    unfold isSubtypeT
    rcases supHead_respell env h with ⟨cs, ds, h1, h2, hm⟩ | ⟨h1, _⟩
    · simp only [h1, h2, any_congr hm]
    · rw [← h1]
      cases h with
      | cls c => rfl
      | any => rfl
      | union p q cs ds h => rfl
      | gen1 g' h' => simp only [ih h']
      | gen3 g' h' => rfl
  | gen3 g s ih =>
    unfold isSubtypeT
    rcases supHead_respell env h with ⟨cs, ds, h1, h2, hm⟩ | ⟨h1, _⟩
    · simp only [h1, h2, any_congr hm]
    · rw [← h1]
      cases h with
      | cls c => rfl
      | any => rfl
      | union p q cs ds h => rfl
      | gen1 g' h' => simp only [isSubtypeAny_respell env h']
      | gen3 g' h' => simp only [ih h']

theorem isSubtype_respell (env : Env) (a : Ann) {t t' : TA} (h : Respell t t') :
    isSubtype env a t = isSubtype env a t' := by
  cases a with
  | empty => simpa [isSubtype] using isSubtypeEmpty_respell env h
  | none => simp only [isSubtype, isSubtypeCls_respell env env.noneCls h]
  | ty s => simpa [isSubtype] using isSubtypeT_respell env s h

theorem paramsLoop_respell (env : Env) (ps : List FParam) {ts ts' : List TA} (h : RespellList ts ts') :
    paramsLoop env ps ts = paramsLoop env ps ts' := by
  induction ps generalizing ts ts' with
  | nil => simp [paramsLoop]
  | cons p ps ih =>
    cases h with
    | nil => rfl
    | cons h1 h2 =>
      unfold paramsLoop
      rw [isSubtype_respell env p.ann h1]
      split <;> simp [ih h2]

theorem retCheck_respell (env : Env) (coro : Bool) (ret : Ann) {t t' : TA} (h : Respell t t') :
    retCheck env coro ret t = retCheck env coro ret t' := by
  unfold retCheck
  split
  · simp only [isSubtype_respell env ret h]
  · cases h with
    | cls c => rfl
    | any => rfl
    | union p q cs ds h => rfl
    | gen1 g h' => simp only [pickArg, awaitableArgIndex, List.getElem?_cons_zero, isSubtype_respell env ret h', coroOther, clsOf]
    | gen3 g h' => simp [pickArg, coroutineArgIndex, isSubtype_respell env ret h', coroOther, clsOf]

/-- two spellings of the type arguments of a `Callable[...]` -/
structure RespellExp (e e' : Exp) : Prop where
  ps : match e.ps, e'.ps with
       | none, none => True
       | some ts, some ts' => RespellList ts ts'
       | _, _ => False
  ret : Respell e.ret e'.ret

theorem forall2_length {ts ts' : List TA} (h : RespellList ts ts') : ts.length = ts'.length := by
  induction h with
  | nil => rfl
  | cons _ _ ih => simp [ih]

theorem checkCallable_respell (env : Env) (v : CVal) {e e' : Exp} (h : RespellExp e e') :
    checkCallable env v e = checkCallable env v e' := by
  obtain ⟨hps, hret⟩ := h
  have hobj : ∀ c n s k, checkObj env c n s k e = checkObj env c n s k e' := by
    intro c n s k
    unfold checkObj checkSig
    split
    · rfl
    · rfl
    · cases s with
      | typeError => rfl
      | valueError => rfl
      | ok ps ret =>
        simp only
        cases h1 : e.ps with
        | none =>
          cases h2 : e'.ps with
          | none => simp only [retCheck_respell env k ret hret]
          | some ts' => simp [h1, h2] at hps
        | some ts =>
          cases h2 : e'.ps with
          | none => simp [h1, h2] at hps
          | some ts' =>
            simp only [h1, h2] at hps
            simp only [forall2_length hps, paramsLoop_respell env _ hps, retCheck_respell env k ret hret]
  cases v with
  | none => simp only [checkCallable, hobj]
  | nonCallable => simp only [checkCallable, hobj]
  | callable n s k => simp only [checkCallable, hobj]

theorem isBareArg_respell (env : Env) {t t' : TA} (h : Respell t t') : isBareArg env t = isBareArg env t' := by
  cases h <;> rfl

theorem any_bare_respell (env : Env) {ts ts' : List TA} (h : RespellList ts ts') :
    ts.any (isBareArg env) = ts'.any (isBareArg env) := by
  induction h with
  | nil => rfl
  | cons h1 _ ih => simp [List.any_cons, isBareArg_respell env h1, ih]

theorem abcRoute_respell (env : Env) {e e' : Exp} (h : RespellExp e e') : abcRoute env e = abcRoute env e' := by
  obtain ⟨hps, hret⟩ := h
  unfold abcRoute abcConvertible
  cases h1 : e.ps with
  | none =>
    cases h2 : e'.ps with
    | none => simp [isBareArg_respell env hret]
    | some ts' => simp [h1, h2] at hps
  | some ts =>
    cases h2 : e'.ps with
    | none => simp [h1, h2] at hps
    | some ts' =>
      simp only [h1, h2] at hps
      simp [List.any_append, any_bare_respell env hps, isBareArg_respell env hret, forall2_length hps]

theorem leafCheck_respell (env : Env) (sp : Spelling) (v : CVal) {e e' : Exp} (h : RespellExp e e') :
    leafCheck env sp e v = leafCheck env sp e' v := by
  cases sp with
  | typing => simpa [leafCheck] using checkCallable_respell env v h
  | abc => simp only [leafCheck, abcRoute_respell env h, checkCallable_respell env v h]

theorem checkList_respell (env : Env) (sp : Spelling) (xs : List CVal) {e e' : Exp} (h : RespellExp e e') :
    checkList env sp e xs = checkList env sp e' xs := by
  induction xs with
  | nil => rfl
  | cons v vs ih => unfold checkList; rw [leafCheck_respell env sp v h]; split <;> simp [ih]

theorem checkDict_respell (env : Env) (sp : Spelling) (kvs : List (Bool × CVal)) {e e' : Exp} (h : RespellExp e e') :
    checkDict env sp e kvs = checkDict env sp e' kvs := by
  induction kvs with
  | nil => rfl
  | cons kv kvs ih =>
    obtain ⟨k, v⟩ := kv
    unfold checkDict; rw [leafCheck_respell env sp v h]
    split
    · rfl
    · split <;> simp [ih]

/-- **C02, spelling of the types inside `Callable[...]`.** `Union[a, b]`, `Optional[a]`, `a | b`, the order of the members: the
    verdict of the checker model is the same, for every value, in every wrapper and Callable spelling. -/
theorem respell_invariant (env : Env) (w : Wrap) (sp : Spelling) {e e' : Exp} (h : RespellExp e e') (v : Val) :
    check env ⟨w, sp, e⟩ v = check env ⟨w, sp, e'⟩ v := by
  unfold check
  cases w with
  | bare => simp only [leafCheck_respell env sp _ h]
  | optional => simp only [leafCheck_respell env sp _ h]
  | listOf => cases v <;> simp only [checkList_respell env sp _ h]
  | dictStrOf => cases v <;> simp only [checkDict_respell env sp _ h]

/-! the spec does not look at the spelling either -/

theorem isTop_respell (env : Env) {t t' : TA} (h : Respell t t') : isTop env t = isTop env t' := by
  cases h <;> rfl

theorem isTopU_respell (env : Env) {t t' : TA} (h : Respell t t') : isTopU env t = isTopU env t' := by
  cases h with
  | union p q cs ds h => simpa [isTopU] using any_congr h _
  | cls c => rfl
  | any => rfl
  | gen1 g h => rfl
  | gen3 g h => rfl

theorem fits_respell (env : Env) (c : ClsId) {t t' : TA} (h : Respell t t') : fits env c t = fits env c t' := by
  cases h with
  | cls c => rfl
  | any => rfl
  | union p q cs ds h => simpa [fits] using any_congr h _
  | gen1 g h => rfl
  | gen3 g h => rfl

theorem subTy_respell (env : Env) (s : TA) {t t' : TA} (h : Respell t t') : subTy env s t = subTy env s t' := by
  induction s generalizing t t' with
  | cls c => simp only [subTy, isTop_respell env h, headCls, fits_respell env c h]
  | any => simp only [subTy, isTop_respell env h, headCls, fits_respell env _ h]
  | union p cs => simp only [subTy, isTop_respell env h, fits_respell env _ h]
  | gen1 g s ih =>
    cases h with
    | cls c => rfl
    | any => rfl
    | union p q cs ds h => simp only [subTy, isTop, headCls, fits, any_congr h]
    | gen1 g' h' => simp only [subTy, ih h']
    | gen3 g' h' => rfl
  | gen3 g s ih =>
    cases h with
    | cls c => rfl
    | any => rfl
    | union p q cs ds h => simp only [subTy, isTop, headCls, fits, any_congr h]
    | gen1 g' h' => rfl
    | gen3 g' h' => simp only [subTy, ih h']

theorem declSub_respell (env : Env) (a : Ann) {t t' : TA} (h : Respell t t') : declSub env a t = declSub env a t' := by
  cases a with
  | empty => simpa [declSub] using isTopU_respell env h
  | none => simpa [declSub] using subTy_respell env _ h
  | ty s => simpa [declSub] using subTy_respell env s h

theorem zipAll_respell (env : Env) (ps : List FParam) {ts ts' : List TA} (h : RespellList ts ts') :
    (ps.zip ts).all (fun pt => declSub env pt.1.ann pt.2) = (ps.zip ts').all (fun pt => declSub env pt.1.ann pt.2) := by
  induction ps generalizing ts ts' with
  | nil => simp
  | cons p ps ih =>
    cases h with
    | nil => rfl
    | cons h1 h2 => simp [List.zip_cons_cons, List.all_cons, declSub_respell env p.ann h1, ih h2]

theorem retConforms_respell (env : Env) (coro : Bool) (ret : Ann) {t t' : TA} (h : Respell t t') :
    retConforms env coro ret t = retConforms env coro ret t' := by
  unfold retConforms
  rw [isTop_respell env h, declSub_respell env ret h]
  cases h with
  | cls c => rfl
  | any => rfl
  | union p q cs ds h => rfl
  | gen1 g h' => simp only [declSub_respell env ret h']
  | gen3 g h' => simp only [declSub_respell env ret h']

theorem conformsLeaf_respell (env : Env) (v : CVal) {e e' : Exp} (h : RespellExp e e') :
    conformsLeaf env v e = conformsLeaf env v e' := by
  obtain ⟨hps, hret⟩ := h
  cases v with
  | none => rfl
  | nonCallable => rfl
  | callable n s k =>
    cases s with
    | typeError => rfl
    | valueError => rfl
    | ok ps ret =>
      simp only [conformsLeaf, retConforms_respell env k ret hret]
      cases h1 : e.ps with
      | none =>
        cases h2 : e'.ps with
        | none => rfl
        | some ts' => simp [h1, h2] at hps
      | some ts =>
        cases h2 : e'.ps with
        | none => simp [h1, h2] at hps
        | some ts' =>
          simp only [h1, h2] at hps
          simp only [paramsConform, forall2_length hps, zipAll_respell env ps hps]

/-- the spec is spelling-independent: neither the Callable spelling nor the spelling of the types inside matters -/
theorem conforms_respell (env : Env) (w : Wrap) (sp sp' : Spelling) {e e' : Exp} (h : RespellExp e e') (v : Val) :
    conforms env ⟨w, sp, e⟩ v = conforms env ⟨w, sp', e'⟩ v := by
  have hl := fun l => conformsLeaf_respell env l h
  cases w <;> cases v <;> simp only [conforms, hl]
  all_goals (rename_i l; cases l <;> simp only [hl])
end PedVerif.Callable
