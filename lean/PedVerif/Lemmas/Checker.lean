import PedVerif.Model.CheckerWF
/-!
Helper lemmas for the checker properties (C01 C02 C06 C08 C10).

* `cfg_*`: facts about the *generated* tables / flags (`PedVerif.Gen.TypeTables`).  Each is proved by evaluation, so
  it is re-checked against what the source says now; a changed table row, quantifier or guard makes one of them fail.
* node lemmas: what each annotation node of the model does, given the results of its recursive calls.
-/
namespace PedVerif.Checker
open PedVerif.Gen.TypeTables

/-! ### configuration facts (obligations on the generated file) -/
theorem cfg_genericChecksOrigin : genericChecksOrigin = true := by decide
theorem cfg_iterableQuantifier : iterableQuantifier = "all" := by decide
theorem cfg_iterableLazy : iterableLazy = true := by decide
theorem cfg_iteratorSkip : iteratorSkip = true := by decide
theorem cfg_itemsQuantifier : itemsQuantifier = "all" ∧ itemsConnective = "and" := by decide
theorem cfg_itemsChecksKey : itemsChecksKey = true := by decide
theorem cfg_itemsChecksValue : itemsChecksValue = true := by decide
theorem cfg_tupleQuantifier : tupleQuantifier = "all" := by decide
theorem cfg_tupleLengthTest : tupleLengthTest = true := by decide
theorem cfg_union : unionQuantifier = "any" ∧ unionLazy = false ∧ unionOverAllNonTypeVarMembers = true := by decide
theorem cfg_literal : literalIsMembership = true := by decide
theorem cfg_requiredTestFirst : requiredTestFirst = true := by decide
theorem cfg_noneBranchIsEq : noneBranchIsEq = true := by decide
/-- `_is_subtype` (repaired): a class is a subtype of a Union when it is a subtype of some member; `_get_class_of_type_annotation`
    reads `__origin__` with getattr -/
theorem cfg_unionSuper : unionSuperBySubtype = true ∧ classOfGuardsOrigin = true := by decide
/-- the string branch of `_check_type` (repaired): a name that is a class of the context is checked with isinstance, any other name is
    compared with the class names of the whole MRO -/
theorem cfg_strBranch : strBranchResolvesInContext = true ∧ strBranchComparesMro = true := by decide
theorem cfg_catchesAll : catchesAll = true := by decide
theorem cfg_bareRaise : bareBuiltinsRaise = "PedanticTypeCheckException" := by decide
theorem cfg_special_any : specialIs "Any" "const_true" = true := by decide
theorem cfg_special_union : specialIs "Union" "_instancecheck_union" = true := by decide
theorem cfg_special_optional : specialIs "Optional" "_instancecheck_union" = true := by decide
theorem cfg_unionDispatch (sp : USpell) : unionDispatchOk sp = true := by cases sp <;> decide
theorem cfg_special_literal : specialIs "Literal" "_instancecheck_literal" = true := by decide
theorem cfg_origin_type : originIs "typing.Type" "_instancecheck_type" = true := by decide
theorem cfg_origin_tuple : originIs "typing.Tuple" "_instancecheck_tuple" = true := by decide
theorem cfg_origin_seq (o : SeqOrigin) : originIs ("typing." ++ o.typingName) "_instancecheck_iterable" = true := by
  cases o <;> decide
theorem cfg_origin_map (o : MapOrigin) : originIs ("typing." ++ o.typingName) "_instancecheck_mapping" = true := by
  cases o <;> decide
theorem cfg_req_seq (sp : Spell) (o : SeqOrigin) : requiredArgsOk (seqName sp o) 1 = true := by
  cases sp <;> cases o <;> decide
theorem cfg_req_seqT (o : SeqOrigin) : requiredArgsOk o.typingName 1 = true := by cases o <;> decide
theorem cfg_req_map (sp : Spell) (o : MapOrigin) : requiredArgsOk (mapName sp o) 2 = true := by
  cases sp <;> cases o <;> decide
theorem cfg_req_mapT (o : MapOrigin) : requiredArgsOk o.typingName 2 = true := by cases o <;> decide
theorem cfg_req_Tuple (n : Nat) : requiredArgsOk "Tuple" n = decide (1 ≤ n) := by
  simp [requiredArgsOk, lookup, requiredExact, requiredMin]
theorem cfg_req_tuple (n : Nat) : requiredArgsOk "tuple" n = true := by
  simp [requiredArgsOk, lookup, requiredExact, requiredMin]
theorem cfg_req_union (sp : USpell) (n : Nat) : requiredArgsOk (unionName sp) n =
    (match sp with | .union => decide (2 ≤ n) | .optional => decide (2 = n) | .pipe => true) := by
  cases sp <;> simp [requiredArgsOk, lookup, requiredExact, requiredMin, unionName]
theorem cfg_bare (o : BareOrigin) (h : o.isBuiltin = true) : bareBuiltins.contains o.name = true := by
  cases o <;> first | decide | simp [BareOrigin.isBuiltin] at h
/-- every bare typing generic named in C06 is in one of the two tables with a positive requirement -/
theorem cfg_req_bare (o : BareOrigin) (h : o.isBuiltin = false) : requiredArgsOk o.name 0 = false := by
  cases o <;> first | decide | simp [BareOrigin.isBuiltin] at h
theorem cfg_req_bare_builtin (o : BareOrigin) (h : o.isBuiltin = true) : requiredArgsOk o.name 0 = true := by
  cases o <;> first | decide | simp [BareOrigin.isBuiltin] at h
theorem cfg_req_type (sp : Spell) : requiredArgsOk (typeName sp) 1 = true := by cases sp <;> decide
theorem cfg_req_Type : requiredArgsOk "Type" 1 = true := by decide
theorem cfg_convGuard : convGuardIsAlias = true := by decide
theorem cfg_convertible (n : String) : originConvertible n = true := by
  have : convertAliasFallback = true := by decide
  simp [originConvertible, this]
theorem cfg_convertBare : convertBare = ["list", "set", "dict", "frozenset", "tuple", "type"] := by decide

theorem elemQuant_eq {α} (f : α → Raw) (xs : List α) : elemQuant f xs = allRaw f xs := by
  simp [elemQuant, cfg_iterableQuantifier]

/-! ### combinators -/
theorem allRaw_true_iff {α} (f : α → Raw) (xs : List α) :
    allRaw f xs = .ok true ↔ ∀ x ∈ xs, f x = .ok true := by
  induction xs with
  | nil => simp [allRaw]
  | cons x xs ih =>
    simp only [allRaw, List.mem_cons, forall_eq_or_imp]
    cases hfx : f x with
    | ok b => cases b <;> simp [ih]
    | _ => simp

theorem allRaw_exact {α} (f : α → Raw) (p : α → Bool) (xs : List α) (h : ∀ x ∈ xs, f x = .ok (p x)) :
    allRaw f xs = .ok (xs.all p) := by
  induction xs with
  | nil => simp [allRaw]
  | cons x xs ih =>
    have hx := h x (by simp)
    have hr := ih (fun y hy => h y (by simp [hy]))
    simp only [allRaw, hx, List.all_cons]
    cases p x <;> simp [hr]

theorem and2_true_iff {a : Raw} {b : Unit → Raw} : a.and2 b = .ok true ↔ a = .ok true ∧ b () = .ok true := by
  unfold Raw.and2
  cases a with
  | ok b => cases b <;> simp
  | _ => simp

theorem and2_ok (b : Bool) (f : Unit → Raw) (c : Bool) (h : f () = .ok c) :
    (Raw.ok b).and2 f = .ok (b && c) := by
  cases b <;> simp [Raw.and2, h]

theorem anyStep_true {h r : Raw} : anyStep h r = .ok true → h = .ok true ∨ r = .ok true := by
  unfold anyStep
  cases h with
  | ok b => cases r with
    | ok b' => cases b <;> cases b' <;> simp
    | _ => simp
  | _ => simp

theorem anyStep_ok (b b' : Bool) : anyStep (.ok b) (.ok b') = .ok (b || b') := rfl

theorem wrap_accept {r : Raw} : wrap r = .accept ↔ r = .ok true := by
  cases r with
  | ok b => cases b <;> simp [wrap]
  | raisedOther => simp [wrap]; split <;> simp
  | _ => simp [wrap]

theorem wrap_ok (b : Bool) : wrap (.ok b) = if b then .accept else .reject := by cases b <;> rfl

/-- C08 core: with the `except Exception` arm in place nothing raised inside `_is_instance` escapes -/
theorem wrap_ne_escape (r : Raw) : wrap r ≠ .escape := by
  cases r with
  | ok b => cases b <;> simp [wrap]
  | raisedOther => simp [wrap, cfg_catchesAll]
  | _ => simp [wrap]

/-! ### well-formedness plumbing -/
theorem wfL_mem {env : Env} {xs : List Val} (h : wfL env xs = true) : ∀ x ∈ xs, x.wf env = true := by
  induction xs with
  | nil => simp
  | cons y ys ih =>
    simp [wfL] at h; intro x hx; simp at hx
    rcases hx with rfl | hx
    · exact h.1
    · exact ih h.2 x hx
theorem wfKV_mem {env : Env} {kvs : List (Val × Val)} (h : wfKV env kvs = true) :
    ∀ a b, (a, b) ∈ kvs → a.wf env = true ∧ b.wf env = true := by
  induction kvs with
  | nil => simp
  | cons y ys ih =>
    obtain ⟨k, v⟩ := y
    simp [wfKV] at h; intro a b hab; simp at hab
    rcases hab with ⟨rfl, rfl⟩ | hab
    · exact ⟨h.1.1, h.1.2⟩
    · exact ih h.2 a b hab
theorem plainL_mem {xs : List Val} (h : plainL xs = true) : ∀ x ∈ xs, x.plain = true := by
  induction xs with
  | nil => simp
  | cons y ys ih =>
    simp [plainL] at h; intro x hx; simp at hx
    rcases hx with rfl | hx
    · exact h.1
    · exact ih h.2 x hx
theorem plainKV_mem {kvs : List (Val × Val)} (h : plainKV kvs = true) :
    ∀ a b, (a, b) ∈ kvs → a.plain = true ∧ b.plain = true := by
  induction kvs with
  | nil => simp
  | cons y ys ih =>
    obtain ⟨k, v⟩ := y
    simp [plainKV] at h; intro a b hab; simp at hab
    rcases hab with ⟨rfl, rfl⟩ | hab
    · exact ⟨h.1.1, h.1.2⟩
    · exact ih h.2 a b hab

theorem iterFreeL_mem {xs : List Val} (h : iterFreeL xs = true) : ∀ x ∈ xs, x.iterFree = true := by
  induction xs with
  | nil => simp
  | cons y ys ih =>
    simp [iterFreeL] at h; intro x hx; simp at hx
    rcases hx with rfl | hx
    · exact h.1
    · exact ih h.2 x hx
theorem iterFreeKV_mem {kvs : List (Val × Val)} (h : iterFreeKV kvs = true) :
    ∀ a b, (a, b) ∈ kvs → a.iterFree = true ∧ b.iterFree = true := by
  induction kvs with
  | nil => simp
  | cons y ys ih =>
    obtain ⟨k, v⟩ := y
    simp [iterFreeKV] at h; intro a b hab; simp at hab
    rcases hab with ⟨rfl, rfl⟩ | hab
    · exact ⟨h.1.1, h.1.2⟩
    · exact ih h.2 a b hab

theorem wf_shape {env : Env} {v : Val} (h : v.wf env = true) : v.shapeB env = true := by
  cases v <;> simp_all [Val.wf]

/-- elements of the iteration view of a well-formed plain value are well-formed and plain -/
theorem shape_int {env : Env} (hw : WfEnv env) (n : Int) : Val.shapeB env (.lit (.int n)) = true := by
  have := hw.intShape
  simpa [Val.shapeB, Val.typeOf, Lit.kind, Val.iter, Val.items, Val.tupleItems, Val.hasAsdict] using this

theorem wf_plain_iter {env : Env} (hw : WfEnv env) {v : Val} {xs : List Val} (h : v.wf env = true) (hp : v.plain = true)
    (hi : v.iter = some xs) : ∀ x ∈ xs, x.wf env = true ∧ x.plain = true := by
  cases v with
  | coll c ys =>
    simp [Val.iter] at hi; subst hi
    simp [Val.wf] at h; simp [Val.plain] at hp
    intro x hx; exact ⟨wfL_mem h.2 x hx, plainL_mem hp x hx⟩
  | tup c ys =>
    simp [Val.iter] at hi; subst hi
    simp [Val.wf] at h; simp [Val.plain] at hp
    intro x hx; exact ⟨wfL_mem h.2 x hx, plainL_mem hp x hx⟩
  | mapping c kvs =>
    simp [Val.iter] at hi; subst hi
    simp [Val.wf] at h; simp [Val.plain] at hp
    intro x hx
    simp only [List.mem_map] at hx
    obtain ⟨⟨a, b⟩, hm, rfl⟩ := hx
    exact ⟨(wfKV_mem h.2 a b hm).1, (plainKV_mem hp a b hm).1⟩
  | ntup c ns ys => simp [Val.plain] at hp
  | iterator c ys => simp [Val.plain] at hp
  | lit l =>
    cases l <;> simp [Val.iter] at hi
    · subst hi; intro x hx; simp at hx; obtain ⟨c, _, rfl⟩ := hx
      refine ⟨?_, by simp [Val.plain]⟩
      simp only [Val.wf] at h ⊢
      simpa [Val.shapeB, Val.typeOf, Lit.kind, Val.iter, Val.items, Val.tupleItems, Val.hasAsdict] using h
    · subst hi; intro x hx; simp at hx; obtain ⟨b, _, rfl⟩ := hx
      exact ⟨by simp only [Val.wf]; exact shape_int hw _, by simp [Val.plain]⟩
  | inst c => simp [Val.iter] at hi
  | clsObj c => simp [Val.iter] at hi

theorem wf_iterFree_iter {env : Env} (hw : WfEnv env) {v : Val} {xs : List Val} (h : v.wf env = true) (hp : v.iterFree = true)
    (hi : v.iter = some xs) : ∀ x ∈ xs, x.wf env = true ∧ x.iterFree = true := by
  cases v with
  | coll c ys =>
    simp [Val.iter] at hi; subst hi
    simp [Val.wf] at h; simp [Val.iterFree] at hp
    intro x hx; exact ⟨wfL_mem h.2 x hx, iterFreeL_mem hp x hx⟩
  | tup c ys =>
    simp [Val.iter] at hi; subst hi
    simp [Val.wf] at h; simp [Val.iterFree] at hp
    intro x hx; exact ⟨wfL_mem h.2 x hx, iterFreeL_mem hp x hx⟩
  | mapping c kvs =>
    simp [Val.iter] at hi; subst hi
    simp [Val.wf] at h; simp [Val.iterFree] at hp
    intro x hx
    simp only [List.mem_map] at hx
    obtain ⟨⟨a, b⟩, hm, rfl⟩ := hx
    exact ⟨(wfKV_mem h.2 a b hm).1, (iterFreeKV_mem hp a b hm).1⟩
  | ntup c ns ys =>
    simp [Val.iter] at hi; subst hi
    simp [Val.wf] at h; simp [Val.iterFree] at hp
    intro x hx; exact ⟨wfL_mem h.2 x hx, iterFreeL_mem hp x hx⟩
  | iterator c ys => simp [Val.iterFree] at hp
  | lit l =>
    cases l <;> simp [Val.iter] at hi
    · subst hi; intro x hx; simp at hx; obtain ⟨c, _, rfl⟩ := hx
      refine ⟨?_, by simp [Val.iterFree]⟩
      simp only [Val.wf] at h ⊢
      simpa [Val.shapeB, Val.typeOf, Lit.kind, Val.iter, Val.items, Val.tupleItems, Val.hasAsdict] using h
    · subst hi; intro x hx; simp at hx; obtain ⟨b, _, rfl⟩ := hx
      exact ⟨by simp only [Val.wf]; exact shape_int hw _, by simp [Val.iterFree]⟩
  | inst c => simp [Val.iter] at hi
  | clsObj c => simp [Val.iter] at hi

end PedVerif.Checker
