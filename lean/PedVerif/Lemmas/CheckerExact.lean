import PedVerif.Lemmas.CheckerSound
/-! On the guarded vocabulary the checker model computes exactly the spec: `isInstance a v = ok (conforms a v)`.
    Completeness (C02), totality (C08) and spelling invariance are corollaries. -/
namespace PedVerif.Checker
open PedVerif.Gen.TypeTables

/-- guard of the exactness theorem.  Its complement is the union of: unsupported / bare nodes, the region
    `emptyFixedTuple`, unresolvable forward references, malformed union arities, and `Type[..]` over something else than
    classes / Any / Unions of those. -/
def Ann.okC (env : Env) : Ann → Bool
  | .cls _ | .clsF _ _ _ | .any | .literal _ | .newType _ => true
  | .union sp ms => okCL env ms && (match sp with | .union => decide (2 ≤ ms.length) | .optional => decide (2 = ms.length) | .pipe => true)
  | .typeOf _ a => typeArgOk a
  | .fwd n => (env.ctx n).isSome
  | .seq _ _ a => a.okC env
  | .map _ _ k w => k.okC env && w.okC env
  | .tuple _ items => !items.isEmpty && okCL env items
  | .tupleVar _ a => a.okC env
  | _ => false
where okCL (env : Env) : List Ann → Bool
  | [] => true
  | a :: as => a.okC env && okCL env as

theorem okCL_mem {env : Env} {ms : List Ann} (h : Ann.okC.okCL env ms = true) : ∀ m ∈ ms, m.okC env = true := by
  induction ms with
  | nil => simp
  | cons a as ih =>
    simp [Ann.okC.okCL] at h; intro m hm; simp at hm
    rcases hm with rfl | hm
    · exact h.1
    · exact ih h.2 m hm

theorem any_congr_mem {α} {f g : α → Bool} : ∀ (l : List α), (∀ x ∈ l, f x = g x) → l.any f = l.any g
  | [], _ => rfl
  | x :: xs, h => by
    simp only [List.any_cons, h x (by simp), any_congr_mem xs (fun y hy => h y (by simp [hy]))]

theorem typeArgOk_convOk (a : Ann) (h : typeArgOk a = true) : convOk a = true := by
  cases a <;> simp_all [typeArgOk, classLike, convOk, cfg_convGuard]

theorem memberSub_eq_spec {env : Env} (c : ClsId) (m : Ann) (h : classLike m = true) : memberSub env c m = memberSpec env c m := by
  cases m <;> simp_all [classLike, memberSub, memberSpec]

/-- on the guarded vocabulary `convert_to_typing_types` always succeeds (after the two repairs of the PEP 585 path) -/
theorem okC_convOk_a (env : Env) : ∀ a, a.okC env = true → convOk a = true := by
  apply convOk.induct
    (motive_1 := fun as => Ann.okC.okCL env as = true → convOk.convOkL as = true)
    (motive_2 := fun a => a.okC env = true → convOk a = true)
  case case4 => intro a _ h; simp only [Ann.okC] at h; simp [convOk, cfg_convertible, typeArgOk_convOk a h]
  all_goals (intros; simp_all [convOk, convOk.convOkL, Ann.okC, Ann.okC.okCL, cfg_convGuard, cfg_convertible])
theorem okC_convOk_l (env : Env) : ∀ as, Ann.okC.okCL env as = true → convOk.convOkL as = true := by
  intro as
  induction as with
  | nil => simp [convOk.convOkL]
  | cons a as ih =>
    intro h
    simp only [Ann.okC.okCL, Bool.and_eq_true] at h
    simp [convOk.convOkL, okC_convOk_a env a h.1, ih h.2]
theorem okC_convOk (env : Env) : (∀ a, a.okC env = true → convOk a = true) ∧ (∀ as, Ann.okC.okCL env as = true → convOk.convOkL as = true) :=
  ⟨okC_convOk_a env, okC_convOk_l env⟩

theorem shape_of_wf {env : Env} {v : Val} (h : v.wf env = true) :
    (env.sub (v.typeOf env) env.typeCls = true → ∃ c, v = .clsObj c) ∧
    (∀ o, env.sub (v.typeOf env) (env.seqCls o) = true → v.iter.isSome = true) ∧
    (∀ o, env.sub (v.typeOf env) (env.mapCls o) = true → v.items.isSome = true) ∧
    (env.sub (v.typeOf env) env.tupleCls = true → v.tupleItems.isSome = true) := by
  have hs := wf_shape h
  simp only [Val.shapeB, Bool.and_eq_true, Bool.or_eq_true, Bool.not_eq_true', List.all_eq_true] at hs
  obtain ⟨⟨⟨⟨⟨⟨h1, h2⟩, h3⟩, h4⟩, _⟩, _⟩, _⟩ := hs
  refine ⟨?_, ?_, ?_, ?_⟩
  · intro hsub
    rcases h1 with h1 | h1
    · simp [hsub] at h1
    · cases v <;> simp_all
  · intro o hsub
    have := h2 o (by cases o <;> simp [allSeqOrigins])
    rcases this with h | h
    · simp [hsub] at h
    · exact h
  · intro o hsub
    have := h3 o (by cases o <;> simp [allMapOrigins])
    rcases this with h | h
    · simp [hsub] at h
    · exact h
  · intro hsub
    rcases h4 with h | h
    · simp [hsub] at h
    · exact h

theorem seqNode_exact {env : Env} {pc : Bool} {sp0 : Spell} {o : SeqOrigin} {a : Ann} {v : Val} {elem : Bool → Val → Raw}
    (hwf : v.wf env = true) (hp : v.plain = true) (hconv : convOk a = true) (p : Val → Bool)
    (hel : ∀ b xs, v.iter = some xs → ∀ x ∈ xs, elem b x = .ok (p x)) :
    seqNode env pc sp0 o a v elem =
      .ok (env.sub (v.typeOf env) (env.seqCls o) && (match v.iter with | some xs => xs.all p | Option.none => false)) := by
  unfold seqNode
  simp only [cfg_req_seq, cfg_req_seqT, cfg_genericChecksOrigin, cfg_origin_seq, cfg_iteratorSkip, not_iterator_of_plain hwf hp,
    cfg_convertible, hconv,
    elemQuant_eq, Bool.true_and, Bool.not_true, Bool.false_eq_true, ↓reduceIte, Bool.and_false, Bool.and_true]
  by_cases hsub : env.sub (v.typeOf env) (env.seqCls o) = true
  · have := (shape_of_wf hwf).2.1 o hsub
    cases hi : v.iter with
    | none => simp [hi] at this
    | some xs =>
      simp only [hsub, Bool.not_true, Bool.false_eq_true, ↓reduceIte, Bool.true_and]
      exact allRaw_exact _ _ _ (hel _ xs hi)
  · simp [hsub]

theorem mapNode_exact {env : Env} {pc : Bool} {sp0 : Spell} {o : MapOrigin} {k w : Ann} {v : Val} {key val : Bool → Val → Raw}
    (hwf : v.wf env = true) (hp : v.plain = true) (hck : convOk k = true) (hcw : convOk w = true) (p q : Val → Bool)
    (hel : ∀ b kvs, v.items = some kvs → ∀ kv ∈ kvs, key b kv.1 = .ok (p kv.1) ∧ val b kv.2 = .ok (q kv.2)) :
    mapNode env pc sp0 o k w v key val =
      .ok (env.sub (v.typeOf env) (env.mapCls o) &&
        (match v.items with | some kvs => kvs.all (fun kv => p kv.1 && q kv.2) | Option.none => false)) := by
  unfold mapNode
  simp only [cfg_req_map, cfg_req_mapT, cfg_genericChecksOrigin, cfg_origin_map, cfg_itemsChecksKey, cfg_itemsChecksValue,
    cfg_convertible, hck, hcw,
    Bool.true_and, Bool.not_true, Bool.false_eq_true, ↓reduceIte, Bool.and_false, Bool.and_true]
  by_cases hsub : env.sub (v.typeOf env) (env.mapCls o) = true
  · have := (shape_of_wf hwf).2.2.1 o hsub
    cases hi : v.items with
    | none => simp [hi] at this
    | some kvs =>
      simp only [hsub, Bool.not_true, Bool.false_eq_true, ↓reduceIte, Bool.true_and]
      apply allRaw_exact _ (fun (kv : Val × Val) => p kv.1 && q kv.2)
      intro kv hkv
      have := hel (sp0 == .pep585) kvs hi kv hkv
      simp only [this.1]
      exact and2_ok _ _ _ this.2
  · simp [hsub]

theorem conformsZip_length {env : Env} : ∀ {as : List Ann} {xs : List Val}, conformsZip env as xs = true → xs.length = as.length
  | [], [] => by simp
  | [], _ :: _ => by simp [conformsZip]
  | _ :: _, [] => by simp [conformsZip]
  | a :: as, x :: xs => by
      simp only [conformsZip, Bool.and_eq_true, List.length_cons]
      intro h; rw [conformsZip_length h.2]

theorem tupleNode_exact {env : Env} {pc : Bool} {sp0 : Spell} {items : List Ann} {v : Val} {zip : Bool → List Val → Raw}
    (hwf : v.wf env = true) (hp : v.plain = true) (hne : items ≠ []) (hconv : convOk.convOkL items = true)
    (hel : ∀ b xs, v.tupleItems = some xs → xs.length = items.length → zip b xs = .ok (conformsZip env items xs)) :
    tupleNode env pc sp0 items v zip =
      .ok (env.sub (v.typeOf env) env.tupleCls &&
        (match v.tupleItems with | some xs => conformsZip env items xs | Option.none => false)) := by
  unfold tupleNode
  have hlen : 1 ≤ items.length := by cases items <;> simp_all
  have hreq : requiredArgsOk (tupleName (effSpell pc sp0)) items.length = true := by
    cases (effSpell pc sp0) <;> simp [tupleName, cfg_req_Tuple, cfg_req_tuple, hlen]
  simp only [hreq, cfg_req_Tuple, hlen, cfg_genericChecksOrigin, cfg_origin_tuple, cfg_tupleLengthTest,
    cfg_convertible, hconv, decide_true,
    Bool.true_and, Bool.not_true, Bool.false_eq_true, ↓reduceIte, Bool.and_false, Bool.and_true]
  by_cases hsub : env.sub (v.typeOf env) env.tupleCls = true
  · have := (shape_of_wf hwf).2.2.2 hsub
    cases hi : v.tupleItems with
    | none => simp [hi] at this
    | some xs =>
      simp only [hsub, Bool.not_true, Bool.false_eq_true, ↓reduceIte, Bool.true_and]
      by_cases hl : xs.length = items.length
      · simp [hl, hel _ xs hi hl]
      · have : conformsZip env items xs = false := by
          cases hz : conformsZip env items xs
          · rfl
          · exact absurd (conformsZip_length hz) hl
        simp [hl, this]
  · simp [hsub]

theorem tupleVarNode_exact {env : Env} {pc : Bool} {sp0 : Spell} {a : Ann} {v : Val} {elem : Bool → Val → Raw}
    (hwf : v.wf env = true) (hp : v.plain = true) (hconv : convOk a = true) (p : Val → Bool)
    (hel : ∀ b xs, v.tupleItems = some xs → ∀ x ∈ xs, elem b x = .ok (p x)) :
    tupleVarNode env pc sp0 a v elem =
      .ok (env.sub (v.typeOf env) env.tupleCls && (match v.tupleItems with | some xs => xs.all p | Option.none => false)) := by
  unfold tupleVarNode
  have hreq : requiredArgsOk (tupleName (effSpell pc sp0)) 2 = true := by
    cases (effSpell pc sp0) <;> simp [tupleName, cfg_req_Tuple, cfg_req_tuple]
  simp only [hreq, cfg_req_Tuple, cfg_genericChecksOrigin, cfg_origin_tuple,
    cfg_convertible, hconv,
    Bool.true_and, Bool.not_true, Bool.false_eq_true, ↓reduceIte, Bool.and_false, Bool.and_true]
  by_cases hsub : env.sub (v.typeOf env) env.tupleCls = true
  · have := (shape_of_wf hwf).2.2.2 hsub
    cases hi : v.tupleItems with
    | none => simp [hi] at this
    | some xs =>
      simp only [hsub, Bool.not_true, Bool.false_eq_true, ↓reduceIte, Bool.true_and]
      simpa using allRaw_exact _ _ _ (hel _ xs hi)
  · simp [hsub]

theorem typeOfNode_exact {env : Env} (hw : WfEnv env) {pc : Bool} {sp0 : Spell} {a : Ann} {v : Val} (hwf : v.wf env = true)
    (hp : v.plain = true) (ha : typeArgOk a = true) :
    typeOfNode env pc sp0 a v = .ok (conforms env (.typeOf sp0 a) v) := by
  simp only [conforms]
  unfold typeOfNode
  have hconv : convOk a = true := typeArgOk_convOk a ha
  simp only [cfg_req_type, cfg_req_Type, cfg_genericChecksOrigin, cfg_origin_type, cfg_convertible, hconv,
    Bool.true_and, Bool.not_true, Bool.false_eq_true, ↓reduceIte, Bool.and_false, Bool.and_true]
  by_cases hsub : env.sub (v.typeOf env) env.typeCls = true
  · obtain ⟨c, rfl⟩ := (shape_of_wf hwf).1 hsub
    simp only [hsub, Bool.not_true, Bool.false_eq_true, ↓reduceIte]
    cases a <;> simp_all [isSubtypeCls, subSpec, typeArgOk, classLike, cfg_unionSuper.1]
    rename_i sp ms
    exact any_congr_mem ms (fun m hm => memberSub_eq_spec c m (ha m hm))
  · simp only [hsub, Bool.not_false, ↓reduceIte]
    cases v <;> simp_all [Val.typeOf]
    rename_i c; exact absurd (hw.metaSub c) (by simpa using hsub)

abbrev E1 (env : Env) (orc : Nat → Val → Raw) (pc : Bool) (a : Ann) (v : Val) : Prop :=
  a.okC env = true → v.wf env = true → v.plain = true → isInstance env orc pc a v = .ok (conforms env a v)
abbrev E2 (env : Env) (orc : Nat → Val → Raw) (pc : Bool) (as : List Ann) (xs : List Val) : Prop :=
  Ann.okC.okCL env as = true → wfL env xs = true → plainL xs = true → xs.length = as.length →
    zipRaw env orc pc as xs = .ok (conformsZip env as xs)
abbrev E3 (env : Env) (orc : Nat → Val → Raw) (pc : Bool) (ms : List Ann) (v : Val) : Prop :=
  Ann.okC.okCL env ms = true → v.wf env = true → v.plain = true → anyRaw env orc pc ms v = .ok (conformsAny env ms v)

theorem exact_raw (env : Env) (orc : Nat → Val → Raw) (hw : WfEnv env) :
    (∀ pc a v, E1 env orc pc a v) ∧ (∀ pc as xs, E2 env orc pc as xs) ∧ (∀ pc ms v, E3 env orc pc ms v) ∧
    (∀ (_ : Bool) (_ : List NameId) (_ : List Ann) (_ : List NameId) (_ : List Val), True) := by
  apply isInstance.mutual_induct
    (motive_1 := fun pc a v => E1 env orc pc a v)
    (motive_2 := fun pc as xs => E2 env orc pc as xs)
    (motive_3 := fun pc ms v => E3 env orc pc ms v)
    (motive_4 := fun _ _ _ _ _ => True)
  case case1 => intro _ _ h; simp [Ann.okC] at h
  case case2 =>
    intro _ c v _ hwf hp
    simp only [isInstance, clsNode, conforms]
    split
    · rename_i hnt; exact ntNode_of_plain hw hnt hwf hp
    · rfl
  case case3 =>
    intro _ c names anns v _ _ hwf hp
    simp only [isInstance, conforms, clsFNode]
    split
    · rename_i hnt; exact ntNode_of_plain hw hnt hwf hp
    · rfl
  case case4 => intro _ _ _ _ _; simp [isInstance, anyNode, cfg_special_any, conforms]
  case case5 =>
    intro _ sp ms v ih hok hwf hp
    simp only [Ann.okC, Bool.and_eq_true] at hok
    have hreq : requiredArgsOk (unionName sp) ms.length = true := by
      rw [cfg_req_union]; cases sp <;> simp_all
    simp only [isInstance, unionNode, hreq, conforms, ih hok.1 hwf hp, cfg_unionDispatch, Bool.not_true, Bool.false_eq_true, ↓reduceIte]
  case case6 =>
    intro _ ls v _ _ _
    simp only [isInstance, literalNode, cfg_special_literal, conforms, Bool.not_true, Bool.false_eq_true, ↓reduceIte]
    cases v <;> rfl
  case case7 => intro _ s v _ _ _; simp [isInstance, conforms]
  case case8 =>
    intro pc sp0 a v hok hwf hp
    simp only [Ann.okC] at hok
    simp only [isInstance]
    exact typeOfNode_exact hw hwf hp hok
  case case9 =>
    intro _ n v hok hwf hp
    simp only [Ann.okC, Option.isSome_iff_exists] at hok
    obtain ⟨c, hc⟩ := hok
    simp only [isInstance, fwdNode, conforms, hc]
    split
    · rename_i hnt; exact ntNode_of_plain hw hnt hwf hp
    · rfl
  case case10 => intro _ _ _ h; simp [Ann.okC] at h
  case case11 =>
    intro pc sp0 o a v ih hok hwf hp
    simp only [Ann.okC] at hok
    simp only [isInstance, conforms]
    refine seqNode_exact hwf hp ((okC_convOk env).1 a hok) (fun x => conforms env a x) ?_
    intro b xs hi x hx
    have := wf_plain_iter hw hwf hp hi x hx
    exact ih b x hok this.1 this.2
  case case12 =>
    intro pc sp0 o k w v ihk ihw hok hwf hp
    simp only [Ann.okC, Bool.and_eq_true] at hok
    simp only [isInstance, conforms]
    refine mapNode_exact hwf hp ((okC_convOk env).1 k hok.1) ((okC_convOk env).1 w hok.2)
      (fun x => conforms env k x) (fun x => conforms env w x) ?_
    intro b kvs hi ⟨x, y⟩ hkv
    have hkv' := items_plain_wf hwf hp hi
    have h1 := wfKV_mem hkv'.1 x y hkv
    have h2 := plainKV_mem hkv'.2 x y hkv
    exact ⟨ihk b x hok.1 h1.1 h2.1, ihw b y hok.2 h1.2 h2.2⟩
  case case13 =>
    intro pc sp0 items v ih hok hwf hp
    simp only [Ann.okC, Bool.and_eq_true, Bool.not_eq_true', List.isEmpty_eq_false_iff] at hok
    simp only [isInstance, conforms]
    refine tupleNode_exact hwf hp hok.1 ((okC_convOk env).2 items hok.2) ?_
    intro b xs hi hl
    have := tupleItems_plain_wf hwf hp hi
    exact ih b xs hok.2 this.1 this.2 hl
  case case14 =>
    intro pc sp0 a v ih hok hwf hp
    simp only [Ann.okC] at hok
    simp only [isInstance, conforms]
    refine tupleVarNode_exact hwf hp ((okC_convOk env).1 a hok) (fun x => conforms env a x) ?_
    intro b xs hi x hx
    have := tupleItems_plain_wf hwf hp hi
    exact ih b x hok (wfL_mem this.1 x hx) (plainL_mem this.2 x hx)
  case case15 => intro _ _ _ h; simp [Ann.okC] at h
  case case16 => intro _ _ _ h; simp [Ann.okC] at h
  case case17 =>
    intro pc a as x xs ih1 ih2 hok hwf hp hlen
    simp only [Ann.okC.okCL, Bool.and_eq_true] at hok
    simp only [wfL, Bool.and_eq_true] at hwf
    simp only [plainL, Bool.and_eq_true] at hp
    simp only [zipRaw, conformsZip, ih1 hok.1 hwf.1 hp.1]
    exact and2_ok _ _ _ (ih2 hok.2 hwf.2 hp.2 (by simpa using hlen))
  case case18 =>
    intro t pc xs hne _ _ _ hlen
    cases t with
    | nil => cases xs with
      | nil => simp [zipRaw, conformsZip]
      | cons x xs => simp at hlen
    | cons a as => cases xs with
      | nil => simp at hlen
      | cons x xs => exact (hne a as x xs rfl rfl).elim
  case case19 => intro _ _ _ _ _; simp [anyRaw, conformsAny]
  case case20 =>
    intro pc a as v ih1 ih3 hok hwf hp
    simp only [Ann.okC.okCL, Bool.and_eq_true] at hok
    simp only [anyRaw, conformsAny, ih1 hok.1 hwf hp, ih3 hok.2 hwf hp, anyStep_ok]
  all_goals (intros; trivial)

theorem bareNode_cases (env : Env) (o : BareOrigin) (v : Val) :
    bareNode env o v = .ok false ∨ bareNode env o v = .raisedPed ∨ bareNode env o v = .raisedOther := by
  have hne := bareNode_ne_true env o v
  unfold bareNode at hne ⊢
  by_cases hb : o.isBuiltin = true
  · simp only [cfg_req_bare_builtin o hb, hb, cfg_bare o hb, Bool.not_true, Bool.false_eq_true, ↓reduceIte]
    simp
  · have hb' : o.isBuiltin = false := by simpa using hb
    simp [cfg_req_bare o hb']


/-- completeness of `_check_type` on the guarded vocabulary (restated in Props/C02.lean) -/
theorem complete_checkType (env : Env) (orc : Nat → Val → Raw) (hw : WfEnv env) (a : Ann) (v : Val)
    (hok : a.okC env = true ∨ a = .none) (hwf : v.wf env = true) (hp : v.plain = true) :
    conforms env a v = true → checkType env orc a v = .accept := by
  intro h
  rcases hok with hok | rfl
  · have := (exact_raw env orc hw).1 false a v hok hwf hp
    cases a <;> simp_all [checkType, wrap, Ann.okC]
  · simpa [checkType, conforms] using h

/-- the verdict is a verdict: on the guarded vocabulary the checker answers accept or reject, exactly as the spec says -/
theorem exact_checkType (env : Env) (orc : Nat → Val → Raw) (hw : WfEnv env) (a : Ann) (v : Val)
    (hok : a.okC env = true ∨ a = .none) (hwf : v.wf env = true) (hp : v.plain = true) :
    checkType env orc a v = if conforms env a v then .accept else .reject := by
  rcases hok with hok | rfl
  · have := (exact_raw env orc hw).1 false a v hok hwf hp
    cases a <;> simp_all [checkType, Ann.okC, wrap_ok]
  · cases h : v.isNone <;> simp [checkType, conforms, h]


end PedVerif.Checker
