import PedVerif.Lemmas.CheckerExact
/-! TypeVar-free annotations never produce a TypeVar mismatch: if the oracle for unsupported objects does not, nothing does. -/
namespace PedVerif.Checker
open PedVerif.Gen.TypeTables

theorem allRaw_ne_tv {α} (f : α → Raw) (xs : List α) (h : ∀ x, f x ≠ .raisedTV) : allRaw f xs ≠ .raisedTV := by
  induction xs with
  | nil => simp [allRaw]
  | cons x xs ih =>
    simp only [allRaw]
    cases hfx : f x with
    | ok b => cases b <;> simp [ih]
    | raisedTV => exact absurd hfx (h x)
    | _ => simp
theorem anyLazyRaw_ne_tv {α} (f : α → Raw) (xs : List α) (h : ∀ x, f x ≠ .raisedTV) : anyLazyRaw f xs ≠ .raisedTV := by
  induction xs with
  | nil => simp [anyLazyRaw]
  | cons x xs ih =>
    simp only [anyLazyRaw]
    cases hfx : f x with
    | ok b => cases b <;> simp [ih]
    | raisedTV => exact absurd hfx (h x)
    | _ => simp
theorem elemQuant_ne_tv {α} (f : α → Raw) (xs : List α) (h : ∀ x, f x ≠ .raisedTV) : elemQuant f xs ≠ .raisedTV := by
  unfold elemQuant; split
  · exact allRaw_ne_tv f xs h
  · exact anyLazyRaw_ne_tv f xs h
theorem and2_ne_tv {a : Raw} {b : Unit → Raw} (ha : a ≠ .raisedTV) (hb : b () ≠ .raisedTV) : a.and2 b ≠ .raisedTV := by
  unfold Raw.and2; cases a with
  | ok x => cases x <;> simp_all
  | _ => simp_all
theorem anyStep_ne_tv {a b : Raw} (ha : a ≠ .raisedTV) (hb : b ≠ .raisedTV) : anyStep a b ≠ .raisedTV := by
  unfold anyStep; cases a <;> cases b <;> simp_all
theorem allStep_ne_tv {a b : Raw} (ha : a ≠ .raisedTV) (hb : b ≠ .raisedTV) : allStep a b ≠ .raisedTV := by
  unfold allStep; cases a <;> cases b <;> simp_all

theorem isSubtypeCls_ne_tv (env : Env) (c : ClsId) (a : Ann) : isSubtypeCls env c a ≠ .raisedTV := by
  cases a <;> simp [isSubtypeCls]
  all_goals (split <;> simp)

theorem unionNode_cases (sp : USpell) (n : Nat) (m : Raw) :
    unionNode sp n m = .raisedPed ∨ unionNode sp n m = .raisedOther ∨ unionNode sp n m = m := by
  unfold unionNode
  split
  · simp
  · split <;> simp

theorem wrap_ne_tv {r : Raw} (h : r ≠ .raisedTV) : wrap r ≠ .tvMismatch := by
  cases r with
  | ok b => cases b <;> simp [wrap]
  | raisedTV => exact absurd rfl h
  | raisedOther => simp [wrap]; split <;> simp
  | raisedPed => simp [wrap]

theorem ntNode_ne_tv {env : Env} {c : ClsId} {v : Val} {f : List NameId → List Val → Raw} (h : ∀ vn xs, f vn xs ≠ .raisedTV) :
    ntNode env c v f ≠ .raisedTV := by
  unfold ntNode
  split; · simp
  split
  · exact h _ _
  · simp

theorem noTV_raw (env : Env) (orc : Nat → Val → Raw) (horc : ∀ k v, orc k v ≠ .raisedTV) :
    (∀ pc a v, isInstance env orc pc a v ≠ .raisedTV) ∧ (∀ pc as xs, zipRaw env orc pc as xs ≠ .raisedTV) ∧
    (∀ pc ms v, anyRaw env orc pc ms v ≠ .raisedTV) ∧ (∀ pc ns as vn xs, fieldsRaw env orc pc ns as vn xs ≠ .raisedTV) := by
  apply isInstance.mutual_induct
    (motive_1 := fun pc a v => isInstance env orc pc a v ≠ .raisedTV)
    (motive_2 := fun pc as xs => zipRaw env orc pc as xs ≠ .raisedTV)
    (motive_3 := fun pc ms v => anyRaw env orc pc ms v ≠ .raisedTV)
    (motive_4 := fun pc ns as vn xs => fieldsRaw env orc pc ns as vn xs ≠ .raisedTV)
  case case2 =>
    intro _ c v; simp only [isInstance, clsNode]
    split
    · exact ntNode_ne_tv (fun _ _ => by simp)
    · simp
  case case3 =>
    intro _ c names anns v ih
    simp only [isInstance, clsFNode]
    split
    · exact ntNode_ne_tv (fun vn xs => ih vn xs)
    · simp
  case case4 => intro _ _; simp only [isInstance, anyNode]; split <;> simp
  case case5 =>
    intro _ sp ms v ih
    simp only [isInstance]
    rcases unionNode_cases sp ms.length (anyRaw env orc false ms v) with h | h | h <;> simp [h, ih]
  case case6 =>
    intro _ ls v
    simp only [isInstance, literalNode]
    split; · simp
    split <;> simp
  case case8 =>
    intro pc sp0 a v
    simp only [isInstance, typeOfNode]
    repeat' split
    all_goals first | (simp; done) | exact isSubtypeCls_ne_tv _ _ _
  case case9 =>
    intro _ n v
    simp only [isInstance, fwdNode]
    split
    · split
      · exact ntNode_ne_tv (fun _ _ => by split <;> simp)
      · simp
    · simp
  case case11 =>
    intro pc sp0 o a v ih
    simp only [isInstance, seqNode]
    repeat' split
    all_goals first | (simp; done) | exact elemQuant_ne_tv _ _ (fun x => ih _ x)
  case case12 =>
    intro pc sp0 o k w v ihk ihw
    simp only [isInstance, mapNode]
    repeat' split
    all_goals first | (simp; done) | skip
    all_goals
      apply allRaw_ne_tv
      intro kv
      apply and2_ne_tv <;> first | exact ihk _ _ | exact ihw _ _ | simp
  case case13 =>
    intro pc sp0 items v ih
    simp only [isInstance, tupleNode]
    repeat' split
    all_goals first | (simp; done) | exact ih _ _
  case case14 =>
    intro pc sp0 a v ih
    simp only [isInstance, tupleVarNode]
    repeat' split
    all_goals first | (simp; done) | exact allRaw_ne_tv _ _ (fun x => ih _ x)
  case case15 =>
    intro _ o v
    simp only [isInstance]
    rcases bareNode_cases env o v with h | h | h <;> simp [h]
  case case16 => intro _ k v; simp only [isInstance]; exact horc k v
  case case17 => intro pc a as x xs ih1 ih2; simp only [zipRaw]; exact and2_ne_tv ih1 ih2
  case case20 => intro pc a as v ih1 ih3; simp only [anyRaw]; exact anyStep_ne_tv ih1 ih3
  case case21 =>
    intro pc n ns a as vn xs hl ih4
    simp only [fieldsRaw, hl]; exact ih4
  case case22 =>
    intro pc n ns a as vn xs x hl ih1 ih4
    simp only [fieldsRaw, hl]; exact allStep_ne_tv ih1 ih4
  all_goals (intros; simp_all [isInstance, zipRaw, anyRaw, fieldsRaw])

/-- `assert_value_matches_type` on a TypeVar-free annotation never raises PedanticTypeVarMismatchException -/
theorem checkType_ne_tv (env : Env) (orc : Nat → Val → Raw) (horc : ∀ k v, orc k v ≠ .raisedTV) (a : Ann) (v : Val) :
    checkType env orc a v ≠ .tvMismatch := by
  cases a
  case none => simp only [checkType]; split <;> simp
  case strAnn n =>
    simp only [checkType, strAnnByName, cfg_strBranch.1, cfg_strBranch.2, ↓reduceIte]
    split <;> split <;> simp
  all_goals (simp only [checkType]; exact wrap_ne_tv ((noTV_raw env orc horc).1 false _ v))

/-- **C08 (checker level), full strength.** `assert_value_matches_type` returns or raises a PedanticException, for every
    annotation object, every value, every class table and every behaviour of unsupported annotation objects. -/
theorem checkType_ne_escape (env : Env) (orc : Nat → Val → Raw) (a : Ann) (v : Val) : checkType env orc a v ≠ .escape := by
  cases a
  case none => simp only [checkType]; split <;> simp
  case strAnn n =>
    simp only [checkType, strAnnByName, cfg_strBranch.1, cfg_strBranch.2, ↓reduceIte]
    split <;> split <;> simp
  all_goals (simp only [checkType]; exact wrap_ne_escape _)


end PedVerif.Checker
