import PedVerif.Model.CallLayerIR
/-!
Refinement: the interpretation (`Model/CallLayerIR.lean`) of the *generated* statement-by-statement translation
(`Gen/CallLayerIR.lean`) of every function of the call layer equals the corresponding definition of the hand-written model
(`Model/CallLayer.lean`), for all inputs.  Every proof unfolds the generated definition and evaluates the interpreter on it
(`ir_unfold`), then decides the remaining case distinction semantically - a reordered statement, a changed guard, `<` for
`<=`, a dropped `not`, a moved `append` that changes what the function does breaks the proof of the lemma about that
function; a rewrite that keeps the behaviour re-proves.
-/
set_option linter.unusedSimpArgs false
set_option linter.unusedVariables false
namespace PedVerif.CallIR
open PedVerif.Checker PedVerif.Call PedVerif.Gen.CallLayerIR PedVerif.Gen.TypeTables PedVerif.Gen.CallTables

@[simp] theorem Obj.tr_false (o : Obj) (id : Nat) : o.tr false id = o := rfl
@[simp] theorem Obj.trs_false (o : Obj) (ids : List Nat) : o.trs false ids = o := rfl
@[simp] theorem St.tr_false (s : St) (id : Nat) : s.tr false id = s := rfl
@[simp] theorem Res.bind_cont (s : St) (k : St → Res) : (Res.cont s).bind k = k s := rfl
@[simp] theorem Res.bind_raised (cl : Caller) (b : Obs) (k : St → Res) : (Res.raised cl b).bind k = .raised cl b := rfl
@[simp] theorem Res.bind_returned (v : RetV) (o : Obj) (k : St → Res) : (Res.returned v o).bind k = .returned v o := rfl
@[simp] theorem Res.bind_ite (p : Prop) [Decidable p] (a b : Res) (k : St → Res) : (if p then a else b).bind k = if p then a.bind k else b.bind k := by
  split <;> rfl
@[simp] theorem Res.toOut_cont (s : St) : (Res.cont s).toOut = .done .none s.obj := rfl
@[simp] theorem Res.toOut_raised (cl : Caller) (b : Obs) : (Res.raised cl b).toOut = .fail cl b := rfl
@[simp] theorem Res.toOut_returned (v : RetV) (o : Obj) : (Res.returned v o).toOut = .done v o := rfl
@[simp] theorem Res.toOut_ite (p : Prop) [Decidable p] (a b : Res) : (if p then a else b).toOut = if p then a.toOut else b.toOut := by
  split <;> rfl

@[simp] theorem Out.toRes_bind (x : Out) (k : St → Res) : x.toRes.bind k = x.toRes := by cases x <;> rfl
@[simp] theorem Out.toRes_toOut (x : Out) : x.toRes.toOut = x := by cases x <;> rfl
@[simp] theorem ofCallee_done (s : St) (v : RetV) (o : Obj) : ofCallee s (.done v o) = .cont (s.setObj o) := rfl
@[simp] theorem ofCallee_fail (s : St) (cl : Caller) (b : Obs) : ofCallee s (.fail cl b) = .raised cl b := rfl
@[simp] theorem ofCallee_ite (s : St) (p : Prop) [Decidable p] (a b : Out) : ofCallee s (if p then a else b) = if p then ofCallee s a else ofCallee s b := by
  split <;> rfl
@[simp] theorem fmtRaises_nil (c : Ctx) (cs : Callees) (s : St) : fmtRaises c cs s [] = false := rfl
/-- building a message cannot raise: no value of the call is one that cannot be formatted, or every message of the call layer and of the
    checker puts the user's values through `_describe` (generated fact `messagesUseSafeDescribe`) -/
def Printable (c : Ctx) : Prop := (∀ v, c.up v = false) ∨ messagesUseSafeDescribe = true
theorem safe_imp_assert : messagesUseSafeDescribe = true → assertMsgSafe = true := by decide
theorem printable_up {c : Ctx} (hP : Printable c) (v : Val) : (!assertMsgSafe && c.up v) = false := by
  rcases hP with h | h
  · simp [h]
  · simp [safe_imp_assert h]
theorem printable_up' {c : Ctx} (hP : Printable c) (v : Val) : assertMsgSafe = false → c.up v = false := by
  intro h; have := printable_up hP v; simpa [h] using this
/-- a message whose interpolations all go through `_describe` when the generated fact says so never raises for a printable call
    (the side condition is a computation on the generated list: `simp` discharges it) -/
theorem fmtRaises_false {c : Ctx} (hP : Printable c) (cs : Callees) (s : St) (l : List FmtArg)
    (hl : (!messagesUseSafeDescribe || l.all (·.2)) = true) : fmtRaises c cs s l = false := by
  rcases hP with h | h
  · have hany : ∀ vs : List Val, vs.any c.up = false := fun vs => by induction vs <;> simp_all
    simp [fmtRaises, hany]
  · simp only [h, Bool.not_true, Bool.false_or] at hl
    simp only [fmtRaises, List.any_eq_false, Bool.and_eq_true, Bool.not_eq_true', not_and]
    intro a ha h3
    have := List.all_eq_true.mp hl a ha
    simp [this] at h3
/-- evaluate the interpreter on a generated program (tracing off) -/
macro "ir_unfold" "[" ts:Lean.Parser.Tactic.simpLemma,* "]" : tactic =>
  `(tactic| simp only [runFn, Stmt.ofList, interp, iterList, Obj.tr_false, St.tr_false, Obj.trs_false, doAct, doRet, evalG, evalN, evalA, evalV, evalAnn,
      St.setN, St.getN, St.setObj, esc, ofCallee_done, ofCallee_fail, Res.bind_cont, Res.bind_raised, Res.bind_returned, Res.bind_ite, Res.toOut_cont, Res.toOut_raised,
      Res.toOut_returned, Res.toOut_ite, Out.toRes_bind, Out.toRes_toOut, evalInst, failFmt, checkOutcome, fmtRaises_nil, Bool.false_eq_true, if_false, messagesUseSafeDescribe, List.all_cons, List.all_nil,
      Bool.and_self, Bool.and_true, Bool.true_or, Bool.false_or, Option.getD_some, Option.getD_none, List.any_nil, List.any_cons, Bool.or_false,
      Bool.not_false, Bool.not_true, Bool.true_and, Bool.false_and, $ts,*])

/-! ### the predicates of DecoratedFunction -/
theorem flagsIR_eq (name source : String) : flagsIR name source = flagsOfSource name source := by
  simp [flagsIR, flagsOfSource, dfBool, dfNatOf, dfRun, dfGuard, dfNat, dfAtom, srcView, Stmt.ofList,
    wantsArgsIR, isStaticMethodIR, isPropertySetterIR, isPedanticIR, numOfDecoratorsIR,
    argsNeedle, staticNeedle, setterPrefix, setterSuffix, pedanticNeedles, argsInHeader, staticInHeader, setterInHeader, pedanticInHeader,
    decoratorMark, numDecoratorsCountedInHeaderLines, scopeOf]

theorem shouldHaveKwargsOf_eq (f : Fn) : shouldHaveKwargsOf f = f.shouldHaveKwargs := by
  simp only [shouldHaveKwargsOf, Fn.shouldHaveKwargs, PedVerif.Gen.CallTables.shouldHaveKwargs, shouldHaveKwargsIR, Stmt.ofList, dfBool, dfRun, dfGuard, dfAtom, fnView,
    Fn.startsDunder, Fn.endsDunder, requireKwargsDunders]
  by_cases h1 : f.isSetter = true <;> by_cases h2 : f.wantsArgs = true <;> by_cases h3 : startsWithS f.name "__" = true <;>
    by_cases h4 : endsWithS f.name "__" = true <;> simp [h1, h2, h3, h4]

theorem isInstanceMethodIR_eq (a b : Bool) : isInstanceMethodIRof a b = isInstanceMethodOf a b := by
  cases a <;> cases b <;> simp [isInstanceMethodIRof, isInstanceMethodOf, isInstanceMethodIR, Stmt.ofList, dfBool, dfRun, dfGuard, dfAtom, instanceMethodExcludesBound]
/-! ### FunctionCall: the leaves -/
theorem fnArgsWithoutSelf_eq (c : Ctx) (ht : c.tracing = false) (o : Obj) :
    fnArgsWithoutSelf c o = .done (.vals (c.f.argsWithoutSelf c.args)) o := by
  simp only [fnArgsWithoutSelf, runFn, argsWithoutSelfIR, Stmt.ofList, interp, ht, Obj.tr_false, St.tr_false, Obj.trs_false, doAct, doRet, evalG, evalN, evalA,
    St.setN, St.getN, Fn.argsWithoutSelf, Fn.strips, stripsFirst, usesMultiple, maxAllowed, stripFrom]
  by_cases h1 : c.f.isPedantic = true <;> by_cases h2 : c.f.firstIsSelf = true <;> by_cases h3 : c.f.isStatic = true <;>
    simp [h1, h2, h3] <;> split <;> simp_all [Fn.isPedantic, Fn.isStatic, Fn.numDecorators]
/-- `clazz` fails exactly where the hand model says (`Fn.clazzFails`), with IndexError -/
theorem fnClazz_spec (c : Ctx) (ht : c.tracing = false) (o : Obj) (hi : o.inst = some c.f.firstIsSelf) :
    (c.f.clazzFails c.args = true → fnClazz c o = .fail (.escape "IndexError") o.obs) ∧
    (c.f.clazzFails c.args = false → ∃ v, fnClazz c o = .done v o) := by
  ir_unfold [fnClazz, clazzIR, ht, Fn.clazzFails, hi]
  cases hf : c.f.firstIsSelf <;> cases hb : c.f.isBound <;> cases hs : c.f.isStatic <;> cases hq : c.f.qualDotted <;> cases ha : c.args <;> simp

theorem fnAssertHasAnnotation_eq (c : Ctx) (ht : c.tracing = false) (p : Param) (o : Obj) :
    fnAssertHasAnnotation c p o = if p.ann.isNone then .fail .pedTypeCheck o.obs else .done .none o := by
  ir_unfold [fnAssertHasAnnotation, assertHasAnnotationIR, ht]
  all_goals try (split <;> simp)

theorem hasRequiredArgs_incompleteTop (a : Ann) :
    incompleteTop a = ((match a with | .bare o => o.isBuiltin && completeBareList.contains o.name | _ => false) || !hasRequiredArgs a) := by
  cases a <;> simp [incompleteTop, hasRequiredArgs, completeUsesRequiredArgs]

theorem fnAssertComplete_eq (c : Ctx) (ht : c.tracing = false) (a : Ann) (o : Obj) :
    fnAssertComplete c (some a) o = if incompleteTop a then .fail .pedTypeCheck o.obs else .done .none o := by
  ir_unfold [fnAssertComplete, assertCompleteIR, ht, hasRequiredArgs_incompleteTop, completeBareList]
  cases a <;> simp <;> split <;> simp_all
/-- the object `FunctionCall.__init__` leaves behind -/
def constructed (c : Ctx) (o : Obj) : Obj :=
  { o with hasFunc := true, hasArgs := true, hasKwargs := true, hasTypeVars := true, hasGetter := true,
           ctxSrcs := some [.callerContext, .funcGlobals], inst := some c.f.firstIsSelf, paramsWS := some c.f.withoutSelf,
           checked := some [], resolved := some false }

/-- when the receiver may come by keyword (`receiverMayBeKeyword`): an instance method is called with its receiver - positionally or as the
    keyword `self` (a call without any receiver is Python's own TypeError, unless `self` has a default) -/
def receiverSupplied (c : Ctx) : Prop :=
  receiverMayBeKeyword = true → c.f.firstIsSelf = true → c.args.isEmpty = true → (lookup c.kw c.f.selfName).isSome = true

theorem fnInit_eq (c : Ctx) (ht : c.tracing = false) (hrecv : receiverSupplied c) (o : Obj) :
    fnInit c o = if c.f.initFails c.args then .fail (.escape "IndexError") o.obs else .done .none (constructed c o) := by
  ir_unfold [fnInit, initIR, ht, constructed, Fn.withoutSelf, Fn.initFails, receiverMayBeKeyword]
  simp only [receiverSupplied, receiverMayBeKeyword] at hrecv
  have hcases : c.args = [] ∨ ∃ a0 rest, c.args = a0 :: rest := by cases c.args <;> simp
  rcases hcases with ha | ⟨a0, rest, ha⟩ <;> by_cases hf : c.f.firstIsSelf = true <;> cases hk : lookup c.kw c.f.selfName <;> simp_all [bne]

theorem fnGetReturnValue_eq (c : Ctx) (ht : c.tracing = false) (async : Bool) (hasync : async = (c.f.flavour == .coroutine)) (hm : c.f.mode = .pedantic) (o : Obj) :
    fnGetReturnValue c async o =
      (let b1 : Obs := { o.obs with fwdPos := fwdPosOf c.f c.args, fwdKw := c.kw.map (·.1) }
       if !c.f.binds (fwdPosOf c.f c.args).length (c.kw.map (·.1)) then .fail .bindTypeError b1 else
       match c.body with
       | .raises e => .fail (.bodyExc e) { b1 with bodyRan := true, bodyCalls := o.obs.bodyCalls + 1 }
       | .ret v => .done (.bodyVal v) { o with obs := { b1 with bodyRan := true, bodyCalls := o.obs.bodyCalls + 1 } }) := by
  subst hasync
  cases hfl : (c.f.flavour == Flavour.coroutine) <;>
    ir_unfold [fnGetReturnValue, getReturnValueIR, asyncGetReturnValueIR, ht, callBody, fwdPosOf, Fn.kwOnlyInvocation, kwargsOnlyInvocation, hm, hfl] <;>
    cases hs : c.f.isStatic <;> cases hb : c.f.isBound <;> cases hbd : c.body <;> simp [hfl] <;> split <;> simp_all
@[simp] theorem cs0_clazz (c : Ctx) : (cs0 c).clazz = fnClazz c := rfl
@[simp] theorem cs0_argsWithoutSelf (c : Ctx) : (cs0 c).argsWithoutSelf = fnArgsWithoutSelf c := rfl

theorem fnTypeVars_eq (c : Ctx) (ht : c.tracing = false) (o : Obj) (hi : o.inst = some c.f.firstIsSelf) (hg : o.hasGetter = true) :
    fnTypeVars c o =
      if o.resolved = some true then .done .typeVars o
      else if c.f.clazzFails c.args then .fail (.escape "IndexError") o.obs
      else .done .typeVars { o with resolved := some true } := by
  obtain ⟨a1, a2, a3, a4, a5, a6, a7, a8, a9, a10, a11⟩ := o
  simp only at hi hg
  subst hi hg
  have hc := fnClazz_spec c ht
  ir_unfold [fnTypeVars, typeVarsIR, ht, cs0_clazz]
  have h := hc ⟨a1, a2, a3, a4, true, a6, some c.f.firstIsSelf, a8, a9, a10, a11⟩ rfl
  by_cases hr : a10 = some true
  · simp [hr]
  · cases hcf : c.f.clazzFails c.args
    · obtain ⟨v, hv⟩ := h.2 hcf
      simp [hr, hv, St.setObj]
    · have hv := h.1 hcf
      have hf : c.f.firstIsSelf = false := by
        simp only [Fn.clazzFails, Bool.and_eq_true, Bool.not_eq_true'] at hcf
        exact hcf.1.1.1.1
      rw [hf] at hv
      simp [hr, hv, hf]
theorem fnAssertUsesKwargs_eq (c : Ctx) (ht : c.tracing = false) (hP : Printable c) (o : Obj) :
    fnAssertUsesKwargs c o =
      if (c.f.shouldHaveKwargs && !(c.f.argsWithoutSelf c.args).isEmpty) = true then .fail .pedCallWithArgs o.obs else .done .none o := by
  ir_unfold [fnAssertUsesKwargs, assertUsesKwargsIR, ht, cs0_argsWithoutSelf, fnArgsWithoutSelf_eq c ht, shouldHaveKwargsOf_eq, fmtRaises_false hP,
    Bool.false_eq_true, if_false]
  all_goals try (split <;> simp_all)
/-! ### `_check_type_param` -/
/-- one iteration of `checkParams`: the failure, or the positional index for the next parameter -/
def paramDecision (c : Ctx) (p : Param) (idx : Nat) : Except Caller Nat :=
  match p.ann with
  | none => .error .pedTypeCheck
  | some a =>
    match p.dflt with
    | none =>
      if c.f.shouldHaveKwargs then
        match lookup c.kw p.name with
        | none => .error .pedTypeCheck
        | some v => (match checkVal c.env c.orc c.f c.args a v with | some cl => .error cl | none => .ok idx)
      else
        match lookup c.kw p.name with
        | some v => (match checkVal c.env c.orc c.f c.args a v with | some cl => .error cl | none => .ok idx)
        | none =>
          match c.args[idx]? with
          | some w => (match checkVal c.env c.orc c.f c.args a w with | some cl => .error cl | none => .ok (idx + 1))
          | none => .error .pedTypeCheck
    | some d =>
      match checkVal c.env c.orc c.f c.args a ((lookup c.kw p.name).getD d) with | some cl => .error cl | none => .ok idx

theorem checkParams_cons (c : Ctx) (p : Param) (ps : List Param) (idx : Nat) :
    checkParams c.env c.orc c.f c.args c.kw (p :: ps) idx =
      match paramDecision c p idx with
      | .error cl => some cl
      | .ok idx' => checkParams c.env c.orc c.f c.args c.kw ps idx' := by
  simp only [checkParams, paramDecision, positionalParamFallsBack, orElse]
  repeat' split
  all_goals simp_all [orElse]
@[simp] theorem cs1_typeVars (c : Ctx) : (cs1 c).typeVars = fnTypeVars c := rfl
@[simp] theorem cs1_assertHasAnnotation (c : Ctx) : (cs1 c).assertHasAnnotation = fnAssertHasAnnotation c := rfl
@[simp] theorem cs1_assertComplete (c : Ctx) : (cs1 c).assertComplete = fnAssertComplete c := rfl

/-- the object is constructed as `__init__` leaves it, and the TypeVars were only resolved when `clazz` did not fail -/
structure Ready (c : Ctx) (o : Obj) : Prop where
  inst : o.inst = some c.f.firstIsSelf
  getter : o.hasGetter = true
  res : o.resolved = some true → c.f.clazzFails c.args = false

theorem ready_iff (c : Ctx) (o : Obj) : Ready c o ↔ o.inst = some c.f.firstIsSelf ∧ o.hasGetter = true ∧ (o.resolved = some true → c.f.clazzFails c.args = false) :=
  ⟨fun h => ⟨h.inst, h.getter, h.res⟩, fun h => ⟨h.1, h.2.1, h.2.2⟩⟩

theorem withTypeVars_eq (c : Ctx) (ht : c.tracing = false) (o : Obj) (hi : o.inst = some c.f.firstIsSelf) (hg : o.hasGetter = true)
    (hr : o.resolved = some true → c.f.clazzFails c.args = false) :
    withTypeVars (cs1 c) true o =
      if c.f.clazzFails c.args then .error (.escape "IndexError", o.obs) else .ok { o with resolved := some true } := by
  simp only [withTypeVars, cs1_typeVars, fnTypeVars_eq c ht o hi hg, if_true]
  by_cases h : o.resolved = some true
  · have := hr h
    obtain ⟨a1, a2, a3, a4, a5, a6, a7, a8, a9, a10, a11⟩ := o
    simp_all
  · simp only [h, if_false]
    by_cases hcf : c.f.clazzFails c.args = true <;> simp [hcf]

/-- conditional forms that `simp` can apply to whatever object the program has built at that point -/
theorem withTypeVars_fail (c : Ctx) (ht : c.tracing = false) (o : Obj) (hi : o.inst = some c.f.firstIsSelf) (hg : o.hasGetter = true)
    (hcf : c.f.clazzFails c.args = true) (hnr : ¬ o.resolved = some true) :
    withTypeVars (cs1 c) true o = .error (.escape "IndexError", o.obs) := by
  rw [withTypeVars_eq c ht o hi hg (fun h => absurd h hnr)]; simp [hcf]
theorem withTypeVars_ok (c : Ctx) (ht : c.tracing = false) (o : Obj) (hi : o.inst = some c.f.firstIsSelf) (hg : o.hasGetter = true)
    (hcf : c.f.clazzFails c.args = false) :
    withTypeVars (cs1 c) true o = .ok { o with resolved := some true } := by
  rw [withTypeVars_eq c ht o hi hg (fun _ => hcf)]; simp [hcf]

theorem ready_after_check (c : Ctx) (o : Obj) (hR : Ready c o) (an : Ann) (x : Val) (h : checkVal c.env c.orc c.f c.args an x = none) (l : Option (List NameId)) :
    Ready c { o with resolved := some true, checked := l } := by
  refine ⟨hR.inst, hR.getter, fun _ => ?_⟩
  simp only [checkVal] at h
  split at h <;> simp_all
/-- what one iteration of the parameter loop has to do (relative to the hand model's decision for this parameter) -/
def StepOK (c : Ctx) (p : Param) (s : St) (r : Res) : Prop :=
  match paramDecision c p s.loc.n0 with
  | .error cl => r = .raised cl s.obj.obs
  | .ok idx' => ∃ s', r = .cont s' ∧ s'.loc.n0 = idx' ∧ Ready c s'.obj ∧ s'.obj.checked = s.obj.checked.map (· ++ [p.name]) ∧
      s'.obj.paramsWS = s.obj.paramsWS ∧ s'.obj.obs = s.obj.obs

theorem iterList_params (c : Ctx) (hdr : Nat) (step : Param → St → Res)
    (hstep : ∀ p s, Ready c s.obj → (∃ l, s.obj.checked = some l) → StepOK c p s (step p s)) :
    ∀ (ps : List Param) (s : St) (l : List NameId), Ready c s.obj → s.obj.checked = some l →
      match checkParams c.env c.orc c.f c.args c.kw ps s.loc.n0 with
      | some cl => iterList false hdr step ps s = .raised cl s.obj.obs
      | none => ∃ s', iterList false hdr step ps s = .cont s' ∧ Ready c s'.obj ∧ s'.obj.checked = some (l ++ ps.map (·.name)) ∧
          s'.obj.paramsWS = s.obj.paramsWS ∧ s'.obj.obs = s.obj.obs := by
  intro ps
  induction ps with
  | nil => intro s l hR hl; simp [checkParams, iterList, hR, hl]
  | cons p ps ih =>
    intro s l hR hl
    have h1 := hstep p s hR ⟨l, hl⟩
    rw [checkParams_cons]
    simp only [StepOK] at h1
    cases hd : paramDecision c p s.loc.n0 with
    | error cl => simp only [hd] at h1 ⊢; simp [iterList, h1]
    | ok idx' =>
      simp only [hd] at h1 ⊢
      obtain ⟨s1, hs1, hn, hR1, hc1, hp1, ho1⟩ := h1
      have h2 := ih s1 (l ++ [p.name]) hR1 (by simp [hc1, hl])
      rw [hn] at h2
      simp only [iterList, St.tr_false, hs1, Res.bind_cont]
      cases hcp : checkParams c.env c.orc c.f c.args c.kw ps idx' with
      | some cl => simp only [hcp] at h2 ⊢; rw [h2, ho1]
      | none =>
        simp only [hcp] at h2 ⊢
        obtain ⟨s2, e2, hR2, hc2, hp2, ho2⟩ := h2
        exact ⟨s2, e2, hR2, by simp [hc2], by rw [hp2, hp1], by rw [ho2, ho1]⟩

theorem iterList_params' (c : Ctx) (hdr : Nat) (step : Param → St → Res) (ps : List Param) (s : St) (l : List NameId) (R : Res)
    (hS : iterList false hdr step ps s = R)
    (hstep : ∀ p s, Ready c s.obj → (∃ l, s.obj.checked = some l) → StepOK c p s (step p s))
    (hR : Ready c s.obj) (hl : s.obj.checked = some l) :
      match checkParams c.env c.orc c.f c.args c.kw ps s.loc.n0 with
      | some cl => R = .raised cl s.obj.obs
      | none => ∃ s', R = .cont s' ∧ Ready c s'.obj ∧ s'.obj.checked = some (l ++ ps.map (·.name)) ∧
          s'.obj.paramsWS = s.obj.paramsWS ∧ s'.obj.obs = s.obj.obs := by
  subst hS; exact iterList_params c hdr step hstep ps s l hR hl

theorem fnCheckTypeParam_spec (c : Ctx) (ht : c.tracing = false) (hP : Printable c) (ps : List Param) (o : Obj) (hR : Ready c o) (l : List NameId) (hl : o.checked = some l) :
    match checkParams c.env c.orc c.f c.args c.kw ps (if c.f.firstIsSelf then 1 else 0) with
    | some cl => fnCheckTypeParam c ps o = .fail cl o.obs
    | none => ∃ o', fnCheckTypeParam c ps o = .done .none o' ∧ Ready c o' ∧ o'.checked = some (l ++ ps.map (·.name)) ∧
        o'.paramsWS = o.paramsWS ∧ o'.obs = o.obs := by
  have hupP := printable_up hP
  have hupQ := printable_up' hP
  ir_unfold [fnCheckTypeParam, checkTypeParamIR, ht, cs1_assertHasAnnotation, fnAssertHasAnnotation_eq c ht]
  generalize hS : iterList false _ _ ps _ = R
  have key := iterList_params' c _ _ ps _ l R hS ?hstep hR hl
  case hstep =>
    clear hS hR hl
    intro p s hR hl
    obtain ⟨l, hl⟩ := hl
    simp only [StepOK, paramDecision]
    have hargs : (s.loc.n0 < c.args.length ∧ ∃ w, c.args[s.loc.n0]? = some w) ∨ (¬ s.loc.n0 < c.args.length ∧ c.args[s.loc.n0]? = none) := by
      by_cases h : s.loc.n0 < c.args.length
      · exact .inl ⟨h, _, List.getElem?_eq_getElem h⟩
      · exact .inr ⟨h, List.getElem?_eq_none (Nat.le_of_not_lt h)⟩
    by_cases hcf : c.f.clazzFails c.args = true
    · have hnr : ¬ s.obj.resolved = some true := fun h => by simp [hR.res h] at hcf
      rcases hargs with ⟨hlt, w, ha⟩ | ⟨hlt, ha⟩ <;>
      cases hann : p.ann <;> cases hd : p.dflt <;> by_cases hshk : c.f.shouldHaveKwargs = true <;> cases hk : lookup c.kw p.name <;>
        simp [hl, hann, hd, hshk, hk, ha, hlt, St.setObj, shouldHaveKwargsOf_eq, withTypeVars_fail c ht, hcf, hnr, hR.inst, hR.getter, checkVal, envFor, hupP, hupQ, failFmt, checkOutcome, fmtRaises_false hP, messagesUseSafeDescribe, List.all_cons, List.all_nil, assertMsgMayBeLazy]
    · rcases hargs with ⟨hlt, w, ha⟩ | ⟨hlt, ha⟩ <;>
      cases hann : p.ann <;> cases hd : p.dflt <;> by_cases hshk : c.f.shouldHaveKwargs = true <;> cases hk : lookup c.kw p.name <;>
        simp [hl, hann, hd, hshk, hk, ha, hlt, St.setObj, shouldHaveKwargsOf_eq, withTypeVars_ok c ht, hcf, hR.inst, hR.getter, checkVal, envFor, hupP, hupQ, failFmt, checkOutcome, fmtRaises_false hP, messagesUseSafeDescribe, List.all_cons, List.all_nil, assertMsgMayBeLazy]
      all_goals
        generalize checkType c.env c.orc _ _ = r
        cases r <;> simp [ofOut, ready_iff, hcf, hupP, hupQ, failFmt, checkOutcome, fmtRaises_false hP, messagesUseSafeDescribe, List.all_cons, List.all_nil, assertMsgMayBeLazy]
  clear hS
  simp only at key
  cases hfs : c.f.firstIsSelf <;> simp only [hfs, if_true, if_false, Bool.false_eq_true, reduceIte] at key ⊢ <;> split at key
  all_goals first
    | (rename_i cl heq; simp [heq, key]; done)
    | (rename_i heq; obtain ⟨s', e, h1, h2, h3, h4⟩ := key; (try simp only [heq]); exact ⟨s'.obj, by simp [e], h1, h2, h3, h4⟩)
/-! ### `_check_types_args`, `_check_types_kwargs` -/
/-- what one iteration of a value loop has to do -/
def StepV (c : Ctx) (a : Ann) (v : Val) (s : St) (r : Res) (I : St → Prop) : Prop :=
  match checkVal c.env c.orc c.f c.args a v with
  | some cl => r = .raised cl s.obj.obs
  | none => ∃ s', r = .cont s' ∧ Ready c s'.obj ∧ I s' ∧ s'.obj.checked = s.obj.checked ∧ s'.obj.paramsWS = s.obj.paramsWS ∧ s'.obj.obs = s.obj.obs

theorem iterList_checkAll {β γ : Type} (c : Ctx) (hdr : Nat) (step : γ → St → Res) (a : Ann) (I : St → Prop) (key : β → γ) (val : β → Val) :
    ∀ (xs : List β), (∀ x ∈ xs, ∀ s, Ready c s.obj → I s → StepV c a (val x) s (step (key x) s) I) →
    ∀ s, Ready c s.obj → I s →
      match checkAll c.env c.orc c.f c.args a (xs.map val) with
      | some cl => iterList false hdr step (xs.map key) s = .raised cl s.obj.obs
      | none => ∃ s', iterList false hdr step (xs.map key) s = .cont s' ∧ Ready c s'.obj ∧ I s' ∧ s'.obj.checked = s.obj.checked ∧
          s'.obj.paramsWS = s.obj.paramsWS ∧ s'.obj.obs = s.obj.obs := by
  intro xs
  induction xs with
  | nil => intro _ s hR hI; simp [checkAll, iterList, hR, hI]
  | cons x xs ih =>
    intro hstep s hR hI
    have h1 := hstep x (by simp) s hR hI
    simp only [StepV] at h1
    simp only [List.map_cons, checkAll, iterList, St.tr_false]
    cases hcv : checkVal c.env c.orc c.f c.args a (val x) with
    | some cl => simp only [hcv] at h1; simp [orElse, h1]
    | none =>
      simp only [hcv] at h1
      obtain ⟨s1, e1, hR1, hI1, hc1, hp1, ho1⟩ := h1
      have h2 := ih (fun y hy => hstep y (by simp [hy])) s1 hR1 hI1
      simp only [orElse, e1, Res.bind_cont]
      split at h2
      · rename_i cl heq; (try simp only [heq]); rw [h2, ho1]
      · rename_i heq
        obtain ⟨s2, e2, hR2, hI2, hc2, hp2, ho2⟩ := h2
        try simp only [heq]
        exact ⟨s2, e2, hR2, hI2, by rw [hc2, hc1], by rw [hp2, hp1], by rw [ho2, ho1]⟩

/-- the decision of `_check_types_args` / `_check_types_kwargs` for the star parameter (the first of `ps`, if any) and the values it receives -/
def starDecision (c : Ctx) (ps : List Param) (vals : List Val) : Option Caller :=
  match ps with
  | [] => none
  | p :: _ => match p.ann with
    | none => some .pedTypeCheck
    | some a => if incompleteTop a then some .pedTypeCheck else checkAll c.env c.orc c.f c.args a vals
theorem iterList_checkAll' {β γ : Type} (c : Ctx) (hdr : Nat) (step : γ → St → Res) (a : Ann) (I : St → Prop) (key : β → γ) (val : β → Val)
    (xs : List β) (ks : List γ) (hks : ks = xs.map key) (s : St) (R : Res) (hS : iterList false hdr step ks s = R)
    (hstep : ∀ x ∈ xs, ∀ s, Ready c s.obj → I s → StepV c a (val x) s (step (key x) s) I) (hR : Ready c s.obj) (hI : I s) :
      match checkAll c.env c.orc c.f c.args a (xs.map val) with
      | some cl => R = .raised cl s.obj.obs
      | none => ∃ s', R = .cont s' ∧ Ready c s'.obj ∧ I s' ∧ s'.obj.checked = s.obj.checked ∧
          s'.obj.paramsWS = s.obj.paramsWS ∧ s'.obj.obs = s.obj.obs := by
  subst hS hks; exact iterList_checkAll c hdr step a I key val xs hstep s hR hI

/-- `_check_types_args`, given the parameters the caller selected -/
theorem fnCheckTypesArgs_spec (c : Ctx) (ht : c.tracing = false) (hP : Printable c) (ps : List Param) (o : Obj) (hR : Ready c o) :
    match starDecision c ps (c.args.drop c.f.nPositional) with
    | some cl => fnCheckTypesArgs c ps o = .fail cl o.obs
    | none => ∃ o', fnCheckTypesArgs c ps o = .done .none o' ∧ Ready c o' ∧ o'.checked = o.checked ∧ o'.paramsWS = o.paramsWS ∧ o'.obs = o.obs := by
  have hupP := printable_up hP
  have hupQ := printable_up' hP
  cases ps with
  | nil => ir_unfold [fnCheckTypesArgs, checkTypesArgsIR, ht, starDecision]; simp [hR]
  | cons p rest =>
    cases hann : p.ann with
    | none => ir_unfold [fnCheckTypesArgs, checkTypesArgsIR, ht, starDecision, hann, cs1_assertHasAnnotation, fnAssertHasAnnotation_eq c ht]; simp [hann]
    | some a =>
      by_cases hinc : incompleteTop a = true
      · ir_unfold [fnCheckTypesArgs, checkTypesArgsIR, ht, starDecision, hann, hinc, cs1_assertHasAnnotation, cs1_assertComplete, fnAssertHasAnnotation_eq c ht,
          fnAssertComplete_eq c ht]
        simp [hann, hinc, fnAssertComplete_eq c ht, St.setObj]
      · ir_unfold [fnCheckTypesArgs, checkTypesArgsIR, ht, starDecision, hann, hinc, cs1_assertHasAnnotation, cs1_assertComplete, fnAssertHasAnnotation_eq c ht,
          fnAssertComplete_eq c ht]
        simp [hann, hinc, fnAssertComplete_eq c ht, St.setObj]
        generalize hS : iterList false _ _ (List.drop c.f.nPositional c.args) _ = R
        have key := iterList_checkAll' (β := Val) c _ _ a (fun s => s.loc.a0 = some (some a)) id id (List.drop c.f.nPositional c.args) _ (by simp) _ R hS ?hstep hR rfl
        case hstep =>
          clear hS
          intro v _ s hR hI
          have hw := withTypeVars_eq c ht s.obj hR.inst hR.getter hR.res
          simp only [StepV, checkVal, id]
          by_cases hcf : c.f.clazzFails c.args = true <;> simp [hcf, hI, hw, envFor]
          generalize checkType c.env c.orc _ _ = r
          cases r <;> simp [ofOut, ready_iff, hcf, hR.inst, hR.getter, hI, hupP, hupQ, failFmt, checkOutcome, fmtRaises_false hP, messagesUseSafeDescribe, List.all_cons, List.all_nil, assertMsgMayBeLazy]
          all_goals exact hupQ _
        clear hS
        simp only [List.map_id] at key
        split at key
        · rename_i cl heq; simp [heq, key]
        · rename_i heq
          obtain ⟨s', e, h1, _, h2, h3, h4⟩ := key
          try simp only [heq]
          exact ⟨s'.obj, by simp [e], h1, h2, h3, h4⟩
theorem lookup_of_mem_nodup : ∀ (kw : List (NameId × Val)) (kv : NameId × Val), (kw.map (·.1)).Nodup → kv ∈ kw → lookup kw kv.1 = some kv.2 := by
  intro kw
  induction kw with
  | nil => intro kv _ h; simp at h
  | cons x rest ih =>
    intro kv hnd hm
    simp only [List.map_cons, List.nodup_cons] at hnd
    simp only [List.mem_cons] at hm
    rcases hm with rfl | hm
    · simp [Call.lookup]
    · have hne : ¬ (x.1 = kv.1) := by
        intro he
        exact hnd.1 (he ▸ List.mem_map_of_mem hm)
      simp [Call.lookup, hne, ih kv hnd.2 hm]

@[simp] theorem cs1_notYetChecked (c : Ctx) : (cs1 c).notYetChecked = fnNotYetChecked c := rfl
/-- what `not_yet_check_kwargs` yields when the names `l` have been checked: the other keyword arguments - without the receiver of a
    method passed by keyword, since the repair `dstarSkipsReceiverKeyword` -/
def pendingKw (c : Ctx) (l : List NameId) : List (NameId × Val) :=
  c.kw.filter fun kv => !l.contains kv.1 && !(dstarSkipsReceiverKeyword && c.f.firstIsSelf && kv.1 == c.f.selfName)
theorem fnNotYetChecked_eq (c : Ctx) (ht : c.tracing = false) (o : Obj) (l : List NameId) (hl : o.checked = some l) :
    fnNotYetChecked c o = .done (.keys ((pendingKw c l).map (·.1))) o := by
  ir_unfold [fnNotYetChecked, notYetCheckedIR, ht, hl, pendingKw, dstarSkipsReceiverKeyword]
  all_goals try (by_cases hf : c.f.firstIsSelf = true <;> simp [hf])

/-- `_check_types_kwargs`, given the parameters the caller selected and the names checked so far -/
theorem fnCheckTypesKwargs_spec (c : Ctx) (ht : c.tracing = false) (hP : Printable c) (ps : List Param) (o : Obj) (hR : Ready c o) (hnd : (c.kw.map (·.1)).Nodup)
    (l : List NameId) (hl : o.checked = some l) :
    match starDecision c ps ((pendingKw c l).map (·.2)) with
    | some cl => fnCheckTypesKwargs c ps o = .fail cl o.obs
    | none => ∃ o', fnCheckTypesKwargs c ps o = .done .none o' ∧ Ready c o' ∧ o'.checked = o.checked ∧ o'.paramsWS = o.paramsWS ∧ o'.obs = o.obs := by
  have hupP := printable_up hP
  have hupQ := printable_up' hP
  cases ps with
  | nil => ir_unfold [fnCheckTypesKwargs, checkTypesKwargsIR, ht, starDecision]; simp [hR]
  | cons p rest =>
    cases hann : p.ann with
    | none => ir_unfold [fnCheckTypesKwargs, checkTypesKwargsIR, ht, starDecision, hann, cs1_assertHasAnnotation, fnAssertHasAnnotation_eq c ht]; simp [hann]
    | some a =>
      by_cases hinc : incompleteTop a = true
      · ir_unfold [fnCheckTypesKwargs, checkTypesKwargsIR, ht, starDecision, hann, hinc, cs1_assertHasAnnotation, cs1_assertComplete, fnAssertHasAnnotation_eq c ht,
          fnAssertComplete_eq c ht]
        simp [hann, hinc, fnAssertComplete_eq c ht, St.setObj]
      · ir_unfold [fnCheckTypesKwargs, checkTypesKwargsIR, ht, starDecision, hann, hinc, cs1_assertHasAnnotation, cs1_assertComplete, fnAssertHasAnnotation_eq c ht,
          fnAssertComplete_eq c ht]
        simp [hann, hinc, fnAssertComplete_eq c ht, St.setObj, cs1_notYetChecked, fnNotYetChecked_eq c ht _ l hl]
        generalize hS : iterList false _ _ _ _ = R
        have key := iterList_checkAll' (β := NameId × Val) c _ _ a (fun s => s.loc.p = some p) Prod.fst Prod.snd _ _ rfl _ R hS ?hstep hR rfl
        case hstep =>
          clear hS
          intro kv hkv s hR hI
          have hlk := lookup_of_mem_nodup c.kw kv hnd (List.mem_filter.mp hkv).1
          have hw := withTypeVars_eq c ht s.obj hR.inst hR.getter hR.res
          simp only [StepV, checkVal]
          by_cases hcf : c.f.clazzFails c.args = true <;> simp [hcf, hI, hw, envFor, hlk, hann]
          generalize checkType c.env c.orc _ _ = r
          cases r <;> simp [ofOut, ready_iff, hcf, hR.inst, hR.getter, hI, hupP, hupQ, failFmt, checkOutcome, fmtRaises_false hP, messagesUseSafeDescribe, List.all_cons, List.all_nil, assertMsgMayBeLazy]
          all_goals exact hupQ _
        clear hS
        split at key
        · rename_i cl heq; simp [heq, key]
        · rename_i heq
          obtain ⟨s', e, h1, _, h2, h3, h4⟩ := key
          try simp only [heq]
          exact ⟨s'.obj, by simp [e], h1, by simpa [hl] using h2, h3, h4⟩
/-! ### `_check_types_return`, `_check_types_of_arguments` -/
/-- `_check_types_return`: what the caller observes is the hand model's `retCheck` -/
theorem fnCheckTypesReturn_eq (c : Ctx) (ht : c.tracing = false) (hP : Printable c) (v : Val) (o : Obj) (hR : Ready c o) (hb : o.obs.bodyRan = true) :
    toResult (fnCheckTypesReturn c v o) = retCheck c.env c.orc c.f c.args (.ret v) o.obs.fwdPos o.obs.fwdKw := by
  have hupP := printable_up hP
  have hupQ := printable_up' hP
  have hw := withTypeVars_eq c ht o hR.inst hR.getter hR.res
  cases hra : c.f.retAnn with
  | none => ir_unfold [fnCheckTypesReturn, checkTypesReturnIR, ht, hra, retCheck]; simp [toResult, hb]
  | some a =>
    ir_unfold [fnCheckTypesReturn, checkTypesReturnIR, ht, hra, retCheck]
    by_cases hg : c.f.flavour = .generator <;> by_cases hcf : c.f.clazzFails c.args = true <;>
      simp [hra, hg, hcf, hw, toResult, hb, checkVal, envFor, hupP, hupQ, failFmt, checkOutcome, fmtRaises_false hP, messagesUseSafeDescribe, List.all_cons, List.all_nil, assertMsgMayBeLazy]
    · cases hgr : c.f.genRet <;> simp [toResult, hb]
    · cases hco : checkType c.env c.orc a v <;> simp [toResult, hb, ofOut]
@[simp] theorem cs2_checkFn (c : Ctx) : (cs2 c).checkFn = fnCheck c := rfl
@[simp] theorem psw_star (p : Param) : paramStartsWith p "*" = isStar p.kind := by simp [paramStartsWith]
@[simp] theorem psw_dstar (p : Param) : paramStartsWith p "**" = (p.kind == .varKw) := by simp [paramStartsWith]

theorem filter_star (l : List Param) : l.filter (fun p => isStar p.kind && !(p.kind == .varKw)) = l.filter (fun p => p.kind == .varPos) := by
  apply List.filter_congr
  intro p _
  cases p.kind <;> rfl

theorem checkStar_eq (c : Ctx) :
    checkStar c.env c.orc c.f c.args = starDecision c (c.f.withoutSelf.filter fun p => p.kind == .varPos) (c.args.drop c.f.nPositional) := by
  simp only [checkStar, Fn.star, starDecision, starRequiresAnnotation, starRequiresComplete, starChecksBoundValuesOnly]
  cases List.filter (fun p => p.kind == PKind.varPos) c.f.withoutSelf with
  | nil => simp
  | cons p rest => cases hann : p.ann <;> simp [hann]

theorem extraKw_eq (c : Ctx) : extraKw c.f c.kw = pendingKw c (c.f.plain.map (·.name)) := by
  simp only [extraKw, pendingKw]
  apply List.filter_congr
  intro kv _
  congr 2
  induction c.f.plain with
  | nil => simp
  | cons q qs ih =>
    simp only [List.any_cons, List.map_cons, List.contains_cons, ih]
    congr 1
    exact Bool.eq_iff_iff.mpr (by simp only [beq_iff_eq, decide_eq_true_eq]; exact eq_comm)

theorem checkDStar_eq (c : Ctx) :
    checkDStar c.env c.orc c.f c.args c.kw =
      starDecision c (c.f.withoutSelf.filter fun p => p.kind == .varKw) ((pendingKw c (c.f.plain.map (·.name))).map (·.2)) := by
  simp only [checkDStar, Fn.dstar, starDecision, dstarRequiresAnnotation, dstarRequiresComplete, extraKw_eq c]
  cases List.filter (fun p => p.kind == PKind.varKw) c.f.withoutSelf with
  | nil => simp
  | cons p rest => cases hann : p.ann <;> simp [hann]

theorem fnCheckArguments_spec (c : Ctx) (ht : c.tracing = false) (hP : Printable c) (o : Obj) (hR : Ready c o) (hp : o.paramsWS = some c.f.withoutSelf)
    (hc : o.checked = some []) (hnd : (c.kw.map (·.1)).Nodup) :
    match checkArguments c.env c.orc c.f c.args c.kw with
    | some cl => fnCheckArguments c o = .fail cl o.obs
    | none => ∃ o', fnCheckArguments c o = .done .none o' ∧ Ready c o' ∧ o'.obs = o.obs := by
  ir_unfold [fnCheckArguments, checkArgumentsIR, ht, hp, cs2_checkFn, fnCheck, psw_star, psw_dstar, filter_star]
  have h1 := fnCheckTypeParam_spec c ht hP c.f.plain o hR [] hc
  have e0 : checkArguments c.env c.orc c.f c.args c.kw =
      orElse (checkParams c.env c.orc c.f c.args c.kw c.f.plain (if c.f.firstIsSelf then 1 else 0)) fun _ =>
      orElse (checkStar c.env c.orc c.f c.args) fun _ => checkDStar c.env c.orc c.f c.args c.kw := by
    simp [checkArguments, argumentChecks]
  rw [e0, checkStar_eq, checkDStar_eq]
  simp only [Fn.plain] at h1 ⊢
  split at h1
  · rename_i cl heq
    simp [heq, orElse, h1]
  · rename_i heq
    obtain ⟨o1, e1, hR1, hc1, hp1, ho1⟩ := h1
    simp only [heq, orElse, e1, ofCallee_done, St.setObj, Res.bind_cont, hp1, hp]
    have h2 := fnCheckTypesArgs_spec c ht hP (c.f.withoutSelf.filter fun p => p.kind == .varPos) o1 hR1
    split at h2
    · rename_i cl heq2
      simp [heq2, h2, ho1]
    · rename_i heq2
      obtain ⟨o2, e2, hR2, hc2, hp2, ho2⟩ := h2
      simp only [heq2, e2, ofCallee_done, St.setObj, Res.bind_cont, hp2, hp1, hp]
      have h3 := fnCheckTypesKwargs_spec c ht hP (c.f.withoutSelf.filter fun p => p.kind == .varKw) o2 hR2 hnd _ (by rw [hc2, hc1])
      simp only [List.nil_append] at h3
      split at h3
      · rename_i cl heq3
        simp only [heq3, h3, ho2, ho1, ofCallee_fail, Res.bind_raised, Res.toOut_raised]
      · rename_i heq3
        obtain ⟨o3, e3, hR3, hc3, hp3, ho3⟩ := h3
        simp only [heq3, e3, ofCallee_done, St.setObj, Res.bind_cont, Res.toOut_cont]
        exact ⟨o3, rfl, hR3, by rw [ho3, ho2, ho1]⟩
/-! ### `check_types`, the wrappers -/
@[simp] theorem cs3_checkArguments (c : Ctx) : (cs3 c).checkArguments = fnCheckArguments c := rfl
@[simp] theorem cs3_getReturnValue (c : Ctx) : (cs3 c).getReturnValue = fnGetReturnValue c := rfl
@[simp] theorem cs3_checkTypesReturn (c : Ctx) : (cs3 c).checkTypesReturn = fnCheckTypesReturn c := rfl

/-- `check_types` / `async_check_types` (the one that matches the flavour of the function) -/
theorem fnCheckTypes_eq (c : Ctx) (ht : c.tracing = false) (hP : Printable c) (hm : c.f.mode = .pedantic) (o : Obj) (hR : Ready c o) (hp : o.paramsWS = some c.f.withoutSelf)
    (hc : o.checked = some []) (hobs : o.obs = {}) (hnd : (c.kw.map (·.1)).Nodup) :
    toResult (fnCheckTypes c (c.f.flavour == .coroutine) o) =
      match checkArguments c.env c.orc c.f c.args c.kw with
      | some cl => ⟨cl, false, [], []⟩
      | none => invoke c.env c.orc c.f c.args c.kw c.body := by
  have h1 := fnCheckArguments_spec c ht hP o hR hp hc hnd
  split at h1
  · rename_i cl heq
    cases hfl : (c.f.flavour == Flavour.coroutine) <;>
      ir_unfold [fnCheckTypes, checkTypesIR, asyncCheckTypesIR, ht, cs3_checkArguments, cs3_getReturnValue, cs3_checkTypesReturn, h1, hfl] <;>
      simp [toResult, hobs, heq]
  · rename_i heq
    obtain ⟨o1, e1, hR1, ho1⟩ := h1
    have hg := fnGetReturnValue_eq c ht _ rfl hm o1
    have hb1 : o1.obs = {} := by rw [ho1, hobs]
    simp only [invoke, hm]
    cases hfl : (c.f.flavour == Flavour.coroutine) <;> rw [hfl] at hg <;>
      ir_unfold [fnCheckTypes, checkTypesIR, asyncCheckTypesIR, ht, cs3_checkArguments, cs3_getReturnValue, cs3_checkTypesReturn, e1, hfl, hg] <;>
      by_cases hbd : c.f.binds (fwdPosOf c.f c.args).length (c.kw.map (·.1)) = true <;> cases hbody : c.body <;>
      simp [hbd, hbody, hb1, heq]
    all_goals first
      | (simp [toResult, retCheck]; done)
      | exact fnCheckTypesReturn_eq c ht hP _ _ ⟨hR1.inst, hR1.getter, hR1.res⟩ rfl
@[simp] theorem cs4_init (c : Ctx) : (cs4 c).init = fnInit c := rfl
@[simp] theorem cs4_assertUsesKwargs (c : Ctx) : (cs4 c).assertUsesKwargs = fnAssertUsesKwargs c := rfl
@[simp] theorem cs4_checkTypes (c : Ctx) : (cs4 c).checkTypes = fnCheckTypes c := rfl

/-- `decorator` hands out `async_wrapper` exactly for coroutine functions -/
theorem selectsAsync_eq (c : Ctx) (ht : c.tracing = false) : selectsAsync c = (c.f.flavour == .coroutine) := by
  ir_unfold [selectsAsync, pedSelectIR, ht]
  cases (c.f.flavour == Flavour.coroutine) <;> simp

theorem ready_constructed (c : Ctx) (o : Obj) : Ready c (constructed c o) := ⟨rfl, rfl, fun h => by simp [constructed] at h⟩

/-- the interpretation of the wrapper that is handed out = the hand model's `runCall` -/
theorem runWrapper_eq (c : Ctx) (ht : c.tracing = false) (hP : Printable c) (hrecv : receiverSupplied c) (hnd : (c.kw.map (·.1)).Nodup) :
    toResult (runWrapper c) = runCall c.env c.orc c.f c.args c.kw c.body := by
  unfold runWrapper runCall
  cases hm : c.f.mode with
  | pedantic =>
    simp only [selectsAsync_eq c ht]
    have hct := fnCheckTypes_eq c ht hP hm (constructed c {}) (ready_constructed c {}) rfl rfl rfl hnd
    cases hfl : (c.f.flavour == Flavour.coroutine) <;> rw [hfl] at hct <;>
      ir_unfold [pedWrapperIR, pedAsyncWrapperIR, ht, cs4_init, cs4_assertUsesKwargs, cs4_checkTypes, fnInit_eq c ht hrecv, fnAssertUsesKwargs_eq c ht hP, hfl] <;>
      by_cases hinit : c.f.initFails c.args = true <;>
      by_cases hkw : (c.f.shouldHaveKwargs && !(c.f.argsWithoutSelf c.args).isEmpty) = true <;>
      simp [hinit, hkw, argsCheckedBeforeBody, St.setObj]
    all_goals first
      | exact hct
      | (simp [toResult, constructed]; done)
  | requireKwargs =>
    ir_unfold [rkWrapperIR, ht, cs4_init, cs4_assertUsesKwargs, cs4_checkTypes, fnInit_eq c ht hrecv, fnAssertUsesKwargs_eq c ht hP]
    by_cases hinit : c.f.initFails c.args = true <;>
      by_cases hkw : (c.f.shouldHaveKwargs && !(c.f.argsWithoutSelf c.args).isEmpty) = true <;>
      simp [hinit, hkw, St.setObj, invoke, hm, callBody, fwdPosOf, Fn.kwOnlyInvocation]
    all_goals first
      | (simp [toResult, constructed]; done)
      | (by_cases hbd : c.f.binds c.args.length (c.kw.map (·.1)) = true <;> cases hbody : c.body <;> simp [hbd, hbody, toResult, constructed]; done)

/-! ### how often the function is invoked -/
/-- `_check_types_return` never invokes the function -/
theorem fnCheckTypesReturn_calls (c : Ctx) (ht : c.tracing = false) (hP : Printable c) (v : Val) (o : Obj) (hR : Ready c o) :
    (fnCheckTypesReturn c v o).obs.bodyCalls = o.obs.bodyCalls := by
  have hupP := printable_up hP
  have hupQ := printable_up' hP
  have hw := withTypeVars_eq c ht o hR.inst hR.getter hR.res
  cases hra : c.f.retAnn with
  | none => ir_unfold [fnCheckTypesReturn, checkTypesReturnIR, ht, hra, retCheck]; simp [Out.obs]
  | some a =>
    ir_unfold [fnCheckTypesReturn, checkTypesReturnIR, ht, hra, retCheck]
    by_cases hg : c.f.flavour = .generator <;> by_cases hcf : c.f.clazzFails c.args = true <;>
      simp [hra, hg, hcf, hw, Out.obs, checkVal, envFor, hupP, hupQ, failFmt, checkOutcome, fmtRaises_false hP, messagesUseSafeDescribe, List.all_cons, List.all_nil, assertMsgMayBeLazy]
    · cases hgr : c.f.genRet <;> simp [Out.obs]
    · cases hco : checkType c.env c.orc a v <;> simp [Out.obs, ofOut]
theorem fnCheckTypes_calls (c : Ctx) (ht : c.tracing = false) (hP : Printable c) (hm : c.f.mode = .pedantic) (o : Obj) (hR : Ready c o)
    (hp : o.paramsWS = some c.f.withoutSelf) (hc : o.checked = some []) (hobs : o.obs = {}) (hnd : (c.kw.map (·.1)).Nodup) :
    (fnCheckTypes c (c.f.flavour == .coroutine) o).obs.bodyCalls =
      match checkArguments c.env c.orc c.f c.args c.kw with
      | some _ => 0
      | none => if c.f.binds (fwdPosOf c.f c.args).length (c.kw.map (·.1)) then 1 else 0 := by
  have h1 := fnCheckArguments_spec c ht hP o hR hp hc hnd
  split at h1
  · rename_i cl heq
    cases hfl : (c.f.flavour == Flavour.coroutine) <;>
      ir_unfold [fnCheckTypes, checkTypesIR, asyncCheckTypesIR, ht, cs3_checkArguments, cs3_getReturnValue, cs3_checkTypesReturn, h1, hfl] <;>
      simp [Out.obs, hobs, heq]
  · rename_i heq
    obtain ⟨o1, e1, hR1, ho1⟩ := h1
    have hg := fnGetReturnValue_eq c ht _ rfl hm o1
    have hb1 : o1.obs = {} := by rw [ho1, hobs]
    cases hfl : (c.f.flavour == Flavour.coroutine) <;> rw [hfl] at hg <;>
      ir_unfold [fnCheckTypes, checkTypesIR, asyncCheckTypesIR, ht, cs3_checkArguments, cs3_getReturnValue, cs3_checkTypesReturn, e1, hfl, hg] <;>
      by_cases hbd : c.f.binds (fwdPosOf c.f c.args).length (c.kw.map (·.1)) = true <;> cases hbody : c.body <;>
      simp [hbd, hbody, hb1, heq]
    all_goals first
      | (simp [Out.obs]; done)
      | exact fnCheckTypesReturn_calls c ht hP _ _ ⟨hR1.inst, hR1.getter, hR1.res⟩
/-- **the function is invoked at most once per call, and exactly once when the body ran**: the number of invocations the interpretation of the
    wrapper performs (a `Nat` counter, incremented by every `self.func.func(…)` / `func(*args, **kwargs)` statement that is executed) -/
theorem runWrapper_calls (c : Ctx) (ht : c.tracing = false) (hP : Printable c) (hrecv : receiverSupplied c) (hnd : (c.kw.map (·.1)).Nodup) :
    (runWrapper c).obs.bodyCalls = if (runCall c.env c.orc c.f c.args c.kw c.body).bodyRan then 1 else 0 := by
  unfold runWrapper runCall
  cases hm : c.f.mode with
  | pedantic =>
    simp only [selectsAsync_eq c ht]
    have hct := fnCheckTypes_calls c ht hP hm (constructed c {}) (ready_constructed c {}) rfl rfl rfl hnd
    cases hfl : (c.f.flavour == Flavour.coroutine) <;> rw [hfl] at hct <;>
      ir_unfold [pedWrapperIR, pedAsyncWrapperIR, ht, cs4_init, cs4_assertUsesKwargs, cs4_checkTypes, fnInit_eq c ht hrecv, fnAssertUsesKwargs_eq c ht hP, hfl] <;>
      by_cases hinit : c.f.initFails c.args = true <;>
      by_cases hkw : (c.f.shouldHaveKwargs && !(c.f.argsWithoutSelf c.args).isEmpty) = true <;>
      simp [hinit, hkw, argsCheckedBeforeBody, St.setObj]
    all_goals first
      | (simp [Out.obs, constructed]; done)
      | (rw [hct]; cases hca : checkArguments c.env c.orc c.f c.args c.kw <;> simp [invoke, hm]
         by_cases hbd : c.f.binds (fwdPosOf c.f c.args).length (c.kw.map (·.1)) = true <;> simp [hbd, retCheck]
         cases c.body <;> simp
         all_goals (repeat' split) <;> simp)
  | requireKwargs =>
    ir_unfold [rkWrapperIR, ht, cs4_init, cs4_assertUsesKwargs, cs4_checkTypes, fnInit_eq c ht hrecv, fnAssertUsesKwargs_eq c ht hP]
    by_cases hinit : c.f.initFails c.args = true <;>
      by_cases hkw : (c.f.shouldHaveKwargs && !(c.f.argsWithoutSelf c.args).isEmpty) = true <;>
      simp [hinit, hkw, St.setObj, invoke, hm, callBody, fwdPosOf, Fn.kwOnlyInvocation]
    all_goals first
      | (simp [Out.obs, constructed]; done)
      | (by_cases hbd : c.f.binds c.args.length (c.kw.map (·.1)) = true <;> cases hbody : c.body <;> simp [hbd, hbody, Out.obs, constructed]; done)

/-- **Refinement.** For all inputs (keyword names pairwise distinct, as Python guarantees) the interpretation of the translated
    wrapper body - `pedantic.wrapper` / `async_wrapper` as `decorator` selects them, `require_kwargs.wrapper`, and every function of
    `FunctionCall` / `DecoratedFunction` they reach - yields what the hand-written model `runCall` yields. -/
theorem runCallIR_eq (env : Env) (orc : Nat → Val → Raw) (f : Fn) (args : List Val) (kw : List (NameId × Val)) (body : BodyOut) (w : World)
    (up : Val → Bool) (hP : (∀ v, up v = false) ∨ messagesUseSafeDescribe = true)
    (hrecv : receiverMayBeKeyword = true → f.firstIsSelf = true → args.isEmpty = true → (lookup kw f.selfName).isSome = true)
    (hnd : (kw.map (·.1)).Nodup) :
    runCallIR env orc f args kw body w up = runCall env orc f args kw body :=
  runWrapper_eq ⟨env, orc, f, args, kw, body, w, up, false⟩ rfl hP hrecv hnd
end PedVerif.CallIR
