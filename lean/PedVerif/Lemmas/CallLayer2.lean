import PedVerif.Lemmas.CallLayer
/-! Call-layer lemmas that connect the model's checks with the spec `conforms` through C01 (soundness) and C02 (completeness). -/
namespace PedVerif.Call
open PedVerif.Checker PedVerif.Gen.CallTables

/-- what a value that takes part in a call has to satisfy for `checkType` to be sound on it (C01): well-formed, free of one-shot iterators, and the
    **local** string-annotation guard against every annotation of the signature (`Ann.strAnnOk`: `true` by definition for every
    annotation that is not a string naming no class of the context; for such a string: no class of this value's MRO has that name) -/
def ValOk (env : Env) (f : Fn) (v : Val) : Prop :=
  (v.wf env = true ∧ v.iterFree = true) ∧ ∀ p ∈ f.params, ∀ a, p.ann = some a → a.strAnnOk env v = true

/-- the side conditions under which `checkType` is sound (C01): class table, annotations, and - per supplied value - `ValOk` -/
structure SoundCtx (env : Env) (f : Fn) (args : List Val) (kw : List (NameId × Val)) : Prop where
  hw : WfEnv env
  anns : ∀ p ∈ f.params, ∀ a, p.ann = some a → a.noSpecial = true
  dflts : ∀ p ∈ f.params, ∀ d, p.dflt = some d → ValOk env f d
  args : ∀ v ∈ args, ValOk env f v
  kw : ∀ kv ∈ kw, ValOk env f kv.2

/-- a signature without string annotations: the guard part of `ValOk` is free -/
theorem ValOk.of_no_str {env : Env} {f : Fn} {v : Val} (h : ∀ p ∈ f.params, ∀ a, p.ann = some a → ∀ n, a ≠ .strAnn n)
    (hv : v.wf env = true ∧ v.iterFree = true) : ValOk env f v :=
  ⟨hv, fun p hp a ha => strAnnOk_of_not_str (h p hp a ha) v⟩

theorem lookup_mem {β} {kw : List (NameId × β)} {k : NameId} {v : β} (h : lookup kw k = some v) : (k, v) ∈ kw := by
  induction kw with
  | nil => simp [lookup] at h
  | cons kv rest ih =>
    obtain ⟨k', v'⟩ := kv
    simp only [lookup] at h
    split at h
    · rename_i hk; simp at hk; simp at h; subst hk; subst h; simp
    · exact List.mem_cons_of_mem _ (ih h)

theorem plain_sub (f : Fn) : ∀ p ∈ f.plain, p ∈ f.params := by
  intro p hp
  simp only [Fn.plain, Fn.withoutSelf, List.mem_filter] at hp
  exact hp.1.1

theorem usedValue_ok {env : Env} {f : Fn} {args : List Val} {kw : List (NameId × Val)} (ctx : SoundCtx env f args kw)
    {p : Param} (hp : p ∈ f.params) {v : Val} (hu : usedValue kw p = some v) : ValOk env f v := by
  simp only [usedValue] at hu
  split at hu
  · rename_i w hl; simp at hu; subst hu; exact ctx.kw _ (lookup_mem hl)
  · exact ctx.dflts p hp v hu

/-- a non-conforming value is never let through by one check (C01) -/
theorem checkVal_bad {env : Env} {orc} {f : Fn} {args : List Val} {kw : List (NameId × Val)} (ctx : SoundCtx env f args kw)
    {p : Param} (hp : p ∈ f.params) {a : Ann} (ha : p.ann = some a) {v : Val} (hv : ValOk env f v) (hbad : conforms env a v = false) :
    checkVal env orc f args a v ≠ none := by
  intro h
  have := checkVal_none env orc f args a v h
  have := sound_checkType env orc ctx.hw a v (hv.2 p hp a ha) (ctx.anns p hp a ha) hv.1.1 hv.1.2 this
  simp [hbad] at this

/-- C03, parameter clause: a bad used value (explicit keyword or declared default) at ANY position stops the fold -/
theorem checkParams_bad {env : Env} {orc} {f : Fn} {args : List Val} {kw : List (NameId × Val)} (ctx : SoundCtx env f args kw) :
    ∀ (ps : List Param) (idx : Nat), (∀ p ∈ ps, p ∈ f.params) → (∃ p ∈ ps, badParam env kw p = true) →
      checkParams env orc f args kw ps idx ≠ none := by
  intro ps
  induction ps with
  | nil => intro idx _ ⟨p, hp, _⟩; simp at hp
  | cons q qs ih =>
    intro idx hsub hbad hnone
    have hq : q ∈ f.params := hsub q (by simp)
    have hsub' : ∀ p ∈ qs, p ∈ f.params := fun p hp => hsub p (by simp [hp])
    -- either q itself is bad or a later parameter is
    have hlater : ∀ idx', badParam env kw q = false → checkParams env orc f args kw qs idx' ≠ none := by
      intro idx' hq'
      obtain ⟨p, hp, hb⟩ := hbad
      simp only [List.mem_cons] at hp
      rcases hp with rfl | hp
      · simp [hq'] at hb
      · exact ih idx' hsub' ⟨p, hp, hb⟩
    simp only [checkParams, cfg_fallback, ↓reduceIte] at hnone
    cases hann : q.ann with
    | none => simp [hann] at hnone
    | some a =>
      simp only [hann] at hnone
      -- in every branch: the checked value is the used value, or no used value exists
      have key : ∀ v idx', usedValue kw q = some v →
          orElse (checkVal env orc f args a v) (fun _ => checkParams env orc f args kw qs idx') = none → False := by
        intro v idx' hu h
        rw [orElse_none] at h
        by_cases hcf : conforms env a v = true
        · have : badParam env kw q = false := by simp [badParam, hann, hu, hcf]
          exact hlater idx' this h.2
        · exact checkVal_bad ctx hq hann (usedValue_ok ctx hq hu) (by simpa using hcf) h.1
      cases hd : q.dflt with
      | none =>
        simp only [hd] at hnone
        split at hnone
        · split at hnone
          · simp at hnone
          · rename_i v hl
            exact key v idx (by simp [usedValue, hl]) hnone
        · split at hnone
          · rename_i v hl
            exact key v idx (by simp [usedValue, hl]) hnone
          · rename_i hl
            split at hnone
            · -- a positional value: not a "used value" in the sense of the property; q itself is not bad
              rw [orElse_none] at hnone
              have : badParam env kw q = false := by simp [badParam, hann, usedValue, hl, hd]
              exact hlater _ this hnone.2
            · simp at hnone
      | some d =>
        simp only [hd] at hnone
        cases hl : lookup kw q.name with
        | none => exact key d idx (by simp [usedValue, hl, hd]) (by simpa [hl] using hnone)
        | some v => exact key v idx (by simp [usedValue, hl]) (by simpa [hl] using hnone)

theorem checkAll_bad {env : Env} {orc} {f : Fn} {args : List Val} {kw : List (NameId × Val)} (ctx : SoundCtx env f args kw)
    {p : Param} (hp : p ∈ f.params) {a : Ann} (ha : p.ann = some a) :
    ∀ (vs : List Val), (∀ v ∈ vs, ValOk env f v) → (∃ v ∈ vs, conforms env a v = false) →
      checkAll env orc f args a vs ≠ none := by
  intro vs
  induction vs with
  | nil => intro _ ⟨v, hv, _⟩; simp at hv
  | cons x xs ih =>
    intro hok hbad h
    simp only [checkAll] at h
    rw [orElse_none] at h
    obtain ⟨v, hv, hb⟩ := hbad
    simp only [List.mem_cons] at hv
    rcases hv with rfl | hv
    · exact checkVal_bad ctx hp ha (hok v (by simp)) hb h.1
    · exact ih (fun w hw => hok w (by simp [hw])) ⟨v, hv, hb⟩ h.2

theorem star_mem (f : Fn) {p : Param} (h : f.star = some p) : p ∈ f.params := by
  simp only [Fn.star] at h
  have := List.mem_of_mem_head? (by rw [h]; rfl : p ∈ (f.withoutSelf.filter (fun p => p.kind == .varPos)).head?)
  simp only [Fn.withoutSelf, List.mem_filter] at this
  exact this.1.1
theorem dstar_mem (f : Fn) {p : Param} (h : f.dstar = some p) : p ∈ f.params := by
  simp only [Fn.dstar] at h
  have := List.mem_of_mem_head? (by rw [h]; rfl : p ∈ (f.withoutSelf.filter (fun p => p.kind == .varKw)).head?)
  simp only [Fn.withoutSelf, List.mem_filter] at this
  exact this.1.1

theorem checkStar_bad {env : Env} {orc} {f : Fn} {args : List Val} {kw : List (NameId × Val)} (ctx : SoundCtx env f args kw)
    (hbad : badStar env f args = true) : checkStar env orc f args ≠ none := by
  simp only [badStar] at hbad
  simp only [checkStar, cfg_star, Bool.true_and, ↓reduceIte]
  cases hs : f.star with
  | none => simp [hs] at hbad
  | some p =>
    simp only [hs] at hbad ⊢
    cases ha : p.ann with
    | none => simp
    | some a =>
      simp only [ha] at hbad ⊢
      split
      · simp
      · apply checkAll_bad ctx (star_mem f hs) ha
        · intro v hv; exact ctx.args v (List.mem_of_mem_drop hv)
        · simpa using hbad

theorem checkDStar_bad {env : Env} {orc} {f : Fn} {args : List Val} {kw : List (NameId × Val)} (ctx : SoundCtx env f args kw)
    (hbad : badDStar env f kw = true) : checkDStar env orc f args kw ≠ none := by
  simp only [badDStar] at hbad
  simp only [checkDStar, cfg_dstar, Bool.true_and, ↓reduceIte]
  cases hs : f.dstar with
  | none => simp [hs] at hbad
  | some p =>
    simp only [hs] at hbad ⊢
    cases ha : p.ann with
    | none => simp
    | some a =>
      simp only [ha] at hbad ⊢
      split
      · simp
      · apply checkAll_bad ctx (dstar_mem f hs) ha
        · intro v hv
          simp only [List.mem_map] at hv
          obtain ⟨kv, hkv, rfl⟩ := hv
          simp only [extraKw, List.mem_filter] at hkv
          exact ctx.kw kv hkv.1
        · simp only [List.any_eq_true, Bool.not_eq_true'] at hbad
          obtain ⟨kv, hkv, hb⟩ := hbad
          exact ⟨kv.2, List.mem_map.2 ⟨kv, hkv, rfl⟩, hb⟩

/-- C03: if any supplied value does not conform, the argument checks fail - with PedanticTypeCheckException -/
theorem checkArguments_bad {env : Env} {orc} (horc : ∀ k v, orc k v ≠ .raisedTV) {f : Fn} {args : List Val} {kw : List (NameId × Val)}
    (ctx : SoundCtx env f args kw) (hc : f.clazzFails args = false) (hbad : anyNonConforming env f args kw = true) :
    checkArguments env orc f args kw = some .pedTypeCheck := by
  have hne : checkArguments env orc f args kw ≠ none := by
    rw [checkArguments_eq]
    intro h
    rw [orElse_none] at h
    obtain ⟨h1, h2⟩ := h
    rw [orElse_none] at h2
    simp only [anyNonConforming, Bool.or_eq_true, List.any_eq_true] at hbad
    rcases hbad with (⟨p, hp, hb⟩ | hb) | hb
    · exact checkParams_bad ctx f.plain _ (plain_sub f) ⟨p, hp, hb⟩ h1
    · exact checkStar_bad ctx hb h2.1
    · exact checkDStar_bad ctx hb h2.2
  cases h : checkArguments env orc f args kw with
  | none => exact absurd h hne
  | some c => rw [checkArguments_some_tc env orc horc f args kw hc c h]

end PedVerif.Call
