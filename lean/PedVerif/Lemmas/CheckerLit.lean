import PedVerif.Model.CheckerWF
/-!
`litEq` is the model's *and* the spec's reading of Python `==` between the values a `Literal[...]` can hold (None, bool, int, float,
str, bytes): `Spec.conforms` for `Literal` and the model's `_instancecheck_literal` (`value in type_args`) both call it, so an error
in it would be invisible to the soundness / exactness theorems.  This file pins it down independently: the laws Python's `==` has on
this vocabulary, each proved for all literals (floats are the exact rationals `num/den`; `den = 0` denotes no float and is excluded
where it matters: `Lit.wf`; the harness builds terms with `float.as_integer_ratio`, whose denominator is positive).

* `litEq_refl`, `litEq_symm`, `litEq_trans` (on well-formed literals): an equivalence relation;
* `litEq_none`, `litEq_str`, `litEq_bytes`: None / str / bytes are equal to themselves only - never to a number, never across kinds
  (`'a' != b'a'`, `None != 0`, `'1' != 1`);
* `litEq_bool_is_int`: bool is the int 0 / 1 (`True == 1`, `False == 0`, `True == 1.0`);
* `litEq_int_int`, `litEq_int_flt`, `litEq_flt_flt`: numbers compare by value across int / float (`1 == 1.0`, `1/2 == 2/4`): for
  `den ≠ 0` the cross-multiplication is equality of the rationals.
-/
namespace PedVerif.Checker

/-- a float term denotes a float: positive denominator -/
def Lit.wf : Lit → Bool
  | .flt _ d => d != 0
  | _ => true

theorem litEq_refl (a : Lit) : litEq a a = true := by
  cases a <;> simp [litEq, Lit.num?]

theorem litEq_symm (a b : Lit) : litEq a b = litEq b a := by
  cases a <;> cases b <;> simp [litEq, Lit.num?, Bool.beq_comm]

/-- None equals None only -/
theorem litEq_none (b : Lit) : litEq .none b = true ↔ b = .none := by
  cases b <;> simp [litEq, Lit.num?]
/-- a str equals the same str only (no number, no bytes, not None) -/
theorem litEq_str (s : List Nat) (b : Lit) : litEq (.str s) b = true ↔ b = .str s := by
  cases b <;> simp [litEq, Lit.num?]
  exact eq_comm
theorem litEq_bytes (s : List Nat) (b : Lit) : litEq (.bytes s) b = true ↔ b = .bytes s := by
  cases b <;> simp [litEq, Lit.num?]
  exact eq_comm

/-- `bool` is a subclass of `int`: True / False compare as 1 / 0 -/
theorem litEq_bool_is_int (b : Bool) (x : Lit) : litEq (.bool b) x = litEq (.int (if b then 1 else 0)) x := by
  cases x <;> simp [litEq, Lit.num?]

theorem litEq_int_int (n m : Int) : litEq (.int n) (.int m) = (n == m) := by
  simp [litEq, Lit.num?]
/-- an int equals the float `num/den` iff `num = n * den` -/
theorem litEq_int_flt (n m : Int) (d : Nat) : litEq (.int n) (.flt m d) = (n * d == m) := by
  simp [litEq, Lit.num?]
/-- two floats are equal iff the rationals are (cross-multiplication) -/
theorem litEq_flt_flt (n m : Int) (d e : Nat) : litEq (.flt n d) (.flt m e) = (n * e == m * d) := by
  simp [litEq, Lit.num?]

private theorem cross_trans {n n' n'' : Int} {d d' d'' : Nat} (hd : d' ≠ 0)
    (h1 : n * d' = n' * d) (h2 : n' * d'' = n'' * d') : n * d'' = n'' * d := by
  have hd' : (d' : Int) ≠ 0 := by exact_mod_cast hd
  apply Int.eq_of_mul_eq_mul_right hd'
  calc n * d'' * d' = (n * d') * d'' := by rw [Int.mul_assoc, Int.mul_comm (d'' : Int), ← Int.mul_assoc]
    _ = (n' * d) * d'' := by rw [h1]
    _ = (n' * d'') * d := by rw [Int.mul_assoc, Int.mul_comm (d : Int), ← Int.mul_assoc]
    _ = (n'' * d') * d := by rw [h2]
    _ = n'' * d * d' := by rw [Int.mul_assoc, Int.mul_comm (d' : Int), ← Int.mul_assoc]

theorem litEq_trans (a b c : Lit) (hb : b.wf = true) (h1 : litEq a b = true) (h2 : litEq b c = true) : litEq a c = true := by
  cases ha : a.num? with
  | none =>
    have : b = a := by cases a <;> cases b <;> simp_all [litEq, Lit.num?]
    subst this; exact h2
  | some p =>
    obtain ⟨n, d⟩ := p
    cases hbn : b.num? with
    | none => cases a <;> cases b <;> simp_all [litEq, Lit.num?]
    | some q =>
      obtain ⟨n', d'⟩ := q
      cases hc : c.num? with
      | none => cases b <;> cases c <;> simp_all [litEq, Lit.num?]
      | some r =>
        obtain ⟨n'', d''⟩ := r
        have hd' : d' ≠ 0 := by
          cases b <;> simp_all [Lit.num?, Lit.wf]
          all_goals omega
        simp only [litEq, ha, hbn, hc, beq_iff_eq] at h1 h2 ⊢
        exact cross_trans hd' h1 h2

-- Python says: True == 1 == 1.0, 0.5 == 2/4, 'a' != b'a', None != 0, 1 != '1', 2 != 2.5
example : litEq (.bool true) (.int 1) = true ∧ litEq (.int 1) (.flt 1 1) = true ∧ litEq (.bool true) (.flt 2 2) = true ∧
    litEq (.flt 1 2) (.flt 2 4) = true ∧ litEq (.str [97]) (.bytes [97]) = false ∧ litEq .none (.int 0) = false ∧
    litEq (.int 1) (.str [49]) = false ∧ litEq (.int 2) (.flt 5 2) = false ∧ litEq (.bool false) (.int 0) = true := by decide

end PedVerif.Checker
