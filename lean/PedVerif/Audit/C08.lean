import PedVerif.Props.C08
import PedVerif.Props.CheckerIR
open PedVerif.Checker
#print axioms contained
#print axioms outcome_is_return_or_pedantic
#print axioms total
#print axioms wrap_ne_escape
#print axioms cfg_catchesAll
#print axioms cfg_strBranch
open PedVerif.Call
#print axioms wrapper_adds_nothing
#print axioms wrapper_escapes_moduleLevelStaticmethod
#print axioms WrapperAddsNothing_full_is_false
#print axioms checkArguments_some_tc
#print axioms cfg_fallback
#print axioms cfg_instanceMethod
#print axioms bound_is_not_instance_method
#print axioms wrapper_adds_nothing_bound_method
-- the translated `_check_type` / `_is_instance` (Gen/IsInstanceIR.lean), interpreted, is the model the theorems above are about
#print axioms PedVerif.CheckerIR.ir_refines
#print axioms PedVerif.CheckerIR.checkType_ir_refines
#print axioms PedVerif.CheckerIR.ir_contained
#print axioms PedVerif.CheckerIR.ir_total
-- the same obligations about the statement-by-statement translation of check_types.py (Gen/IsInstanceIR.lean, interpreted by Model/CheckerIR.lean)
#print axioms PedVerif.CheckerIR.ir_refines
#print axioms PedVerif.CheckerIR.checkType_ir_refines
#print axioms PedVerif.CheckerIR.ir_contained
#print axioms PedVerif.CheckerIR.ir_total
