import PedVerif.Props.C08
open PedVerif.Checker
#print axioms contained
#print axioms outcome_is_return_or_pedantic
#print axioms total
#print axioms wrap_ne_escape
#print axioms cfg_catchesAll
#print axioms cfg_strBranch
open PedVerif.Call
#print axioms wrapper_adds_nothing
#print axioms wrapper_escapes_moduleLevelStaticmethod
#print axioms WrapperAddsNothing_full_is_false
#print axioms checkArguments_some_tc
#print axioms cfg_fallback
#print axioms cfg_instanceMethod
#print axioms bound_is_not_instance_method
#print axioms wrapper_adds_nothing_bound_method
