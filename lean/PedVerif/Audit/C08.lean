import PedVerif.Props.C08
open PedVerif.Checker
#print axioms contained
#print axioms outcome_is_return_or_pedantic
#print axioms total
#print axioms wrap_ne_escape
#print axioms cfg_catchesAll
#print axioms cfg_strGuard
