import PedVerif.Props.C20
open PedVerif.Mixins
-- GenericMixin: the clauses of the property
#print axioms type_vars_exact
#print axioms type_var_single
#print axioms type_var_multiple
#print axioms non_generic_asserts
#print axioms unparametrised_asserts
#print axioms must_assert
#print axioms direct_with_parametrised_mixins
#print axioms redeclared_generic_over_bound_base
#print axioms binding_subclass_of_direct_with_parametrised_mixins
#print axioms binding_subclass_foreign_bases_any_position
#print axioms loop_select
#print axioms mixin_bases_win
#print axioms no_mixin_base_all_subscripted
#print axioms loop_foreign_select
#print axioms binding_of_foreign_generic_base
#print axioms loop_order_independent
#print axioms type_vars_order_independent
#print axioms odd_answers_alike_in_either_order
#print axioms foreign_not_derives
#print axioms usesMixin_derives
#print axioms outside_the_claimed_binding_shapes
#print axioms lookup_plain_single
#print axioms lin_nodup
-- histories of queries: the world is threaded through `runQueriesW`; the independence rests on the generated facts of `leftBehind`
#print axioms queries_leave_nothing_behind
#print axioms query_in_untouched_world
#print axioms query_independent_of_history
#print axioms history_exact
#print axioms subclass_of_binding_subclass_answers_for_itself
-- create_decorator
#print axioms applyApps_dict
#print axioms transformation_receives_f_type_value
#print axioms closures_keep_their_argument
#print axioms configured_decorator_keeps_its_argument
-- get_decorated_functions inside the guard
#print axioms scanView_eq
#print axioms decorated_scan_exact
#print axioms decorated_exact
#print axioms decorated_exact_one_class
#print axioms wdm_subclass_type_var
-- … and outside: the guard's complement is the union of the named regions (finding ids); what the code does in each of them
#print axioms guard_iff_no_region
#print axioms decorated_exact_full_fails
#print axioms dunder_named_method_never_reported
#print axioms fresh_transformation_drops_everything
#print axioms fresh_transformation_loses_entry
#print axioms scan_escapes
#print axioms enum_name_collision_reports_enum_class
#print axioms enum_value_upper_reports_str_and_enum_class
#print axioms enum_value_get_raises_type_error
#print axioms static_or_class_method_never_bound
#print axioms staticmethod_reported_unbound
#print axioms raising_property_escapes
#print axioms instance_attribute_reported
-- facts read from the source.  `helpers_keep_nothing` (loop facts) is a premise of mixin_bases_win / kind_bound; the values pinned by
-- `mixins_source_shape` (attribute names) and by `mixins_keep_no_state` (dunder methods, class keywords, class / module state of
-- with_decorated_methods.py) are TRIPWIRES: the model does not branch on them, a change of one of them asks for a look at the model
#print axioms mixins_source_shape
#print axioms helpers_keep_nothing
#print axioms mixins_keep_no_state
