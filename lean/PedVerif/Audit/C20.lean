import PedVerif.Props.C20
open PedVerif.Mixins
#print axioms type_vars_exact
#print axioms type_var_single
#print axioms type_var_multiple
#print axioms non_generic_asserts
#print axioms unparametrised_asserts
#print axioms must_assert
#print axioms direct_with_parametrised_mixins
#print axioms binding_subclass_of_direct_with_parametrised_mixins
#print axioms binding_subclass_second_subscripted_base_first_wins
#print axioms lookup_plain_single
#print axioms lin_nodup
#print axioms applyApps_dict
#print axioms transformation_receives_f_type_value
#print axioms scanView_eq
#print axioms decorated_scan_exact
#print axioms decorated_exact
#print axioms decorated_exact_one_class
#print axioms wdm_subclass_type_var
#print axioms decorated_exact_full_fails
#print axioms fresh_transformation_loses_entry
#print axioms enum_name_collision_reports_enum_class
#print axioms staticmethod_reported_unbound
#print axioms raising_property_escapes
#print axioms mixins_source_shape
