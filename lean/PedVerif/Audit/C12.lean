import PedVerif.Props.C12
open PedVerif.Validate
#print axioms validate_is_chain_fold
#print axioms validate_error_names
#print axioms validate_none
#print axioms gate_spec
#print axioms reject_blocks_body
#print axioms reject_blocks_body_kw
#print axioms reject_blocks_body_pos
#print axioms reject_blocks_body_zip
#print axioms first_rejecting_decides
#print axioms itemOut_error_names
#print axioms strict_surplus
#print axioms strict_surplus_kw
#print axioms strict_surplus_pos
#print axioms required_none_blocks
#print axioms required_missing_blocks
#print axioms missing_without_default_blocks
#print axioms nonrequired_none_passes_unvalidated
#print axioms default_cascade
#print axioms res_get
#print axioms res_only_chain_outputs
#print axioms body_sees_only_chain_outputs
#print axioms validate_source_shape
#print axioms gate_by_name_partial
#print axioms gate_by_name_full_fails
