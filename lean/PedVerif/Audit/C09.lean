import PedVerif.Props.C09
open PedVerif.Switch
#print axioms enabled_exact
#print axioms enabled_iff
#print axioms disabled_iff
#print axioms enable_enables
#print axioms disable_disables
#print axioms claim_sound
#print axioms rows_honour
#print axioms rows_cover
#print axioms switch_read_only_at_decoration
#print axioms disabled_is_identity
#print axioms enabled_checks
#print axioms enabled_opaque_unspecified
#print axioms decorate_disabled_is_identity
#print axioms apply_disabled_is_identity
#print axioms closedMode_live
#print axioms read_at_decoration
#print axioms read_at_application
#print axioms generic_instance_check_read_at_decoration
#print axioms redecorate_disabled_is_identity
#print axioms read_at_redecoration
#print axioms first_result_unaffected_by_redecoration
#print axioms carries_subclass
#print axioms callm_state
#print axioms read_at_decoration_inherited
#print axioms read_at_decoration_inherited_call
#print axioms run_refines_spec
