import PedVerif.Props.C13
open PedVerif.Validate
#print axioms binding_is_by_name
#print axioms mode_independent
#print axioms mode_without_none
#print axioms async_same_as_sync
#print axioms call_style_independent
#print axioms caller_value_wins
#print axioms external_only_when_absent
#print axioms ignore_input_ignores
#print axioms byName_ok_congr
#print axioms byName_congr
#print axioms items_ok_of_byName_ok
#print axioms byName_eq_bindOnes
#print axioms binding_is_by_name_converse
#print axioms byName_error_blocks_body
#print axioms call_style_independent_runs
#print axioms converse_needs_receiverIsPositional
#print axioms converse_needs_distinct_parameter_names
#print axioms dispatch_ok_bindDict
#print axioms dispatch_eq_bindDict
#print axioms callWith_split_eq
#print axioms callWith_selfKw_eq
#print axioms dispatch_unfold
#print axioms wrapperContent_keysNodup
#print axioms dispatch_source_shape
