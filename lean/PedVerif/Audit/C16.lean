import PedVerif.Props.C16
open PedVerif.CtxMgr
#print axioms exec_eq_spec
#print axioms run_eq_spec
#print axioms cleanup_once_after_body
#print axioms cleanup_exactly_once_leaf
#print axioms early_exit_like_normal
#print axioms body_outcome_unchanged
#print axioms body_exception_unchanged
#print axioms cleanup_exception_wins_partial
#print axioms cleanup_exception_wins_witness
#print axioms cleanup_exception_wins_full_false
#print axioms as_binds_yielded
#print axioms args_forwarded
#print axioms failing_setup_no_cleanup
#print axioms decoration_dispatch
#print axioms source_shape
#print axioms nested_use
#print axioms repeated_use
#print axioms repeated_use_stops
#print axioms repeated_same
#print axioms cleanups_match_entries
