import PedVerif.Props.C01
open PedVerif.Checker
#print axioms sound_partial
#print axioms corruption_rejected
#print axioms one_bad_element_rejected
#print axioms sound_raw
#print axioms bareNode_ne_true
#print axioms sound_fails_strAnnNameCollision
#print axioms sound_fails_namedtupleStructural
#print axioms Sound_full_is_false
#print axioms envW_wf
#print axioms cfg_genericChecksOrigin
#print axioms cfg_iterableQuantifier
#print axioms cfg_itemsChecksKey
#print axioms cfg_itemsChecksValue
#print axioms cfg_tupleLengthTest
#print axioms cfg_union
#print axioms cfg_literal
#print axioms cfg_origin_seq
#print axioms cfg_origin_map
#print axioms cfg_origin_tuple
#print axioms cfg_origin_type
open PedVerif.Call PedVerif.TypeSafe
#print axioms pedantic_accepts_only_conforming
#print axioms pedantic_returns_only_conforming
#print axioms dataclass_accepts_only_conforming
