import PedVerif.Props.C05
open PedVerif.Call
#print axioms positional_rejected
#print axioms shk_of_truthful
#print axioms exempt_callable
#print axioms self_not_counted
#print axioms keyword_call_not_rejected
#print axioms dunder_requires_kwargs_iff_listed
#print axioms callWithArgs_iff
#print axioms positional_fails_strippedDefaulted
#print axioms positional_fails_bodyMentionsStarArgs
#print axioms Positional_full_is_false
#print axioms cfg_shk
#print axioms cfg_strips
#print axioms cfg_usesMultiple
#print axioms cfg_stripFrom
#print axioms cfg_raises
#print axioms cfg_wrappers
#print axioms cfg_argsBeforeBody
