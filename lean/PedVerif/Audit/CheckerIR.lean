import PedVerif.Props.CheckerIR
open PedVerif.CheckerIR
#print axioms ir_refines
#print axioms checkType_ir_refines
#print axioms ir_refines_all
#print axioms ir_sound_partial
#print axioms ir_complete_partial
#print axioms ir_verdict_exact
#print axioms ir_contained
#print axioms ir_total
#print axioms trace_of_same_run
