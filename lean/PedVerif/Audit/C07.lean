import PedVerif.Props.C07
open PedVerif.TypeVars
#print axioms tvBranch_eq
#print axioms isInst_frame
#print axioms same_class_accepted
#print axioms unrelated_rejected
#print axioms nonconforming_rejected
#print axioms constraints_honoured
#print axioms bound_honoured
#print axioms contravariant_superclass_accepted
#print axioms walk_refines
#print axioms plain_call_refines
#print axioms instance_history_independent
#print axioms history_step_alone
#print axioms instance_iff_conforms
#print axioms instance_T_iff_conforms
#print axioms instance_call_iff_conforms
#print axioms no_cross_instance
#print axioms plain_calls_independent
#print axioms C07_partial
#print axioms C07_full_false
#print axioms mismatch_in_optional_is_typecheck
#print axioms methodLevelTypeVar_leaks
#print axioms methodLevelTypeVar_bound_forever
#print axioms nonGeneric_resets_params
#print axioms nonGeneric_resets_result
#print axioms mismatch_in_optional_witness
