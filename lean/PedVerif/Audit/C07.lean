import PedVerif.Props.C07
open PedVerif.TypeVars
#print axioms tvBranch_eq
#print axioms isInst_frame
#print axioms walk_refines
#print axioms call_refines
#print axioms same_class_accepted
#print axioms unrelated_rejected
#print axioms nonconforming_rejected
#print axioms nonconforming_rejected_plain
#print axioms constraints_honoured
#print axioms bound_honoured
#print axioms contravariant_superclass_accepted
#print axioms instance_history_independent
#print axioms history_step_alone
#print axioms instance_iff_conforms
#print axioms instance_T_iff_conforms
#print axioms instance_call_iff_conforms
#print axioms no_cross_instance
#print axioms plain_calls_independent
#print axioms nonGeneric_is_perCall
#print axioms nonGeneric_calls_independent
#print axioms C07_partial
#print axioms C07_full_false
#print axioms mismatch_in_optional_is_typecheck
#print axioms runTree_out
#print axioms nested_calls_do_not_disturb
#print axioms nested_calls_do_not_disturb_alone
#print axioms runTree_leaf
#print axioms runForest_leaves
#print axioms tree_journal_alone
#print axioms C07_tree_partial
#print axioms C07_forest_partial
#print axioms sched_independent
#print axioms sched_outcome_alone
#print axioms sched_complete_alone
#print axioms C07_sched_partial
#print axioms tvBranch_writes_only_when_accepted
#print axioms alt_union_refines
#print axioms alt_call_refines
#print axioms keeps_first_element
#print axioms kwargs_all_checked
#print axioms kwarg_is_checked
#print axioms variadic_call_refines
#print axioms shape_resolves
#print axioms shape_in_init
#print axioms constraints_rejected
#print axioms bound_rejected
#print axioms runCall_out
#print axioms shape_kind_eq_spec
#print axioms declared_call_refines
#print axioms zipGenerics_exact
#print axioms walk_refines_none_first
#print axioms C07_declared_partial

/-! WITNESSES — single inputs evaluated on the model (`by decide`): the regions of the recorded findings, the regions the property does
not speak of, former regions that are theorems now, position facts of the translated code.  They are not property theorems and are
not counted as obligations (the lines are indented: `harness/core.py` counts the `#print axioms` lines that start a line); they are
elaborated with this file all the same. -/
section Witnesses
  #print axioms mismatch_in_optional_witness
  #print axioms methodLevelTypeVar_per_call
  #print axioms nonGeneric_keeps_bindings_params
  #print axioms nonGeneric_keeps_bindings_result
  #print axioms failed_alternative_leaves_binding_witness
  #print axioms mismatch_in_alternative_aborts_witness
  #print axioms first_base_with_other_arguments_escapes
  #print axioms first_base_without_arguments_binds_nothing
  #print axioms first_base_in_other_order_swaps
  #print axioms generic_subclass_not_recognised_witness
  #print axioms init_of_generic_instance_unchecked_witness
  #print axioms type_of_typevar_unchecked_witness
  #print axioms union_member_exception_aborts_witness
  #print axioms source_scan_region_witness
  #print axioms bounded_class_parameter_witness
  #print axioms bind_after_every_test
  #print axioms user_base_only_is_per_call
end Witnesses
