import PedVerif.Props.FrozenIR
open PedVerif.FrozenIR
-- refinement: the executed programs are the hand models
#print axioms decorator_is_model
#print axioms facts_are_what_the_programs_say
#print axioms ir_dataclass_once_frozen
#print axioms shortcut_is_type_safe
#print axioms outer_applies_or_returns
#print axioms caller_walk_is_model
#print axioms validate_types_is_model
#print axioms validate_call_is_model
#print axioms construction_is_model
#print axioms copy_with_is_model
#print axioms deep_copy_with_is_model
#print axioms post_init_journal_is_model
#print axioms dataclass_options_are_model
#print axioms setattr_is_model
#print axioms delattr_is_model
-- C10 about the translated code
#print axioms ir_instance_iff_fields_conform
#print axioms copy_values_are_model
#print axioms ir_copy_instance_iff_fields_conform
#print axioms ir_validate_types_iff
#print axioms ir_post_init_runs_first
#print axioms ir_post_init_exception
#print axioms ir_caller_frame_selected
-- C11 about the translated code
#print axioms ir_copy_with_meets_spec
#print axioms ir_deep_copy_with_meets_spec
#print axioms ir_deep_copy_with_returned_instance_meets_spec
#print axioms ir_deep_copy_with_uncopyable_raises
#print axioms ir_deep_copy_no_shared_mutable
#print axioms ir_frozen_rejects_set_del_partial
#print axioms ir_frozen_rejects_set_del
#print axioms ir_setattr_rejected_iff_guard
-- lemmas they rest on
#print axioms deco_refines
#print axioms irWalk_fst
#print axioms irInternal_of_match
#print axioms caller_refines
#print axioms loopFields_eq
#print axioms validate_given_refines
#print axioms validate_user_refines
#print axioms wrapper_refines
#print axioms construct_refines
#print axioms irCollect_of_flag
#print axioms copy_with_refines
#print axioms deep_copy_with_refines
#print axioms irPostInitEvents_eq
#print axioms irLayerArgs_eq
#print axioms irClsFaithful_true
#print axioms mergeAL_lookup
#print axioms copiedFields_eq
