import PedVerif.Props.C06
open PedVerif.Checker
#print axioms bare_rejects_every_value
#print axioms bare_never_accepts
#print axioms bare_typing_value_independent
#print axioms bareNode_cases
#print axioms bareNode_ne_true
#print axioms cfg_req_bare
#print axioms cfg_req_bare_builtin
#print axioms cfg_bare
#print axioms cfg_requiredTestFirst
open PedVerif.Call
#print axioms incomplete_param_never_returns
#print axioms incomplete_param_is_typecheck
#print axioms incomplete_return_never_returns
#print axioms checkParams_incomplete
#print axioms checkArguments_incomplete
#print axioms incompleteTop_bare
#print axioms cfg_star
#print axioms cfg_dstar
#print axioms cfg_completeBare
