import PedVerif.Props.C06
open PedVerif.Checker
#print axioms bare_rejects_every_value
#print axioms bare_never_accepts
#print axioms bare_typing_value_independent
#print axioms bareNode_cases
#print axioms bareNode_ne_true
#print axioms cfg_req_bare
#print axioms cfg_req_bare_builtin
#print axioms cfg_req_tType
#print axioms cfg_bare
#print axioms cfg_requiredTestFirst
