import PedVerif.Props.C15
open PedVerif.Retry
#print axioms retry_spec
#print axioms retry_calls
#print axioms retry_calls_min
#print axioms retry_calls_all_listed
#print axioms retry_result_is_last
#print axioms retry_sleeps_between
#print axioms retry_sleeps_eq
#print axioms retry_foreign_not_retried
#print axioms retry_source_shape
#print axioms cfg_handler
#print axioms retryFor_spec
#print axioms cfg_no_hidden_state
#print axioms loopP_eq_loop
#print axioms retryForP_spec
#print axioms retryDecorated_spec
#print axioms overlapping_calls_independent
