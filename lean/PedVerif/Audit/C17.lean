import PedVerif.Props.C17
open PedVerif.Subproc
#print axioms local_ok
#print axioms faithful_result
#print axioms own_result
#print axioms reader_table_invariant
#print axioms other_tasks_run
#print axioms other_tasks_run_partial
#print axioms join_blocks_other_tasks
#print axioms other_tasks_run_full_false
#print axioms terminates_and_releases
#print axioms run_length_bounded
#print axioms faithful_result_rounds
#print axioms terminates_and_releases_rounds
#print axioms new_loop_starts_from_initial_state
#print axioms step_touches_one_invocation
#print axioms no_state_between_invocations
#print axioms no_await_while_write_end_open
#print axioms progress_independent_of_siblings
#print axioms childBeh_table
#print axioms source_shape
#print axioms join_waits
#print axioms join_timeout_leaves_child
#print axioms daemon_breaks_spawning_callee
#print axioms unfixed_normal_ok
#print axioms unfixed_deadlock_local
#print axioms unfixed_deadlock
#print axioms stale_reader_hang
