import PedVerif.Props.C10
open PedVerif.TypeSafe PedVerif.Checker
#print axioms instance_iff_fields_conform
#print axioms instance_fields_conform
#print axioms validate_types_iff
#print axioms validateTypes_none_iff
#print axioms validateTypes_some
#print axioms validateTypes_ne_instance
#print axioms post_init_runs_first
#print axioms post_init_exception
#print axioms one_bad_field
#print axioms not_type_safe_no_check
#print axioms cfg_validate
#print axioms cfg_postInit
#print axioms cfg_paths
#print axioms exact_checkType
#print axioms sound_checkType
