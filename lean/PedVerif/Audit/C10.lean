import PedVerif.Props.C10
import PedVerif.Props.FrozenIR
open PedVerif.TypeSafe PedVerif.Checker PedVerif.FrozenIR
#print axioms instance_iff_fields_conform
#print axioms instance_fields_conform
#print axioms validate_types_iff
#print axioms validateTypes_none_iff
#print axioms validateTypes_some
#print axioms validateTypes_ne_instance
#print axioms post_init_runs_first
#print axioms post_init_exception
#print axioms one_bad_field
#print axioms not_type_safe_no_check
#print axioms cfg_validate
#print axioms cfg_postInit
#print axioms cfg_paths
#print axioms exact_checkType
#print axioms sound_checkType
#print axioms cfg_context
#print axioms caller_frame_selected
#print axioms user_validate_sees_caller
#print axioms walk_skips
#print axioms pathFrames_internal
#print axioms internal_of_holds
#print axioms ordinary_caller_not_internal
#print axioms withCaller_eq_atCallSite
#print axioms instance_iff_fields_conform_at_call_site
#print axioms validate_types_iff_at_call_site
-- the same theorems about the statement-by-statement translation of the source (Props/FrozenIR.lean)
#print axioms decorator_is_model
#print axioms facts_are_what_the_programs_say
#print axioms shortcut_is_type_safe
#print axioms outer_applies_or_returns
#print axioms caller_walk_is_model
#print axioms validate_types_is_model
#print axioms validate_call_is_model
#print axioms construction_is_model
#print axioms ir_instance_iff_fields_conform
#print axioms copy_values_are_model
#print axioms ir_copy_instance_iff_fields_conform
#print axioms ir_validate_types_iff
#print axioms ir_post_init_runs_first
#print axioms ir_post_init_exception
#print axioms ir_caller_frame_selected
