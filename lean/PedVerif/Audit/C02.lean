import PedVerif.Props.C02
open PedVerif.Checker
#print axioms exact_raw
#print axioms complete_partial
#print axioms verdict_exact
#print axioms conforms_erase
#print axioms spelling_invariant
#print axioms union_order_invariant
#print axioms conforms_perm
#print axioms iteration_order_invariant_coll
#print axioms iteration_order_invariant_mapping
#print axioms okC_convOk
#print axioms complete_fails_strAnnDeepSubclass
#print axioms complete_fails_namedtupleVsPlainClass
#print axioms complete_fails_emptyFixedTuple
#print axioms complete_fails_typeOfUnionSubclass
#print axioms Complete_full_is_false
#print axioms envC_wf
#print axioms cfg_convGuard
#print axioms cfg_convertible
#print axioms cfg_req_seq
#print axioms cfg_req_map
#print axioms cfg_req_union
#print axioms cfg_req_Tuple
#print axioms cfg_special_union
#print axioms cfg_special_literal
#print axioms cfg_special_any
