import PedVerif.Drv.Retry
/-! stdin: one JSON case per line `{"m": <model>, "c": <case>}`; stdout: one JSON answer per line. -/
open Lean PedVerif.Drv

def dispatch (m : String) (c : Json) : Json :=
  match m with
  | "retry" => PedVerif.Drv.Retry.handle c
  | _ => mkObj [("error", jStr s!"unknown model {m}")]

partial def loopIO (h : IO.FS.Stream) (out : IO.FS.Stream) : IO Unit := do
  let line ← h.getLine
  if line.isEmpty then return ()
  match Json.parse line with
  | .error e => out.putStrLn (mkObj [("error", jStr s!"parse: {e}")]).compress
  | .ok j => out.putStrLn (dispatch (jS (jF j "m")) (jF j "c")).compress
  loopIO h out

def main : IO Unit := do
  let out ← IO.getStdout
  loopIO (← IO.getStdin) out
  out.flush
