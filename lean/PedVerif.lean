import PedVerif.Props.C15
