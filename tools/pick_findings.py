#!/usr/bin/env python3
"""Development helper: run a plugin's cases and print, per finding id, the smallest failing case (to be pasted into
known_findings.json by hand - the checks themselves never write that file).
usage: PYTHONPATH=/repo:harness:harness/props /venv/bin/python tools/pick_findings.py C05 [seed]"""
import sys, os, json, random, importlib
ROOT = os.path.dirname(os.path.dirname(os.path.abspath(__file__)))
sys.path.insert(0, os.path.join(ROOT, 'harness')); sys.path.insert(0, os.path.join(ROOT, 'harness', 'props'))
os.environ.setdefault('VERIF_ROOT', ROOT)
import core
prop = sys.argv[1]; seed = int(sys.argv[2]) if len(sys.argv) > 2 else 0
plugin = importlib.import_module(f'props.{prop}')
cases = plugin.cases(random.Random(seed * 1000003 + 17), 'quick')
best = {}
for (c, i, m, j) in core.judge_all(plugin, cases):
    if j['pfail']:
        fid = j['finding'] or 'UNCLASSIFIED'
        if fid not in best or core.case_size(c) < core.case_size(best[fid][0]):
            best[fid] = (c, j['pfail'])
json.dump({k: {'case': v[0], 'what': v[1]} for k, v in best.items()}, open(f'/tmp/findings_{prop}.json', 'w'), indent=1)
for k, v in best.items():
    print(k, '::', v[1][:300])
