#!/usr/bin/env python3
"""converts /verif/seeded/<ID>-<i>/{patch.diff,demo.py,meta.json} into the layout tools/run_seeded.py reads"""
import os, sys, shutil, glob
src, dst = sys.argv[1], sys.argv[2]
prefix = sys.argv[3] if len(sys.argv) > 3 else ''      # e.g. 'w2-' for the second wave
for d in sorted(glob.glob(os.path.join(src, prefix + 'C*-*'))):
    pid, i = os.path.basename(d)[len(prefix):].split('-')
    o = os.path.join(dst, pid); os.makedirs(o, exist_ok=True)
    shutil.copy(os.path.join(d, 'patch.diff'), os.path.join(o, f'patch{i}.diff'))
    if os.path.exists(os.path.join(d, 'patch_rebased.diff')):
        shutil.copy(os.path.join(d, 'patch_rebased.diff'), os.path.join(o, f'patch{i}_rebased.diff'))
    shutil.copy(os.path.join(d, 'demo.py'), os.path.join(o, f'demo{i}.py'))
    shutil.copy(os.path.join(d, 'meta.json'), os.path.join(o, f'meta{i}.json'))
