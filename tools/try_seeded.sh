#!/bin/sh
# usage: tools/try_seeded.sh <seeded id> <property id> [tier]   (needs a scratch worktree of /repo at $MREPO, default /tmp/mrepo)
M=${MREPO:-/tmp/mrepo}
P=/verif/seeded/$1/patch.diff; [ -f /verif/seeded/$1/patch_rebased.diff ] && P=/verif/seeded/$1/patch_rebased.diff
cd "$M" && { git apply $P 2>/dev/null || git apply -3 $P; } || exit 2
cd /verif
export VERIF_EVIDENCE_DIR=/tmp/evidence_scratch
VERIF_REPO=$M ./check $2 --tier ${3:-quick} | grep -v "^KNOWN" | tail -2 | cut -c1-250
python3 -c "
import json; r=json.load(open('/verif/replays/$2-${VERIF_SEED:-0}-0.json')); print(r['kind'], str(r['what'])[:500]); print('history', len(r.get('case',{}).get('x',{}).get('history',[])), 'standalone', r.get('standalone_reproduces'))"
VERIF_REPO=$M ./check $2 --replay replays/$2-${VERIF_SEED:-0}-0.json | tail -1
git -C "$M" reset -q --hard HEAD ; git -C "$M" clean -fdq
