#!/usr/bin/env python3
"""Union of the implementation line coverage reported by the 20 checks (evidence/<ID>.json, coverage.impl_line_coverage):
per library file the function lines that at least one correspondence run executed, and the lines no check ever reaches.
usage: tools/linecov_union.py [evidence_dir]   ->  markdown table on stdout"""
import json, glob, os, sys
ev = sys.argv[1] if len(sys.argv) > 1 else os.path.join(os.path.dirname(os.path.dirname(os.path.abspath(__file__))), 'evidence')
files = {}
for p in sorted(glob.glob(os.path.join(ev, 'C*.json'))):
    e = json.load(open(p))
    pid = e['property_id']
    for f, v in (e['coverage'].get('impl_line_coverage') or {}).items():
        if not isinstance(v, dict) or 'function_lines' not in v:
            continue
        d = files.setdefault(f, {'n': v['function_lines'], 'missed': None, 'by': {}})
        m = set(v['never_executed'])
        if len(v['never_executed']) >= 80:      # the list is capped: unknown beyond it
            m = None
        d['by'][pid] = v['executed']
        if m is not None:
            d['missed'] = m if d['missed'] is None else (d['missed'] & m)
print('| file | function lines | best single check | lines no check executes |')
print('|---|---|---|---|')
for f, d in sorted(files.items()):
    best = max(d['by'].items(), key=lambda kv: kv[1])
    missed = '?' if d['missed'] is None else (', '.join(map(str, sorted(d['missed']))) or '-')
    print(f"| {f} | {d['n']} | {best[0]}: {best[1]} | {missed} |")
