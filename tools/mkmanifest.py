#!/usr/bin/env python3
"""Writes MANIFEST.json from the table below (one place to edit; validated against the schema)."""
import json, os, sys
ROOT = os.path.dirname(os.path.dirname(os.path.abspath(__file__)))
ALL = [f'C{i:02d}' for i in range(1, 21)]

COMMON_NOTE = ('Trusted: Lean 4.33 kernel + axioms propext/Classical.choice/Quot.sound (audited per theorem each run; no sorry/native_decide); '
               'the translator harness/extract.py; the correspondence check (concretisation, canonicalisation, sampled agreement per model path); '
               'CPython/stdlib semantics are modelled and exercised against the live interpreter, not verified. ')

def load_checks():
    """harness/props/<ID>.manifest.json: {"text":…, "note":…, "technique":…, "design":…}"""
    out = {}
    d = os.path.join(ROOT, 'harness', 'props')
    for f in sorted(os.listdir(d)):
        if f.endswith('.manifest.json'):
            out[f.split('.')[0]] = json.load(open(os.path.join(d, f)))
    return out


CHECKS = load_checks()

NOT_YET = 'check not built yet in this round (work in progress; see DESIGN.md §11 for the planned Lean model)'


def main():
    checks = []
    for pid in ALL:
        if pid not in CHECKS:
            continue
        c = CHECKS[pid]
        checks.append({
            'property_id': pid,
            'quick_cmd': f'./check {pid} --tier quick',
            'thorough_cmd': f'./check {pid} --tier thorough',
            'evidence_file': f'evidence/{pid}.json',
            'replay_cmd_template': f'./check {pid} --replay {{path}}',
            'engine': 'lean-models+correspondence',
            'level_claimed': {'category': 'proof', 'text': c['text'], 'design_ref': c['design']},
            'level_note': COMMON_NOTE + c['note'],
            'technique': c['technique'],
        })
    m = {
        'version': 1,
        'setup_cmd': 'cd lean && lake build PedVerif peddriver',
        'hooks': {
            'guard': 'PEDANTIC_VERIF',
            'enable': 'no hook exists in /repo: checks import /repo unmodified (PYTHONPATH=/repo) and observe through generated programs; ./check exports PEDANTIC_VERIF=1 for completeness',
            'baseline_off_cmd': 'cd /repo && /venv/bin/python -m pytest -ra -q -p no:cacheprovider --timeout=900 --continue-on-collection-errors',
            'source_commits': [],
            'add_only': True,
        },
        'engines': [
            {'name': 'lean-models', 'path': 'lean/', 'serves_properties': sorted(CHECKS), 'kind_free_text': 'Lean 4 models, independent specs, property theorems, axiom audit, JSON line-protocol driver (lean_exe peddriver)'},
            {'name': 'translator', 'path': 'harness/extract.py', 'serves_properties': sorted(CHECKS), 'kind_free_text': 'AST translator regenerating lean/PedVerif/Gen/*.lean from /repo on every run'},
            {'name': 'correspondence', 'path': 'harness/', 'serves_properties': sorted(CHECKS), 'kind_free_text': 'differential check implementation vs executable Lean model + spec oracle, verdict logic, evidence, replays'},
        ],
        'checks': checks,
        'notes': 'Entry point ./check <ID> [--tier quick|thorough] [--replay FILE]; exit 2 = internal error (never a verdict). known_findings.json lists recorded defects; DESIGN.md explains the approach.',
        'not_applicable': [{'property_id': p, 'reason': NOT_YET} for p in ALL if p not in CHECKS],
    }
    with open(os.path.join(ROOT, 'MANIFEST.json'), 'w') as f:
        json.dump(m, f, indent=1)
    try:
        import jsonschema
        jsonschema.validate(m, json.load(open('/root/.vp/MANIFEST.schema.json')))
        print('MANIFEST.json valid;', len(checks), 'checks')
    except ImportError:
        print('MANIFEST.json written (jsonschema not available to validate)')


if __name__ == '__main__':
    main()
