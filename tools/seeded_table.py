#!/usr/bin/env python3
"""writes seeded/README.md: one row per seeded change (all waves) with what it needs and what the checks reported in each
recorded batch run (seeded/results_*.json, produced by tools/run_seeded.py)"""
import json, glob, os
ROOT = os.path.dirname(os.path.dirname(os.path.abspath(__file__)))
S = os.path.join(ROOT, 'seeded')
runs = {}
for f in sorted(glob.glob(os.path.join(S, 'results_*.json'))):
    name = os.path.basename(f)[len('results_'):-len('.json')]
    wave = next((f'w{k}-' for k in (2, 3, 4, 5, 6, 7, 8) if f'wave{k}' in name), '')
    for r in json.load(open(f)):
        q = r.get('quick', {}); t = r.get('thorough', {})
        if not r.get('detected'):
            v = 'missed'
        else:
            tier = 'quick' if q.get('exit') == 1 else 'thorough'
            kind = (q if tier == 'quick' else t).get('kind') or ('failing-input' if 'no-failing' not in ' '.join((q if tier == 'quick' else t).get('violation', [''])) else 'no-failing-input-found')
            v = f'{tier}: {kind}'
        runs.setdefault(wave + r['id'], {})[name] = v
cols = sorted({c for v in runs.values() for c in v})
L = ['# Seeded property-breaking changes', '',
     'Each directory holds `patch.diff` (against the /repo commit current when it was made; apply with `git apply` or `git apply -3`), `demo.py`',
     '(exit 0 on the unchanged tree, 1 with the change) and `meta.json`.  All changes keep the pinned 168 tests green.  Columns: what',
     '`./check <ID>` reported in each recorded batch (`tools/run_seeded.py`; quick tier first, thorough only when quick exits 0).', '',
     '| change | property | summary | ' + ' | '.join(cols) + ' |', '|---|---|---|' + '---|' * len(cols)]
for d in sorted(os.listdir(S)):
    m = os.path.join(S, d, 'meta.json')
    if not os.path.exists(m):
        continue
    meta = json.load(open(m))
    summ = meta.get('summary', '').replace('|', '/').replace('\n', ' ')
    if len(summ) > 230:
        summ = summ[:227] + '...'
    L.append(f"| {d} | {meta.get('property', '')} | {summ} | " + ' | '.join(runs.get(d, {}).get(c, '') for c in cols) + ' |')
for c in cols:
    ids = [k for k, v in runs.items() if c in v]
    det = [k for k in ids if runs[k][c] != 'missed']
    L.append('')
    L.append(f'* `{c}`: {len(det)} / {len(ids)} detected, {sum(1 for k in ids if "failing-input" in runs[k][c] and "no-failing" not in runs[k][c])} with a concrete failing input')
open(os.path.join(S, 'README.md'), 'w').write('\n'.join(L) + '\n')
print('\n'.join(L[-8:]))
