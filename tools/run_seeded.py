#!/usr/bin/env python3
"""Runs seeded changes against the checks.  For every <dir>/<ID>/patch<i>.diff: on a scratch repository (never /repo
unless asked) confirm that the demo passes without and fails with the change and that the pinned tests stay green, then
run `./check <ID>` (quick; thorough when quick misses) with VERIF_REPO pointing at the changed tree, and record what it
reported.  usage: tools/run_seeded.py <seed_dir> <repo_dir> <out_json> [ID ...]"""
import sys, os, json, subprocess, glob, time, re
ROOT = os.path.dirname(os.path.dirname(os.path.abspath(__file__)))
seed_dir, repo, out_json = sys.argv[1], sys.argv[2], sys.argv[3]
only = sys.argv[4:]
PY = '/venv/bin/python'


def sh(cmd, cwd=None, env=None, timeout=1800):
    try:
        p = subprocess.run(cmd, cwd=cwd, env=env, capture_output=True, text=True, timeout=timeout)
        return p.returncode, p.stdout + p.stderr
    except subprocess.TimeoutExpired as e:
        return 124, 'TIMEOUT ' + str(e)


def clean():
    sh(['git', 'reset', '-q', '--hard', 'HEAD'], cwd=repo)
    sh(['git', 'clean', '-fdq', 'pedantic'], cwd=repo)


results = []
env_repo = dict(os.environ, PYTHONPATH=repo)
for d in sorted(glob.glob(os.path.join(seed_dir, 'C*'))):
    pid = os.path.basename(d)
    if only and pid not in only:
        continue
    for patch in sorted(p for p in glob.glob(os.path.join(d, 'patch[0-9]*.diff')) if '_rebased' not in p):
        i = re.search(r'patch(\d+)\.diff', patch).group(1)
        if os.path.exists(os.path.join(d, f'patch{i}_rebased.diff')):      # the tree moved on: hand-made equivalent of the seeded change
            patch = os.path.join(d, f'patch{i}_rebased.diff')
        demo = os.path.join(d, f'demo{i}.py')
        meta = json.load(open(os.path.join(d, f'meta{i}.json'))) if os.path.exists(os.path.join(d, f'meta{i}.json')) else {}
        rec = {'id': f'{pid}-{i}', 'property': pid, 'summary': meta.get('summary', ''), 'needs': meta.get('what_it_needs_to_manifest', '')}
        clean()
        rc0, out0 = sh([PY, demo], cwd=d, env=env_repo, timeout=300)
        rec['demo_unchanged'] = rc0
        rca, outa = sh(['git', 'apply', patch], cwd=repo)
        if rca != 0:      # the tree moved on (later fix: commits): fall back to a 3-way merge of the seeded change
            rca, outa = sh(['git', 'apply', '-3', patch], cwd=repo)
            rec['applied_3way'] = rca == 0
        if rca != 0:
            rec['error'] = 'patch does not apply: ' + outa[-300:]
            results.append(rec); clean(); continue
        rct, outt = sh([PY, '-m', 'pytest', '-q', '-p', 'no:cacheprovider', '-x', '--timeout=120'], cwd=repo, env=env_repo, timeout=900)
        m = re.search(r'(\d+) passed', outt)
        rec['tests_passed'] = int(m.group(1)) if m else 0
        rec['tests_green'] = rct == 0 and rec['tests_passed'] >= 168
        rc1, out1 = sh([PY, demo], cwd=d, env=env_repo, timeout=300)
        rec['demo_changed'] = rc1
        rec['confirmed'] = rc0 == 0 and rc1 != 0 and rec['tests_green']
        envc = dict(os.environ, VERIF_REPO=repo, VERIF_EVIDENCE_DIR=os.path.join(os.environ.get('TMPDIR', '/tmp'), 'evidence_scratch'))
        for tier in ('quick', 'thorough'):
            t0 = time.time()
            rcc, outc = sh([os.path.join(ROOT, 'check'), pid, '--tier', tier], cwd=ROOT, env=envc, timeout=3000)
            viol = [l for l in outc.splitlines() if l.startswith('VIOLATION')]
            rec[tier] = {'exit': rcc, 'violation': viol[:1], 'wall_s': round(time.time() - t0, 1), 'tail': outc.strip().splitlines()[-1][:300] if outc.strip() else ''}
            if viol:
                mm = re.search(r'replay=(\S+)', viol[0])
                if mm and os.path.exists(os.path.join(ROOT, mm.group(1))):
                    try:
                        r = json.load(open(os.path.join(ROOT, mm.group(1))))
                        rec[tier]['what'] = str(r.get('what'))[:400]
                        rec[tier]['kind'] = r.get('kind')
                    except Exception:
                        pass
            if rcc == 1:
                break
        rec['detected'] = any(rec.get(t, {}).get('exit') == 1 for t in ('quick', 'thorough'))
        results.append(rec)
        clean()
        print(rec['id'], 'confirmed' if rec['confirmed'] else 'NOT-CONFIRMED', 'DETECTED' if rec['detected'] else 'MISSED',
              {t: rec[t]['exit'] for t in ('quick', 'thorough') if t in rec}, rec.get('quick', {}).get('kind'), flush=True)
        json.dump(results, open(out_json, 'w'), indent=1)
# the unchanged tree must be silent again
json.dump(results, open(out_json, 'w'), indent=1)
print('done', len(results))
