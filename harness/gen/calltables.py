"""Translator part for the @pedantic call layer (C03 C04 C05, wrapper level of C06 C08): tables, source-text needles and
straight-line decision code of pedantic/models/decorated_function.py, function_call.py and fn_deco_pedantic.py."""
import ast
from extract import Skip, src, find_func, lean_bool, lean_str, HEADER, CMP

DF = 'pedantic/models/decorated_function.py'
FC = 'pedantic/models/function_call.py'
PD = 'pedantic/decorators/fn_deco_pedantic.py'
RK = 'pedantic/decorators/fn_deco_require_kwargs.py'
CD = 'pedantic/decorators/class_decorators.py'


def single_return(fn, what):
    body = [s for s in fn.body if not (isinstance(s, ast.Expr) and isinstance(s.value, ast.Constant))]
    if len(body) != 1 or not isinstance(body[0], ast.Return):
        raise Skip(f'{what}: body is not a single return')
    return body[0].value


SCOPES = {}          # flag -> True when the text is searched in the decorator lines only (`self._decorator_lines`)


def needle_in_source(expr, what):
    """`'<needle>' in self.source` / `'<needle>' in self._decorator_lines` -> needle (the scope is recorded in SCOPES[what])"""
    if isinstance(expr, ast.Compare) and isinstance(expr.ops[0], ast.In) and isinstance(expr.left, ast.Constant) \
            and isinstance(expr.left.value, str) and ast.unparse(expr.comparators[0]) in ('self.source', 'self._decorator_lines'):
        header = ast.unparse(expr.comparators[0]) == 'self._decorator_lines'
        if SCOPES.setdefault(what, header) != header:
            raise Skip(f'{what}: the needles are searched in different texts')
        return expr.left.value
    raise Skip(f'{what}: not of the form `<str> in self.source`')


class BoolTr:
    """translates a boolean expression over the atoms of DecoratedFunction / FunctionCall into Lean"""
    ATOMS = {
        'self.is_property_setter': 'setter', 'self.wants_args': 'wantsArgs',
        "self.name.startswith('__')": 'startsDunder', "self.name.endswith('__')": 'endsDunder',
        'self.name in FUNCTIONS_THAT_REQUIRE_KWARGS': 'listed',
        'self.func.is_instance_method': 'isInstanceMethod', 'self.func.is_static_method': 'isStaticMethod',
        'uses_multiple_decorators': 'usesMultipleDecorators', 'self.func.is_pedantic': 'isPedantic',
        'self.func.is_class_method': 'isClassMethod',
    }

    def tr(self, e):
        txt = ast.unparse(e)
        if txt in self.ATOMS:
            return self.ATOMS[txt]
        if isinstance(e, ast.BoolOp):
            op = ' || ' if isinstance(e.op, ast.Or) else ' && '
            return '(' + op.join(self.tr(v) for v in e.values) + ')'
        if isinstance(e, ast.UnaryOp) and isinstance(e.op, ast.Not):
            return '(!' + self.tr(e.operand) + ')'
        if isinstance(e, ast.Constant) and isinstance(e.value, bool):
            return lean_bool(e.value)
        raise Skip(f'boolean expression outside the subset: {txt}')


def if_chain_to_lean(stmts, tr, what, cont=()):
    """if/elif/else chain of `return <bool expr>` (statements after the chain belong to its final else)"""
    stmts = list(stmts) + list(cont) if not stmts else list(stmts)
    if not stmts:
        raise Skip(f'{what}: falls off the end')
    s = stmts[0]
    if isinstance(s, ast.Return):
        return tr.tr(s.value)
    if isinstance(s, ast.If):
        after = stmts[1:] + list(cont) if stmts[1:] else list(cont)
        then = if_chain_to_lean(s.body, tr, what, after)
        els = if_chain_to_lean(s.orelse, tr, what, after) if s.orelse else if_chain_to_lean(after, tr, what)
        return f'(if {tr.tr(s.test)} then {then} else {els})'
    raise Skip(f'{what}: statement outside the subset: {ast.unparse(s)[:60]}')


def calls_in_order(fn):
    """names of the `self.<x>(...)` / `<x>(...)` calls of a function body in evaluation order (approximation: source order,
    arguments before the call that takes them)"""
    out = []

    class V(ast.NodeVisitor):
        def visit_Call(self, node):
            for a in node.args:
                self.visit(a)
            for k in node.keywords:
                self.visit(k.value)
            self.visit(node.func)
            if isinstance(node.func, ast.Attribute):
                out.append(node.func.attr)
            elif isinstance(node.func, ast.Name):
                out.append(node.func.id)
    for s in fn.body:
        V().visit(s)
    return out


def positional_test_is_lt(fn):
    """the `elif` that takes a positional value tests `arg_index < len(self.args)` - in whatever equivalent spelling
    (`not arg_index >= len(self.args)`, `len(self.args) > arg_index`): decided by evaluating the test for all small values"""
    for node in ast.walk(fn):
        if isinstance(node, ast.If) and 'len(self.args)' in ast.unparse(node.test) and 'arg_index' in ast.unparse(node.test):
            names = {n.id for n in ast.walk(node.test) if isinstance(n, ast.Name)} - {'len', 'self'}
            if names != {'arg_index'}:
                return False
            code = compile(ast.Expression(node.test), '<test>', 'eval')

            class S:
                def __init__(self, n): self.args = (0,) * n
            try:
                return all(bool(eval(code, {'len': len, 'self': S(n), 'arg_index': i})) == (i < n) for i in range(4) for n in range(4))
            except Exception:
                return False
    return False


def gen_calltables(repo):
    df = ast.parse(src(repo, DF))
    fc = ast.parse(src(repo, FC))
    pd = ast.parse(src(repo, PD))
    rk = ast.parse(src(repo, RK))
    cd = ast.parse(src(repo, CD))

    listed = None
    for n in df.body:
        if isinstance(n, ast.Assign) and isinstance(n.targets[0], ast.Name) and n.targets[0].id == 'FUNCTIONS_THAT_REQUIRE_KWARGS':
            if not isinstance(n.value, (ast.List, ast.Tuple, ast.Set)) or not all(isinstance(e, ast.Constant) and isinstance(e.value, str) for e in n.value.elts):
                raise Skip('FUNCTIONS_THAT_REQUIRE_KWARGS is not a list of string literals')
            listed = [e.value for e in n.value.elts]
    if listed is None:
        raise Skip('FUNCTIONS_THAT_REQUIRE_KWARGS not found')

    SCOPES.clear()
    static_needle = needle_in_source(single_return(find_func(df, 'is_static_method', 'DecoratedFunction'), 'is_static_method'), 'is_static_method')
    args_needle = needle_in_source(single_return(find_func(df, 'wants_args', 'DecoratedFunction'), 'wants_args'), 'wants_args')
    setter = single_return(find_func(df, 'is_property_setter', 'DecoratedFunction'), 'is_property_setter')
    if not (isinstance(setter, ast.Compare) and isinstance(setter.ops[0], ast.In) and isinstance(setter.left, ast.JoinedStr)
            and ast.unparse(setter.comparators[0]) in ('self.source', 'self._decorator_lines')):
        raise Skip('is_property_setter: not of the form f"...{self.name}..." in self.source')
    SCOPES['is_property_setter'] = ast.unparse(setter.comparators[0]) == 'self._decorator_lines'
    parts = setter.left.values
    if not (len(parts) == 3 and isinstance(parts[0], ast.Constant) and isinstance(parts[1], ast.FormattedValue)
            and ast.unparse(parts[1].value) == 'self.name' and isinstance(parts[2], ast.Constant)):
        raise Skip('is_property_setter: f-string is not <prefix>{self.name}<suffix>')
    setter_prefix, setter_suffix = parts[0].value, parts[2].value
    isped = single_return(find_func(df, 'is_pedantic', 'DecoratedFunction'), 'is_pedantic')
    if isinstance(isped, ast.BoolOp) and isinstance(isped.op, ast.Or):
        ped_needles = [needle_in_source(v, 'is_pedantic') for v in isped.values]
    else:
        ped_needles = [needle_in_source(isped, 'is_pedantic')]
    if any(SCOPES.values()):        # `_decorator_lines` must be the text in front of the first 'def', as num_of_decorators reads it
        dl = single_return(find_func(df, '_decorator_lines', 'DecoratedFunction'), '_decorator_lines')
        dl_txt = ast.unparse(dl)
        if dl_txt == "self.source.split('def')[0]":
            strips_comments = False
        elif dl_txt == "'\\n'.join((line.split('#')[0] for line in self.source.split('def')[0].splitlines()))":
            strips_comments = True          # per line, everything from the first '#' on is dropped
        else:
            raise Skip('_decorator_lines: unexpected expression ' + dl_txt)
    else:
        strips_comments = False
    nod = single_return(find_func(df, 'num_of_decorators', 'DecoratedFunction'), 'num_of_decorators')
    txt = ast.unparse(nod)
    if txt == "len(re.findall('@', self.source.split('def')[0]))":
        count_in_lines = False
    elif txt == "len(re.findall('@', self._decorator_lines))":
        count_in_lines = True
    else:
        raise Skip('num_of_decorators: unexpected expression ' + txt)

    tr = BoolTr()
    shk = find_func(df, 'should_have_kwargs', 'DecoratedFunction')
    shk_body = [s for s in shk.body if not (isinstance(s, ast.Expr) and isinstance(s.value, ast.Constant))]
    shk_lean = if_chain_to_lean(shk_body, tr, 'should_have_kwargs')

    iim_fn = find_func(df, 'is_instance_method', 'DecoratedFunction')
    iim_body = [s for s in iim_fn.body if not (isinstance(s, ast.Expr) and isinstance(s.value, ast.Constant))]
    excludes_bound = False      # `if inspect.ismethod(self._func): return False` in front: a bound method does not expect its instance
    if len(iim_body) == 2 and isinstance(iim_body[0], ast.If) and ast.unparse(iim_body[0].test) == 'inspect.ismethod(self._func)' \
            and not iim_body[0].orelse and len(iim_body[0].body) == 1 and isinstance(iim_body[0].body[0], ast.Return) \
            and ast.unparse(iim_body[0].body[0].value) == 'False' and isinstance(iim_body[1], ast.Return):
        excludes_bound = True
        iim = ast.unparse(iim_body[1].value)
    else:
        iim = ast.unparse(single_return(iim_fn, 'is_instance_method'))
    first_is_self = iim == "self._full_arg_spec.args != [] and self._full_arg_spec.args[0] == 'self'"
    if not first_is_self:
        raise Skip('is_instance_method: unexpected expression ' + iim)
    icm = ast.unparse(single_return(find_func(df, 'is_class_method', 'DecoratedFunction'), 'is_class_method'))
    if icm != 'inspect.ismethod(self._func)':
        raise Skip('is_class_method: unexpected expression ' + icm)

    # args_without_self
    aws = find_func(fc, 'args_without_self', 'FunctionCall')
    body = [s for s in aws.body if not (isinstance(s, ast.Expr) and isinstance(s.value, ast.Constant))]
    max_allowed = None
    multi_op = None
    strip_cond = None
    strip_from = None
    keeps_all = False
    for s in body:
        if isinstance(s, ast.Assign) and isinstance(s.targets[0], ast.Name) and s.targets[0].id == 'max_allowed':
            v = s.value
            if not (isinstance(v, ast.IfExp) and isinstance(v.body, ast.Constant) and isinstance(v.orelse, ast.Constant)):
                raise Skip('args_without_self: max_allowed is not a conditional constant')
            max_allowed = (tr.tr(v.test), v.body.value, v.orelse.value)
        elif isinstance(s, ast.Assign) and isinstance(s.targets[0], ast.Name) and s.targets[0].id == 'uses_multiple_decorators':
            v = s.value
            if not (isinstance(v, ast.Compare) and type(v.ops[0]) in CMP and ast.unparse(v.left) == 'self.func.num_of_decorators'
                    and ast.unparse(v.comparators[0]) == 'max_allowed'):
                raise Skip('args_without_self: uses_multiple_decorators is not `num_of_decorators <op> max_allowed`')
            multi_op = CMP[type(v.ops[0])]
        elif isinstance(s, ast.If):
            strip_cond = tr.tr(s.test)
            r = s.body[0]
            if not (isinstance(r, ast.Return) and isinstance(r.value, ast.Subscript) and ast.unparse(r.value.value) == 'self.args'
                    and isinstance(r.value.slice, ast.Slice) and isinstance(r.value.slice.lower, ast.Constant) and r.value.slice.upper is None):
                raise Skip('args_without_self: stripped branch is not `return self.args[<n>:]`')
            strip_from = r.value.slice.lower.value
        elif isinstance(s, ast.Return) and ast.unparse(s.value) == 'self.args':
            keeps_all = True
        else:
            raise Skip('args_without_self: statement outside the subset')
    if None in (max_allowed, multi_op, strip_cond, strip_from) or not keeps_all:
        raise Skip('args_without_self: shape not recognised')

    # assert_uses_kwargs
    auk = find_func(fc, 'assert_uses_kwargs', 'FunctionCall')
    ifs = [s for s in auk.body if isinstance(s, ast.If)]
    if len(ifs) != 1 or ast.unparse(ifs[0].test) != 'self.func.should_have_kwargs and self.args_without_self' \
            or not isinstance(ifs[0].body[0], ast.Raise):
        raise Skip('assert_uses_kwargs: unexpected shape')
    auk_exc = ifs[0].body[0].exc.func.id if isinstance(ifs[0].body[0].exc, ast.Call) else '?'

    # order facts
    ct = calls_in_order(find_func(fc, 'check_types', 'FunctionCall'))
    act = calls_in_order(find_func(fc, 'async_check_types', 'FunctionCall'))

    def before(seq, a, b):
        return a in seq and b in seq and seq.index(a) < seq.index(b)
    args_before_body = before(ct, '_check_types_of_arguments', '_get_return_value')
    ret_after_body = before(ct, '_get_return_value', '_check_types_return')
    a_args_before_body = before(act, '_check_types_of_arguments', '_async_get_return_value')
    a_ret_after_body = before(act, '_async_get_return_value', '_check_types_return')
    coa = calls_in_order(find_func(fc, '_check_types_of_arguments', 'FunctionCall'))
    checks = [c for c in coa if c.startswith('_check_type')]
    grv = find_func(fc, '_get_return_value', 'FunctionCall')
    grv_if = [s for s in grv.body if isinstance(s, ast.If)]
    if len(grv_if) != 1:
        raise Skip('_get_return_value: unexpected shape')
    kw_only_cond = tr.tr(grv_if[0].test)
    kw_only_call = ast.unparse(grv_if[0].body[0].value)
    normal_call = ast.unparse(grv_if[0].orelse[0].value)
    agrv = find_func(fc, '_async_get_return_value', 'FunctionCall')
    agrv_if = [s for s in agrv.body if isinstance(s, ast.If)]
    async_same = len(agrv_if) == 1 and tr.tr(agrv_if[0].test) == kw_only_cond \
        and ast.unparse(agrv_if[0].body[0].value) == 'await ' + kw_only_call \
        and ast.unparse(agrv_if[0].orelse[0].value) == 'await ' + normal_call

    # pedantic wrapper: assert_uses_kwargs before check_types, in both wrappers
    dec = find_func(pd, 'decorator')
    wr = [n for n in dec.body if isinstance(n, (ast.FunctionDef, ast.AsyncFunctionDef))]
    wrapper_facts = {}
    for w in wr:
        seq = calls_in_order(w)
        wrapper_facts[w.name] = (before(seq, 'assert_uses_kwargs', 'check_types') or before(seq, 'assert_uses_kwargs', 'async_check_types'),
                                 isinstance(w, ast.AsyncFunctionDef))
    if 'wrapper' not in wrapper_facts or 'async_wrapper' not in wrapper_facts:
        raise Skip('pedantic.decorator: wrapper / async_wrapper not found')
    rkw = find_func(rk, 'wrapper')
    rk_seq = calls_in_order(rkw)
    rk_asserts_then_calls = before(rk_seq, 'assert_uses_kwargs', 'func')
    rk_ret = [s for s in rkw.body if isinstance(s, ast.Return)]
    rk_forwards = bool(rk_ret) and ast.unparse(rk_ret[-1].value) == 'func(*args, **kwargs)'

    # for_all_methods: which members are wrapped
    fam = find_func(cd, 'decorate')
    wraps_functions = wraps_props = False
    prop_parts = []
    for n in ast.walk(fam):
        if isinstance(n, ast.If) and ast.unparse(n.test) == 'isinstance(attr_value, (types.FunctionType, types.MethodType))':
            wraps_functions = any('setattr(cls, attr, decorator(attr_value))' == ast.unparse(s).strip() for s in n.body)
            for e in n.orelse:
                if isinstance(e, ast.If) and ast.unparse(e.test) == 'isinstance(attr_value, property)':
                    t = ast.unparse(e)
                    prop_parts = [p for p in ('fget', 'fset', 'fdel') if f'prop.{p}, decorator=decorator' in t and f'{p}=wrapped_' in t]
                    wraps_props = 'setattr(cls, attr, new_prop)' in t
    # _assert_annotation_is_complete (star parameters) and where it is applied
    complete_bare = []
    complete_uses_required = False
    try:
        aic = find_func(fc, '_assert_annotation_is_complete', 'FunctionCall')
        for n in ast.walk(aic):
            if isinstance(n, ast.Compare) and isinstance(n.ops[0], ast.In) and isinstance(n.comparators[0], (ast.List, ast.Set, ast.Tuple)):
                complete_bare = [e.id for e in n.comparators[0].elts if isinstance(e, ast.Name)]
            if isinstance(n, ast.UnaryOp) and isinstance(n.op, ast.Not) and '_has_required_type_arguments' in ast.unparse(n.operand):
                complete_uses_required = True
    except Skip:
        pass
    star_seq = calls_in_order(find_func(fc, '_check_types_args', 'FunctionCall'))
    dstar_seq = calls_in_order(find_func(fc, '_check_types_kwargs', 'FunctionCall'))
    star_ann = '_assert_param_has_type_annotation' in star_seq
    star_complete = '_assert_annotation_is_complete' in star_seq
    star_binds = 'bind_partial' in star_seq
    dstar_ann = '_assert_param_has_type_annotation' in dstar_seq
    dstar_complete = '_assert_annotation_is_complete' in dstar_seq
    ctp = ast.unparse(find_func(fc, '_check_type_param', 'FunctionCall'))
    param_kw_fallback = 'elif key in self.kwargs' in ctp and positional_test_is_lt(find_func(fc, '_check_type_param', 'FunctionCall'))

    L = [HEADER.format(rel=f'{DF}, {FC}, {PD}, {RK}, {CD}'), 'namespace PedVerif.Gen.CallTables\n']
    L.append('/-- FUNCTIONS_THAT_REQUIRE_KWARGS -/')
    L.append('def requireKwargsDunders : List String := [' + ', '.join(lean_str(x) for x in listed) + ']')
    L.append('/-- source-text needles of DecoratedFunction -/')
    L.append(f'def staticNeedle : String := {lean_str(static_needle)}')
    L.append(f'def argsNeedle : String := {lean_str(args_needle)}')
    L.append(f'def setterPrefix : String := {lean_str(setter_prefix)}')
    L.append(f'def setterSuffix : String := {lean_str(setter_suffix)}')
    L.append('def pedanticNeedles : List String := [' + ', '.join(lean_str(x) for x in ped_needles) + ']')
    L.append('/-- which text each predicate searches: the decorator lines (the source in front of the first `def`) or the whole source -/')
    L.append(f'def staticInHeader : Bool := {lean_bool(SCOPES.get("is_static_method", False))}')
    L.append(f'def argsInHeader : Bool := {lean_bool(SCOPES.get("wants_args", False))}')
    L.append(f'def setterInHeader : Bool := {lean_bool(SCOPES.get("is_property_setter", False))}')
    L.append(f'def pedanticInHeader : Bool := {lean_bool(SCOPES.get("is_pedantic", False))}')
    L.append('/-- the decorator lines are searched without their comments (per line, from the first `#` on); the decorators are counted there -/')
    L.append(f'def headerStripsComments : Bool := {lean_bool(strips_comments)}')
    L.append(f'def numDecoratorsCountedInHeaderLines : Bool := {lean_bool(count_in_lines)}')
    L.append("/-- num_of_decorators = number of '@' in the source text before the first 'def' -/")
    L.append('def decoratorMark : String := "@"\ndef decoratorSplit : String := "def"')
    L.append('/-- `DecoratedFunction.should_have_kwargs`, translated -/')
    L.append('def shouldHaveKwargs (setter wantsArgs startsDunder endsDunder listed : Bool) : Bool :=\n  ' + shk_lean)
    L.append('/-- `FunctionCall.args_without_self`, translated: the allowed number of decorator lines, the comparison, the strip condition -/')
    L.append(f'def maxAllowed (isPedantic : Bool) : Nat := if {max_allowed[0]} then {max_allowed[1]} else {max_allowed[2]}')
    L.append(f'def usesMultiple (numOfDecorators : Nat) (isPedantic : Bool) : Bool := decide (numOfDecorators {multi_op} maxAllowed isPedantic)')
    # the context of a call: `self._context = {**context, **func.globals}` in FunctionCall.__init__ (caller's names complemented - and
    # overridden - by those of the module that defines the function); the generator wrapper receives it
    init = find_func(fc, '__init__', 'FunctionCall')
    ctx_txt = [ast.unparse(s.value) for s in init.body if isinstance(s, ast.Assign) and ast.unparse(s.targets[0]) == 'self._context']
    ctx_merges = ctx_txt == ['{**context, **func.globals}']
    glob = find_func(df, 'globals', 'DecoratedFunction')
    glob_ok = glob is not None and ast.unparse(single_return(glob, 'globals')) == "getattr(inspect.unwrap(self._func), '__globals__', {})"
    gw_calls = [n for n in ast.walk(fc) if isinstance(n, ast.Call) and ast.unparse(n.func) == 'GeneratorWrapper']
    gw_ctx = bool(gw_calls) and all(any(k.arg == 'context' and ast.unparse(k.value) == 'self._context' for k in c.keywords) for c in gw_calls)
    L.append('/-- the context of a call is the caller\'s names complemented (and overridden) by those of the module that defines the function -/')
    L.append(f'def callContextIncludesFunctionGlobals : Bool := {lean_bool(ctx_merges and glob_ok)}')
    L.append(f'def generatorWrapperReceivesContext : Bool := {lean_bool(gw_ctx)}')
    L.append('/-- is_instance_method answers False for a bound method (inspect.ismethod), whatever getfullargspec lists -/')
    L.append(f'def instanceMethodExcludesBound : Bool := {lean_bool(excludes_bound)}')
    L.append(f'def stripsFirst (isInstanceMethod isStaticMethod usesMultipleDecorators : Bool) : Bool := {strip_cond}')
    L.append(f'def stripFrom : Nat := {strip_from}')
    L.append(f'def assertUsesKwargsRaises : String := {lean_str(auk_exc)}')
    L.append('/-- order facts of FunctionCall.check_types / async_check_types and of the wrappers -/')
    L.append(f'def argsCheckedBeforeBody : Bool := {lean_bool(args_before_body)}')
    L.append(f'def returnCheckedAfterBody : Bool := {lean_bool(ret_after_body)}')
    L.append(f'def asyncArgsCheckedBeforeBody : Bool := {lean_bool(a_args_before_body)}')
    L.append(f'def asyncReturnCheckedAfterBody : Bool := {lean_bool(a_ret_after_body)}')
    L.append('def argumentChecks : List String := [' + ', '.join(lean_str(x) for x in checks) + ']')
    L.append(f'def kwargsOnlyInvocation (isStaticMethod isClassMethod : Bool) : Bool := {kw_only_cond}')
    L.append(f'def kwargsOnlyCall : String := {lean_str(kw_only_call)}')
    L.append(f'def normalCall : String := {lean_str(normal_call)}')
    L.append(f'def asyncInvocationSame : Bool := {lean_bool(async_same)}')
    L.append(f'def wrapperAssertsKwargsFirst : Bool := {lean_bool(wrapper_facts["wrapper"][0])}')
    L.append(f'def asyncWrapperAssertsKwargsFirst : Bool := {lean_bool(wrapper_facts["async_wrapper"][0])}')
    L.append(f'def asyncWrapperIsAsync : Bool := {lean_bool(wrapper_facts["async_wrapper"][1])}')
    L.append(f'def requireKwargsAssertsThenCalls : Bool := {lean_bool(rk_asserts_then_calls)}')
    L.append(f'def requireKwargsForwards : Bool := {lean_bool(rk_forwards)}')
    L.append('/-- for_all_methods: functions / bound methods are wrapped; property accessors that are wrapped -/')
    L.append(f'def classDecoratorWrapsFunctions : Bool := {lean_bool(wraps_functions)}')
    L.append(f'def classDecoratorWrapsProperties : Bool := {lean_bool(wraps_props)}')
    L.append('def classDecoratorPropertyParts : List String := [' + ', '.join(lean_str(x) for x in prop_parts) + ']')
    L.append('/-- star parameters: annotation required / complete before the element loop; which values the *args loop checks -/')
    L.append('def completeBareList : List String := [' + ', '.join(lean_str(x) for x in complete_bare) + ']')
    L.append(f'def completeUsesRequiredArgs : Bool := {lean_bool(complete_uses_required)}')
    L.append(f'def starRequiresAnnotation : Bool := {lean_bool(star_ann)}')
    L.append(f'def starRequiresComplete : Bool := {lean_bool(star_complete)}')
    L.append(f'def starChecksBoundValuesOnly : Bool := {lean_bool(star_binds)}')
    L.append(f'def dstarRequiresAnnotation : Bool := {lean_bool(dstar_ann)}')
    L.append(f'def dstarRequiresComplete : Bool := {lean_bool(dstar_complete)}')
    # the receiver of a method: `self._instance = self.args[0] if self.args else self.kwargs.get('self')` (K.m(self=obj) is a legal call), and
    # `not_yet_check_kwargs` does not offer that keyword to the **kwargs check
    recv_kw = False
    for n in ast.walk(init):
        if isinstance(n, ast.Assign) and ast.unparse(n.targets[0]) == 'self._instance' and isinstance(n.value, ast.IfExp) \
                and ast.unparse(n.value.test) in ('self.args', 'self._args', 'args') and ast.unparse(n.value.body) in ('self.args[0]', 'self._args[0]', 'args[0]') \
                and ast.unparse(n.value.orelse) in ("self.kwargs.get('self')", "self._kwargs.get('self')", "kwargs.get('self')"):
            recv_kw = True
    nyc = ast.unparse(find_func(fc, 'not_yet_check_kwargs', 'FunctionCall'))
    dstar_skips = "receiver = 'self' if self.func.is_instance_method else None" in nyc and 'k != receiver' in nyc
    L.append('/-- the receiver of a method may be passed by keyword (`K.m(self=obj, …)`): `__init__` takes it from `kwargs` when there is no positional argument; `not_yet_check_kwargs` leaves that keyword out -/')
    L.append(f'def receiverMayBeKeyword : Bool := {lean_bool(recv_kw)}')
    L.append(f'def dstarSkipsReceiverKeyword : Bool := {lean_bool(dstar_skips)}')
    L.append('/-- `_check_type_param`: a parameter that may be passed positionally falls back to the keyword, then to "unfilled" -/')
    L.append(f'def positionalParamFallsBack : Bool := {lean_bool(param_kw_fallback)}')
    L.append('\nend PedVerif.Gen.CallTables')
    return '\n'.join(L) + '\n'


FILES = {'CallTables.lean': gen_calltables}
