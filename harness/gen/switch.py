"""Translator part for C09: the ENABLE_PEDANTIC switch.

Regenerated from the source with `ast` (never imports the library):
  (a) ENVIRONMENT_VARIABLE_NAME and what enable_pedantic()/disable_pedantic() write;
  (b) a shallow translation of is_enabled() into a Lean function of the variable's value (`Option String`);
      `none` as a result means "an exception escapes" (e.g. an unguarded os.environ[...] on an unset variable);
  (c) one row per decorator named in the property: through which functions the target is handed on, which function
      finally receives it, where is_enabled() is consulted (factory / decoration / per-call wrapper / never), what the
      test evaluates to for both switch values, and whether the guarded statement returns the very parameter received;
  (d) for the class decorators: whether the per-member decorator handed to for_all_methods is applied to every member
      while `decorate` runs (every occurrence of the name is the callee of a call made directly in `decorate`, or is
      handed to a module-level helper *function* that does nothing else with it) — and not stored in an object / closure
      that applies it later, on attribute access (which would move the read of the switch from decoration to first use).
"""
import ast
from extract import Skip, src, lean_str, lean_bool, HEADER

ENV_REL = 'pedantic/env_var_logic.py'
FN_REL = 'pedantic/decorators/fn_deco_pedantic.py'
CLS_REL = 'pedantic/decorators/class_decorators.py'

SEVEN = ['pedantic', 'pedantic_require_docstring', 'pedantic_class', 'pedantic_class_require_docstring',
         'trace_class', 'timer_class', 'for_all_methods']

FUNC = (ast.FunctionDef, ast.AsyncFunctionDef)


def strip_doc(body):
    return [s for s in body if not (isinstance(s, ast.Expr) and isinstance(s.value, ast.Constant) and isinstance(s.value.value, str))]


# ------------------------------------------------------------------ (a)+(b) env_var_logic.py

class EnvTr:
    """translates the expression language of env_var_logic.py; `v : Option String` is the value of the variable"""

    def __init__(self, tree):
        self.var = None      # python identifier holding the name
        self.name = None     # the name of the environment variable
        for s in tree.body:
            if isinstance(s, ast.Assign) and len(s.targets) == 1 and isinstance(s.targets[0], ast.Name) \
                    and isinstance(s.value, ast.Constant) and isinstance(s.value.value, str) \
                    and s.targets[0].id == 'ENVIRONMENT_VARIABLE_NAME':
                self.var, self.name = s.targets[0].id, s.value.value
        if self.name is None:
            raise Skip('env_var_logic: no `ENVIRONMENT_VARIABLE_NAME = <str>`')
        self.funcs = {s.name: s for s in tree.body if isinstance(s, FUNC)}

    def is_key(self, e):
        return (isinstance(e, ast.Name) and e.id == self.var) or (isinstance(e, ast.Constant) and e.value == self.name)

    @staticmethod
    def is_environ(e):
        return isinstance(e, ast.Attribute) and e.attr == 'environ' and isinstance(e.value, ast.Name) and e.value.id == 'os'

    def is_subscript(self, e):
        return isinstance(e, ast.Subscript) and self.is_environ(e.value) and self.is_key(e.slice)

    def get_call(self, e):
        """os.environ.get(NAME[, d]) / os.getenv(NAME[, d]) -> (True, default-node or None)"""
        if not isinstance(e, ast.Call):
            return None
        f = e.func
        ok = (isinstance(f, ast.Attribute) and f.attr == 'get' and self.is_environ(f.value)) or \
             (isinstance(f, ast.Attribute) and f.attr == 'getenv' and isinstance(f.value, ast.Name) and f.value.id == 'os')
        if not ok or not e.args or not self.is_key(e.args[0]) or len(e.args) > 2:
            return None
        d = e.args[1] if len(e.args) == 2 else None
        for k in e.keywords:
            if k.arg == 'default' and d is None:
                d = k.value
            else:
                return None
        return (True, d)

    # string-or-None valued expressions -> Lean term : Option (Option String)   (outer none = exception)
    def s(self, e, loc):
        if self.is_subscript(e):
            return '(v.map some)'
        g = self.get_call(e)
        if g:
            d = g[1]
            if d is None or (isinstance(d, ast.Constant) and d.value is None):
                return '(some v)'
            if isinstance(d, ast.Constant) and isinstance(d.value, str):
                return f'(some (some (v.getD {lean_str(d.value)})))'
            raise Skip('is_enabled: default of the lookup is not a constant')
        if isinstance(e, ast.Constant) and isinstance(e.value, str):
            return f'(some (some {lean_str(e.value)}))'
        if isinstance(e, ast.Constant) and e.value is None:
            return '(some none)'
        if isinstance(e, ast.Name) and e.id in loc:
            return f'(some {loc[e.id]})'
        raise Skip(f'is_enabled: unsupported value expression `{ast.unparse(e)}`')

    def const_item(self, e):
        if isinstance(e, ast.Constant) and isinstance(e.value, str):
            return f'some {lean_str(e.value)}'
        if isinstance(e, ast.Constant) and e.value is None:
            return 'none'
        raise Skip('is_enabled: membership test against a non-constant')

    # bool valued expressions -> Lean term : Option Bool
    def b(self, e, loc):
        if isinstance(e, ast.Constant) and isinstance(e.value, bool):
            return f'(some {lean_bool(e.value)})'
        if isinstance(e, ast.UnaryOp) and isinstance(e.op, ast.Not):
            return f'(({self.b(e.operand, loc)}).map fun c => !c)'
        if isinstance(e, ast.BoolOp):
            parts = [self.b(x, loc) for x in e.values]
            acc = parts[-1]
            for p in reversed(parts[:-1]):
                if isinstance(e.op, ast.And):
                    acc = f'(({p}).bind fun c => if c then {acc} else some false)'
                else:
                    acc = f'(({p}).bind fun c => if c then some true else {acc})'
            return acc
        if isinstance(e, ast.Compare) and len(e.ops) == 1:
            op, l, r = e.ops[0], e.left, e.comparators[0]
            neg = isinstance(op, (ast.NotIn, ast.NotEq, ast.IsNot))
            wrap = (lambda t: f'(!{t})') if neg else (lambda t: t)
            if isinstance(op, (ast.In, ast.NotIn)):
                if self.is_key(l) and self.is_environ(r):
                    return f'(some {wrap("v.isSome")})'
                if isinstance(r, (ast.Tuple, ast.List, ast.Set)):
                    items = ', '.join(self.const_item(x) for x in r.elts)
                    return f'(({self.s(l, loc)}).map fun a => {wrap(f"decide (a ∈ [{items}])")})'
                raise Skip(f'is_enabled: unsupported membership test `{ast.unparse(e)}`')
            if isinstance(op, (ast.Is, ast.IsNot)):
                if not any(isinstance(x, ast.Constant) and x.value is None for x in (l, r)):
                    raise Skip('is_enabled: `is` between strings')
            if isinstance(op, (ast.Eq, ast.NotEq, ast.Is, ast.IsNot)):
                return f'(({self.s(l, loc)}).bind fun a => ({self.s(r, loc)}).map fun b => {wrap("decide (a = b)")})'
        raise Skip(f'is_enabled: unsupported test `{ast.unparse(e)}`')

    def body(self, stmts, loc):
        if not stmts:
            raise Skip('is_enabled: a path falls off the end of the function')
        s, rest = stmts[0], stmts[1:]
        if isinstance(s, ast.Return):
            if s.value is None:
                raise Skip('is_enabled: bare return')
            return self.b(s.value, loc)
        if isinstance(s, ast.If):
            t = self.b(s.test, loc)
            return f'(({t}).bind fun c =>\n    if c then {self.body(list(s.body) + rest, loc)}\n    else {self.body(list(s.orelse) + rest, loc)})'
        if isinstance(s, ast.Assign) and len(s.targets) == 1 and isinstance(s.targets[0], ast.Name):
            x = s.targets[0].id
            lx = 'x_' + ''.join(ch for ch in x if ch.isalnum() or ch == '_')
            return f'(({self.s(s.value, loc)}).bind fun {lx} =>\n    {self.body(rest, dict(loc, **{x: lx}))})'
        raise Skip(f'is_enabled: unsupported statement `{ast.unparse(s).splitlines()[0]}`')

    def writes(self, fname):
        """body of enable_pedantic/disable_pedantic: `os.environ[NAME] = <str>` (or `os.environ.pop(NAME, None)`)"""
        if fname not in self.funcs:
            raise Skip(f'env_var_logic: {fname} not found')
        body = strip_doc(self.funcs[fname].body)
        if len(body) != 1:
            raise Skip(f'{fname}: body is not a single statement')
        s = body[0]
        if isinstance(s, ast.Assign) and len(s.targets) == 1 and self.is_subscript(s.targets[0]) \
                and isinstance(s.value, ast.Constant) and isinstance(s.value.value, str):
            return f'some {lean_str(s.value.value)}'
        if isinstance(s, ast.Expr) and isinstance(s.value, ast.Call) and isinstance(s.value.func, ast.Attribute) \
                and s.value.func.attr == 'pop' and self.is_environ(s.value.func.value) and len(s.value.args) == 2 \
                and self.is_key(s.value.args[0]):
            return 'none'
        raise Skip(f'{fname}: unsupported body `{ast.unparse(s)}`')


# ------------------------------------------------------------------ (c) the decorators

def is_enabled_call(n):
    return isinstance(n, ast.Call) and ((isinstance(n.func, ast.Name) and n.func.id == 'is_enabled') or
                                        (isinstance(n.func, ast.Attribute) and n.func.attr == 'is_enabled'))


def direct_nodes(stmts):
    """all nodes of the statements that are NOT inside a nested def / lambda / class"""
    out = []

    def rec(n):
        out.append(n)
        for c in ast.iter_child_nodes(n):
            if isinstance(c, FUNC + (ast.Lambda, ast.ClassDef)):
                continue
            rec(c)
    for s in stmts:
        if isinstance(s, FUNC + (ast.ClassDef,)):
            continue
        rec(s)
    return out


def nested_defs(stmts):
    out = []
    for s in stmts:
        for n in ast.walk(s):
            if isinstance(n, FUNC + (ast.Lambda,)):
                out.append(n)
    return out


def params(fn):
    return [a.arg for a in fn.args.posonlyargs + fn.args.args]


def passed_as(call, name, callee):
    """the parameter of `callee` that receives the bare Name `name` in `call`, or None"""
    hits = []
    for i, a in enumerate(call.args):
        if isinstance(a, ast.Name) and a.id == name:
            ps = params(callee)
            if i < len(ps):
                hits.append(ps[i])
    for k in call.keywords:
        if isinstance(k.value, ast.Name) and k.value.id == name and k.arg is not None:
            hits.append(k.arg)
    return hits[0] if len(hits) == 1 else None


def eval_test(e, en):
    """value of the `if` test when is_enabled() returns `en`"""
    if is_enabled_call(e):
        return en
    if isinstance(e, ast.Constant) and isinstance(e.value, bool):
        return e.value
    if isinstance(e, ast.UnaryOp) and isinstance(e.op, ast.Not):
        return not eval_test(e.operand, en)
    if isinstance(e, ast.BoolOp):
        vals = [eval_test(x, en) for x in e.values]
        return all(vals) if isinstance(e.op, ast.And) else any(vals)
    if isinstance(e, ast.Compare) and len(e.ops) == 1 and isinstance(e.ops[0], (ast.Eq, ast.NotEq, ast.Is, ast.IsNot)):
        a, b = eval_test(e.left, en), eval_test(e.comparators[0], en)
        return (a == b) if isinstance(e.ops[0], (ast.Eq, ast.Is)) else (a != b)
    raise Skip(f'switch test outside the subset: `{ast.unparse(e)}`')


def uses_of(stmts, name):
    """(node, parent, inside a nested def/lambda/class?) for every Name `name` in the statements"""
    out = []

    def rec(n, parent, nested):
        if isinstance(n, ast.Name) and n.id == name:
            out.append((n, parent, nested))
        for c in ast.iter_child_nodes(n):
            rec(c, n, nested or isinstance(c, FUNC + (ast.Lambda, ast.ClassDef)))
    for s in stmts:
        rec(s, None, isinstance(s, FUNC + (ast.ClassDef,)))
    return out


def applied_at_once(stmts, name, funcs, depth=0):
    """every occurrence of `name` in `stmts` is `name(..)` called on the spot, or hands it on to a module-level function that
    only does the same with it (never stored, never captured by a nested function / lambda / class, never given to a class)"""
    for node, parent, nested in uses_of(stmts, name):
        if nested:
            return False
        if isinstance(parent, ast.Call) and parent.func is node:
            continue                                                  # decorator(x): applied now
        if isinstance(parent, ast.Call) and node in parent.args and isinstance(parent.func, ast.Name) and parent.func.id in funcs:
            g = funcs[parent.func.id]
            ps = params(g)
            i = parent.args.index(node)
            if i < len(ps) and depth < 3 and applied_at_once(strip_doc(g.body), ps[i], funcs, depth + 1):
                continue
            return False
        if isinstance(parent, ast.keyword) and parent.arg is not None:
            # find the call this keyword belongs to: handled by the caller below
            continue
        return False
    # keywords: `helper(.., decorator=name)`
    for s in stmts:
        for c in ast.walk(s):
            if isinstance(c, ast.Call):
                for k in c.keywords:
                    if isinstance(k.value, ast.Name) and k.value.id == name:
                        if not (k.arg is not None and isinstance(c.func, ast.Name) and c.func.id in funcs and depth < 3
                                and k.arg in params(funcs[c.func.id]) + [a.arg for a in funcs[c.func.id].args.kwonlyargs]
                                and applied_at_once(strip_doc(funcs[c.func.id].body), k.arg, funcs, depth + 1)):
                            return False
    return True


class Resolver:
    def __init__(self, repo):
        self.funcs = {}
        for rel in (FN_REL, CLS_REL):
            tree = ast.parse(src(repo, rel))
            for s in tree.body:
                if isinstance(s, FUNC):
                    if s.name in self.funcs:
                        raise Skip(f'{s.name} defined twice')
                    self.funcs[s.name] = s

    def row(self, name):
        if name not in self.funcs:
            raise Skip(f'decorator {name} not found')
        fn = self.funcs[name]
        st = {'chain': [name], 'pass': True, 'consts': {}, 'inner': '', 'factory': None, 'byNone': True}
        body = strip_doc(fn.body)
        last = body[-1] if body else None
        nested = {s.name: s for s in body if isinstance(s, FUNC)}
        if isinstance(last, ast.Return) and isinstance(last.value, ast.Name) and last.value.id in nested:
            # the decorator is a factory: `name(arg)(target)`; the returned inner function receives the target
            st['inner'] = '<arg>'
            recv, q = self.enter_factory(fn, st)
        else:
            ps = params(fn)
            if not ps:
                raise Skip(f'{name} has no parameter')
            recv, q = self.walk(fn, ps[0], st)
        return self.analyse(name, recv, q, st)

    def enter_factory(self, fn, st):
        body = strip_doc(fn.body)
        last = body[-1]
        nested = {s.name: s for s in body if isinstance(s, FUNC)}
        if not (isinstance(last, ast.Return) and isinstance(last.value, ast.Name) and last.value.id in nested):
            raise Skip(f'{fn.name}: not a factory returning a nested function')
        if any(not isinstance(s, FUNC) for s in body[:-1]):
            st['pass'] = False
        d = nested[last.value.id]
        st['factory'] = fn
        st['chain'].append(f'{fn.name}.{d.name}')
        ps = params(d)
        if not ps:
            raise Skip(f'{fn.name}.{d.name} has no parameter')
        return d, ps[0]

    def walk(self, fn, target, st, depth=0):
        """follow the target through `return g(.. target ..)` hops; returns (receiver def, receiving parameter)"""
        if depth > 6:
            raise Skip('delegation chain too long')
        body = strip_doc(fn.body)
        if not body or not isinstance(body[-1], ast.Return) or body[-1].value is None:
            raise Skip(f'{fn.name}: does not end in `return <expr>`')
        v = body[-1].value
        nested = {s.name: s for s in body if isinstance(s, FUNC)}
        if any(not isinstance(s, FUNC) for s in body[:-1]):
            st['pass'] = False          # something else happens in a hop before the target is handed on
        # dual form: `return D if target is None else D(f=target)`; told apart by truth value (`D(f=target) if target else D`) an object
        # with bool(obj) == False is taken for "no target": recorded as dispatchOnNone = false
        by_none = isinstance(v, ast.IfExp) and isinstance(v.test, ast.Compare) and len(v.test.ops) == 1 \
            and isinstance(v.test.left, ast.Name) and v.test.left.id == target \
            and isinstance(v.test.comparators[0], ast.Constant) and v.test.comparators[0].value is None \
            and isinstance(v.test.ops[0], (ast.Is, ast.IsNot))
        by_truth = isinstance(v, ast.IfExp) and (
            (isinstance(v.test, ast.Name) and v.test.id == target) or
            (isinstance(v.test, ast.UnaryOp) and isinstance(v.test.op, ast.Not) and isinstance(v.test.operand, ast.Name)
             and v.test.operand.id == target))
        if by_none or by_truth:
            if by_none:
                a, b = (v.body, v.orelse) if isinstance(v.test.ops[0], ast.Is) else (v.orelse, v.body)
            else:
                a, b = (v.orelse, v.body) if isinstance(v.test, ast.Name) else (v.body, v.orelse)
                st['byNone'] = False
            if isinstance(a, ast.Name) and a.id in nested and isinstance(b, ast.Call) and isinstance(b.func, ast.Name) \
                    and b.func.id == a.id:
                d = nested[a.id]
                q = passed_as(b, target, d)
                if q is None or len(b.args) + len(b.keywords) != 1:
                    raise Skip(f'{fn.name}: target is not handed to {d.name} as the only argument')
                st['factory'] = fn
                st['chain'].append(f'{fn.name}.{d.name}')
                for a_, dflt in zip(reversed(fn.args.args), reversed(fn.args.defaults)):
                    if isinstance(dflt, ast.Constant):
                        st['consts'].setdefault(a_.arg, dflt.value)
                return d, q
            raise Skip(f'{fn.name}: unsupported conditional return')
        if isinstance(v, ast.Call) and isinstance(v.func, ast.Name) and v.func.id in self.funcs:
            g = self.funcs[v.func.id]
            q = passed_as(v, target, g)
            if q is None:
                raise Skip(f'{fn.name}: target is not handed to {g.name} as a plain name')
            for k in v.keywords:
                if k.arg is not None and isinstance(k.value, ast.Constant):
                    st['consts'].setdefault(k.arg, k.value.value)
            st['chain'].append(g.name)
            return self.walk(g, q, st, depth + 1)
        if isinstance(v, ast.Call) and isinstance(v.func, ast.Call) and isinstance(v.func.func, ast.Name) \
                and v.func.func.id in self.funcs:
            g = self.funcs[v.func.func.id]
            inner = None
            gps = params(g)
            for i, a in enumerate(v.func.args):
                if i == 0 and isinstance(a, ast.Name):
                    inner = a.id
            for k in v.func.keywords:
                if gps and k.arg == gps[0] and isinstance(k.value, ast.Name):
                    inner = k.value.id
            if inner is None or len(v.func.args) + len(v.func.keywords) != 1:
                raise Skip(f'{fn.name}: cannot read the decorator handed to {g.name}')
            st['inner'] = inner
            st['chain'].append(g.name)
            d, q0 = self.enter_factory(g, st)
            q = passed_as(v, target, d)
            if q is None or len(v.args) + len(v.keywords) != 1:
                raise Skip(f'{fn.name}: target is not handed to {g.name}(..) as the only argument')
            return d, q
        raise Skip(f'{fn.name}: unsupported return `{ast.unparse(v)[:60]}`')

    def analyse(self, name, recv, q, st):
        body = strip_doc(recv.body)
        direct = [n for n in direct_nodes(body) if is_enabled_call(n)]
        inner_calls = [n for d in nested_defs(body) for n in ast.walk(d) if is_enabled_call(n)]
        fac_calls = []
        if st['factory'] is not None:
            fbody = [s for s in strip_doc(st['factory'].body) if s is not recv]
            fac_calls = [n for n in direct_nodes(fbody) if is_enabled_call(n)]
            fac_calls += [n for d in nested_defs([s for s in fbody if isinstance(s, FUNC)]) for n in ast.walk(d) if is_enabled_call(n)]
        r = {'name': name, 'chain': st['chain'], 'pass': st['pass'], 'inner': st['inner'],
             'reqdoc': bool(st['consts'].get('require_docstring', False)), 'byNone': st['byNone'],
             'level': 'never', 'first': False, 'gE': False, 'gD': False, 'ret': False, 'also': False, 'eager': True}
        if st['inner']:
            # class decorators: the per-member decorator is the factory's first parameter (for_all_methods(decorator))
            fac = st['factory']
            fps = params(fac) if fac is not None else []
            r['eager'] = bool(fps) and applied_at_once(body, fps[0], self.funcs)
        if direct:
            r['level'] = 'decoration'
            idx = [i for i, s in enumerate(body) if any(is_enabled_call(n) for n in direct_nodes([s]))]
            s = body[idx[0]]
            if len(idx) != 1 or not isinstance(s, ast.If) or s.orelse or not isinstance(s.body[-1], ast.Return) \
                    or not any(is_enabled_call(n) for n in direct_nodes([s.test])) \
                    or any(is_enabled_call(n) for b in s.body for n in ast.walk(b)):
                raise Skip(f'{recv.name}: the switch is consulted at decoration level in an unsupported shape')
            before = body[:idx[0]]
            r['first'] = not any((isinstance(n, ast.Name) and n.id == q) or isinstance(n, (ast.Return, ast.Raise, ast.Yield, ast.YieldFrom))
                                 for n in direct_nodes(before))
            r['gE'], r['gD'] = eval_test(s.test, True), eval_test(s.test, False)
            rv = s.body[-1].value
            r['ret'] = len(s.body) == 1 and isinstance(rv, ast.Name) and rv.id == q
            r['also'] = bool(inner_calls)
        elif fac_calls:
            r['level'] = 'factory'
        elif inner_calls:
            r['level'] = 'wrapper'
        return r


def switch_readers(repo):
    """every function of the library (tests aside) that calls is_enabled(), and every module besides env_var_logic.py that mentions the
    variable by name: `<file>:<qualified function>` / `<file>:<module>`"""
    import os
    out = []
    root = os.path.join(repo, 'pedantic')
    for dirpath, dirs, files in os.walk(root):
        dirs[:] = sorted(d for d in dirs if d not in ('tests', '__pycache__'))
        for fn in sorted(files):
            if not fn.endswith('.py'):
                continue
            rel = os.path.relpath(os.path.join(dirpath, fn), repo).replace(os.sep, '/')
            tree = ast.parse(src(repo, rel))

            def rec(node, qual):
                for c in ast.iter_child_nodes(node):
                    q = qual + [c.name] if isinstance(c, FUNC + (ast.ClassDef,)) else qual
                    if is_enabled_call(c) and rel != ENV_REL:
                        out.append(f'{rel}:{".".join(qual) or "<module>"}')
                    if rel != ENV_REL and ((isinstance(c, ast.Constant) and c.value == 'ENABLE_PEDANTIC')
                                           or (isinstance(c, ast.Name) and c.id == 'ENVIRONMENT_VARIABLE_NAME')
                                           or (isinstance(c, ast.Attribute) and c.attr == 'ENVIRONMENT_VARIABLE_NAME')
                                           or (isinstance(c, ast.alias) and c.name == 'ENVIRONMENT_VARIABLE_NAME')):
                        out.append(f'{rel}:{".".join(qual) or "<module>"}:names-the-variable')
                    rec(c, q)
            rec(tree, [])
    return sorted(set(out))


def gen_switch(repo):
    env = EnvTr(ast.parse(src(repo, ENV_REL)))
    if 'is_enabled' not in env.funcs:
        raise Skip('env_var_logic: is_enabled not found')
    term = env.body(strip_doc(env.funcs['is_enabled'].body), {})
    en_w, dis_w = env.writes('enable_pedantic'), env.writes('disable_pedantic')
    res = Resolver(repo)
    rows = [res.row(n) for n in SEVEN]

    def row_txt(r):
        chain = ', '.join(lean_str(c) for c in r['chain'])
        return (f'  {{ name := {lean_str(r["name"])}, chain := [{chain}],\n'
                f'    passThrough := {lean_bool(r["pass"])}, inner := {lean_str(r["inner"])}, requireDocstring := {lean_bool(r["reqdoc"])},\n'
                f'    readAt := .{r["level"]}, untouchedBefore := {lean_bool(r["first"])}, guardIfEnabled := {lean_bool(r["gE"])}, '
                f'guardIfDisabled := {lean_bool(r["gD"])}, returnsReceived := {lean_bool(r["ret"])}, wrapperAlsoReads := {lean_bool(r["also"])},\n'
                f'    membersEager := {lean_bool(r["eager"])}, dispatchOnNone := {lean_bool(r["byNone"])} }}')
    return HEADER.format(rel=f'{ENV_REL}, {FN_REL}, {CLS_REL}') + f'''namespace PedVerif.Gen.Switch

/-- `ENVIRONMENT_VARIABLE_NAME` -/
def envVarName : String := {lean_str(env.name)}
/-- what `enable_pedantic()` leaves in `os.environ[{env.name}]` (`none` = removes the entry) -/
def enableWrites : Option String := {en_w}
/-- what `disable_pedantic()` leaves there -/
def disableWrites : Option String := {dis_w}

/-- `is_enabled()`, translated statement by statement; `v` = value of the variable (`none` = not in `os.environ`);
    result `none` = an exception escapes (e.g. `os.environ[..]` on an unset variable) -/
def isEnabledE (v : Option String) : Option Bool :=
  {term}

/-- where `is_enabled()` is consulted, relative to the function that receives the decoration target -/
inductive Level where
  | factory      -- in the enclosing function that only builds the decorator
  | decoration   -- directly in the function that receives the target
  | wrapper      -- only inside a nested function (the per-call wrapper)
  | never
deriving DecidableEq, Repr

structure Row where
  name : String                -- the public decorator
  chain : List String          -- functions the target is handed through; the last one receives it for good
  passThrough : Bool           -- every hop is a bare `return g(.. target ..)`: target handed on as is, result returned as is
  inner : String               -- class decorators: the per-member decorator handed to for_all_methods ("<arg>" = the caller's)
  requireDocstring : Bool      -- constant `require_docstring=` arriving at `pedantic`
  readAt : Level
  untouchedBefore : Bool       -- no statement of the receiver before `if <test on is_enabled()>: return ..` mentions the target (or leaves)
  guardIfEnabled : Bool        -- value of that test when is_enabled() is True
  guardIfDisabled : Bool       -- value of that test when is_enabled() is False
  returnsReceived : Bool       -- the guarded statement is `return <the very parameter that received the target>`
  wrapperAlsoReads : Bool      -- besides the test at decoration level, a nested function calls is_enabled() as well
  membersEager : Bool          -- class decorators: the per-member decorator is applied to every member while the receiver runs,
                               -- never stored to be applied later (on attribute access); function decorators: true
  dispatchOnNone : Bool        -- a hop that accepts both `@d` and `@d(..)` tells the two uses apart by `<target> is None` (true also when there
                               -- is no such hop); false: by the truth value of the target
deriving DecidableEq, Repr

def rows : List Row := [
{(',' + chr(10)).join(row_txt(r) for r in rows)}
]

/-- every function of the library (tests aside) that calls `is_enabled()`, and every place outside env_var_logic.py that names the
    variable: the per-call wrappers and everything they reach (FunctionCall, the type checks, the generic-instance check) must not be here -/
def switchReaders : List String := [{', '.join(lean_str(x) for x in switch_readers(repo))}]

end PedVerif.Gen.Switch
'''


FILES = {'Switch.lean': gen_switch}
