"""Translator part for C12/C13 (@validate): straight-line decision code of fn_deco_validate.py and Parameter.__init__.

What is read from the source (AST only) and emitted as Lean definitions that the model `PedVerif.Validate` consumes:
* `Parameter.__init__`: the `self.is_required = ...` rule, as a Boolean function of (default given?, required argument);
* `Parameter.validate`: three shape facts (None test first, loop over all of `self.validators`, each validator is fed its
  predecessor's output);
* `_wrapper_content`: the order of the three loops and which of them sit under `if not ignore_input:`; how the surplus positionals
  are recognised, in either shape: the `wants_args = ...` rule as a Boolean function of (the text `*args` occurs in
  `str(signature)`?, a signature parameter is named `args`?) - `false` when the source looks the VAR_POSITIONAL parameter up in the
  signature (`var_positional = next((p.name for p in signature.parameters.values() if p.kind is VAR_POSITIONAL), None)`) - and the
  test of the `zip` branch as a Boolean function of (k == 'args'?, wants_args?, k == var_positional?);
* two scope facts: every variable that `_wrapper_content` / `wrapper` / `async_wrapper` / `_split_by_signature` mutates is bound
  inside that very function (the bookkeeping of a call is per call), and `Parameter.validate` keeps no state on `self`;
* `wrapper` and `async_wrapper`: the dispatch after `result = _wrapper_content(...)`, flattened to guarded statements
  (enclosing `if return_as == ReturnAs.X`, enclosing `if <receiver key> in result`, action = dict filter | `return func(<form>)`),
  the `if` of the KWARGS_WITHOUT_NONE dict comprehension as a Boolean function of (value is None?, value truthy?),
  and whether exactly the calls of `async_wrapper` are awaited;
* `_split_by_signature`: the `*args` shortcut, the `break` test of the prefix loop as a Boolean function of
  (name in result?, kind positional?), and the shape of the returned pair.
* the naming of a rejection: `ParameterException.from_validator_exception` (exceptions.py) - the expression handed to `cls(...)` as
  `parameter_name`, as a function over names of (its `parameter_name` argument, `exception.parameter_name`), with Python's `or` /
  `and` / conditional expression on strings ('' is falsy); what `ParameterException.__init__` stores in `self.parameter_name`; the
  arguments with which the handler of the validator loop of `Parameter.validate` calls it (a function of (self.name, the name the
  exception carries)); `Parameter.raise_exception` (the required / conversion path) names `self.name`; and
  `Validator.validate_param` (abstract_validator.py): what it assigns to `ex.parameter_name` before re-raising;
* the BODIES, statement by statement (gen/_validate_bodies.py): `Parameter.validate` as a program `validateProg` (None rule, conversion
  with its handler, validator loop with its handler, return - in source order); the branches of the keyword / positional / inner zip
  loop as `Write` records; where the zip branch takes the surplus positionals from (`zipSurplusSource`: `[a for a in args if a not
  in used_args]` or `bound_args[k]`) and its strict test (`zipStrictTest`); the third loop as the decision table `absentAct`;
* the strict tests: the condition under which the `else` branch (no Parameter declared for the key) of the keyword loop and of the
  positional loop raises TooManyArguments, each as a Boolean function of (strict, the key) - comparisons of the key with string
  literals (`==`, `!=`, `in` / `not in` a tuple / list / set of literals or a STRING, which is a substring test), literals and
  containers looked up through module-level constants; keys are numbers (indices into the table of names, emitted as `nameTable`);
* how the RECEIVER of a method is recognised, in either shape: old - by the key: `if 'self' in result: return func(result.pop('self'),
  **result)` in the wrappers and `k != 'self'` in the strict test of the positional loop; new - by the signature:
  `receiver_name = 'self' if <test> else None` (once, in `validator`), the test a Boolean function of (the first parameter of the
  signature is called self: `next(iter(inspect.signature(func).parameters), None) == 'self'`; some parameter is called self:
  `'self' in inspect.signature(func).parameters`), then `if receiver_name in result: return func(result.pop(receiver_name), **result)`
  and `k != receiver_name`.  Emitted: `receiverBySignature`, `receiverName`, `wrapperReceiverKey` / `asyncWrapperReceiverKey` (the key
  the wrappers test and pop) and the strict tests as functions of (strict, the key, the receiver's name);
Anything outside these shapes raises Skip (the committed snapshot is used and the correspondence check alone decides).
"""
import ast
from extract import Skip, src, find_func, lean_bool, lean_str, HEADER
from gen._validate_names import NAMES
from gen import _validate_bodies as B

REL = 'pedantic/decorators/fn_deco_validate/fn_deco_validate.py'
REL_P = 'pedantic/decorators/fn_deco_validate/parameters/abstract_parameter.py'

REL_E = 'pedantic/decorators/fn_deco_validate/exceptions.py'
REL_V = 'pedantic/decorators/fn_deco_validate/validators/abstract_validator.py'
EMPTY_NAME = NAMES.index('')          # index of '' in the harness's table of names (gen/_validate_names.py)

MODES = {'ARGS': '.args', 'KWARGS_WITH_NONE': '.kwWithNone', 'KWARGS_WITHOUT_NONE': '.kwWithoutNone'}


def strip_doc(body):
    return [s for s in body if not (isinstance(s, ast.Expr) and isinstance(s.value, ast.Constant) and isinstance(s.value.value, str))]


def is_name(n, ident=None):
    return isinstance(n, ast.Name) and (ident is None or n.id == ident)


def is_none(n):
    return isinstance(n, ast.Constant) and n.value is None


def bool_expr(node, atom):
    """Python Boolean expression -> Lean Bool term; `atom(node)` translates the leaves (returns None if unknown)."""
    a = atom(node)
    if a is not None:
        return a
    if isinstance(node, ast.Constant) and isinstance(node.value, bool):
        return lean_bool(node.value)
    if isinstance(node, ast.UnaryOp) and isinstance(node.op, ast.Not):
        return f'!({bool_expr(node.operand, atom)})'
    if isinstance(node, ast.BoolOp):
        op = ' && ' if isinstance(node.op, ast.And) else ' || '
        return '(' + op.join(bool_expr(v, atom) for v in node.values) + ')'
    if isinstance(node, ast.IfExp):
        return f'(if {bool_expr(node.test, atom)} then {bool_expr(node.body, atom)} else {bool_expr(node.orelse, atom)})'
    raise Skip(f'Boolean expression outside the translated subset: {ast.dump(node)[:120]}')


# ---------------------------------------------------------------- Parameter.__init__ / Parameter.validate

def gen_is_required(ptree):
    init = find_func(ptree, '__init__', cls='Parameter')
    rule = None
    for s in ast.walk(init):
        if isinstance(s, ast.Assign) and len(s.targets) == 1 and isinstance(s.targets[0], ast.Attribute) \
                and is_name(s.targets[0].value, 'self') and s.targets[0].attr == 'is_required':
            if rule is not None:
                raise Skip('Parameter.__init__: is_required assigned twice')
            rule = s.value
    if rule is None:
        raise Skip('Parameter.__init__: no assignment to self.is_required')

    def atom(n):
        if is_name(n, 'required'):
            return 'required'
        if isinstance(n, ast.Compare) and len(n.ops) == 1:
            l, r = n.left, n.comparators[0]
            if {getattr(l, 'id', None), getattr(r, 'id', None)} == {'default', 'NoValue'} and is_name(l) and is_name(r):
                if isinstance(n.ops[0], (ast.NotEq, ast.IsNot)):
                    return 'defaultGiven'
                if isinstance(n.ops[0], (ast.Eq, ast.Is)):
                    return '!defaultGiven'
        return None
    return bool_expr(rule, atom)


def gen_validate_shape(ptree):
    fn = find_func(ptree, 'validate', cls='Parameter')
    body = strip_doc(fn.body)
    if not fn.args.args or len(fn.args.args) < 2:
        raise Skip('Parameter.validate: unexpected arguments')
    val = fn.args.args[1].arg
    # (1) the first statement is `if <value> is None: (if self.is_required: raise...) return None`
    first = body[0] if body else None
    none_first = False
    if isinstance(first, ast.If) and isinstance(first.test, ast.Compare) and len(first.test.ops) == 1 \
            and isinstance(first.test.ops[0], ast.Is) and is_name(first.test.left, val) and is_none(first.test.comparators[0]) \
            and not first.orelse and len(first.body) == 2:
        a, b = first.body
        guard_ok = isinstance(a, ast.If) and isinstance(a.test, ast.Attribute) and is_name(a.test.value, 'self') \
            and a.test.attr == 'is_required' and not a.orelse and len(a.body) == 1 \
            and any(isinstance(x, ast.Call) and isinstance(x.func, ast.Attribute) and x.func.attr == 'raise_exception' for x in ast.walk(a.body[0]))
        ret_ok = isinstance(b, ast.Return) and (b.value is None or is_none(b.value))
        none_first = guard_ok and ret_ok
    # (2) + (3) the validator loop
    loops = [s for s in body if isinstance(s, ast.For)]
    if len(loops) != 1:
        raise Skip('Parameter.validate: expected exactly one for loop over the validators')
    lp = loops[0]
    it = lp.iter
    if isinstance(it, ast.Attribute) and is_name(it.value, 'self') and it.attr == 'validators':
        over_all = True
    elif isinstance(it, ast.Subscript) and isinstance(it.value, ast.Attribute) and it.value.attr == 'validators':
        over_all = False
    else:
        raise Skip('Parameter.validate: loop iterable is neither self.validators nor a slice of it')
    if not is_name(lp.target):
        raise Skip('Parameter.validate: loop target is not a name')
    vname = lp.target.id
    feeds = False
    acc = None
    for s in ast.walk(lp):
        if isinstance(s, ast.Assign) and len(s.targets) == 1 and is_name(s.targets[0]) and isinstance(s.value, ast.Call) \
                and isinstance(s.value.func, ast.Attribute) and is_name(s.value.func.value, vname) and s.value.func.attr == 'validate':
            call = s.value
            argn = call.args[0] if call.args else (call.keywords[0].value if call.keywords else None)
            acc = s.targets[0].id
            feeds = is_name(argn, acc)
    if acc is None:
        raise Skip('Parameter.validate: no `<acc> = validator.validate(<acc>)` in the loop')
    # the loop result is what is returned
    last = body[-1]
    returns_acc = isinstance(last, ast.Return) and is_name(last.value, acc)
    # the handler maps ValidatorException (only) to the parameter's exception
    handler_ok = False
    for s in ast.walk(lp):
        if isinstance(s, ast.Try) and len(s.handlers) == 1 and is_name(s.handlers[0].type, 'ValidatorException'):
            handler_ok = any(isinstance(x, ast.Raise) for x in ast.walk(s.handlers[0]))
    return none_first, over_all, feeds and returns_acc, handler_ok


# ---------------------------------------------------------------- the naming of a rejection

def name_expr(node, env, what):
    """Python expression over strings (names) -> Lean term over `Nat` names; `env`: source text -> Lean term"""
    key = ast.unparse(node)
    if key in env:
        return env[key]
    if isinstance(node, ast.Constant) and node.value == '':
        return 'emptyName'
    if isinstance(node, ast.BoolOp):
        f = 'strOr' if isinstance(node.op, ast.Or) else 'strAnd'
        out = name_expr(node.values[-1], env, what)
        for v in reversed(node.values[:-1]):
            out = f'({f} {name_expr(v, env, what)} {out})'
        return out
    if isinstance(node, ast.IfExp):
        t = node.test
        neg = False
        if isinstance(t, ast.UnaryOp) and isinstance(t.op, ast.Not):
            t, neg = t.operand, True
        c = f'(strTruthy {name_expr(t, env, what)})'
        a, b = name_expr(node.body, env, what), name_expr(node.orelse, env, what)
        return f'(if {c} then {b} else {a})' if neg else f'(if {c} then {a} else {b})'
    raise Skip(f'{what}: name expression outside the translated subset: {key[:80]}')


def call_args(call, params, defaults, what):
    """the arguments of a call bound to the callee's parameter names (`params` without self / cls); a missing one -> its default"""
    if any(isinstance(a, ast.Starred) for a in call.args) or any(k.arg is None for k in call.keywords) or len(call.args) > len(params):
        raise Skip(f'{what}: star arguments / too many positionals')
    bound = dict(zip(params, call.args))
    for k in call.keywords:
        if k.arg not in params or k.arg in bound:
            raise Skip(f'{what}: unexpected keyword {k.arg}')
        bound[k.arg] = k.value
    for n in params:
        if n not in bound:
            if n not in defaults:
                raise Skip(f'{what}: argument {n} missing')
            bound[n] = defaults[n]
    return bound


def fn_params(fn, skip_first=True):
    a = fn.args
    if a.vararg or a.kwarg or a.kwonlyargs or a.posonlyargs:
        raise Skip(f'{fn.name}: unexpected kinds of parameters')
    names = [x.arg for x in a.args][(1 if skip_first else 0):]
    defaults = dict(zip([x.arg for x in a.args][len(a.args) - len(a.defaults):], a.defaults))
    return names, defaults


def stores_in_self(init, attr):
    """the expression `__init__` stores in `self.<attr>` (exactly one plain assignment)"""
    hits = [s.value for s in ast.walk(init) if isinstance(s, ast.Assign) and len(s.targets) == 1 and isinstance(s.targets[0], ast.Attribute)
            and is_name(s.targets[0].value, 'self') and s.targets[0].attr == attr]
    if len(hits) != 1:
        raise Skip(f'{init.name}: self.{attr} is not assigned exactly once')
    return hits[0]


def gen_naming(etree, ptree, vtree):
    # --- ParameterException.__init__ / ValidatorException.__init__ store the name they are given
    pinit = find_func(etree, '__init__', cls='ParameterException')
    stored = name_expr(stores_in_self(pinit, 'parameter_name'), {'parameter_name': 'parameterName'}, 'ParameterException.__init__')
    vinit = find_func(etree, '__init__', cls='ValidatorException')
    vnames, vdefaults = fn_params(vinit)
    vstored = name_expr(stores_in_self(vinit, 'parameter_name'), {'parameter_name': 'parameterName'}, 'ValidatorException.__init__')
    vdefault = name_expr(vdefaults['parameter_name'], {}, 'ValidatorException.__init__') if 'parameter_name' in vdefaults else None
    if vdefault is None:
        raise Skip('ValidatorException.__init__: parameter_name has no default')
    # --- from_validator_exception: `return cls(..., parameter_name=<expr>)`
    fve = find_func(etree, 'from_validator_exception', cls='ParameterException')
    if not any(is_name(d, 'classmethod') for d in fve.decorator_list):
        raise Skip('from_validator_exception is not a classmethod')
    fnames, fdefaults = fn_params(fve)
    if fnames != ['exception', 'parameter_name']:
        raise Skip(f'from_validator_exception: unexpected parameters {fnames}')
    body = strip_doc(fve.body)
    if len(body) != 1 or not isinstance(body[0], ast.Return) or not isinstance(body[0].value, ast.Call) or not is_name(body[0].value.func, 'cls'):
        raise Skip('from_validator_exception: body is not a single `return cls(...)`')
    pnames, pdefaults = fn_params(pinit)
    bound = call_args(body[0].value, pnames, pdefaults, 'from_validator_exception')
    env = {'parameter_name': 'parameterName', 'exception.parameter_name': 'excParameterName'}
    fve_rule = name_expr(bound['parameter_name'], env, 'from_validator_exception')
    fve_default = name_expr(fdefaults['parameter_name'], {}, 'from_validator_exception') if 'parameter_name' in fdefaults else None
    # --- the handler of the validator loop in Parameter.validate
    pv = find_func(ptree, 'validate', cls='Parameter')
    handlers = [h for t in ast.walk(pv) if isinstance(t, ast.Try) for h in t.handlers if is_name(h.type, 'ValidatorException')]
    if len(handlers) != 1 or not handlers[0].name:
        raise Skip('Parameter.validate: expected one `except ValidatorException as <e>` handler')
    h = handlers[0]
    hb = strip_doc(h.body)
    if len(hb) != 1 or not isinstance(hb[0], ast.Raise) or not isinstance(hb[0].exc, ast.Call):
        raise Skip('Parameter.validate: the handler is not a single `raise <call>`')
    call = hb[0].exc
    if not (isinstance(call.func, ast.Attribute) and call.func.attr == 'from_validator_exception'
            and ast.unparse(call.func.value) in ('self.exception_type', 'ParameterException', 'type(self).exception_type')):
        raise Skip('Parameter.validate: the handler does not raise <exception type>.from_validator_exception(...)')
    hbound = call_args(call, fnames, fdefaults, 'Parameter.validate handler')
    if not is_name(hbound['exception'], h.name):
        raise Skip('Parameter.validate: the handler does not pass the caught exception on')
    handler_rule = name_expr(hbound['parameter_name'], {'self.name': 'selfName', f'{h.name}.parameter_name': 'excParameterName'}, 'Parameter.validate handler')
    # --- Parameter.raise_exception: the required / conversion path
    prx = find_func(ptree, 'raise_exception', cls='Parameter')
    rb = strip_doc(prx.body)
    if len(rb) != 1 or not isinstance(rb[0], ast.Raise) or not isinstance(rb[0].exc, ast.Call) \
            or ast.unparse(rb[0].exc.func) not in ('self.exception_type', 'ParameterException'):
        raise Skip('Parameter.raise_exception is not a single `raise self.exception_type(...)`')
    rbound = call_args(rb[0].exc, pnames, pdefaults, 'Parameter.raise_exception')
    raise_rule = name_expr(rbound['parameter_name'], {'self.name': 'selfName'}, 'Parameter.raise_exception')
    # --- Validator.validate_param
    vp = find_func(vtree, 'validate_param', cls='Validator')
    vpn, _ = fn_params(vp)
    if vpn != ['value', 'parameter_name']:
        raise Skip(f'validate_param: unexpected parameters {vpn}')
    vb = strip_doc(vp.body)
    if len(vb) != 1 or not isinstance(vb[0], ast.Try) or vb[0].orelse or vb[0].finalbody or len(vb[0].handlers) != 1:
        raise Skip('validate_param: body is not a single try / except')
    t = vb[0]
    tb = strip_doc(t.body)
    if not (len(tb) == 1 and isinstance(tb[0], ast.Return) and isinstance(tb[0].value, ast.Call)
            and ast.unparse(tb[0].value.func) == 'self.validate' and
            [ast.unparse(a) for a in tb[0].value.args] + [ast.unparse(k.value) for k in tb[0].value.keywords] == ['value']):
        raise Skip('validate_param: the try body is not `return self.validate(value)`')
    vh = t.handlers[0]
    if not is_name(vh.type, 'ValidatorException') or not vh.name:
        raise Skip('validate_param: the handler is not `except ValidatorException as <ex>`')
    vp_rule = 'carried'
    stmts = strip_doc(vh.body)
    if not stmts or not isinstance(stmts[-1], ast.Raise) or not (stmts[-1].exc is None or is_name(stmts[-1].exc, vh.name)):
        raise Skip('validate_param: the handler does not end by re-raising the exception')
    for st in stmts[:-1]:
        if isinstance(st, ast.Assign) and len(st.targets) == 1 and ast.unparse(st.targets[0]) == f'{vh.name}.parameter_name':
            vp_rule = name_expr(st.value, {'parameter_name': 'parameterName', f'{vh.name}.parameter_name': vp_rule}, 'validate_param')
        else:
            raise Skip(f'validate_param: handler statement outside the subset: {ast.unparse(st)[:60]}')
    return dict(stored=stored, vstored=vstored, vdefault=vdefault, fve_rule=fve_rule, fve_default=fve_default or 'emptyName',
                handler_rule=handler_rule, raise_rule=raise_rule, vp_rule=vp_rule)


# ---------------------------------------------------------------- _wrapper_content: loop order

def gen_loop_order(fn):
    found = []   # (lineno, kind, under_ignore_input)

    def assigned_from(name, pred):
        for s in ast.walk(fn):
            if isinstance(s, ast.Assign) and len(s.targets) == 1 and is_name(s.targets[0], name) and pred(s.value):
                return True
        return False

    def is_bind_partial(v):
        return any(isinstance(x, ast.Attribute) and x.attr == 'bind_partial' for x in ast.walk(v))

    def is_unused_list(v):
        return isinstance(v, ast.ListComp) and any(is_name(x, 'parameters') for x in ast.walk(v))

    def classify(f):
        it = f.iter
        if isinstance(it, ast.Call) and isinstance(it.func, ast.Attribute) and it.func.attr == 'items' and is_name(it.func.value, 'kwargs'):
            return 'kw'
        if is_name(it) and assigned_from(it.id, is_bind_partial):
            return 'pos'
        if is_name(it) and assigned_from(it.id, is_unused_list):
            return 'unused'
        if is_unused_list(it):
            return 'unused'
        return None

    def walk(stmts, under):
        for s in stmts:
            if isinstance(s, ast.For):
                k = classify(s)
                if k is None:
                    raise Skip(f'_wrapper_content: unrecognised loop at line {s.lineno}')
                found.append((k, under))
            elif isinstance(s, ast.If):
                t = s.test
                neg_ignore = isinstance(t, ast.UnaryOp) and isinstance(t.op, ast.Not) and is_name(t.operand, 'ignore_input')
                if neg_ignore:
                    if s.orelse:
                        raise Skip('_wrapper_content: `if not ignore_input` has an else branch')
                    walk(s.body, True)
                else:
                    # other ifs at this level (the Flask block) must not contain one of the three loops
                    for x in ast.walk(s):
                        if isinstance(x, ast.For) and classify(x) is not None:
                            raise Skip('_wrapper_content: a parameter loop sits under an unrecognised condition')
            elif isinstance(s, ast.Try):
                for x in ast.walk(s):
                    if isinstance(x, ast.For):
                        raise Skip('_wrapper_content: loop inside try')
    walk(strip_doc(fn.body), False)
    kinds = [k for k, _ in found]
    if sorted(kinds) != ['kw', 'pos', 'unused']:
        raise Skip(f'_wrapper_content: expected the three loops exactly once, found {kinds}')
    return found


# ---------------------------------------------------------------- the receiver of a method

RECEIVER = 'receiver_name'


def is_sig_parameters(n):
    """`inspect.signature(func).parameters` / `signature.parameters`"""
    if not (isinstance(n, ast.Attribute) and n.attr == 'parameters'):
        return False
    v = n.value
    if is_name(v, 'signature'):
        return True
    return (isinstance(v, ast.Call) and len(v.args) == 1 and not v.keywords and is_name(v.args[0], 'func')
            and ((isinstance(v.func, ast.Attribute) and v.func.attr == 'signature' and is_name(v.func.value, 'inspect')) or is_name(v.func, 'signature')))


def gen_receiver(top):
    """how the receiver of a method is recognised.  Returns (by_signature, rule): `rule` is a Lean term `Option Nat` over
    (firstIsSelf, anyIsSelf) - the value of `receiver_name`; `none` in the old shape, where no such variable exists."""
    binds = [n for n in ast.walk(top) if (isinstance(n, ast.Name) and isinstance(n.ctx, (ast.Store, ast.Del)) and n.id == RECEIVER)
             or (isinstance(n, ast.arg) and n.arg == RECEIVER) or (isinstance(n, (ast.Global, ast.Nonlocal)) and RECEIVER in n.names)]
    uses = [n for n in ast.walk(top) if isinstance(n, ast.Name) and n.id == RECEIVER and isinstance(n.ctx, ast.Load)]
    if not binds:
        if uses:
            raise Skip(f'validate: {RECEIVER} is read but never bound')
        return False, 'none'
    inner = find_func(top, 'validator')
    assigns = [st for st in inner.body if isinstance(st, ast.Assign) and len(st.targets) == 1 and is_name(st.targets[0], RECEIVER)]
    if len(binds) != 1 or len(assigns) != 1:
        raise Skip(f'validate: expected exactly one assignment to {RECEIVER}, directly in the body of `validator`')
    # it must precede the definitions of the functions that read it
    idx = inner.body.index(assigns[0])
    if any(isinstance(st, (ast.FunctionDef, ast.AsyncFunctionDef)) for st in inner.body[:idx]):
        raise Skip(f'validate: {RECEIVER} is assigned after the wrappers are defined')

    def is_first(n):
        # next(iter(<parameters>), None)
        return (isinstance(n, ast.Call) and is_name(n.func, 'next') and len(n.args) == 2 and not n.keywords and is_none(n.args[1])
                and isinstance(n.args[0], ast.Call) and is_name(n.args[0].func, 'iter') and len(n.args[0].args) == 1
                and not n.args[0].keywords and is_sig_parameters(n.args[0].args[0]))

    def is_first_list(n):
        # list(<parameters>)[:1]
        return (isinstance(n, ast.Subscript) and isinstance(n.slice, ast.Slice) and n.slice.lower is None and n.slice.step is None
                and isinstance(n.slice.upper, ast.Constant) and n.slice.upper.value == 1
                and isinstance(n.value, ast.Call) and is_name(n.value.func, 'list') and len(n.value.args) == 1 and not n.value.keywords
                and is_sig_parameters(n.value.args[0]))

    def is_self(n):
        return isinstance(n, ast.Constant) and n.value == 'self'

    def is_self_list(n):
        return isinstance(n, ast.List) and len(n.elts) == 1 and is_self(n.elts[0])

    def atom(n):
        if isinstance(n, ast.Compare) and len(n.ops) == 1:
            l, r, op = n.left, n.comparators[0], n.ops[0]
            if isinstance(op, (ast.Eq, ast.NotEq)):
                neg = '' if isinstance(op, ast.Eq) else '!'
                if (is_first(l) and is_self(r)) or (is_first(r) and is_self(l)) or (is_first_list(l) and is_self_list(r)) \
                        or (is_first_list(r) and is_self_list(l)):
                    return neg + 'firstIsSelf'
            if isinstance(op, (ast.In, ast.NotIn)) and is_self(l) and is_sig_parameters(r):
                return ('' if isinstance(op, ast.In) else '!') + 'anyIsSelf'
        return None

    def value(n):
        if is_none(n):
            return 'none'
        if isinstance(n, ast.Constant) and isinstance(n.value, str) and n.value in NAMES:
            return f'some {NAMES.index(n.value)}'
        if isinstance(n, ast.IfExp):
            return f'(if {bool_expr(n.test, atom)} then {value(n.body)} else {value(n.orelse)})'
        raise Skip(f'validate: {RECEIVER} = ... outside the translated subset: {ast.unparse(n)[:80]}')
    return True, value(assigns[0].value)


# ---------------------------------------------------------------- _wrapper_content: the strict tests

def module_value(tree, name):
    """the value expression of a name the module binds exactly once, by a plain top-level assignment"""
    n_bind = 0
    for n in ast.walk(tree):
        if isinstance(n, ast.Name) and isinstance(n.ctx, (ast.Store, ast.Del)) and n.id == name:
            n_bind += 1
        elif isinstance(n, ast.arg) and n.arg == name:
            n_bind += 1
        elif isinstance(n, (ast.Import, ast.ImportFrom)) and any((a.asname or a.name.split('.')[0]) == name for a in n.names):
            n_bind += 1
        elif isinstance(n, (ast.FunctionDef, ast.AsyncFunctionDef, ast.ClassDef)) and n.name == name:
            n_bind += 1
        elif isinstance(n, (ast.Global, ast.Nonlocal)) and name in n.names:
            n_bind += 1
        elif isinstance(n, ast.ExceptHandler) and n.name == name:
            n_bind += 1
    top = [n for n in tree.body if isinstance(n, ast.Assign) and len(n.targets) == 1 and is_name(n.targets[0], name)]
    return top[0].value if n_bind == 1 and len(top) == 1 else None


def gen_strict_tests(tree, fn, by_signature):
    """(kw test, pos test): Lean Bool terms over `strict`, the key `k` (a number) and `receiver` (the value of `receiver_name`)"""
    extra = {}            # string literals of the source outside the table of names get numbers behind it

    def nid(lit):
        if lit in NAMES:
            return NAMES.index(lit)
        return extra.setdefault(lit, len(NAMES) + len(extra))

    def resolve(e):
        for _ in range(5):
            if not is_name(e):
                break
            v = module_value(tree, e.id)
            if v is None:
                break
            e = v
        return e

    def key_test(key, which):
        def atom(n):
            if is_name(n, 'strict'):
                return 'strict'
            if isinstance(n, ast.Compare) and len(n.ops) == 1:
                l, r, op = n.left, resolve(n.comparators[0]), n.ops[0]
                if isinstance(op, (ast.Eq, ast.NotEq)):
                    if (is_name(l, key) and is_name(n.comparators[0], RECEIVER)) or (is_name(l, RECEIVER) and is_name(n.comparators[0], key)):
                        if not by_signature:
                            raise Skip(f'_wrapper_content: {RECEIVER} is not bound')
                        if which != 'pos':
                            raise Skip(f'_wrapper_content: the strict test of the keyword loop depends on {RECEIVER}')
                        return f"(some k {'==' if isinstance(op, ast.Eq) else '!='} receiver)"
                    if is_name(r, key):
                        l, r = r, resolve(l)
                    if is_name(l, key) and isinstance(r, ast.Constant) and isinstance(r.value, str):
                        return f"(k {'==' if isinstance(op, ast.Eq) else '!='} {nid(r.value)})"
                if isinstance(op, (ast.In, ast.NotIn)) and is_name(l, key):
                    neg = '!' if isinstance(op, ast.NotIn) else ''
                    if isinstance(r, ast.Constant) and isinstance(r.value, str):
                        # `k in '<string>'` is a SUBSTRING test: every name of the table that occurs in the string
                        ids = [i for i, nm in enumerate(NAMES) if nm in r.value]
                        return f"{neg}([{', '.join(map(str, ids))}].contains k)"
                    if isinstance(r, (ast.Tuple, ast.List, ast.Set)) and all(isinstance(x, ast.Constant) and isinstance(x.value, str) for x in r.elts):
                        return f"{neg}([{', '.join(str(nid(x.value)) for x in r.elts)}].contains k)"
            return None
        return atom

    def loop_key(f):
        it = f.iter
        if isinstance(it, ast.Call) and isinstance(it.func, ast.Attribute) and it.func.attr == 'items' and is_name(it.func.value, 'kwargs') \
                and isinstance(f.target, ast.Tuple) and is_name(f.target.elts[0]):
            return 'kw', f.target.elts[0].id
        if is_name(it, 'bound_args') and is_name(f.target):
            return 'pos', f.target.id
        return None

    out = {}
    for f in ast.walk(fn):
        if not isinstance(f, ast.For) or loop_key(f) is None:
            continue
        which, key = loop_key(f)
        hits = []
        for branch in ast.walk(f):
            if isinstance(branch, ast.If) and ast.unparse(branch.test) == f'{key} in parameter_dict':
                els = branch.orelse
                if len(els) == 1 and isinstance(els[0], ast.If) and any(
                        isinstance(x, ast.Raise) and isinstance(x.exc, ast.Call) and is_name(x.exc.func, 'TooManyArguments') for x in els[0].body):
                    if len(els[0].body) != 1:
                        raise Skip(f'_wrapper_content: the strict branch of the {which} loop does more than raising')
                    hits.append(els[0].test)
                else:
                    raise Skip(f'_wrapper_content: the else branch of `{key} in parameter_dict` ({which} loop) is not `if <test>: raise TooManyArguments`')
        # (a strict test in front of the inner loop of the zip branch is translated separately: gen/_validate_bodies.py)
        inner = set(id(x) for lp in ast.walk(f) if isinstance(lp, ast.If) and lp is not f and any(
            isinstance(y, ast.Call) and is_name(y.func, 'zip') for y in ast.walk(lp)) and ast.unparse(lp.test) != f'{key} in parameter_dict'
            for x in ast.walk(ast.Module(body=lp.body, type_ignores=[])))
        n_raise = sum(1 for x in ast.walk(f) if isinstance(x, ast.Raise) and isinstance(x.exc, ast.Call) and is_name(x.exc.func, 'TooManyArguments')
                      and id(x) not in inner)
        if len(hits) != 1 or n_raise != 1 or which in out:
            raise Skip(f'_wrapper_content: expected exactly one `raise TooManyArguments` in the {which} loop')
        out[which] = bool_expr(hits[0], key_test(key, which))
    if set(out) != {'kw', 'pos'}:
        raise Skip('_wrapper_content: keyword / positional loop not found')
    return out['kw'], out['pos']


# ---------------------------------------------------------------- _wrapper_content: the *args test

def gen_wants_args(top, fn):
    """how `_wrapper_content` recognises the surplus positionals of a VAR_POSITIONAL parameter.  Two shapes:
    old: `wants_args = <rule over '*args' in str(signature) / 'args' in signature.parameters>` + `if <test over k == 'args', wants_args>`;
    new: `var_positional = next((p.name for p in signature.parameters.values() if p.kind is VAR_POSITIONAL), None)` +
         `if <test over k == var_positional (, k == 'args')>`.
    Returns (rule, test): Lean Bool terms over (starArgsInText, anyParamNamedArgs) and (keyIsArgs, wantsArgs, keyIsVarPositional)."""
    def assigns(name):
        return [s for s in ast.walk(top) if isinstance(s, ast.Assign) and len(s.targets) == 1 and is_name(s.targets[0], name)]
    rules, vps = assigns('wants_args'), assigns('var_positional')

    def is_const(n, v):
        return isinstance(n, ast.Constant) and n.value == v

    def rule_atom(n):
        if isinstance(n, ast.Compare) and len(n.ops) == 1 and isinstance(n.ops[0], (ast.In, ast.NotIn)):
            l, r = n.left, n.comparators[0]
            neg = '!' if isinstance(n.ops[0], ast.NotIn) else ''
            if is_const(l, '*args') and isinstance(r, ast.Call) and is_name(r.func, 'str') and len(r.args) == 1 and not r.keywords \
                    and is_name(r.args[0], 'signature'):
                return neg + 'starArgsInText'
            if is_const(l, 'args') and isinstance(r, ast.Attribute) and r.attr == 'parameters' and is_name(r.value, 'signature'):
                return neg + 'anyParamNamedArgs'
        return None

    def is_var_positional_lookup(v):
        """next((p.name for p in signature.parameters.values() if p.kind is|== <...>.VAR_POSITIONAL), None)"""
        if not (isinstance(v, ast.Call) and is_name(v.func, 'next') and len(v.args) == 2 and not v.keywords and is_none(v.args[1])
                and isinstance(v.args[0], ast.GeneratorExp) and len(v.args[0].generators) == 1):
            return False
        ge = v.args[0]
        g = ge.generators[0]
        if not (is_name(g.target) and isinstance(ge.elt, ast.Attribute) and ge.elt.attr == 'name' and is_name(ge.elt.value, g.target.id)
                and isinstance(g.iter, ast.Call) and isinstance(g.iter.func, ast.Attribute) and g.iter.func.attr == 'values' and not g.iter.args
                and isinstance(g.iter.func.value, ast.Attribute) and g.iter.func.value.attr == 'parameters'
                and is_name(g.iter.func.value.value, 'signature') and len(g.ifs) == 1):
            return False
        t = g.ifs[0]
        return (isinstance(t, ast.Compare) and len(t.ops) == 1 and isinstance(t.ops[0], (ast.Is, ast.Eq))
                and isinstance(t.left, ast.Attribute) and t.left.attr == 'kind' and is_name(t.left.value, g.target.id)
                and isinstance(t.comparators[0], ast.Attribute) and t.comparators[0].attr == 'VAR_POSITIONAL')
    if len(rules) == 1 and not vps:
        rule, flag = bool_expr(rules[0].value, rule_atom), 'wants_args'
    elif len(vps) == 1 and not rules:
        if not is_var_positional_lookup(vps[0].value):
            raise Skip('validate: var_positional is not the name of the VAR_POSITIONAL parameter of the signature')
        rule, flag = 'false', 'var_positional'      # no text test in the source
    else:
        raise Skip(f'validate: expected exactly one assignment to wants_args or to var_positional, found {len(rules)} + {len(vps)}')
    tests = [s for s in ast.walk(fn) if isinstance(s, ast.If) and any(is_name(x, flag) for x in ast.walk(s.test))]
    if len(tests) != 1:
        raise Skip(f'_wrapper_content: expected exactly one branch on {flag}, found {len(tests)}')
    if not any(isinstance(x, ast.Call) and is_name(x.func, 'zip') for x in ast.walk(tests[0])):
        raise Skip(f'_wrapper_content: the branch on {flag} is not the zip branch')

    def test_atom(n):
        if is_name(n, 'wants_args') and flag == 'wants_args':
            return 'wantsArgs'
        if isinstance(n, ast.Compare) and len(n.ops) == 1 and isinstance(n.ops[0], (ast.Eq, ast.NotEq)):
            l, r = n.left, n.comparators[0]
            neg = '' if isinstance(n.ops[0], ast.Eq) else '!'
            if (is_name(l) and is_const(r, 'args')) or (is_name(r) and is_const(l, 'args')):
                return neg + 'keyIsArgs'
            if flag == 'var_positional' and is_name(l) and is_name(r) and 'var_positional' in (l.id, r.id) and l.id != r.id:
                return neg + 'keyIsVarPositional'
        return None
    return rule, bool_expr(tests[0].test, test_atom)


# ---------------------------------------------------------------- scope facts (state kept between / shared by calls)

MUTATORS = {'append', 'extend', 'insert', 'pop', 'popitem', 'clear', 'update', 'remove', 'setdefault', 'sort', 'reverse', 'add', 'discard'}


def own_nodes(fn):
    """the nodes of a function body without the bodies of nested functions / lambdas / classes"""
    out, todo = [], list(fn.body)
    while todo:
        n = todo.pop()
        out.append(n)
        for ch in ast.iter_child_nodes(n):
            if not isinstance(ch, (ast.FunctionDef, ast.AsyncFunctionDef, ast.Lambda, ast.ClassDef)):
                todo.append(ch)
    return out


def bookkeeping_is_per_call(fn):
    nodes = own_nodes(fn)
    if any(isinstance(n, (ast.Global, ast.Nonlocal)) for n in nodes):
        return False
    bound = {a.arg for a in fn.args.args + fn.args.kwonlyargs + fn.args.posonlyargs}
    bound |= {a.arg for a in (fn.args.vararg, fn.args.kwarg) if a is not None}
    for n in nodes:
        if isinstance(n, ast.Name) and isinstance(n.ctx, ast.Store):
            bound.add(n.id)            # plain (re)binding: assignment, loop target, comprehension variable, `as`
    mutated = set()
    for n in nodes:
        if isinstance(n, (ast.Subscript, ast.Attribute)) and isinstance(n.ctx, (ast.Store, ast.Del)) and is_name(n.value):
            mutated.add(n.value.id)
        if isinstance(n, ast.Call) and isinstance(n.func, ast.Attribute) and n.func.attr in MUTATORS and is_name(n.func.value):
            mutated.add(n.func.value.id)
    return mutated <= bound


def validate_is_stateless(ptree):
    fn = find_func(ptree, 'validate', cls='Parameter')
    for n in ast.walk(fn):
        if isinstance(n, (ast.Global, ast.Nonlocal)):
            return False
        if isinstance(n, (ast.Attribute, ast.Subscript)) and isinstance(n.ctx, (ast.Store, ast.Del)):
            return False               # `self.<attr> = …`, `self.<attr>[…] = …`, `<anything>.<attr> = …`
        if isinstance(n, ast.Call) and is_name(n.func) and n.func.id in ('setattr', 'delattr'):
            return False
        if isinstance(n, ast.Call) and isinstance(n.func, ast.Attribute) and n.func.attr in MUTATORS \
                and any(is_name(x, 'self') for x in ast.walk(n.func.value)):
            return False               # `self.<attr>.append(…)`
    return True


# ---------------------------------------------------------------- wrapper / async_wrapper dispatch

def keep_expr(comp):
    """`{k: v for k, v in result.items() if <cond>}` -> Lean Bool term over (isNone, truthy)"""
    if not (isinstance(comp, ast.DictComp) and len(comp.generators) == 1):
        raise Skip('dispatch: result is rebuilt by something else than one dict comprehension')
    g = comp.generators[0]
    if not (isinstance(g.target, ast.Tuple) and len(g.target.elts) == 2 and all(is_name(e) for e in g.target.elts)
            and isinstance(g.iter, ast.Call) and isinstance(g.iter.func, ast.Attribute) and g.iter.func.attr == 'items'
            and is_name(g.iter.func.value, 'result') and not g.iter.args):
        raise Skip('dispatch: comprehension is not over result.items()')
    kn, vn = g.target.elts[0].id, g.target.elts[1].id
    if not (is_name(comp.key, kn) and is_name(comp.value, vn)):
        raise Skip('dispatch: comprehension changes keys or values')

    def atom(n):
        if is_name(n, vn):
            return 'truthy'
        if isinstance(n, ast.Compare) and len(n.ops) == 1 and is_name(n.left, vn) and is_none(n.comparators[0]):
            if isinstance(n.ops[0], (ast.IsNot, ast.NotEq)):
                return '!isNone'
            if isinstance(n.ops[0], (ast.Is, ast.Eq)):
                return 'isNone'
        return None
    if not g.ifs:
        return 'true'
    return '(' + ' && '.join(bool_expr(c, atom) for c in g.ifs) + ')'


def receiver_key(n, keys):
    """the key under which a wrapper looks the receiver up: the literal 'self' (old shape) or the variable `receiver_name`"""
    if isinstance(n, ast.Constant) and n.value == 'self':
        keys.add('lit')
        return True
    if is_name(n, RECEIVER):
        keys.add('var')
        return True
    return False


def call_form(call, pending_split, keys):
    if not (isinstance(call, ast.Call) and is_name(call.func, 'func')):
        raise Skip('dispatch: a return value is not a call of func')
    a, k = call.args, call.keywords

    def star_kw(name):
        return len(k) == 1 and k[0].arg is None and is_name(k[0].value, name)
    if len(a) == 1 and isinstance(a[0], ast.Call) and isinstance(a[0].func, ast.Attribute) and a[0].func.attr == 'pop' \
            and is_name(a[0].func.value, 'result') and len(a[0].args) == 1 and not a[0].keywords \
            and receiver_key(a[0].args[0], keys) and star_kw('result'):
        return '.selfKw'
    if len(a) == 1 and isinstance(a[0], ast.Starred) and is_name(a[0].value) and pending_split is not None \
            and a[0].value.id == pending_split[0] and star_kw(pending_split[1]):
        return '.split'
    if not a and star_kw('result'):
        return '.kw'
    if len(a) == 1 and isinstance(a[0], ast.Starred) and isinstance(a[0].value, ast.Call) and isinstance(a[0].value.func, ast.Attribute) \
            and a[0].value.func.attr == 'values' and is_name(a[0].value.func.value, 'result') and not k:
        return '.values'
    raise Skip(f'dispatch: unrecognised call form {ast.unparse(call)}')


def gen_prog(fn, is_async, by_signature):
    body = strip_doc(fn.body)
    if not body:
        raise Skip('dispatch: empty wrapper')
    s0 = body[0]
    if not (isinstance(s0, ast.Assign) and is_name(s0.targets[0], 'result') and isinstance(s0.value, ast.Call)
            and is_name(s0.value.func, '_wrapper_content')):
        raise Skip('dispatch: wrapper does not start with result = _wrapper_content(...)')
    c = s0.value
    forwards = (len(c.args) == 1 and isinstance(c.args[0], ast.Starred) and is_name(c.args[0].value, 'args')
                and len(c.keywords) == 1 and c.keywords[0].arg is None and is_name(c.keywords[0].value, 'kwargs'))
    if not forwards:
        raise Skip('dispatch: _wrapper_content is not called with (*args, **kwargs)')
    out = []        # (mode|None, ifself, act)
    keeps = []
    awaits = []
    keys = set()    # how the receiver is looked up in `result`: 'lit' ('self') / 'var' (receiver_name)

    def mode_of(t):
        if isinstance(t, ast.Compare) and len(t.ops) == 1 and isinstance(t.ops[0], ast.Eq):
            l, r = t.left, t.comparators[0]
            for x, y in ((l, r), (r, l)):
                if is_name(x, 'return_as') and isinstance(y, ast.Attribute) and is_name(y.value, 'ReturnAs') and y.attr in MODES:
                    return MODES[y.attr]
        return None

    def is_self_test(t):
        return isinstance(t, ast.Compare) and len(t.ops) == 1 and isinstance(t.ops[0], ast.In) \
            and is_name(t.comparators[0], 'result') and receiver_key(t.left, keys)

    def walk(stmts, mode, ifself):
        pending = None
        for s in stmts:
            if isinstance(s, ast.If):
                if s.orelse:
                    raise Skip('dispatch: if with else')
                m = mode_of(s.test)
                if m is not None:
                    if mode is not None or ifself:
                        raise Skip('dispatch: nested mode tests')
                    walk(s.body, m, ifself)
                elif is_self_test(s.test):
                    if ifself or len(s.body) != 1 or not isinstance(s.body[0], ast.Return):
                        raise Skip("dispatch: `if <receiver key> in result` does not guard a single return")
                    walk(s.body, mode, True)
                else:
                    raise Skip(f'dispatch: unrecognised condition {ast.unparse(s.test)}')
            elif isinstance(s, ast.Assign) and len(s.targets) == 1 and isinstance(s.targets[0], ast.Tuple):
                t = s.targets[0]
                v = s.value
                if not (len(t.elts) == 2 and all(is_name(e) for e in t.elts) and isinstance(v, ast.Call) and is_name(v.func, '_split_by_signature')
                        and ((len(v.keywords) == 1 and v.keywords[0].arg == 'result' and is_name(v.keywords[0].value, 'result') and not v.args)
                             or (len(v.args) == 1 and is_name(v.args[0], 'result') and not v.keywords))):
                    raise Skip('dispatch: unrecognised tuple assignment')
                pending = (t.elts[0].id, t.elts[1].id)
            elif isinstance(s, ast.Assign) and len(s.targets) == 1 and is_name(s.targets[0], 'result'):
                keeps.append(keep_expr(s.value))
                out.append((mode, ifself, '.filter'))
            elif isinstance(s, ast.Return):
                v = s.value
                aw = isinstance(v, ast.Await)
                if aw:
                    v = v.value
                awaits.append(aw)
                out.append((mode, ifself, f'.ret {call_form(v, pending, keys)}'))
            else:
                raise Skip(f'dispatch: unrecognised statement {ast.unparse(s)[:60]}')
    walk(body[1:], None, False)
    if len(set(keeps)) > 1:
        raise Skip('dispatch: several different result filters')
    keep = keeps[0] if keeps else 'true'
    awaits_ok = all(awaits) if is_async else not any(awaits)
    if len(keys) > 1:
        raise Skip(f"dispatch: {fn.name} looks the receiver up both under 'self' and under {RECEIVER}")
    if 'var' in keys and not by_signature:
        raise Skip(f'dispatch: {RECEIVER} is not bound')
    return out, keep, awaits_ok, ('receiver' if 'var' in keys else 'some 0')


def prog_lean(prog):
    def one(m, s, a):
        return f'⟨{"none" if m is None else "some " + m}, {lean_bool(s)}, {a}⟩'
    return '[' + ',\n   '.join(one(*x) for x in prog) + ']'


# ---------------------------------------------------------------- _split_by_signature

def gen_split(fn):
    body = strip_doc(fn.body)
    # `return list(result.values()), {}`
    def is_all_values(r):
        v = r.value
        return (isinstance(v, ast.Tuple) and len(v.elts) == 2 and isinstance(v.elts[1], ast.Dict) and not v.elts[1].keys
                and isinstance(v.elts[0], ast.Call) and is_name(v.elts[0].func, 'list') and len(v.elts[0].args) == 1
                and isinstance(v.elts[0].args[0], ast.Call) and isinstance(v.elts[0].args[0].func, ast.Attribute)
                and v.elts[0].args[0].func.attr == 'values' and is_name(v.elts[0].args[0].func.value, 'result'))
    stmts = [s for s in body if not (isinstance(s, ast.Assign) and isinstance(s.value, (ast.Attribute, ast.List)))]
    # drop plain initialisations (`signature_parameters = inspect.signature(func).parameters`, `positional_names = []`)
    shortcut = False
    rest = []
    for s in stmts:
        if isinstance(s, ast.If) and not s.orelse and len(s.body) == 1 and isinstance(s.body[0], ast.Return) and is_all_values(s.body[0]) \
                and any(isinstance(x, ast.Attribute) and x.attr == 'VAR_POSITIONAL' for x in ast.walk(s.test)) \
                and isinstance(s.test, ast.Call) and is_name(s.test.func, 'any'):
            shortcut = True
        else:
            rest.append(s)
    if rest and isinstance(rest[-1], ast.Return) and is_all_values(rest[-1]) \
            and not any(isinstance(x, ast.Return) for s_ in rest[:-1] for x in ast.walk(s_)):
        # whatever precedes it, the function hands over `list(result.values()), {}`
        return shortcut, 'true', '.allValues'
    if not (len(rest) == 2 and isinstance(rest[0], ast.For) and isinstance(rest[1], ast.Return)):
        raise Skip('_split_by_signature: body is not (shortcut)? + prefix loop + return')
    lp, ret = rest
    if not (isinstance(lp.target, ast.Tuple) and len(lp.target.elts) == 2 and all(is_name(e) for e in lp.target.elts)
            and isinstance(lp.iter, ast.Call) and isinstance(lp.iter.func, ast.Attribute) and lp.iter.func.attr == 'items' and not lp.orelse):
        raise Skip('_split_by_signature: loop is not `for name, p in <parameters>.items()`')
    nm, pn = lp.target.elts[0].id, lp.target.elts[1].id
    if not (len(lp.body) == 2 and isinstance(lp.body[0], ast.If) and not lp.body[0].orelse and len(lp.body[0].body) == 1
            and isinstance(lp.body[0].body[0], ast.Break)):
        raise Skip('_split_by_signature: loop body is not `if <test>: break` + append')
    app = lp.body[1]
    if not (isinstance(app, ast.Expr) and isinstance(app.value, ast.Call) and isinstance(app.value.func, ast.Attribute)
            and app.value.func.attr == 'append' and is_name(app.value.func.value) and len(app.value.args) == 1 and is_name(app.value.args[0], nm)):
        raise Skip('_split_by_signature: loop does not append the name')
    acc = app.value.func.value.id

    def atom(n):
        if isinstance(n, ast.Compare) and len(n.ops) == 1:
            l, r, op = n.left, n.comparators[0], n.ops[0]
            if is_name(l, nm) and is_name(r, 'result'):
                if isinstance(op, ast.NotIn):
                    return '!inResult'
                if isinstance(op, ast.In):
                    return 'inResult'
            if isinstance(l, ast.Attribute) and is_name(l.value, pn) and l.attr == 'kind':
                if isinstance(r, ast.Tuple):
                    kinds = {e.attr for e in r.elts if isinstance(e, ast.Attribute)}
                    if len(kinds) != len(r.elts) or 'POSITIONAL_OR_KEYWORD' not in kinds or not kinds <= {'POSITIONAL_ONLY', 'POSITIONAL_OR_KEYWORD'}:
                        raise Skip('_split_by_signature: kind set differs from the positional kinds')
                    if isinstance(op, ast.NotIn):
                        return '!kindPositional'
                    if isinstance(op, ast.In):
                        return 'kindPositional'
                if isinstance(r, ast.Attribute) and r.attr == 'POSITIONAL_OR_KEYWORD':
                    if isinstance(op, (ast.NotEq, ast.IsNot)):
                        return '!kindPositional'
                    if isinstance(op, (ast.Eq, ast.Is)):
                        return 'kindPositional'
        return None
    stops = bool_expr(lp.body[0].test, atom)
    # return [result[n] for n in acc], {k: v for k, v in result.items() if k not in acc}
    v = ret.value
    ok = isinstance(v, ast.Tuple) and len(v.elts) == 2 and isinstance(v.elts[0], ast.ListComp) and isinstance(v.elts[1], ast.DictComp)
    if ok:
        lc, dc = v.elts
        g = lc.generators[0]
        ok = (len(lc.generators) == 1 and is_name(g.iter, acc) and not g.ifs and is_name(g.target)
              and isinstance(lc.elt, ast.Subscript) and is_name(lc.elt.value, 'result') and is_name(lc.elt.slice, g.target.id))
        g2 = dc.generators[0]
        ok = ok and (len(dc.generators) == 1 and isinstance(g2.target, ast.Tuple) and len(g2.target.elts) == 2
                     and isinstance(g2.iter, ast.Call) and isinstance(g2.iter.func, ast.Attribute) and g2.iter.func.attr == 'items'
                     and is_name(g2.iter.func.value, 'result') and is_name(dc.key, g2.target.elts[0].id) and is_name(dc.value, g2.target.elts[1].id)
                     and len(g2.ifs) == 1 and isinstance(g2.ifs[0], ast.Compare) and len(g2.ifs[0].ops) == 1
                     and isinstance(g2.ifs[0].ops[0], ast.NotIn) and is_name(g2.ifs[0].left, g2.target.elts[0].id)
                     and is_name(g2.ifs[0].comparators[0], acc))
    if not ok:
        raise Skip('_split_by_signature: returned pair is not (values of the prefix, the rest by name)')
    return shortcut, stops, '.prefixRest'


# ---------------------------------------------------------------- the file

def gen_validate(repo):
    tree = ast.parse(src(repo, REL))
    ptree = ast.parse(src(repo, REL_P))
    rule = gen_is_required(ptree)
    none_first, over_all, feeds, handler_ok = gen_validate_shape(ptree)
    loops = gen_loop_order(find_func(tree, '_wrapper_content'))
    by_signature, receiver_rule = gen_receiver(find_func(tree, 'validate'))
    prog, keep, aw, rkey = gen_prog(find_func(tree, 'wrapper'), False, by_signature)
    aprog, akeep, aaw, arkey = gen_prog(find_func(tree, 'async_wrapper'), True, by_signature)
    shortcut, stops, split_ret = gen_split(find_func(tree, '_split_by_signature'))
    wants_rule, zip_test = gen_wants_args(find_func(tree, 'validate'), find_func(tree, '_wrapper_content'))
    per_call = all(bookkeeping_is_per_call(find_func(tree, f)) for f in ('_wrapper_content', 'wrapper', 'async_wrapper', '_split_by_signature'))
    stateless = validate_is_stateless(ptree)
    nm = gen_naming(ast.parse(src(repo, REL_E)), ptree, ast.parse(src(repo, REL_V)))
    kw_strict, pos_strict = gen_strict_tests(tree, find_func(tree, '_wrapper_content'), by_signature)
    vprog = B.gen_validate_prog(ptree)
    writes, zip_branch, pkey = B.gen_writes(find_func(tree, '_wrapper_content'))
    zip_src, zip_strict, zip_write = B.gen_zip(find_func(tree, '_wrapper_content'), zip_branch, pkey)
    absent = B.gen_absent(find_func(tree, '_wrapper_content'))
    under = ' | '.join(f'.{k} => {lean_bool(u)}' for k, u in sorted(loops))
    return HEADER.format(rel=REL + ', ' + REL_P + ', ' + REL_E + ' and ' + REL_V) + f'''set_option linter.unusedVariables false
namespace PedVerif.Gen.Validate

/-! ### `Parameter.__init__` / `Parameter.validate` -/

/-- `self.is_required = <rule>` as a function of "a default other than NoValue was given" and the `required` argument -/
def isRequiredRule (defaultGiven required : Bool) : Bool := {rule}
/-- `Parameter.validate` starts with `if value is None: (if self.is_required: raise) return None` -/
def noneRuleFirst : Bool := {lean_bool(none_first)}
/-- the validator loop iterates over all of `self.validators` -/
def chainOverAllValidators : Bool := {lean_bool(over_all)}
/-- each validator receives the value its predecessor returned, and the last value is what `validate` returns -/
def chainFeedsPredecessorOutput : Bool := {lean_bool(feeds)}
/-- exactly `ValidatorException` is mapped to the parameter's exception type -/
def chainHandlerIsValidatorException : Bool := {lean_bool(handler_ok)}

/-! ### the naming of a rejection: `exceptions.py`, the handler of the validator loop, `Validator.validate_param`

Names are numbers (the harness's table of names); `emptyName` is the empty string `''`, the only falsy one. -/

def emptyName : Nat := {EMPTY_NAME}
/-- `bool(s)` of a string -/
def strTruthy (a : Nat) : Bool := a != emptyName
/-- Python's `a or b` / `a and b` on strings -/
def strOr (a b : Nat) : Nat := if strTruthy a then a else b
def strAnd (a b : Nat) : Nat := if strTruthy a then b else a
/-- {REL_E}: what `ValidatorException.__init__` / `ParameterException.__init__` store in `self.parameter_name`, as a function of
    their `parameter_name` argument; the default of that argument of `ValidatorException.__init__` -/
def validatorExceptionStoresName (parameterName : Nat) : Nat := {nm['vstored']}
def validatorExceptionDefaultName : Nat := {nm['vdefault']}
def parameterExceptionStoresName (parameterName : Nat) : Nat := {nm['stored']}
/-- `ParameterException.from_validator_exception(exception, parameter_name)`: the `parameter_name` handed to `cls(...)`, as a
    function of the `parameter_name` argument and of `exception.parameter_name` -/
def fromValidatorExceptionName (parameterName excParameterName : Nat) : Nat := {nm['fve_rule']}
/-- the default of its `parameter_name` argument -/
def fromValidatorExceptionDefaultName : Nat := {nm['fve_default']}
/-- {REL_P}: the handler `except ValidatorException as e: raise <type>.from_validator_exception(...)` of the validator loop:
    the `parameter_name` attribute of the exception that is raised, as a function of `self.name` and of `e.parameter_name` -/
def chainHandlerName (selfName excParameterName : Nat) : Nat :=
  parameterExceptionStoresName (fromValidatorExceptionName {nm['handler_rule']} excParameterName)
/-- `Parameter.raise_exception` (value None / missing for a required parameter, conversion failed): the `parameter_name` -/
def raiseExceptionName (selfName : Nat) : Nat := parameterExceptionStoresName {nm['raise_rule']}
/-- {REL_V}: `Validator.validate_param(value, parameter_name)`: the `parameter_name` attribute of the re-raised
    `ValidatorException`, as a function of the `parameter_name` argument and of the name the exception carried -/
def validateParamName (parameterName carried : Nat) : Nat := {nm['vp_rule']}

/-! ### `_wrapper_content` -/

inductive Loop where | kw | pos | unused
deriving DecidableEq, Repr
/-- the three loops in source order -/
def loopOrder : List Loop := [{', '.join('.' + k for k, _ in loops)}]
/-- the loop sits under `if not ignore_input:` -/
def underIgnoreInput : Loop → Bool
  | {under}

/-- the harness's table of names: a key / parameter name is its index in this table -/
def nameTable : List String := [{', '.join(lean_str(n) for n in NAMES)}]
/-- how the receiver of a method is recognised: `true` - by the signature (`receiver_name = <rule>`, computed once per decorated
    function); `false` - by the key: whatever `result` holds under the literal key `'self'` -/
def receiverBySignature : Bool := {lean_bool(by_signature)}
/-- the value of `receiver_name` (`none` = Python's `None`: no receiver) as a function of "the first parameter of the signature is
    called self" (`next(iter(inspect.signature(func).parameters), None) == 'self'`) and "some parameter of the signature is called
    self" (`'self' in inspect.signature(func).parameters`); `none` when the source has no such variable -/
def receiverName (firstIsSelf anyIsSelf : Bool) : Option Nat := {receiver_rule}
/-- the `else` branch (no Parameter declared for the key) of the keyword loop: `if <this>: raise TooManyArguments`, as a function
    of `strict` and the key -/
def kwStrictTest (strict : Bool) (k : Nat) : Bool := {kw_strict}
/-- the same branch of the positional loop (`for k in bound_args`), as a function of `strict`, the key and the value of
    `receiver_name`.  Comparisons of the key with string literals are translated
    through `nameTable`; `k in <string>` is Python's substring test: the names of the table that occur in the string;
    `k != receiver_name` is `some k != receiver` -/
def posStrictTest (strict : Bool) (k : Nat) (receiver : Option Nat) : Bool := {pos_strict}

/-- `wants_args = <rule>` as a function of "the text `*args` occurs in `str(signature)`" and "a parameter of the
    signature is named `args`"; `false` when the source has no such test (it looks the VAR_POSITIONAL parameter up instead) -/
def wantsArgsRule (starArgsInText anyParamNamedArgs : Bool) : Bool := {wants_rule}
/-- the test of the `zip` branch of the positional loop, as a function of "k == 'args'", `wants_args` and "k is the name of
    the VAR_POSITIONAL parameter of the signature" (`k == var_positional`, where
    `var_positional = next((p.name for p in signature.parameters.values() if p.kind is VAR_POSITIONAL), None)`) -/
def zipBranchTest (keyIsArgs wantsArgs keyIsVarPositional : Bool) : Bool := {zip_test}
/-- every variable that `_wrapper_content`, `wrapper`, `async_wrapper` or `_split_by_signature` mutates (item assignment,
    `append`, `pop`, `clear`, …) is bound by an assignment inside that very function: the bookkeeping of a call
    (`result`, `used_parameter_names`, `used_args`) is per call, not shared between calls -/
def bookkeepingIsPerCall : Bool := {lean_bool(per_call)}
/-- `Parameter.validate` assigns no attribute of `self` and declares no `global` / `nonlocal`: no state is kept between calls -/
def parameterValidateIsStateless : Bool := {lean_bool(stateless)}

{B.LEAN_TYPES}
/-- {REL_P}: `Parameter.validate`, its top-level statements in source order -/
def validateProg : List VStmt := {vprog}

/-- the branch `if k in parameter_dict:` of the keyword loop, and its `else` (below the strict test) -/
def kwDeclaredWrite : Write := {writes['kwDeclaredWrite']}
def kwUndeclaredWrite : Write := {writes['kwUndeclaredWrite']}
/-- the branch `elif k in parameter_dict:` of the positional loop, and its `else` (below the strict test) -/
def posDeclaredWrite : Write := {writes['posDeclaredWrite']}
def posUndeclaredWrite : Write := {writes['posUndeclaredWrite']}
/-- the `zip` branch: `for arg, parameter in zip(<surplus>, [p for p in parameters if p.name not in used_parameter_names])` -/
def zipSurplusSource : SurplusSource := {zip_src}
def zipWrite : Write := {zip_write}
/-- the test in front of the inner loop under which the zip branch raises TooManyArguments, as a function of `strict`, the number
    of surplus positionals and the number of Parameters not used so far; `false` when the source has no such test -/
def zipStrictTest (strict : Bool) (nSurplus nUnused : Nat) : Bool := {zip_strict}
/-- the third loop (`for parameter in unused_parameters`) as a decision table -/
def absentAct (isExternal hasValue isRequired hasParamDefault nameInSignature sigDefaultNotEmpty : Bool) : AbsentAct :=
  {absent}

/-! ### `wrapper` / `async_wrapper`: the hand-over to the decorated function -/

inductive Mode where | args | kwWithNone | kwWithoutNone
deriving DecidableEq, Repr
inductive CallForm where
  | selfKw      -- `func(result.pop(<receiver key>), **result)`
  | split       -- `positional, by_name = _split_by_signature(result=result)`; `func(*positional, **by_name)`
  | kw          -- `func(**result)`
  | values      -- `func(*result.values())`
deriving DecidableEq, Repr
inductive Act where
  | filter                 -- `result = {{k: v for k, v in result.items() if <keep v>}}`
  | ret (f : CallForm)     -- `return [await] func(<f>)`
deriving DecidableEq, Repr
/-- one statement with the conditions that enclose it -/
structure GStmt where
  mode : Option Mode       -- `if return_as == ReturnAs.<mode>:`
  ifSelf : Bool            -- `if <receiver key> in result:`
  act : Act
deriving DecidableEq, Repr

def wrapperProg : List GStmt :=
  {prog_lean(prog)}
def asyncWrapperProg : List GStmt :=
  {prog_lean(aprog)}
/-- the key under which the wrapper looks the receiver up (`if <key> in result: return func(result.pop(<key>), **result)`), as a
    function of the value of `receiver_name`: that value itself, or `some 0` for the literal `'self'` -/
def wrapperReceiverKey (receiver : Option Nat) : Option Nat := {rkey}
def asyncWrapperReceiverKey (receiver : Option Nat) : Option Nat := {arkey}
/-- the `if` of the dict comprehension, as a function of "v is None" and "bool(v)" -/
def wrapperKeep (isNone truthy : Bool) : Bool := {keep}
def asyncWrapperKeep (isNone truthy : Bool) : Bool := {akeep}
/-- every call of `func` in `async_wrapper` is awaited, none in `wrapper` -/
def awaitsOk : Bool := {lean_bool(aw and aaw)}

/-! ### `_split_by_signature` -/

/-- `if any(p.kind == p.VAR_POSITIONAL ...): return list(result.values()), {{}}` is present -/
def varPosShortcut : Bool := {lean_bool(shortcut)}
/-- the `break` test of the prefix loop, as a function of "name in result" and "kind is POSITIONAL_ONLY / POSITIONAL_OR_KEYWORD" -/
def prefixStops (inResult kindPositional : Bool) : Bool := {stops}
inductive SplitReturn where
  | prefixRest   -- `[result[n] for n in positional_names], {{k: v for k, v in result.items() if k not in positional_names}}`
  | allValues    -- `list(result.values()), {{}}`
deriving DecidableEq, Repr
def splitReturn : SplitReturn := {split_ret}

end PedVerif.Gen.Validate
'''


FILES = {'Validate.lean': gen_validate}
