"""Translator: `_check_type`, `_is_instance` and the decision-shaped helper checkers of
pedantic/type_checking_logic/check_types.py -> a small statement IR (`PedVerif.Gen.IsInstanceIR`), statement by statement.

The Lean model *interprets* the generated programs (`PedVerif.CheckerIR.interpIsInstance`, Model/CheckerIR.lean) on the abstract
introspection record of an annotation node; `ir_refines` (Lemmas/CheckerIR.lean) proves that the interpretation equals the
hand-written model `PedVerif.Checker.isInstance` for every annotation, value and class table.  A reordered branch, a changed guard, a
dropped `not` changes the text generated here, hence the statement the proof is about.

What is syntactic, what is normalised away
  * parameters are named by position (`$obj`, `$type` / `$args`, `$tv`, `$ctx`), single-assignment locals are replaced by their
    defining expression, calls of module-level functions are brought to positional form, comprehension variables are numbered:
    renaming a local or a parameter, keyword vs positional arguments do not change the output;
  * exception *classes* are kept, messages are dropped;
  * `if A: return X  elif B: ...` == `if A: return X` followed by `if B: ...` (an arm that always leaves the function makes `else`
    and fall-through the same thing);
  * everything else is kept in source order: every `if` becomes `.ite id guard thn els`, every return / raise / assert / effectful
    assignment an `.act id action`, `try` a `.tryCatch`.

Recognised guards / actions are a closed vocabulary (tables GUARDS / RETURNS below); an expression or statement outside it ->
`extract.Skip` (the committed snapshot is used; the differential checks decide alone).

Besides the Lean text the module computes the statement table `{function: {first_line, stmts: {id: [kind, first_line, last_line]}}}`
(`table(repo)`), from which the branch observed by line tracing (harness/props/_intro_common.py) is mapped to a statement id;
`IsInstanceIR.lines.json` is that table for the tree the Lean file was generated from.
"""
import ast, copy, hashlib, json, re
from extract import Skip, src, lean_str, lean_bool, HEADER

REL = 'pedantic/type_checking_logic/check_types.py'

# function -> (id base, role of the second parameter)
FUNCS = [('_check_type', 0, 'type'), ('_is_instance', 100, 'type'),
         ('_instancecheck_iterable', 200, 'args'), ('_instancecheck_mapping', 300, 'args'), ('_instancecheck_items_view', 400, 'args'),
         ('_instancecheck_tuple', 500, 'args'), ('_instancecheck_union', 600, 'type'), ('_check_union', 700, 'args'),
         ('_instancecheck_literal', 800, 'type'), ('_instancecheck_type', 900, 'args'),
         ('_is_forward_ref', 1000, 'only'), ('_is_type_new_type', 1100, 'only'), ]
LEAN_NAME = {'_check_type': 'checkTypeProg', '_is_instance': 'isInstanceProg', '_instancecheck_iterable': 'iterableProg',
             '_instancecheck_mapping': 'mappingProg', '_instancecheck_items_view': 'itemsViewProg', '_instancecheck_tuple': 'tupleProg',
             '_instancecheck_union': 'unionProg', '_check_union': 'checkUnionProg', '_instancecheck_literal': 'literalProg',
             '_instancecheck_type': 'typeProg', '_is_forward_ref': 'isForwardRefProg', '_is_type_new_type': 'isNewTypeProg'}

PREAMBLE = '''namespace PedVerif.Gen.IsInstanceIR

/-- tests.  `obj` = first parameter (the value), `type_` = the annotation object (second parameter of `_is_instance`, `_check_type`
    and of a checker registered by name), `args` = its type arguments (`get_type_arguments(type_)`; second parameter of a checker
    registered by origin) -/
inductive Guard where
  | tt
  | not (g : Guard) | and (a b : Guard) | or (a b : Guard)
  | moduleHas (m attr : String)            -- hasattr(typing, 'Never'), hasattr(types, 'UnionType')
  | requiredArgsOk                         -- _has_required_type_arguments(type_)
  | moduleIsTyping                         -- type_.__module__ == 'typing'
  | originNameInSpecial                    -- _get_name(get_base_generic(type_) if _is_generic(type_) else type_) in _SPECIAL_INSTANCE_CHECKERS
  | isUnionType                            -- isinstance(type_, types.UnionType)
  | eqTyping (c : String)                  -- type_ == typing.<c>
  | selfUnbound                            -- type_vars[TYPE_VAR_SELF] is None
  | isTypeVar                              -- isinstance(type_, TypeVar)
  | originEqTyping (c : String)            -- getattr(type_, '__origin__', None) == typing.<c>
  | isGeneric                              -- _is_generic(type_)
  | objIsinstanceOrigin                    -- isinstance(obj, type_.__origin__)
  | baseInOriginCheckers                   -- get_base_generic(type_) in _ORIGIN_TYPE_CHECKERS
  | isForwardRef                           -- _is_forward_ref(type_)
  | isNewType                              -- _is_type_new_type(type_)
  | objHasAttr (a : String)                -- hasattr(obj, '_asdict')
  | typeHasAttr (a : String)               -- hasattr(type_, '__annotations__')
  | asdictKeysEqFieldKeys                  -- obj._asdict().keys() == field_types.keys()
  | typeInBuiltins (names : List String)   -- type_ in {list, set, ...}
  | isGenericAlias                         -- isinstance(type_, types.GenericAlias)
  | typeIsProtocolMeta                     -- type(type_) == _ProtocolMeta
  | typeIsNamedTupleClass                  -- isinstance(type_, type) and issubclass(type_, tuple) and hasattr(type_, '_fields')
  | objIsinstanceType                      -- isinstance(obj, type_)
  | typeIsNone                             -- type_ is None
  | typeIsStr                              -- isinstance(type_, str)
  | resolvedIsClass                        -- isinstance((context or {}).get(type_), type)
  | typeIsinstanceTyping (c : String)      -- isinstance(type_, typing.<c>)
  | typeOfTypeEqTyping (c : String)        -- type(type_) == typing.<c>
  | objIsIterator                          -- isinstance(obj, collections.abc.Iterator)
  | ellipsisInArgs                         -- Ellipsis in args
  | objEmptyAndArgsUnit                    -- obj == () and args == ((),)
  | lenObjNeLenArgs                        -- len(obj) != len(args)
  | argEqAny (i : Nat)                     -- args[i] == Any
  | argIsTypeVar (i : Nat)                 -- isinstance(args[i], TypeVar)
  | matchesNonTypeVar                      -- the local bound by `.bindMatches`
  | hasUnboundedTypeVars                   -- the list of TypeVar members that are not bound is non-empty
  | oneUnboundedTypeVar                    -- ... has length 1

/-- statements that are not an `if` / `try`: a return, a raise, an assert, an assignment that can fail or that later tests read.
    `REC(x, t)` = `_is_instance(x, t, type_vars, context)` -/
inductive Action where
  | raise (cls : String)                   -- raise <cls>(…)
  | reraise                                -- raise            (inside a handler)
  | returnConst (b : Bool)
  | returnGuard (g : Guard)                -- return <boolean expression>
  | returnObjEqType                        -- return obj == type_
  | returnIsinstanceResolved               -- return isinstance(obj, (context or {}).get(type_))
  | returnAnyMroNameEqType                 -- return any(cls.__name__ == type_ for cls in type(obj).__mro__)
  | returnIsInstance                       -- return REC(obj, type_)
  | returnSpecialChecker                   -- return _SPECIAL_INSTANCE_CHECKERS[<name of the origin>](obj, type_, type_vars, context)
  | returnOriginChecker                    -- return _ORIGIN_TYPE_CHECKERS[get_base_generic(type_)](obj, get_type_arguments(type_), type_vars, context)
  | returnCall (fn : String)               -- return <fn>(obj, type_ | args, type_vars, context)
  | returnCallOnItems (fn : String)        -- return <fn>(obj.items(), args, type_vars, context)
  | returnIsinstanceOf (classes : List String)   -- return isinstance(obj, (<classes>))
  | returnRecurseSelf                      -- return REC(obj, type_vars[TYPE_VAR_SELF])
  | typeVarBranch (digest : String)        -- the body of `if isinstance(type_, TypeVar)` (model: PedVerif.TypeVars), not interpreted
  | assertBaseIsGeneric                    -- assert get_base_generic(type_).__base__ == typing.Generic
  | returnIsinstanceBase                   -- return isinstance(obj, get_base_generic(type_))
  | returnRecurseResolved                  -- return REC(obj, resolve_forward_ref(type_.__forward_arg__, context))
  | returnIsinstanceSupertype              -- return isinstance(obj, type_.__supertype__)
  | bindFieldTypes (attr : String)         -- field_types = type_.<attr>
  | bindFieldTypesFirstOf (attrs : List String)   -- field_types = getattr(type_, a1, None) or getattr(type_, a2, {})
  | bindAsDict                             -- as_dict = obj._asdict()
  | returnQuantFields (q : String) (lazy : Bool) (onlyPresent : Bool)
                                           -- return <q>([REC(obj._asdict()[k], v) for k, v in field_types.items() <if k in as_dict>])
  | returnRecurseConverted                 -- return REC(obj, convert_to_typing_types(type_))
  | returnIsinstanceType                   -- return isinstance(obj, type_)
  | requireArg (i : Nat)                   -- <local> = args[i]
  | unpackArgs (n : Nat)                   -- <n locals> = args
  | returnQuantIter (q : String) (lazy : Bool) (arg : Nat)   -- return <q>(REC(x, args[arg]) for x in obj)
  | returnQuantZip (q : String) (lazy : Bool)                -- return <q>(REC(x, t) for x, t in zip(obj, args))
  | returnQuantItems (q : String) (lazy : Bool) (conj : String) (parts : List (Bool × Nat))
                                           -- return <q>(REC(key, args[i]) <conj> REC(val, args[j]) for key, val in obj); (true, i) = the key
  | returnObjInArgs                        -- return obj in args
  | returnIsSubtypeObjArg (i : Nat)        -- return _is_subtype(obj, args[i], context)
  | partitionTypeVars                      -- the four list comprehensions of `_check_union` (non-TypeVar members, TypeVar members, bound, unbound)
  | bindMatches (q : String) (lazy : Bool) -- <local> = <q>([REC(obj, t) for t in <non-TypeVar members>])
  | forBoundedTryReturnTrue                -- for tv in <bound>: try: if REC(obj, tv): return True  except PedanticException: pass
  | returnRecurseUnbounded (i : Nat)       -- return REC(obj, <unbound>[i])
  | returnQualnameEqNewType                -- return type_.__qualname__ == NewType('name', int).__qualname__

mutual
inductive Stmt where
  | ite (id : Nat) (g : Guard) (thn els : Block)
  | act (id : Nat) (a : Action)
  | tryCatch (id : Nat) (body : Block) (handlers : Handlers)
inductive Block where
  | nil
  | cons (s : Stmt) (rest : Block)
inductive Handlers where
  | nil
  | cons (excs : List String) (body : Block) (rest : Handlers)
end

infixr:67 " ;; " => Block.cons
'''


# ---------------------------------------------------------------------------------------------- canonical expressions

class Canon(ast.NodeTransformer):
    """names -> roles / defining expressions; calls of module-level functions -> positional; comprehension variables -> $c<i>"""

    def __init__(self, tr):
        self.tr = tr
        self.comp = {}

    def visit_Name(self, n):
        s = self.comp.get(n.id) or self.tr.scope.get(n.id)
        if s is not None:
            return ast.Name(id=s, ctx=ast.Load())
        return n

    def _comp(self, node):
        saved = dict(self.comp)
        gens = []
        for g in node.generators:
            it = self.visit(g.iter)
            for t in ast.walk(g.target):
                if isinstance(t, ast.Name):
                    self.comp[t.id] = f'$c{len(self.comp)}'
            gens.append(ast.comprehension(target=self.visit(g.target), iter=it, ifs=[self.visit(i) for i in g.ifs], is_async=g.is_async))
        node = copy.copy(node)
        node.generators = gens
        if hasattr(node, 'elt'):
            node.elt = self.visit(node.elt)
        self.comp = saved
        return node

    visit_ListComp = visit_GeneratorExp = visit_SetComp = _comp

    def visit_Call(self, n):
        n = self.generic_visit(copy.copy(n))
        if isinstance(n.func, ast.Name) and n.func.id in self.tr.sigs:
            params = self.tr.sigs[n.func.id]
            pos = list(n.args)
            kw = {k.arg: k.value for k in n.keywords}
            if any(k.arg is None for k in n.keywords) or any(isinstance(a, ast.Starred) for a in pos):
                raise Skip(f'{self.tr.fname}: star arguments in a call of {n.func.id}')
            out = []
            for i, p in enumerate(params):
                if i < len(pos):
                    out.append(pos[i])
                elif p in kw:
                    out.append(kw.pop(p))
                else:
                    out.append(None)
            if kw:
                raise Skip(f'{self.tr.fname}: unknown keyword in a call of {n.func.id}')
            while out and out[-1] is None:
                out.pop()
            out = [a if a is not None else ast.Name(id='$default', ctx=ast.Load()) for a in out]
            n.args, n.keywords = out, []
        return n


def strip_doc(body):
    return [s for s in body if not (isinstance(s, ast.Expr) and isinstance(s.value, ast.Constant) and isinstance(s.value.value, str))]


def terminates(stmts):
    if not stmts:
        return False
    s = stmts[-1]
    if isinstance(s, (ast.Return, ast.Raise)):
        return True
    if isinstance(s, ast.If):
        return terminates(s.body) and terminates(s.orelse)
    if isinstance(s, ast.Try):
        return terminates(s.body) and all(terminates(h.body) for h in s.handlers) and not s.finalbody and not s.orelse
    return False


REC = re.compile(r'^_is_instance\((.+), \$tv, \$ctx\)$')


class FuncTranslator:
    def __init__(self, tree, fn, base, role, sigs):
        self.fn, self.fname, self.sigs = fn, fn.name, sigs
        self.next_id = base
        self.table = {}                      # id -> [kind, first line, last line]
        self.tests = {}                      # id of an `if` -> its test as a Python expression over obj / type_ / type_vars / context
        a = fn.args
        if a.vararg or a.kwarg or a.kwonlyargs or a.posonlyargs:
            raise Skip(f'{fn.name}: unexpected parameter kinds')
        names = [p.arg for p in a.args]
        self.scope = {}
        if role == 'only':
            roles = ['$type']
        elif fn.name == '_check_type':
            roles = ['$obj', '$type', '$err', '$tv', '$ctx']
        else:
            roles = ['$obj', '$type' if role == 'type' else '$args', '$tv', '$ctx']
        if len(names) != len(roles):
            raise Skip(f'{fn.name}: {len(names)} parameters, expected {len(roles)}')
        for n, r in zip(names, roles):
            self.scope[n] = r
        self.ctx_param = names[roles.index('$ctx')] if '$ctx' in roles else None
        self.role = role
        self.in_handler = False
        self.pending_first = None

    # ---- helpers
    def canon(self, e):
        s = ast.unparse(Canon(self).visit(copy.deepcopy(e)))
        s = s.replace('get_type_arguments($type)', '$args').replace('typing.TypeVar', 'TypeVar').replace('typing.Any', 'Any')
        return s

    def evaluable(self, e):
        """the test with locals replaced by their definitions, as an expression the harness can evaluate in the namespace of
        check_types.py (None when it reads a local that has no closed form: field_types, matches_non_type_var)"""
        t = self.canon(e)
        for a, b in (('$args', 'get_type_arguments(type_)'), ('$type', 'type_'), ('$obj', 'obj'), ('$tv', 'type_vars'), ('$ctx', 'context')):
            t = t.replace(a, b)
        return None if '$' in t else t

    def new_id(self, kind, first, last):
        i = self.next_id
        self.next_id += 1
        if self.pending_first is not None:                # lines of bindings folded into this statement: an exception raised
            first = min(first, self.pending_first)        # while one of them is evaluated leaves the function "from" this statement
            self.pending_first = None
        self.table[i] = [kind, first, last]
        return i

    def skip(self, what, node=None):
        where = f' (line {node.lineno})' if node is not None and hasattr(node, 'lineno') else ''
        raise Skip(f'{self.fname}{where}: {what}')

    # ---- guards
    def guard(self, e):
        if isinstance(e, ast.UnaryOp) and isinstance(e.op, ast.Not):
            return f'(.not {self.guard(e.operand)})'
        if isinstance(e, ast.BoolOp):
            s = self.canon(e)
            if s == '$obj == () and $args == ((),)':
                return '.objEmptyAndArgsUnit'
            if s == "isinstance($type, type) and issubclass($type, tuple) and hasattr($type, '_fields')":
                return '.typeIsNamedTupleClass'
            parts = [self.guard(v) for v in e.values]
            op = '.and' if isinstance(e.op, ast.And) else '.or'
            out = parts[-1]
            for p in reversed(parts[:-1]):
                out = f'({op} {p} {out})'
            return out
        s = self.canon(e)
        g = self.guard_atom(s)
        if g is None:
            self.skip(f'test outside the vocabulary: {s}', e)
        return g

    def guard_atom(self, s):
        fixed = {
            'True': '.tt',
            '_has_required_type_arguments($type)': '.requiredArgsOk',
            "$type.__module__ == 'typing'": '.moduleIsTyping',
            '_get_name(get_base_generic($type) if _is_generic($type) else $type) in _SPECIAL_INSTANCE_CHECKERS': '.originNameInSpecial',
            'isinstance($type, types.UnionType)': '.isUnionType',
            '$tv[TYPE_VAR_SELF] is None': '.selfUnbound',
            'isinstance($type, TypeVar)': '.isTypeVar',
            '_is_generic($type)': '.isGeneric',
            'isinstance($obj, $type.__origin__)': '.objIsinstanceOrigin',
            'get_base_generic($type) in _ORIGIN_TYPE_CHECKERS': '.baseInOriginCheckers',
            '_is_forward_ref($type)': '.isForwardRef',
            '_is_type_new_type($type)': '.isNewType',
            '$obj._asdict().keys() == $fields.keys()': '.asdictKeysEqFieldKeys',
            'isinstance($type, types.GenericAlias)': '.isGenericAlias',
            'type($type) == _ProtocolMeta': '.typeIsProtocolMeta',
            'isinstance($obj, $type)': '.objIsinstanceType',
            '$type is None': '.typeIsNone',
            'isinstance($type, str)': '.typeIsStr',
            'isinstance(($ctx or {}).get($type), type)': '.resolvedIsClass',
            'isinstance($obj, collections.abc.Iterator)': '.objIsIterator',
            'Ellipsis in $args': '.ellipsisInArgs',
            'len($obj) != len($args)': '.lenObjNeLenArgs',
            '$matches': '.matchesNonTypeVar',
            '$unbounded': '.hasUnboundedTypeVars',
            'len($unbounded) == 1': '.oneUnboundedTypeVar',
        }
        if s in fixed:
            return fixed[s]
        m = re.fullmatch(r"hasattr\((typing|types), '(\w+)'\)", s)
        if m: return f'(.moduleHas {lean_str(m.group(1))} {lean_str(m.group(2))})'
        m = re.fullmatch(r'\$type == typing\.(\w+)', s)
        if m: return f'(.eqTyping {lean_str(m.group(1))})'
        m = re.fullmatch(r"getattr\(\$type, '__origin__', None\) == typing\.(\w+)", s)
        if m: return f'(.originEqTyping {lean_str(m.group(1))})'
        m = re.fullmatch(r"hasattr\(\$obj, '(\w+)'\)", s)
        if m: return f'(.objHasAttr {lean_str(m.group(1))})'
        m = re.fullmatch(r"hasattr\(\$type, '(\w+)'\)", s)
        if m: return f'(.typeHasAttr {lean_str(m.group(1))})'
        m = re.fullmatch(r'\$type in \{([\w, ]+)\}', s)
        if m: return '(.typeInBuiltins [' + ', '.join(lean_str(x.strip()) for x in m.group(1).split(',')) + '])'
        m = re.fullmatch(r'isinstance\(\$type, typing\.(\w+)\)', s)
        if m: return f'(.typeIsinstanceTyping {lean_str(m.group(1))})'
        m = re.fullmatch(r'type\(\$type\) == typing\.(\w+)', s)
        if m: return f'(.typeOfTypeEqTyping {lean_str(m.group(1))})'
        m = re.fullmatch(r'\$args\[(\d+)\] == Any', s)
        if m: return f'(.argEqAny {m.group(1)})'
        m = re.fullmatch(r'isinstance\(\$args\[(\d+)\], TypeVar\)', s)
        if m: return f'(.argIsTypeVar {m.group(1)})'
        return None

    # ---- returns
    def quant(self, e):
        """<q>(<comprehension>) -> (q, lazy, comprehension node) or None"""
        if isinstance(e, ast.Call) and isinstance(e.func, ast.Name) and e.func.id in ('all', 'any') and len(e.args) == 1 and not e.keywords \
                and isinstance(e.args[0], (ast.GeneratorExp, ast.ListComp)):
            return e.func.id, isinstance(e.args[0], ast.GeneratorExp), e.args[0]
        return None

    def ret(self, e, node):
        if e is None:
            self.skip('bare return', node)
        if isinstance(e, ast.Constant) and e.value in (True, False):
            return f'(.returnConst {lean_bool(e.value)})'
        q = self.quant(e)
        if q is not None:
            return self.ret_quant(q, e, node)
        s = self.canon(e)
        fixed = {
            '$obj == $type': '.returnObjEqType',
            'isinstance($obj, ($ctx or {}).get($type))': '.returnIsinstanceResolved',
            '_SPECIAL_INSTANCE_CHECKERS[_get_name(get_base_generic($type) if _is_generic($type) else $type)]($obj, $type, $tv, $ctx)': '.returnSpecialChecker',
            '_ORIGIN_TYPE_CHECKERS[get_base_generic($type)]($obj, $args, $tv, $ctx)': '.returnOriginChecker',
            'isinstance($obj, get_base_generic($type))': '.returnIsinstanceBase',
            'isinstance($obj, $type.__supertype__)': '.returnIsinstanceSupertype',
            'isinstance($obj, $type)': '.returnIsinstanceType',
            '$obj in $args': '.returnObjInArgs',
            "$type.__qualname__ == NewType('name', int).__qualname__": '.returnQualnameEqNewType',
        }
        if s in fixed:
            return fixed[s]
        m = REC.match(s)
        if m:
            inner = m.group(1)
            rec = {'$obj, $type': '.returnIsInstance', '$obj, $tv[TYPE_VAR_SELF]': '.returnRecurseSelf',
                   '$obj, resolve_forward_ref($type.__forward_arg__, context=$ctx)': '.returnRecurseResolved',
                   '$obj, resolve_forward_ref($type.__forward_arg__, $ctx)': '.returnRecurseResolved',
                   '$obj, convert_to_typing_types($type)': '.returnRecurseConverted'}
            if inner in rec:
                return rec[inner]
            m2 = re.fullmatch(r'\$obj, \$unbounded\[(\d+)\]', inner)
            if m2:
                return f'(.returnRecurseUnbounded {m2.group(1)})'
        m = re.fullmatch(r'isinstance\(\$obj, \(?([\w, ]+?)\)?\)', s)
        if m and not s.startswith('isinstance($obj, $'):
            return '(.returnIsinstanceOf [' + ', '.join(lean_str(x.strip()) for x in m.group(1).split(',')) + '])'
        m = re.fullmatch(r'(_\w+)\(\$obj, \$(type|args), \$tv, \$ctx\)', s)
        if m and m.group(1) in self.sigs:
            return f'(.returnCall {lean_str(m.group(1))})'
        m = re.fullmatch(r'(_\w+)\(\$obj\.items\(\), \$args, \$tv, \$ctx\)', s)
        if m and m.group(1) in self.sigs:
            return f'(.returnCallOnItems {lean_str(m.group(1))})'
        m = re.fullmatch(r'_is_subtype\(\$obj, \$args\[(\d+)\], \$ctx\)', s)
        if m:
            return f'(.returnIsSubtypeObjArg {m.group(1)})'
        # a boolean expression over the guard vocabulary (helper predicates)
        try:
            return f'(.returnGuard {self.guard(e)})'
        except Skip:
            self.skip(f'return value outside the vocabulary: {s}', node)

    def ret_quant(self, q, e, node):
        name, lazy, comp = q
        s = self.canon(e)
        inner = self.canon(comp)[1:-1]
        # the comprehension variables are $c0, $c1 (canonical)
        if inner == '_is_instance($c0, $type, $tv, $ctx) for $c0 in $obj' or inner == '_is_instance($c0, $args, $tv, $ctx) for $c0 in $obj':
            self.skip('element loop over the whole argument tuple', node)
        m = re.fullmatch(r'_is_instance\(\$c0, \$args\[(\d+)\], \$tv, \$ctx\) for \$c0 in \$obj', inner)
        if m:
            return f'(.returnQuantIter {lean_str(name)} {lean_bool(lazy)} {m.group(1)})'
        if inner == '_is_instance($c0, $c1, $tv, $ctx) for $c0, $c1 in zip($obj, $args)':
            return f'(.returnQuantZip {lean_str(name)} {lean_bool(lazy)})'
        if inner == '_is_instance($obj._asdict()[$c0], $c1, $tv, $ctx) for $c0, $c1 in $fields.items()':
            return f'(.returnQuantFields {lean_str(name)} {lean_bool(lazy)} false)'
        if inner == '_is_instance($asdict[$c0], $c1, $tv, $ctx) for $c0, $c1 in $fields.items() if $c0 in $asdict':
            return f'(.returnQuantFields {lean_str(name)} {lean_bool(lazy)} true)'
        if inner == '$c0.__name__ == $type for $c0 in type($obj).__mro__' and name == 'any':
            return '.returnAnyMroNameEqType'
        m = re.fullmatch(r'(.+) for \$c0, \$c1 in \$obj', inner)
        if m:
            body = m.group(1)
            conj = 'and' if ' and ' in body else ('or' if ' or ' in body else 'single')
            parts = []
            for p in (body.split(f' {conj} ') if conj != 'single' else [body]):
                mm = re.fullmatch(r'_is_instance\(\$c([01]), \$args\[(\d+)\], \$tv, \$ctx\)', p)
                if not mm:
                    self.skip(f'items loop outside the vocabulary: {inner}', node)
                parts.append(f'({lean_bool(mm.group(1) == "0")}, {mm.group(2)})')
            return f'(.returnQuantItems {lean_str(name)} {lean_bool(lazy)} {lean_str(conj)} [{", ".join(parts)}])'
        self.skip(f'quantified return outside the vocabulary: {s}', node)

    # ---- statements
    def act(self, text, node, kind='act'):
        i = self.new_id(kind, node.lineno, node.end_lineno)
        return f'.act {i} {text}'

    def block(self, stmts):
        """list of Lean statement texts (nested blocks already rendered)"""
        out = []
        stmts = list(stmts)
        k = 0
        while k < len(stmts):
            s = stmts[k]
            k += 1
            if isinstance(s, ast.Pass):
                continue
            if isinstance(s, ast.Return):
                out.append(self.act(self.ret(s.value, s), s, 'return'))
            elif isinstance(s, ast.Raise):
                if s.exc is None:
                    if not self.in_handler:
                        self.skip('bare raise outside a handler', s)
                    out.append(self.act('.reraise', s, 'raise'))
                else:
                    exc = s.exc.func if isinstance(s.exc, ast.Call) else s.exc
                    if not isinstance(exc, ast.Name) or s.cause is not None:
                        self.skip('raise of something else than a named exception class', s)
                    out.append(self.act(f'(.raise {lean_str(exc.id)})', s, 'raise'))
            elif isinstance(s, ast.Assert):
                if self.canon(s.test) == 'get_base_generic($type).__base__ == typing.Generic':
                    out.append(self.act('.assertBaseIsGeneric', s, 'assert'))
                else:
                    self.skip(f'assert outside the vocabulary: {self.canon(s.test)}', s)
            elif isinstance(s, ast.Assign):
                t = self.assign(s)
                if t is not None:
                    out.append(t)
                elif self.pending_first is None:
                    self.pending_first = s.lineno
            elif isinstance(s, ast.If):
                phi = self.phi_assign(s)
                if phi:
                    if self.pending_first is None:
                        self.pending_first = s.lineno
                    continue
                if self.is_typevar_branch(s):
                    i = self.new_id('if', s.lineno, s.test.end_lineno)
                    self.tests[i] = self.evaluable(s.test)
                    j = self.new_id('opaque', s.body[0].lineno, s.body[-1].end_lineno)
                    out.append(f'.ite {i} .isTypeVar ({self.render([f".act {j} (.typeVarBranch {lean_str(self.digest(s.body))})"])}) .nil')
                    continue
                g = self.guard(s.test)
                i = self.new_id('if', s.lineno, s.test.end_lineno)
                self.tests[i] = self.evaluable(s.test)
                thn = self.block(s.body)
                if terminates(s.body):
                    # `else` and fall-through are the same thing: splice the else arm after the `if`
                    out.append(f'.ite {i} {g} ({self.render(thn)}) .nil')
                    stmts[k:k] = s.orelse
                else:
                    els = self.block(s.orelse)
                    out.append(f'.ite {i} {g} ({self.render(thn)}) {self.paren(els)}')
            elif isinstance(s, ast.Try):
                out.append(self.try_(s))
            elif isinstance(s, ast.For):
                out.append(self.for_(s))
            else:
                self.skip(f'statement outside the subset: {type(s).__name__}', s)
        return out

    def paren(self, items):
        return '.nil' if not items else f'({self.render(items)})'

    def render(self, items):
        if not items:
            return '.nil'
        return ' ;;\n'.join(items) + ' ;; .nil'

    def digest(self, body):
        """text of a block without message strings (the block is not interpreted; a change of its logic still changes the output)"""
        class Strip(ast.NodeTransformer):
            def visit_JoinedStr(self, n): return ast.Constant(value='')
            def visit_Constant(self, n): return ast.Constant(value='') if isinstance(n.value, str) and len(n.value) > 24 else n
        txt = '\n'.join(ast.unparse(Strip().visit(copy.deepcopy(x))) for x in body)
        return hashlib.sha1(txt.encode()).hexdigest()[:16]

    def is_typevar_branch(self, s):
        return self.fname == '_is_instance' and not s.orelse and self.canon(s.test) == 'isinstance($type, TypeVar)'

    def phi_assign(self, s):
        """if C: x = A else: x = B   (nothing else) -> x := (A if C else B), no statement"""
        if len(s.body) == 1 and len(s.orelse) == 1 and all(isinstance(b, ast.Assign) and len(b.targets) == 1 and isinstance(b.targets[0], ast.Name)
                                                          for b in (s.body[0], s.orelse[0])) \
                and s.body[0].targets[0].id == s.orelse[0].targets[0].id:
            name = s.body[0].targets[0].id
            if self.defines_fields(s.body[0]) or self.defines_fields(s.orelse[0]):
                return False
            e = ast.IfExp(test=s.test, body=s.body[0].value, orelse=s.orelse[0].value)
            self.scope[name] = self.canon(e)
            return True
        return False

    def defines_fields(self, a):
        return isinstance(a, ast.Assign) and re.fullmatch(r'\$type\.(\w+)', self.canon(a.value)) is not None \
            and self.canon(a.value) in ('$type._field_types', '$type.__annotations__')

    def assign(self, s):
        if len(s.targets) != 1:
            self.skip('multiple assignment targets', s)
        t = s.targets[0]
        if isinstance(t, ast.Tuple) and all(isinstance(x, ast.Name) for x in t.elts):
            if self.canon(s.value) == '$args':
                for i, x in enumerate(t.elts):
                    self.scope[x.id] = f'$args[{i}]'
                return self.act(f'(.unpackArgs {len(t.elts)})', s, 'bind')
            self.skip(f'tuple assignment outside the vocabulary: {self.canon(s.value)}', s)
        if not isinstance(t, ast.Name):
            self.skip('assignment to something else than a local', s)
        v = self.canon(s.value)
        if t.id == self.ctx_param and v == '$ctx or {}':
            return None                                            # context = context or {}
        if v in ('$type._field_types', '$type.__annotations__'):
            self.scope[t.id] = '$fields'
            return self.act(f'(.bindFieldTypes {lean_str(v.split(".")[1])})', s, 'bind')
        m = re.fullmatch(r"getattr\(\$type, '(\w+)', None\) or getattr\(\$type, '(\w+)', \{\}\)", v)
        if m:
            self.scope[t.id] = '$fields'
            return self.act(f'(.bindFieldTypesFirstOf [{lean_str(m.group(1))}, {lean_str(m.group(2))}])', s, 'bind')
        if v == '$obj._asdict()':
            self.scope[t.id] = '$asdict'
            return self.act('.bindAsDict', s, 'bind')
        m = re.fullmatch(r'\$args\[(\d+)\]', v)
        if m:
            self.scope[t.id] = v
            return self.act(f'(.requireArg {m.group(1)})', s, 'bind')
        q = self.quant(s.value)
        if q is not None:
            name, lazy, comp = q
            inner = self.canon(comp)[1:-1]
            if inner == '_is_instance($obj, $c0, $tv, $ctx) for $c0 in $nontv':
                self.scope[t.id] = '$matches'
                return self.act(f'(.bindMatches {lean_str(name)} {lean_bool(lazy)})', s, 'bind')
            self.skip(f'quantified assignment outside the vocabulary: {v}', s)
        if self.fname == '_check_union':
            part = {'[$c0 for $c0 in $args if not isinstance($c0, TypeVar)]': '$nontv',
                    '[$c0 for $c0 in $args if isinstance($c0, TypeVar)]': '$tvs',
                    '[$c0 for $c0 in $tvs if $c0 in $tv]': '$bounded',
                    '[$c0 for $c0 in $tvs if $c0 not in $bounded]': '$unbounded',
                    '[$c0 for $c0 in $tvs if $c0 not in $tv]': '$unbounded'}
            if v in part:
                self.scope[t.id] = part[v]
                self.partition_seen = getattr(self, 'partition_seen', [])
                self.partition_seen.append(part[v])
                if part[v] == '$unbounded':
                    if self.partition_seen != ['$nontv', '$tvs', '$bounded', '$unbounded']:
                        self.skip('the four member lists are not built in the known order', s)
                    first = self.partition_first
                    i = self.new_id('bind', first, s.end_lineno)
                    return f'.act {i} .partitionTypeVars'
                if part[v] == '$nontv':
                    self.partition_first = s.lineno
                return None
        # a pure binding: replaced by its definition wherever it is read
        if isinstance(s.value, (ast.Call, ast.Attribute, ast.Subscript, ast.Name, ast.IfExp, ast.BoolOp)):
            self.scope[t.id] = v if re.fullmatch(r'[\w$.]+', v) or v.endswith(')') or v.endswith(']') else f'({v})'
            return None
        self.skip(f'assignment outside the vocabulary: {v}', s)

    def try_(self, s):
        if s.finalbody or s.orelse:
            self.skip('try with else / finally', s)
        i = self.new_id('try', s.lineno, s.lineno)
        body = self.block(s.body)
        hs = []
        for h in s.handlers:
            if h.type is None:
                names = ['BaseException']
            elif isinstance(h.type, ast.Name):
                names = [h.type.id]
            elif isinstance(h.type, ast.Tuple) and all(isinstance(e, ast.Name) for e in h.type.elts):
                names = [e.id for e in h.type.elts]
            else:
                self.skip('handler type is not a (tuple of) name(s)', h)
            saved = self.in_handler
            self.in_handler = True
            hb = self.block(h.body)
            self.in_handler = saved
            hs.append((names, hb))
        txt = '.nil'
        for names, hb in reversed(hs):
            txt = f'(.cons [{", ".join(lean_str(n) for n in names)}] ({self.render(hb)}) {txt})'
        return f'.tryCatch {i} ({self.render(body)}) {txt}'

    def for_(self, s):
        """for tv in <bound>: try: if REC(obj, tv): return True  except PedanticException: pass"""
        ok = (self.fname == '_check_union' and isinstance(s.target, ast.Name) and not s.orelse and self.canon(s.iter) == '$bounded'
              and len(s.body) == 1 and isinstance(s.body[0], ast.Try))
        if ok:
            t = s.body[0]
            self.scope[s.target.id] = '$each'
            ok = (len(t.body) == 1 and isinstance(t.body[0], ast.If) and not t.body[0].orelse
                  and self.canon(t.body[0].test) == '_is_instance($obj, $each, $tv, $ctx)'
                  and len(t.body[0].body) == 1 and isinstance(t.body[0].body[0], ast.Return)
                  and isinstance(t.body[0].body[0].value, ast.Constant) and t.body[0].body[0].value.value is True
                  and len(t.handlers) == 1 and isinstance(t.handlers[0].type, ast.Name) and t.handlers[0].type.id == 'PedanticException'
                  and len(t.handlers[0].body) == 1 and isinstance(t.handlers[0].body[0], ast.Pass) and not t.orelse and not t.finalbody)
        if not ok:
            self.skip('loop outside the vocabulary', s)
        return self.act('.forBoundedTryReturnTrue', s, 'loop')

    def translate(self):
        items = self.block(strip_doc(self.fn.body))
        return items


def module_sigs(tree):
    sigs = {}
    for n in tree.body:
        if isinstance(n, ast.FunctionDef):
            sigs[n.name] = [p.arg for p in n.args.args]
    return sigs


def indent_block(text, ind='  '):
    """re-indent a rendered block by nesting depth of parentheses (purely cosmetic, deterministic)"""
    out, depth = [], 0
    for line in text.split('\n'):
        out.append(ind * (1 + depth) + line)
        depth += line.count('(') - line.count(')')
    return '\n'.join(out)


def translate(repo):
    """-> (Lean text, statement table)"""
    tree = ast.parse(src(repo, REL))
    sigs = module_sigs(tree)
    funcs = {n.name: n for n in tree.body if isinstance(n, ast.FunctionDef)}
    defs, table = [], {}
    for name, base, role in FUNCS:
        if name not in funcs:
            raise Skip(f'function {name} not found')
        tr = FuncTranslator(tree, funcs[name], base, role, sigs)
        items = tr.translate()
        if tr.next_id - base >= 100:
            raise Skip(f'{name}: more than 100 statements')
        body = tr.render(items)
        defs.append(f'/-- `{name}` -/\ndef {LEAN_NAME[name]} : Block :=\n{indent_block(body)}')
        table[name] = {'first_line': funcs[name].lineno, 'last_line': funcs[name].end_lineno,
                       'stmts': {str(i): v for i, v in tr.table.items()}, 'tests': {str(i): v for i, v in tr.tests.items()}}
    L = [HEADER.format(rel=REL), PREAMBLE]
    L.append('\n\n'.join(defs))
    L.append('\n/-- the translated functions by their Python name -/')
    L.append('def progs : List (String × Block) := [' + ', '.join(f'({lean_str(n)}, {LEAN_NAME[n]})' for n, _, _ in FUNCS) + ']')
    L.append('\nend PedVerif.Gen.IsInstanceIR')
    return '\n'.join(L) + '\n', table


def gen_lean(repo):
    return translate(repo)[0]


def table(repo):
    return translate(repo)[1]


def gen_lines(repo):
    return json.dumps(translate(repo)[1], indent=1, sort_keys=True) + '\n'


FILES = {'IsInstanceIR.lean': gen_lean, 'IsInstanceIR.lines.json': gen_lines}
