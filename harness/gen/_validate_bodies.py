"""Translator part for C12/C13, second half: the BODIES of `Parameter.validate` and of the three loops of `_wrapper_content`,
statement by statement (imported by gen/validate.py; no FILES table of its own).

* `Parameter.validate` -> a program `validateProg : List VStmt` in source order: the None rule, the conversion (`if self.value_type
  is not None: try: <acc> = convert_value(...) except <class>: <handler> else: <acc> = value`), the validator loop (over all of
  `self.validators` or a slice; each validator fed the accumulator or something else; the handler), `return <acc>`.  The model's
  `VParam.validate` is the interpreter of that program: moving the validator loop in front of the conversion, binding the converted
  value to another variable, widening an `except`, returning something else changes the program, hence the model.
* the branches of the keyword loop, of the positional loop and of the inner `zip` loop -> `Write` records (under which key the
  result is filed: the loop key or `parameter.name`; whether the value went through `parameter.validate`; whether
  `used_parameter_names.append(parameter.name)` / `used_args.append(...)` happen).
* the `zip` branch: where the surplus positionals come from (`[a for a in args if a not in used_args]` - the former shape, an EQUALITY
  filter over all positionals - or `bound_args[k]`, the tuple bound to the VAR_POSITIONAL parameter), what they are zipped with, and
  the strict test in front of the inner loop (`if strict and len(surplus) > len(unused): raise TooManyArguments`; absent = `false`).
* the third loop -> a decision table `absentAct` over (isinstance ExternalParameter, has_value(), is_required, default_value given,
  name in signature.parameters, signature default not empty) with the leaves external / raise required / Parameter default /
  signature default / raise ValidateException, obtained by walking the if / elif / else tree with its `continue` / `return` / `raise`
  exits: swapping the precedence of Parameter default and signature default changes the table.
"""
import ast
from extract import Skip, find_func, lean_bool


def is_name(n, ident=None):
    return isinstance(n, ast.Name) and (ident is None or n.id == ident)


def is_none(n):
    return isinstance(n, ast.Constant) and n.value is None


def strip_doc(body):
    return [s for s in body if not (isinstance(s, ast.Expr) and isinstance(s.value, ast.Constant) and isinstance(s.value.value, str))]


def is_attr(n, obj, attr):
    return isinstance(n, ast.Attribute) and n.attr == attr and is_name(n.value, obj)


def call_arg(call, kwname):
    """the single argument of a call, positional or by the given keyword"""
    if len(call.args) == 1 and not call.keywords:
        return call.args[0]
    if not call.args and len(call.keywords) == 1 and call.keywords[0].arg == kwname:
        return call.keywords[0].value
    return None


def is_raise_exception(stmt):
    """`[return] self.raise_exception(...)` / `raise self.raise_exception(...)`"""
    v = None
    if isinstance(stmt, ast.Expr):
        v = stmt.value
    elif isinstance(stmt, ast.Return):
        v = stmt.value
    elif isinstance(stmt, ast.Raise):
        v = stmt.exc
    return isinstance(v, ast.Call) and isinstance(v.func, ast.Attribute) and v.func.attr == 'raise_exception' and \
        (is_name(v.func.value, 'self') or is_name(v.func.value, 'parameter'))


def catch_of(handler, expected):
    """`.only` - exactly the expected class; `.all` - `Exception` / `BaseException` / bare"""
    t = handler.type
    if t is None or is_name(t, 'Exception') or is_name(t, 'BaseException'):
        return '.all'
    if is_name(t, expected):
        return '.only'
    raise Skip(f'Parameter.validate: handler for {ast.unparse(t)} where {expected} is expected')


# ---------------------------------------------------------------- Parameter.validate, statement by statement

def gen_validate_prog(ptree):
    fn = find_func(ptree, 'validate', cls='Parameter')
    if len(fn.args.args) != 2:
        raise Skip('Parameter.validate: unexpected arguments')
    val = fn.args.args[1].arg
    out = []
    acc = None                     # the variable the accumulated value lives in
    for s in strip_doc(fn.body):
        # --- the None rule
        if isinstance(s, ast.If) and isinstance(s.test, ast.Compare) and len(s.test.ops) == 1 and isinstance(s.test.ops[0], (ast.Is, ast.Eq)) \
                and is_name(s.test.left, val) and is_none(s.test.comparators[0]) and not s.orelse:
            body = strip_doc(s.body)
            raises = False
            if body and isinstance(body[0], ast.If) and is_attr(body[0].test, 'self', 'is_required') and not body[0].orelse \
                    and len(body[0].body) == 1 and is_raise_exception(body[0].body[0]):
                raises = True
                body = body[1:]
            returns = len(body) == 1 and isinstance(body[0], ast.Return) and (body[0].value is None or is_none(body[0].value))
            if body and not returns:
                raise Skip('Parameter.validate: the None rule does something else than raising for a required parameter and returning None')
            out.append(f'.noneRule {lean_bool(raises)} {lean_bool(returns)}')
            continue
        # --- the conversion
        if isinstance(s, ast.If) and isinstance(s.test, ast.Compare) and len(s.test.ops) == 1 and is_attr(s.test.left, 'self', 'value_type') \
                and is_none(s.test.comparators[0]) and isinstance(s.test.ops[0], (ast.IsNot, ast.NotEq)):
            body = strip_doc(s.body)
            if not (len(body) == 1 and isinstance(body[0], ast.Try) and not body[0].orelse and not body[0].finalbody and len(body[0].handlers) == 1):
                raise Skip('Parameter.validate: the conversion is not a single try / except')
            t = body[0]
            tb = strip_doc(t.body)
            if not (len(tb) == 1 and isinstance(tb[0], ast.Assign) and len(tb[0].targets) == 1 and is_name(tb[0].targets[0])
                    and isinstance(tb[0].value, ast.Call) and is_name(tb[0].value.func, 'convert_value')):
                raise Skip('Parameter.validate: the try body is not `<acc> = convert_value(...)`')
            call = tb[0].value
            cargs = {k.arg: k.value for k in call.keywords}
            for i, a in enumerate(call.args):
                cargs[['value', 'target_type'][i]] = a
            if not (is_name(cargs.get('value'), val) and is_attr(cargs.get('target_type'), 'self', 'value_type')):
                raise Skip('Parameter.validate: convert_value is not called with (value, self.value_type)')
            target = tb[0].targets[0].id
            h = t.handlers[0]
            hb = strip_doc(h.body)
            if not (len(hb) == 1 and is_raise_exception(hb[0])):
                raise Skip('Parameter.validate: the ConversionError handler is not `[return] self.raise_exception(...)`')
            els = strip_doc(s.orelse)
            keeps = len(els) == 1 and isinstance(els[0], ast.Assign) and len(els[0].targets) == 1 and is_name(els[0].targets[0], target) \
                and is_name(els[0].value, val)
            if els and not keeps:
                raise Skip('Parameter.validate: the else branch of the conversion is not `<acc> = value`')
            if acc is not None and acc != target:
                raise Skip('Parameter.validate: two accumulators')
            acc = target
            out.append(f'.convert {catch_of(h, "ConversionError")} {lean_bool(keeps)}')
            continue
        # --- the validator loop
        if isinstance(s, ast.For):
            it = s.iter
            if is_attr(it, 'self', 'validators'):
                over_all = True
            elif isinstance(it, ast.Subscript) and is_attr(it.value, 'self', 'validators'):
                over_all = False
            else:
                raise Skip('Parameter.validate: loop iterable is neither self.validators nor a slice of it')
            if not is_name(s.target) or s.orelse:
                raise Skip('Parameter.validate: unexpected loop header')
            body = strip_doc(s.body)
            if not (len(body) == 1 and isinstance(body[0], ast.Try) and not body[0].orelse and not body[0].finalbody and len(body[0].handlers) == 1):
                raise Skip('Parameter.validate: the loop body is not a single try / except (a continue / break / if inside the loop is outside the subset)')
            t = body[0]
            tb = strip_doc(t.body)
            if not (len(tb) == 1 and isinstance(tb[0], ast.Assign) and len(tb[0].targets) == 1 and is_name(tb[0].targets[0])
                    and isinstance(tb[0].value, ast.Call) and is_attr(tb[0].value.func, s.target.id, 'validate')):
                raise Skip('Parameter.validate: the loop body is not `<acc> = validator.validate(<x>)`')
            target = tb[0].targets[0].id
            arg = call_arg(tb[0].value, 'value')
            if acc is None:
                acc = target               # a loop in front of the conversion: the accumulator is not bound yet (modelled)
            if target != acc:
                raise Skip('Parameter.validate: the loop assigns another variable than the accumulator')
            if is_name(arg, acc):
                feeds = '.acc'
            elif is_name(arg, val):
                feeds = '.original'
            else:
                raise Skip('Parameter.validate: the validator is fed neither the accumulator nor the original value')
            h = t.handlers[0]
            hb = strip_doc(h.body)
            ok = len(hb) == 1 and isinstance(hb[0], ast.Raise) and isinstance(hb[0].exc, ast.Call) \
                and isinstance(hb[0].exc.func, ast.Attribute) and hb[0].exc.func.attr == 'from_validator_exception'
            if not ok:
                raise Skip('Parameter.validate: the ValidatorException handler is not `raise <type>.from_validator_exception(...)`')
            out.append(f'.chain {lean_bool(over_all)} {feeds} {catch_of(h, "ValidatorException")}')
            continue
        # --- the return
        if isinstance(s, ast.Return):
            if acc is not None and is_name(s.value, acc):
                out.append('.ret .acc')
            elif is_name(s.value, val):
                out.append('.ret .original')
            else:
                raise Skip(f'Parameter.validate: returns {ast.unparse(s.value) if s.value else None}')
            continue
        raise Skip(f'Parameter.validate: statement outside the translated subset: {ast.unparse(s)[:70]}')
    return '[' + ', '.join(out) + ']'


# ---------------------------------------------------------------- the branches of the loops of _wrapper_content

def loops_of(fn):
    """(kw loop, its key, its value name), (pos loop, its key)"""
    kwl = posl = None
    for f in ast.walk(fn):
        if not isinstance(f, ast.For):
            continue
        it = f.iter
        if isinstance(it, ast.Call) and isinstance(it.func, ast.Attribute) and it.func.attr == 'items' and is_name(it.func.value, 'kwargs') \
                and isinstance(f.target, ast.Tuple) and len(f.target.elts) == 2 and all(is_name(e) for e in f.target.elts):
            kwl = f
        elif is_name(it, 'bound_args') and is_name(f.target):
            posl = f
    if kwl is None or posl is None:
        raise Skip('_wrapper_content: keyword / positional loop not found')
    return kwl, posl


def write_of(stmts, key, raw_ok, what, declared=True):
    """the statements of one branch -> (keyIsParamName, validated, marksUsed, recordsArg).
    `raw_ok(expr)`: the expression is the raw value of this iteration"""
    param = None          # the name bound by `parameter = parameter_dict[k]` / the loop variable of the zip loop
    write = None
    marks = records = False
    for s in stmts:
        if isinstance(s, ast.Expr) and isinstance(s.value, ast.Call) and is_name(s.value.func, 'print'):
            continue
        if isinstance(s, ast.Assign) and len(s.targets) == 1 and is_name(s.targets[0]) and isinstance(s.value, ast.Subscript) \
                and is_name(s.value.value, 'parameter_dict') and is_name(s.value.slice, key):
            param = s.targets[0].id
            continue
        if isinstance(s, ast.Assign) and len(s.targets) == 1 and isinstance(s.targets[0], ast.Subscript) and is_name(s.targets[0].value, 'result'):
            if write is not None:
                raise Skip(f'_wrapper_content: {what} writes the result twice')
            sl = s.targets[0].slice
            if key is not None and is_name(sl, key):
                by_name = False
            elif isinstance(sl, ast.Attribute) and sl.attr == 'name' and is_name(sl.value) and (param is None or sl.value.id == param):
                by_name = True
                param = param or sl.value.id
            else:
                raise Skip(f'_wrapper_content: {what} files the result under {ast.unparse(sl)}')
            v = s.value
            if isinstance(v, ast.Call) and isinstance(v.func, ast.Attribute) and v.func.attr == 'validate' and is_name(v.func.value) \
                    and (param is None or v.func.value.id == param):
                a = call_arg(v, 'value')
                if a is None or not raw_ok(a):
                    raise Skip(f'_wrapper_content: {what} validates something else than the value of the iteration')
                validated = True
            elif raw_ok(v):
                validated = False
            else:
                raise Skip(f'_wrapper_content: {what} files {ast.unparse(v)[:50]}')
            write = (by_name, validated)
            continue
        if isinstance(s, ast.Expr) and isinstance(s.value, ast.Call) and isinstance(s.value.func, ast.Attribute) and s.value.func.attr == 'append' \
                and len(s.value.args) == 1 and not s.value.keywords:
            tgt, a = s.value.func.value, s.value.args[0]
            if is_name(tgt, 'used_parameter_names') and isinstance(a, ast.Attribute) and a.attr == 'name' and is_name(a.value) \
                    and (param is None or a.value.id == param):
                marks = True
                continue
            if is_name(tgt, 'used_args') and raw_ok(a):
                records = True
                continue
        raise Skip(f'_wrapper_content: {what}: statement outside the translated subset: {ast.unparse(s)[:70]}')
    if write is None:
        raise Skip(f'_wrapper_content: {what} does not file a result')
    if not declared and (write[0] or write[1] or marks):
        raise Skip(f'_wrapper_content: {what} refers to a Parameter although none is declared for the key')
    return f'⟨{lean_bool(write[0])}, {lean_bool(write[1])}, {lean_bool(marks)}, {lean_bool(records)}⟩'


def declared_branches(loop, key):
    """the `if/elif k in parameter_dict:` branch and the final else of a loop body (below the zip branch, if any)"""
    body = strip_doc(loop.body)
    if len(body) != 1 or not isinstance(body[0], ast.If):
        raise Skip('_wrapper_content: a loop body is not a single if / elif / else')
    node = body[0]
    zip_branch = None
    if ast.unparse(node.test) != f'{key} in parameter_dict':
        zip_branch = node
        if len(node.orelse) != 1 or not isinstance(node.orelse[0], ast.If):
            raise Skip('_wrapper_content: the branch in front of `k in parameter_dict` has no elif')
        node = node.orelse[0]
    if ast.unparse(node.test) != f'{key} in parameter_dict':
        raise Skip('_wrapper_content: no `k in parameter_dict` branch')
    els = node.orelse
    if not (len(els) == 1 and isinstance(els[0], ast.If) and len(els[0].body) == 1 and isinstance(els[0].body[0], ast.Raise)):
        raise Skip('_wrapper_content: the else branch is not `if <strict test>: raise ... else: ...`')
    return zip_branch, node.body, els[0].orelse


def gen_writes(fn):
    kwl, posl = loops_of(fn)
    kkey, kval = kwl.target.elts[0].id, kwl.target.elts[1].id
    pkey = posl.target.id
    _, kw_decl, kw_undecl = declared_branches(kwl, kkey)
    zip_branch, pos_decl, pos_undecl = declared_branches(posl, pkey)

    def kw_raw(e):
        return is_name(e, kval)

    def pos_raw(e):
        return isinstance(e, ast.Subscript) and is_name(e.value, 'bound_args') and is_name(e.slice, pkey)
    w = {'kwDeclaredWrite': write_of(kw_decl, kkey, kw_raw, 'the declared branch of the keyword loop'),
         'kwUndeclaredWrite': write_of(kw_undecl, kkey, kw_raw, 'the undeclared branch of the keyword loop', declared=False),
         'posDeclaredWrite': write_of(pos_decl, pkey, pos_raw, 'the declared branch of the positional loop'),
         'posUndeclaredWrite': write_of(pos_undecl, pkey, pos_raw, 'the undeclared branch of the positional loop', declared=False)}
    return w, zip_branch, pkey


# ---------------------------------------------------------------- the zip branch

def gen_zip(fn, zip_branch, pkey):
    """-> (surplus source, zipped with the unused Parameters?, strict test, Write of the inner loop)"""
    if zip_branch is None:
        raise Skip('_wrapper_content: no branch for the VAR_POSITIONAL parameter in the positional loop')
    names = {}                 # local names of the branch -> expression
    strict_test = None
    loop = None
    for s in strip_doc(zip_branch.body):
        if isinstance(s, ast.Assign) and len(s.targets) == 1 and is_name(s.targets[0]) and loop is None:
            names[s.targets[0].id] = s.value
            continue
        if isinstance(s, ast.If) and loop is None and not s.orelse and len(s.body) == 1 and isinstance(s.body[0], ast.Raise) \
                and isinstance(s.body[0].exc, ast.Call) and is_name(s.body[0].exc.func, 'TooManyArguments'):
            if strict_test is not None:
                raise Skip('_wrapper_content: two strict tests in the zip branch')
            strict_test = s.test
            continue
        if isinstance(s, ast.For) and loop is None:
            loop = s
            continue
        raise Skip(f'_wrapper_content: zip branch: statement outside the translated subset: {ast.unparse(s)[:70]}')
    if loop is None or loop.orelse:
        raise Skip('_wrapper_content: the zip branch has no inner loop')
    it = loop.iter
    if not (isinstance(it, ast.Call) and is_name(it.func, 'zip') and len(it.args) == 2 and not it.keywords
            and isinstance(loop.target, ast.Tuple) and len(loop.target.elts) == 2 and all(is_name(e) for e in loop.target.elts)):
        raise Skip('_wrapper_content: the inner loop is not `for <arg>, <parameter> in zip(<surplus>, <unused>)`')

    def deref(e):
        return names[e.id] if is_name(e) and e.id in names else e

    def source(e):
        e = deref(e)
        # bound_args[k] / bound_args[var_positional]
        if isinstance(e, ast.Subscript) and is_name(e.value, 'bound_args') and (is_name(e.slice, pkey) or is_name(e.slice, 'var_positional')):
            return '.boundTuple'
        # [a for a in args if a not in used_args]
        if isinstance(e, ast.ListComp) and len(e.generators) == 1 and is_name(e.generators[0].iter, 'args') and is_name(e.generators[0].target) \
                and is_name(e.elt, e.generators[0].target.id) and len(e.generators[0].ifs) == 1:
            t = e.generators[0].ifs[0]
            if isinstance(t, ast.Compare) and len(t.ops) == 1 and isinstance(t.ops[0], ast.NotIn) and is_name(t.left, e.elt.id) \
                    and is_name(t.comparators[0], 'used_args'):
                return '.argsNotUsed'
        raise Skip(f'_wrapper_content: the surplus positionals are {ast.unparse(e)[:70]}')

    def is_unused(e):
        e = deref(e)
        if isinstance(e, ast.ListComp) and len(e.generators) == 1 and is_name(e.generators[0].iter, 'parameters') and is_name(e.generators[0].target) \
                and is_name(e.elt, e.generators[0].target.id) and len(e.generators[0].ifs) == 1:
            t = e.generators[0].ifs[0]
            return isinstance(t, ast.Compare) and len(t.ops) == 1 and isinstance(t.ops[0], ast.NotIn) \
                and isinstance(t.left, ast.Attribute) and t.left.attr == 'name' and is_name(t.left.value, e.elt.id) \
                and is_name(t.comparators[0], 'used_parameter_names')
        return False
    src = source(it.args[0])
    if not is_unused(it.args[1]):
        raise Skip('_wrapper_content: the surplus positionals are not zipped with the Parameters not used so far')

    def len_of(e):
        """len(<surplus>) -> nSurplus, len(<unused>) -> nUnused, integer literal"""
        if isinstance(e, ast.Constant) and isinstance(e.value, int) and not isinstance(e.value, bool) and e.value >= 0:
            return str(e.value)
        if isinstance(e, ast.Call) and is_name(e.func, 'len') and len(e.args) == 1 and not e.keywords:
            a = e.args[0]
            if is_unused(a):
                return 'nUnused'
            try:
                if source(a) == src:
                    return 'nSurplus'
            except Skip:
                pass
        return None

    def atom(n):
        if is_name(n, 'strict'):
            return 'strict'
        if isinstance(n, ast.Compare) and len(n.ops) == 1:
            l, r = len_of(n.left), len_of(n.comparators[0])
            op = {ast.Gt: '>', ast.GtE: '≥', ast.Lt: '<', ast.LtE: '≤', ast.Eq: '=', ast.NotEq: '≠'}.get(type(n.ops[0]))
            if l is not None and r is not None and op is not None:
                return f'decide ({l} {op} {r})'
        return None
    from gen.validate import bool_expr
    test = 'false' if strict_test is None else bool_expr(strict_test, atom)
    arg, par = loop.target.elts[0].id, loop.target.elts[1].id
    w = write_of(strip_doc(loop.body), None, lambda e: is_name(e, arg), 'the inner loop of the zip branch')
    return src, test, w


# ---------------------------------------------------------------- the third loop: decision table

def gen_absent(fn):
    loops = []
    for f in ast.walk(fn):
        if isinstance(f, ast.For) and is_name(f.target) and (is_name(f.iter, 'unused_parameters') or isinstance(f.iter, ast.ListComp)) \
                and not isinstance(f.target, ast.Tuple):
            if is_name(f.iter, 'unused_parameters') or any(is_name(x, 'parameters') for x in ast.walk(f.iter)):
                if not any(isinstance(x, ast.Call) and is_name(x.func, 'zip') for x in ast.walk(f.iter)):
                    loops.append(f)
    if len(loops) != 1:
        raise Skip(f'_wrapper_content: expected exactly one loop over the unused parameters, found {len(loops)}')
    lp = loops[0]
    par = lp.target.id

    def cond(t):
        """Boolean expression over the atoms of the table"""
        def atom(n):
            if isinstance(n, ast.Call) and is_name(n.func, 'isinstance') and len(n.args) == 2 and is_name(n.args[0], par) \
                    and is_name(n.args[1], 'ExternalParameter'):
                return 'isExternal'
            if isinstance(n, ast.Call) and is_attr(n.func, par, 'has_value') and not n.args and not n.keywords:
                return 'hasValue'
            if is_attr(n, par, 'is_required'):
                return 'isRequired'
            if isinstance(n, ast.Compare) and len(n.ops) == 1:
                l, r, op = n.left, n.comparators[0], n.ops[0]
                if (is_attr(l, par, 'default_value') and is_name(r, 'NoValue')) or (is_attr(r, par, 'default_value') and is_name(l, 'NoValue')):
                    if isinstance(op, (ast.Eq, ast.Is)):
                        return '!hasParamDefault'
                    if isinstance(op, (ast.NotEq, ast.IsNot)):
                        return 'hasParamDefault'
                if is_attr(l, par, 'name') and isinstance(op, (ast.In, ast.NotIn)) and is_attr(r, 'signature', 'parameters'):
                    return ('' if isinstance(op, ast.In) else '!') + 'nameInSignature'
                # signature.parameters[parameter.name].default is not signature.empty
                if isinstance(l, ast.Attribute) and l.attr == 'default' and isinstance(l.value, ast.Subscript) \
                        and is_attr(l.value.value, 'signature', 'parameters') and is_attr(l.value.slice, par, 'name') \
                        and (is_attr(r, 'signature', 'empty') or (isinstance(r, ast.Attribute) and r.attr == 'empty')):
                    if isinstance(op, (ast.IsNot, ast.NotEq)):
                        return 'sigDefaultNotEmpty'
                    if isinstance(op, (ast.Is, ast.Eq)):
                        return '!sigDefaultNotEmpty'
            return None
        from gen.validate import bool_expr
        return bool_expr(t, atom)

    def is_sig_default(e):
        return isinstance(e, ast.Attribute) and e.attr == 'default' and isinstance(e.value, ast.Subscript) \
            and is_attr(e.value.value, 'signature', 'parameters') and is_attr(e.value.slice, par, 'name')

    def walk(stmts, env, depth=0):
        """env: local name -> 'external' | 'paramDefault' | 'sigDefault'"""
        if depth > 12:
            raise Skip('_wrapper_content: third loop nested too deeply')
        if not stmts:
            raise Skip('_wrapper_content: a path through the third loop files nothing')
        s, rest = stmts[0], stmts[1:]
        if isinstance(s, ast.If):
            return f'(if {cond(s.test)} then {walk(list(s.body) + rest, dict(env), depth + 1)} else {walk(list(s.orelse) + rest, dict(env), depth + 1)})'
        if isinstance(s, ast.Assign) and len(s.targets) == 1 and is_name(s.targets[0]):
            v = s.value
            if isinstance(v, ast.Call) and is_attr(v.func, par, 'load_value') and not v.args and not v.keywords:
                env[s.targets[0].id] = 'external'
            elif is_attr(v, par, 'default_value'):
                env[s.targets[0].id] = 'paramDefault'
            elif is_sig_default(v):
                env[s.targets[0].id] = 'sigDefault'
            else:
                raise Skip(f'_wrapper_content: third loop: {ast.unparse(s)[:60]}')
            return walk(rest, env, depth)
        if isinstance(s, ast.Assign) and len(s.targets) == 1 and isinstance(s.targets[0], ast.Subscript) and is_name(s.targets[0].value, 'result') \
                and is_attr(s.targets[0].slice, par, 'name'):
            v = s.value
            if isinstance(v, ast.Call) and is_attr(v.func, par, 'validate'):
                a = call_arg(v, 'value')
                if is_name(a) and env.get(a.id) == 'external' and rest and isinstance(rest[0], ast.Continue):
                    return '.external'
                raise Skip('_wrapper_content: third loop validates something else than the loaded external value (followed by continue)')
            if is_name(v) and env.get(v.id) in ('paramDefault', 'sigDefault') and not rest:
                return '.' + env[v.id]
            if is_attr(v, par, 'default_value') and not rest:
                return '.paramDefault'
            if is_sig_default(v) and not rest:
                return '.sigDefault'
            raise Skip(f'_wrapper_content: third loop files {ast.unparse(v)[:50]}')
        if is_raise_exception(s):
            return '.raiseRequired'
        if isinstance(s, ast.Raise) and isinstance(s.exc, ast.Call) and is_name(s.exc.func, 'ValidateException'):
            return '.raiseValidate'
        raise Skip(f'_wrapper_content: third loop: statement outside the translated subset: {ast.unparse(s)[:60]}')
    return walk(strip_doc(lp.body), {})


LEAN_TYPES = '''
/-! ### the bodies, statement by statement -/

/-- which exceptions a handler catches: exactly the expected class, or everything (`Exception`, bare `except`) -/
inductive Catch where | only | all
deriving DecidableEq, Repr
/-- what a step is fed / what is returned: the accumulated value, or the original argument of `validate` -/
inductive Feed where | acc | original
deriving DecidableEq, Repr
/-- one top-level statement of `Parameter.validate` -/
inductive VStmt where
  /-- `if value is None: [if self.is_required: self.raise_exception(...)] [return None]` -/
  | noneRule (raisesIfRequired returnsNone : Bool)
  /-- `if self.value_type is not None: try: <acc> = convert_value(value, self.value_type) except <c>: return self.raise_exception(...)`
      `[else: <acc> = value]` -/
  | convert (c : Catch) (elseKeepsValue : Bool)
  /-- `for validator in self.validators[<slice>]: try: <acc> = validator.validate(<feed>) except <c>: raise …from_validator_exception(…)` -/
  | chain (overAll : Bool) (feed : Feed) (c : Catch)
  /-- `return <acc>` -/
  | ret (what : Feed)
deriving DecidableEq, Repr

/-- one branch of a loop of `_wrapper_content`: `result[<key>] = <value>` plus the bookkeeping -/
structure Write where
  keyIsParamName : Bool     -- filed under `parameter.name` (else under the loop key `k`)
  validated : Bool          -- the value went through `parameter.validate`
  marksUsed : Bool          -- `used_parameter_names.append(parameter.name)`
  recordsArg : Bool         -- `used_args.append(<the raw value>)`
deriving DecidableEq, Repr

/-- where the `zip` branch takes the surplus positionals from -/
inductive SurplusSource where
  | argsNotUsed   -- `[a for a in args if a not in used_args]`: ALL positionals (the receiver included) not EQUAL to a validated one
  | boundTuple    -- `bound_args[k]`: the tuple `bind_partial` bound to the VAR_POSITIONAL parameter
deriving DecidableEq, Repr

/-- what the third loop does for a Parameter the caller did not supply -/
inductive AbsentAct where
  | external        -- `result[name] = parameter.validate(parameter.load_value()); continue`
  | raiseRequired   -- `parameter.raise_exception(...)`
  | paramDefault    -- `result[name] = parameter.default_value`
  | sigDefault      -- `result[name] = signature.parameters[name].default`
  | raiseValidate   -- `raise ValidateException(...)`
deriving DecidableEq, Repr
'''
