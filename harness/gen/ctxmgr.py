"""Translator part for C16: the shape of the two `wrapper` generators of fn_deco_context_manager.py and the
decoration-time checks in front of them.

Recognised family (everything else -> Skip, the snapshot is used and the correspondence check decides alone):

    def safe_[async_]contextmanager(f):
        [t = unwrap(f) | inspect.unwrap(f)]                    -> testsOnParam = false when the tests below look at t
        <if-chain of inspect tests on f (or on t) that raise>  -> <x>Pre : FnKind -> (Nat -> Bool) -> Bool -> Pre, testsOnParam
            raise <Class>(...)                                     .reject
            assert <test>, <msg>                                   .reject "AssertionError" unless `opt` (python -O strips the statement)
            `__debug__` as a test                                  !opt
            a test that is no inspect kind test                    `o i` (opaque to the model: i-th such test of the chain)
            return <anything but factory(wrapper)>                 .bypass (the protecting wrapper is not what the caller gets)
          the same chain may continue behind the inner function; `return factory(wrapper)` is .build
        @wraps(f)                                               -> usesWraps
        [async] def wrapper(*args, **kwargs):
            it = f(*args, **kwargs)                             -> forwardsArgs
            try:                                                   }
                yield next(it)        | yield await anext(it)      } cleanupInFinally = true
            finally:                                               }
                CLEANUP
          or
            yield next(it)                                         } cleanupInFinally = false
            CLEANUP
        return contextmanager(wrapper) | asynccontextmanager(wrapper) | <anything else>   -> wrappedBy

    `yield next(it)` may also be `v = next(it); yield v` (yieldsNextResult = true) or `next(it); yield <other>` (false)

    CLEANUP = sequence of blocks, each   try: next(it) x n  except <Class>: pass      -> (n, <Class>)
                                         (a handler body other than `pass` that leaves the iterator alone -> handlersPass = false)
                                   or    next(it) x n                                   -> (n, none)
              a statement `helper()` / `await helper()` naming a parameterless function defined next to the wrapper is
              replaced by that function's body (only when `it` is one shared cell, see below)

    where `it` lives                                                                    -> iteratorPerUse
        a plain local of `wrapper` (one per call of the manager, i.e. per use)             true
        declared `nonlocal` / `global` in `wrapper` (one cell per decorated manager /      false
        per module, shared by all live uses)
"""
import ast
from extract import Skip, src, find_func, lean_bool, lean_str, HEADER

REL = 'pedantic/decorators/fn_deco_context_manager.py'
CAUGHT = {'StopIteration': 'stopIteration', 'StopAsyncIteration': 'stopAsyncIteration', 'Exception': 'exception',
          'BaseException': 'baseException', 'RuntimeError': 'runtimeError'}
TESTS = {'isasyncgenfunction': 'isAsyncGen', 'isgeneratorfunction': 'isGen', 'iscoroutinefunction': 'isCoroutine'}


def strip_doc(body):
    return [s for s in body if not (isinstance(s, ast.Expr) and isinstance(s.value, ast.Constant) and isinstance(s.value.value, str))]


def callee_name(call):
    if isinstance(call.func, ast.Name):
        return call.func.id
    if isinstance(call.func, ast.Attribute) and isinstance(call.func.value, ast.Name):
        return call.func.attr
    return None


HANDLERS_PASS = []  # one False per `except` clause around a cleanup `next` whose body is not `pass`
TESTED = set()      # which objects the inspect tests of the function being translated look at: 'param' / 'unwrapped'
UNWRAPPED = set()   # local names bound to inspect.unwrap(<param>)


OPAQUE = []         # source text of the tests of the chain being translated that are not inspect kind tests


def opaque(t):
    OPAQUE.append(ast.unparse(t))
    return f'o {len(OPAQUE) - 1}'


def compile_test(t, param):
    if isinstance(t, ast.UnaryOp) and isinstance(t.op, ast.Not):
        return f'(!{compile_test(t.operand, param)})'
    if isinstance(t, ast.BoolOp):
        op = ' && ' if isinstance(t.op, ast.And) else ' || '
        return '(' + op.join(compile_test(v, param) for v in t.values) + ')'
    if isinstance(t, ast.Call) and callee_name(t) in TESTS and len(t.args) == 1 and not t.keywords:
        a = t.args[0]
        who = None
        if isinstance(a, ast.Name) and a.id == param:
            who = 'param'
        elif isinstance(a, ast.Name) and a.id in UNWRAPPED:
            who = 'unwrapped'
        elif isinstance(a, ast.Call) and callee_name(a) == 'unwrap' and len(a.args) == 1 and not a.keywords \
                and isinstance(a.args[0], ast.Name) and a.args[0].id == param:
            who = 'unwrapped'
        if who is None:
            raise Skip('decoration check: inspect test on something else than the parameter: ' + ast.dump(t)[:80])
        TESTED.add(who)
        return f'{TESTS[callee_name(t)]} k'
    if isinstance(t, ast.Constant) and isinstance(t.value, bool):
        return lean_bool(t.value)
    if isinstance(t, ast.Name) and t.id == '__debug__':
        return '(!opt)'            # the compiler folds `__debug__` to False under -O
    for x in ast.walk(t):
        if isinstance(x, (ast.NamedExpr, ast.Yield, ast.YieldFrom, ast.Await, ast.Lambda)):
            raise Skip('decoration check: test outside the subset: ' + ast.dump(t)[:80])
    return f'({opaque(t)})'        # any other expression: a test the model cannot evaluate


def uses_name(node, param):
    for x in ast.walk(node):
        if isinstance(x, ast.Attribute) and isinstance(x.value, ast.Name) and x.value.id == param and x.attr in ('__name__', '__qualname__'):
            return True
    return False


def compile_return(s, param, wname, factory):
    """`return factory(wrapper)` -> .build;  any other return -> .bypass <what is applied> <applied to the parameter itself>"""
    r = s.value
    if isinstance(r, ast.Call) and isinstance(r.func, ast.Name) and len(r.args) == 1 and not r.keywords and isinstance(r.args[0], ast.Name):
        fac = r.func.id if r.func.id in ('contextmanager', 'asynccontextmanager') else 'other'
        if r.args[0].id == wname:
            if r.func.id != factory:
                raise Skip('decoration: the wrapper is returned through two different factories')
            return '.build'
        return f'.bypass .{fac} {lean_bool(r.args[0].id == param)}'
    if isinstance(r, ast.Name) and r.id == param:
        return '.bypass .other true'
    return '.bypass .other false'


def compile_stmts(stmts, param, k, wname=None, factory=None):
    """Lean term of type `Pre`; `k` is the term for falling off the end"""
    if not stmts:
        return k
    s, rest = stmts[0], stmts[1:]
    if isinstance(s, ast.Raise):
        e = s.exc
        cls = e.func.id if isinstance(e, ast.Call) and isinstance(e.func, ast.Name) else e.id if isinstance(e, ast.Name) else None
        if cls is None:
            raise Skip('decoration check: raise of something that is not a class name')
        return f'.reject ⟨{lean_str(cls)}, {lean_bool(uses_name(s, param))}⟩'
    if isinstance(s, ast.Assert):
        # `assert test, msg`: AssertionError(msg) when the test fails - unless the interpreter runs with -O, which drops the statement
        kk = compile_stmts(rest, param, k, wname, factory)
        needs = lean_bool(s.msg is not None and uses_name(s.msg, param))
        return f'(if (!opt && !{compile_test(s.test, param)}) then .reject ⟨"AssertionError", {needs}⟩ else {kk})'
    if isinstance(s, ast.Return):
        return compile_return(s, param, wname, factory)
    if isinstance(s, ast.If):
        kk = compile_stmts(rest, param, k, wname, factory)
        return (f'(if {compile_test(s.test, param)} then {compile_stmts(s.body, param, kk, wname, factory)} '
                f'else {compile_stmts(s.orelse, param, kk, wname, factory)})')
    if isinstance(s, ast.Pass):
        return compile_stmts(rest, param, k, wname, factory)
    if isinstance(s, ast.Assign) and len(s.targets) == 1 and isinstance(s.targets[0], ast.Name) and isinstance(s.value, ast.Call) \
            and callee_name(s.value) == 'unwrap' and len(s.value.args) == 1 and not s.value.keywords \
            and isinstance(s.value.args[0], ast.Name) and s.value.args[0].id == param and s.targets[0].id != param:
        UNWRAPPED.add(s.targets[0].id)          # t = unwrap(f): what a `__wrapped__` chain leads to
        return compile_stmts(rest, param, k, wname, factory)
    raise Skip('decoration check: statement outside the subset: ' + type(s).__name__)


def is_next(node, it, is_async):
    """`next(it)` (sync) / `await anext(it)` (async), also the dunder spellings"""
    if is_async:
        if not isinstance(node, ast.Await):
            return False
        node = node.value
    if not isinstance(node, ast.Call) or node.keywords:
        return False
    want = ('anext', '__anext__') if is_async else ('next', '__next__')
    if isinstance(node.func, ast.Name) and node.func.id == want[0]:
        return len(node.args) == 1 and isinstance(node.args[0], ast.Name) and node.args[0].id == it
    if isinstance(node.func, ast.Attribute) and node.func.attr == want[1]:
        return not node.args and isinstance(node.func.value, ast.Name) and node.func.value.id == it
    return False


def count_nexts(stmts, it, is_async):
    for s in stmts:
        if not (isinstance(s, ast.Expr) and is_next(s.value, it, is_async)):
            raise Skip('cleanup: statement that is not a bare next(iterator)')
    return len(stmts)


def helper_call(s, helpers):
    """`helper()` (plain def) / `await helper()` (async def) as a statement -> the helper's def"""
    if not isinstance(s, ast.Expr):
        return None
    v, awaited = s.value, False
    if isinstance(v, ast.Await):
        v, awaited = v.value, True
    if isinstance(v, ast.Call) and isinstance(v.func, ast.Name) and v.func.id in helpers and not v.args and not v.keywords:
        h = helpers[v.func.id]
        if isinstance(h, ast.AsyncFunctionDef) != awaited:
            raise Skip('cleanup: helper coroutine that is not awaited / plain helper that is awaited')
        return h
    return None


def expand_helpers(stmts, helpers, it, shared):
    out = []
    for s in stmts:
        h = helper_call(s, helpers)
        if h is None:
            out.append(s)
            continue
        if it not in shared:
            raise Skip('cleanup: a helper function cannot see the local iterator of the wrapper')
        for x in ast.walk(h):
            if isinstance(x, ast.Name) and x.id == it and isinstance(x.ctx, ast.Store):
                raise Skip('cleanup: helper rebinds the iterator')
            if isinstance(x, (ast.Yield, ast.YieldFrom, ast.Return)) and not (isinstance(x, ast.Return) and x.value is None):
                raise Skip('cleanup: helper yields / returns a value')
        out += [b for b in strip_doc(h.body) if not isinstance(b, (ast.Nonlocal, ast.Global))]
    return out


def cleanup_blocks(stmts, it, is_async, helpers=None, shared=()):
    blocks = []
    run = []
    stmts = expand_helpers(stmts, helpers or {}, it, shared)
    for s in stmts:
        if isinstance(s, ast.Pass):
            continue
        if isinstance(s, ast.Try):
            if run:
                blocks.append((count_nexts(run, it, is_async), 'none')); run = []
            if s.finalbody or s.orelse or len(s.handlers) != 1:
                raise Skip('cleanup: try with finally/else or several handlers')
            h = s.handlers[0]
            if any(not isinstance(b, ast.Pass) for b in h.body):
                # a handler that does something: it may look at the caught Stop(Async)Iteration (whose `.value` is what the user generator
                # RETURNED) and act on it - the model then assumes the worst (see `verdict` in Model/CtxMgr.lean).  It must not touch the iterator.
                for x in ast.walk(h):
                    if isinstance(x, (ast.Yield, ast.YieldFrom, ast.Await, ast.Raise, ast.Try, ast.With, ast.For, ast.While, ast.Lambda)) \
                            or (isinstance(x, ast.Name) and x.id == it):
                        raise Skip('cleanup: handler body is neither `pass` nor simple statements that leave the iterator alone')
                HANDLERS_PASS.append(False)
            if h.type is None:
                cls = 'baseException'
            elif isinstance(h.type, ast.Name) and h.type.id in CAUGHT:
                cls = CAUGHT[h.type.id]
            else:
                raise Skip('cleanup: handler class outside the table')
            blocks.append((count_nexts(expand_helpers(s.body, helpers or {}, it, shared), it, is_async), cls))
        else:
            run.append(s)
    if run:
        blocks.append((count_nexts(run, it, is_async), 'none'))
    return blocks


def imported_from_contextlib(tree, name):
    """`name` is bound at module level by `from contextlib import name` and by nothing else"""
    ok = False
    for s in tree.body:
        if isinstance(s, ast.ImportFrom) and s.module == 'contextlib' and any(a.name == name and a.asname in (None, name) for a in s.names):
            ok = True
        elif isinstance(s, (ast.FunctionDef, ast.AsyncFunctionDef, ast.ClassDef)) and s.name == name:
            return False
        elif isinstance(s, ast.Assign) and any(isinstance(t, ast.Name) and t.id == name for t in s.targets):
            return False
        elif isinstance(s, (ast.Import, ast.ImportFrom)) and not (isinstance(s, ast.ImportFrom) and s.module == 'contextlib') \
                and any((a.asname or a.name) == name for a in s.names):
            return False
    return ok


def shape_of(tree, deco_name, want_async):
    fn = find_func(tree, deco_name)
    if len(fn.args.args) < 1:
        raise Skip(f'{deco_name}: no parameter')
    param = fn.args.args[0].arg
    body = strip_doc(fn.body)
    defs = [s for s in body if isinstance(s, (ast.FunctionDef, ast.AsyncFunctionDef))]

    def n_params(d):
        a = d.args
        return len(a.posonlyargs) + len(a.args) + len(a.kwonlyargs) + (a.vararg is not None) + (a.kwarg is not None)
    inner = [d for d in defs if n_params(d) > 0]
    helpers = {d.name: d for d in defs if n_params(d) == 0 and not d.decorator_list}
    if len(inner) != 1 or len(inner) + len(helpers) != len(defs):
        raise Skip(f'{deco_name}: expected exactly one inner function taking arguments (plus parameterless helpers)')
    w = inner[0]
    widx = body.index(w)
    # names the wrapper declares nonlocal / global: cells shared by every call of the decorated manager
    shared = set()
    for x in ast.walk(w):
        if isinstance(x, (ast.Nonlocal, ast.Global)):
            shared.update(x.names)
    pre = [s for s in body[:widx] if s not in defs
           and not (isinstance(s, ast.Assign) and len(s.targets) == 1 and isinstance(s.targets[0], ast.Name) and s.targets[0].id in shared
                    and isinstance(s.value, ast.Constant))
           and not (isinstance(s, ast.AnnAssign) and isinstance(s.target, ast.Name) and s.target.id in shared
                    and (s.value is None or isinstance(s.value, ast.Constant)))]
    after = [s for s in body[widx + 1:] if s not in defs]
    if not after or not isinstance(after[-1], ast.Return):
        raise Skip(f'{deco_name}: the statements after the inner function do not end with a return')
    r = after[-1].value
    wrapped, factory = 'other', None
    if isinstance(r, ast.Call) and isinstance(r.func, ast.Name) and len(r.args) == 1 and not r.keywords \
            and isinstance(r.args[0], ast.Name) and r.args[0].id == w.name:
        factory = r.func.id
        if r.func.id in ('contextmanager', 'asynccontextmanager') and imported_from_contextlib(tree, r.func.id):
            wrapped = r.func.id
    # the statements in front of and behind the inner function are one chain: how does a call of the decorator end?
    TESTED.clear(); UNWRAPPED.clear(); del OPAQUE[:]
    check = compile_stmts(pre + after, param, '.bypass .other false', w.name, factory)
    if len(TESTED) > 1:
        raise Skip(f'{deco_name}: some kind tests look at the parameter, some at inspect.unwrap of it')
    on_param = 'unwrapped' not in TESTED
    opaque_tests = list(OPAQUE)
    uses_wraps = any(isinstance(d, ast.Call) and callee_name(d) == 'wraps' and len(d.args) == 1
                     and isinstance(d.args[0], ast.Name) and d.args[0].id == param for d in w.decorator_list)
    if any(not (isinstance(d, ast.Call) and callee_name(d) == 'wraps') for d in w.decorator_list):
        raise Skip(f'{deco_name}: wrapper has a decorator other than wraps')
    is_async = isinstance(w, ast.AsyncFunctionDef)
    a = w.args
    star = a.vararg is not None and a.kwarg is not None and not a.args and not a.kwonlyargs and not a.posonlyargs
    wb = [s for s in strip_doc(w.body) if not isinstance(s, (ast.Nonlocal, ast.Global))]
    if not wb or not (isinstance(wb[0], ast.Assign) and len(wb[0].targets) == 1 and isinstance(wb[0].targets[0], ast.Name)
                      and isinstance(wb[0].value, ast.Call) and isinstance(wb[0].value.func, ast.Name) and wb[0].value.func.id == param):
        raise Skip(f'{deco_name}: wrapper does not start with `<it> = {param}(...)`')
    it = wb[0].targets[0].id
    per_use = it not in shared
    for x in ast.walk(w):
        if isinstance(x, (ast.Lambda, ast.FunctionDef, ast.AsyncFunctionDef)) and x is not w:
            raise Skip(f'{deco_name}: nested function inside the wrapper')
    c = wb[0].value
    forwards = (star and len(c.args) == 1 and isinstance(c.args[0], ast.Starred) and isinstance(c.args[0].value, ast.Name)
                and c.args[0].value.id == a.vararg.arg and len(c.keywords) == 1 and c.keywords[0].arg is None
                and isinstance(c.keywords[0].value, ast.Name) and c.keywords[0].value.id == a.kwarg.arg)
    rest = wb[1:]

    def yield_stmts(stmts):
        """the statements that start the user generator and yield: -> (how many statements, the wrapper yields what next(iterator) returned)
             yield next(it)                 (1, True)
             v = next(it); yield v          (2, True)
             next(it); yield [<expr>]       (2, False)      <expr> mentions neither the iterator nor a next call"""
        def is_yield(s):
            return isinstance(s, ast.Expr) and isinstance(s.value, ast.Yield)
        if stmts and is_yield(stmts[0]) and stmts[0].value.value is not None and is_next(stmts[0].value.value, it, is_async):
            return 1, True
        if len(stmts) >= 2 and is_yield(stmts[1]):
            y = stmts[1].value.value
            if isinstance(stmts[0], ast.Assign) and len(stmts[0].targets) == 1 and isinstance(stmts[0].targets[0], ast.Name) \
                    and stmts[0].targets[0].id != it and is_next(stmts[0].value, it, is_async) \
                    and isinstance(y, ast.Name) and y.id == stmts[0].targets[0].id:
                return 2, True
            if isinstance(stmts[0], ast.Expr) and is_next(stmts[0].value, it, is_async):
                for x in ast.walk(stmts[1]):
                    if (isinstance(x, ast.Name) and x.id == it) or isinstance(x, (ast.Call, ast.Await)):
                        raise Skip(f'{deco_name}: the yielded expression is outside the subset')
                return 2, False
        return 0, False
    if not rest:
        raise Skip(f'{deco_name}: wrapper has no yield statement')
    del HANDLERS_PASS[:]
    if isinstance(rest[0], ast.Try):
        t = rest[0]
        if t.handlers or t.orelse or len(rest) != 1:
            raise Skip(f'{deco_name}: outer try has handlers/else or statements follow it')
        n_y, yields_next = yield_stmts(t.body)
        if n_y == 0 or len(t.body) != n_y:
            raise Skip(f'{deco_name}: outer try body is not `yield next(iterator)`')
        in_finally = True
        blocks = cleanup_blocks(t.finalbody, it, is_async, helpers, shared)
    else:
        n_y, yields_next = yield_stmts(rest)
        if n_y == 0:
            raise Skip(f'{deco_name}: first statement after the iterator is neither try nor `yield next(iterator)`')
        in_finally = False
        blocks = cleanup_blocks(rest[n_y:], it, is_async, helpers, shared)
    handlers_pass = not HANDLERS_PASS
    n_yields = sum(isinstance(x, (ast.Yield, ast.YieldFrom)) for x in ast.walk(w))
    if n_yields != 1:
        raise Skip(f'{deco_name}: wrapper has {n_yields} yields')
    bl = ', '.join(f'({n}, .{c})' for n, c in blocks)
    shape = (f'{{ wrapperIsAsync := {lean_bool(is_async)}, forwardsArgs := {lean_bool(forwards)}, cleanupInFinally := {lean_bool(in_finally)},\n'
             f'    cleanup := [{bl}], wrappedBy := .{wrapped}, usesWraps := {lean_bool(uses_wraps)},\n'
             f'    iteratorPerUse := {lean_bool(per_use)}, yieldsNextResult := {lean_bool(yields_next)}, handlersPass := {lean_bool(handlers_pass)} }}')
    return check, shape, on_param, opaque_tests


def gen_ctxmgr(repo):
    tree = ast.parse(src(repo, REL))
    sc, ss, sp, so = shape_of(tree, 'safe_contextmanager', False)
    ac, as_, ap, ao = shape_of(tree, 'safe_async_contextmanager', True)

    def opaque_doc(tests):
        if not tests:
            return ''
        return '\n    opaque tests: ' + '; '.join(f'`o {i}` = `{t}`' for i, t in enumerate(tests)).replace('-/', '- /')
    return HEADER.format(rel=REL) + f'''set_option linter.unusedVariables false
namespace PedVerif.Gen.CtxMgr

/-! fixed preamble (vocabulary of the translation) -/

/-- the class named in an `except <Class>: pass` around the cleanup `next(iterator)`; `none` = no try/except -/
inductive Caught where
  | none | stopIteration | stopAsyncIteration | exception | baseException | runtimeError
deriving DecidableEq, Repr

/-- what the decorator returns: `contextmanager(wrapper)`, `asynccontextmanager(wrapper)` (both imported from contextlib) or anything else -/
inductive Wrap where
  | contextmanager | asynccontextmanager | other
deriving DecidableEq, Repr

/-- what kind of function is handed to the decorator (as `inspect` classifies it) -/
inductive FnKind where
  | generator | asyncGenerator | plain | coroutine
deriving DecidableEq, Repr

def isGen (k : FnKind) : Bool := k == .generator            -- inspect.isgeneratorfunction
def isAsyncGen (k : FnKind) : Bool := k == .asyncGenerator  -- inspect.isasyncgenfunction
def isCoroutine (k : FnKind) : Bool := k == .coroutine      -- inspect.iscoroutinefunction

/-- a decoration-time `raise <cls>(…)`; `needsName`: the message reads `f.__name__` -/
structure Reject where
  cls : String
  needsName : Bool
deriving DecidableEq, Repr

/-- how a call of the decorator ends (the statements in front of and behind the inner function, as one chain) -/
inductive Pre where
  | reject (r : Reject)                  -- an exception is raised
  | bypass (w : Wrap) (ofParam : Bool)   -- a `return` of something that is not `factory(wrapper)`: `w(<the parameter itself>)` / `w(<anything else>)`
  | build                                -- `return factory(wrapper)`: the protecting wrapper, see `Shape.wrappedBy`
deriving DecidableEq, Repr

structure Shape where
  /-- the inner `wrapper` is an `async def` -/
  wrapperIsAsync : Bool
  /-- `iterator = f(*args, **kwargs)` with `wrapper(*args, **kwargs)` -/
  forwardsArgs : Bool
  /-- `yield next(iterator)` sits in a `try` whose `finally` holds the cleanup (false: the cleanup merely follows the yield) -/
  cleanupInFinally : Bool
  /-- the cleanup statements: blocks of n `next(iterator)` calls, each block inside `try … except <Caught>: pass` -/
  cleanup : List (Nat × Caught)
  wrappedBy : Wrap
  /-- `@wraps(f)` on the wrapper -/
  usesWraps : Bool
  /-- the variable holding the user generator between the yield and the cleanup is a plain local of `wrapper` (one per call of the
      manager, i.e. per use); false: it is declared `nonlocal` / `global`, one cell shared by all live uses of the manager -/
  iteratorPerUse : Bool
  /-- the wrapper yields the object `next(iterator)` returned (`yield next(iterator)` / `v = next(iterator); yield v`); false: it starts
      the user generator and yields something else -/
  yieldsNextResult : Bool
  /-- every `except <Caught>:` around the cleanup `next(iterator)` calls has the body `pass`; false: some handler does something (it can
      look at the caught Stop(Async)Iteration, whose `.value` is what the user generator returned) -/
  handlersPass : Bool
deriving Repr

/-! translated from the source -/

/-- `safe_contextmanager`: the statements around the inner function, as a function of the kind `k` of `f`, of the values `o i` of the
    tests that are no inspect kind tests (opaque to the model), and of `opt`: the interpreter runs with -O / -OO / PYTHONOPTIMIZE, which
    compiles `assert` statements away and folds `__debug__` to False.{opaque_doc(so)} -/
def syncPre (k : FnKind) (o : Nat → Bool) (opt : Bool) : Pre :=
  {sc}

/-- `safe_async_contextmanager`: the same.{opaque_doc(ao)} -/
def asyncPre (k : FnKind) (o : Nat → Bool) (opt : Bool) : Pre :=
  {ac}

/-- the kind tests of the decoration-time checks look at the object handed to the decorator itself (false: at `inspect.unwrap(f)`, i.e.
    at whatever a `__wrapped__` chain — `functools.wraps` — leads to) -/
def syncTestsOnParam : Bool := {lean_bool(sp)}
def asyncTestsOnParam : Bool := {lean_bool(ap)}

def syncShape : Shape :=
  {ss}

def asyncShape : Shape :=
  {as_}

end PedVerif.Gen.CtxMgr
'''


FILES = {'CtxMgr.lean': gen_ctxmgr}
