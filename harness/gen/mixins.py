"""Translator part for C20: straight-line facts of GenericMixin._get_types / get_generic_base / type_var and of
create_decorator / WithDecoratedMethods.get_decorated_functions, read with `ast` (never imports the library).

Everything the Lean model (`PedVerif/Model/Mixins.lean`) takes from the source is emitted here as a definition; a source
that leaves the narrow statement shapes below raises `Skip` (the committed snapshot is used, the correspondence check
alone then ties model and code)."""
import ast
from extract import Skip, src, find_func, lean_bool, lean_str, HEADER, CMP

GM = 'pedantic/mixins/generic_mixin.py'
WDM = 'pedantic/mixins/with_decorated_methods.py'


def body_of(fn):
    return [s for s in fn.body if not (isinstance(s, ast.Expr) and isinstance(s.value, ast.Constant))]


def is_name(n, ident=None):
    return isinstance(n, ast.Name) and (ident is None or n.id == ident)


def hasattr_call(n):
    """`hasattr(<expr>, '<const>')` -> (expr, const) | None"""
    if isinstance(n, ast.Call) and is_name(n.func, 'hasattr') and len(n.args) == 2 and not n.keywords \
            and isinstance(n.args[1], ast.Constant) and isinstance(n.args[1].value, str):
        return n.args[0], n.args[1].value
    return None


def not_hasattr(test):
    if isinstance(test, ast.UnaryOp) and isinstance(test.op, ast.Not):
        return hasattr_call(test.operand)
    return None


def attr_chain(n):
    """`a.b.c` -> ['a', 'b', 'c'] | None"""
    out = []
    while isinstance(n, ast.Attribute):
        out.append(n.attr)
        n = n.value
    if isinstance(n, ast.Name):
        out.append(n.id)
        return list(reversed(out))
    return None


def exc_class_of(raise_stmt, assigns):
    """class name raised by `raise X(...)`, `raise X`, or `raise name` with `name = X(...)` earlier in the function"""
    e = raise_stmt.exc
    if isinstance(e, ast.Call) and is_name(e.func):
        return e.func.id
    if is_name(e):
        v = assigns.get(e.id)
        if isinstance(v, ast.Call) and is_name(v.func):
            return v.func.id
        if v is None:
            return e.id
    raise Skip('raise statement is not `raise <Class>(...)` / `raise <local bound to Class(...)>`')


def dunders_read(fns):
    names = set()
    for fn in fns:
        for n in ast.walk(fn):
            if isinstance(n, ast.Attribute) and n.attr.startswith('__') and n.attr.endswith('__'):
                names.add(n.attr)
            h = hasattr_call(n)
            if h and h[1].startswith('__'):
                names.add(h[1])
    return sorted(names)


LIB_CLASS_IDS = {'Generic': 0, 'GenericMixin': 1, 'ABC': 2, 'WithDecoratedMethods': 3}      # ids of the library classes in a class table


def decorators_of(fn):
    return [ast.unparse(d) for d in fn.decorator_list]


def gen_generic(repo):
    tree = ast.parse(src(repo, GM))
    gt = find_func(tree, '_get_types', 'GenericMixin')
    ggb = find_func(tree, 'get_generic_base')
    tv = find_func(tree, 'type_var', 'GenericMixin')
    tvs_prop = find_func(tree, 'type_vars', 'GenericMixin')
    f = {}
    f['attrsRead'] = dunders_read([gt, ggb])

    # ---- _get_types
    body = body_of(gt)
    assigns = {}
    for s in body:
        if isinstance(s, ast.Assign) and len(s.targets) == 1 and is_name(s.targets[0]):
            assigns[s.targets[0].id] = s.value
    ifs = [s for s in body if isinstance(s, ast.If)]
    if len(ifs) != 2:
        raise Skip('_get_types: expected two top-level if statements')
    g1, g2 = ifs
    h = not_hasattr(g1.test)
    if not (h and is_name(h[0], 'self') and len(g1.body) == 1 and isinstance(g1.body[0], ast.Raise) and not g1.orelse):
        raise Skip('_get_types: first guard is not `if not hasattr(self, <attr>): raise ...`')
    f['nonGenericGuardAttr'] = h[1]
    f['nonGenericExc'] = exc_class_of(g1.body[0], assigns)
    # generic_base = get_generic_base(obj=self)
    gb_assign = [s for s in body if isinstance(s, ast.Assign) and isinstance(s.value, ast.Call)
                 and is_name(s.value.func, 'get_generic_base')]
    if len(gb_assign) != 1 or not is_name(gb_assign[0].targets[0]):
        raise Skip('_get_types: no single `x = get_generic_base(...)`')
    gbv = gb_assign[0].targets[0].id
    call = gb_assign[0].value
    arg = call.args[0] if call.args else (call.keywords[0].value if call.keywords else None)
    if not is_name(arg, 'self') or body.index(gb_assign[0]) > body.index(g2) or body.index(gb_assign[0]) < body.index(g1):
        raise Skip('_get_types: get_generic_base is not applied to self between the guard and the branch')
    if not (isinstance(g2.test, ast.UnaryOp) and isinstance(g2.test.op, ast.Not) and is_name(g2.test.operand, gbv)):
        raise Skip('_get_types: branch is not `if not generic_base:`')
    # the loop: either `for base in self.__orig_bases__` with `continue` tests at the top of its body, or two lists built by
    # comprehensions (`subscripted_bases`, `mixin_bases`) and `for base in mixin_bases or subscripted_bases`
    def origin_class_test(conj, origin):
        """conjuncts `[isinstance(<origin>, type),] issubclass(<origin>, <Class>)` -> Class"""
        cls_name = None
        for k, cnd in enumerate(conj):
            if not (isinstance(cnd, ast.Call) and is_name(cnd.func) and len(cnd.args) == 2 and not cnd.keywords
                    and attr_chain(cnd.args[0]) == origin and is_name(cnd.args[1])):
                raise Skip('_get_types: origin-class test has a conjunct outside the subset: ' + ast.unparse(cnd))
            if cnd.func.id == 'isinstance' and cnd.args[1].id == 'type' and cls_name is None:
                continue                          # guards issubclass against origins that are no classes; every origin of a class table is one
            if cnd.func.id == 'issubclass' and cls_name is None and k == len(conj) - 1:
                cls_name = cnd.args[1].id
                continue
            raise Skip('_get_types: origin-class test has a conjunct outside the subset: ' + ast.unparse(cnd))
        if cls_name not in LIB_CLASS_IDS:
            raise Skip(f'_get_types: origin-class test names {cls_name}, not a class of the class-table model')
        return cls_name

    def conjuncts(e):
        return e.values if isinstance(e, ast.BoolOp) and isinstance(e.op, ast.And) else [e]

    def simple_comp(st):
        """`x = [v for v in <iter> if <conds>]` -> (x, v, iter, [conds]) | None"""
        if not (isinstance(st, ast.Assign) and len(st.targets) == 1 and is_name(st.targets[0]) and isinstance(st.value, ast.ListComp)):
            return None
        lc = st.value
        if not (len(lc.generators) == 1 and is_name(lc.generators[0].target) and is_name(lc.elt, lc.generators[0].target.id)
                and not lc.generators[0].is_async):
            return None
        conds = []
        for t in lc.generators[0].ifs:
            conds += conjuncts(t)
        return st.targets[0].id, lc.elt.id, lc.generators[0].iter, conds

    f['loopPrefersOriginsDerivedFrom'] = None      # the loop looks only at subscripted bases whose origin derives from this class …
    f['loopFallsBackToAll'] = False                # … unless there is none (`mixin_bases or subscripted_bases`)
    f['loopSkipsOriginsWithoutOrigBases'] = False  # `if not hasattr(base.<origin>, '__orig_bases__'): continue`
    tb = g2.body
    if len(tb) == 1 and isinstance(tb[0], ast.For):
        loop = tb[0]
        if loop.orelse or not is_name(loop.target) or attr_chain(loop.iter) != ['self', f['nonGenericGuardAttr']] \
                and attr_chain(loop.iter) != ['self', '__orig_bases__']:
            raise Skip('_get_types: loop does not iterate `self.__orig_bases__` directly')
        f['loopIterAttr'] = attr_chain(loop.iter)[1]
        bv = loop.target.id
        lb = body_of(loop)
        if len(lb) not in (3, 4):
            raise Skip('_get_types: loop body is not (skip-test, [origin-class test,] lookup, found-test)')
        l1, l2, l3 = lb[0], lb[-2], lb[-1]
        h = isinstance(l1, ast.If) and not_hasattr(l1.test)
        if not (h and is_name(h[0], bv) and len(l1.body) == 1 and isinstance(l1.body[0], ast.Continue) and not l1.orelse):
            raise Skip('_get_types: loop does not start with `if not hasattr(base, <attr>): continue`')
        f['loopOriginAttr'] = h[1]
        # optional second test: `if not ([isinstance(base.<origin>, type) and] issubclass(base.<origin>, <Class>)): continue`
        if len(lb) == 4:
            l1b = lb[1]
            ok = isinstance(l1b, ast.If) and not l1b.orelse and len(l1b.body) == 1 and isinstance(l1b.body[0], ast.Continue) \
                and isinstance(l1b.test, ast.UnaryOp) and isinstance(l1b.test.op, ast.Not)
            if not ok:
                raise Skip('_get_types: second statement of the loop is not `if not (...): continue`')
            f['loopPrefersOriginsDerivedFrom'] = origin_class_test(conjuncts(l1b.test.operand), [bv, f['loopOriginAttr']])
    elif len(tb) == 3 and isinstance(tb[2], ast.For):
        c1, c2, loop = simple_comp(tb[0]), simple_comp(tb[1]), tb[2]
        if c1 is None or c2 is None:
            raise Skip('_get_types: the two statements before the loop are not simple list comprehensions')
        subsv, v1, it1, conds1 = c1
        mixv, v2, it2, conds2 = c2
        if attr_chain(it1) not in (['self', f['nonGenericGuardAttr']], ['self', '__orig_bases__']):
            raise Skip('_get_types: first comprehension does not select from `self.__orig_bases__`')
        f['loopIterAttr'] = attr_chain(it1)[1]
        h = len(conds1) == 1 and hasattr_call(conds1[0])
        if not (h and is_name(h[0], v1)):
            raise Skip('_get_types: first comprehension does not keep exactly the bases with `hasattr(b, <origin attr>)`')
        f['loopOriginAttr'] = h[1]
        if not is_name(it2, subsv):
            raise Skip('_get_types: second comprehension does not select from the first list')
        cls_name = origin_class_test(conds2, [v2, f['loopOriginAttr']])
        if loop.orelse or not is_name(loop.target):
            raise Skip('_get_types: loop shape outside the subset')
        it = loop.iter
        if isinstance(it, ast.BoolOp) and isinstance(it.op, ast.Or) and len(it.values) == 2 and is_name(it.values[0], mixv) \
                and is_name(it.values[1], subsv):
            f['loopPrefersOriginsDerivedFrom'], f['loopFallsBackToAll'] = cls_name, True
        elif is_name(it, mixv):
            f['loopPrefersOriginsDerivedFrom'] = cls_name
        elif is_name(it, subsv):
            pass
        else:
            raise Skip('_get_types: loop iterates something else than `mixin_bases or subscripted_bases`')
        bv = loop.target.id
        lb = body_of(loop)
        if len(lb) not in (2, 3):
            raise Skip('_get_types: loop body is not ([origin-without-original-bases test,] lookup, found-test)')
        l2, l3 = lb[-2], lb[-1]
        if len(lb) == 3:
            l0 = lb[0]
            h = isinstance(l0, ast.If) and not_hasattr(l0.test)
            if not (h and attr_chain(h[0]) == [bv, f['loopOriginAttr']] and h[1] == f['loopIterAttr'] and len(l0.body) == 1
                    and isinstance(l0.body[0], ast.Continue) and not l0.orelse):
                raise Skip('_get_types: first statement of the loop is not `if not hasattr(base.<origin>, <orig bases attr>): continue`')
            f['loopSkipsOriginsWithoutOrigBases'] = True
    else:
        raise Skip('_get_types: then-branch is neither a single for loop nor (comprehension, comprehension, for loop)')
    if not (isinstance(l2, ast.Assign) and is_name(l2.targets[0], gbv) and isinstance(l2.value, ast.Call)
            and is_name(l2.value.func, 'get_generic_base') and len(l2.value.args) == 1
            and attr_chain(l2.value.args[0]) == [bv, f['loopOriginAttr']]):
        raise Skip('_get_types: loop does not look up `get_generic_base(base.<origin attr>)`')
    if not (isinstance(l3, ast.If) and is_name(l3.test, gbv) and not l3.orelse and len(l3.body) == 2
            and isinstance(l3.body[0], ast.Assign) and is_name(l3.body[0].targets[0])
            and isinstance(l3.body[1], ast.Break)):
        raise Skip('_get_types: loop does not end with `if generic_base: types = base.<args>; break`')
    typesv = l3.body[0].targets[0].id
    ch = attr_chain(l3.body[0].value)
    if not (ch and len(ch) == 2 and ch[0] == bv):
        raise Skip('_get_types: the loop takes the types from something else than an attribute of the base')
    f['loopArgsAttr'] = ch[1]
    # else branch
    eb = g2.orelse
    if len(eb) != 2:
        raise Skip('_get_types: else-branch is not (guard, assignment)')
    e1, e2 = eb
    h = isinstance(e1, ast.If) and not_hasattr(e1.test)
    if not (h and is_name(h[0], 'self') and len(e1.body) == 1 and isinstance(e1.body[0], ast.Raise) and not e1.orelse):
        raise Skip('_get_types: else-branch does not start with `if not hasattr(self, <attr>): raise ...`')
    f['unparamGuardAttr'] = h[1]
    f['unparamExc'] = exc_class_of(e1.body[0], assigns)
    ch = isinstance(e2, ast.Assign) and is_name(e2.targets[0], typesv) and attr_chain(e2.value)
    if not (ch and len(ch) == 3 and ch[0] == 'self' and ch[1] == f['unparamGuardAttr']):
        raise Skip('_get_types: else-branch does not read `self.<orig class attr>.<args>` into the types variable')
    f['origClassArgsAttr'] = ch[2]
    # tail: type_vars = generic_base.__args__ ; return {v: t for v, t in zip(type_vars, types)}
    tail = body[body.index(g2) + 1:]
    if len(tail) != 2 or not isinstance(tail[0], ast.Assign) or not isinstance(tail[1], ast.Return):
        raise Skip('_get_types: tail is not (assignment, return)')
    ch = attr_chain(tail[0].value)
    if not (is_name(tail[0].targets[0]) and ch and len(ch) == 2 and ch[0] == gbv):
        raise Skip('_get_types: tail does not read an attribute of the generic base')
    f['genericBaseArgsAttr'] = ch[1]
    tvv = tail[0].targets[0].id
    dc = tail[1].value
    if not (isinstance(dc, ast.DictComp) and len(dc.generators) == 1 and not dc.generators[0].ifs
            and is_name(dc.key) and is_name(dc.value)):
        raise Skip('_get_types: return value is not a plain dict comprehension')
    g = dc.generators[0]
    if not (isinstance(g.target, ast.Tuple) and len(g.target.elts) == 2 and all(is_name(e) for e in g.target.elts)
            and isinstance(g.iter, ast.Call) and is_name(g.iter.func, 'zip') and len(g.iter.args) == 2
            and all(is_name(a) for a in g.iter.args) and not g.iter.keywords):
        raise Skip('_get_types: comprehension is not `for a, b in zip(x, y)`')
    role = {tvv: 'generic', typesv: 'actual'}
    zipped = [role.get(a.id) for a in g.iter.args]
    if None in zipped:
        raise Skip('_get_types: zip over something else than the two local lists')
    tnames = [e.id for e in g.target.elts]
    if dc.key.id not in tnames or dc.value.id not in tnames:
        raise Skip('_get_types: comprehension key/value are not the loop variables')
    f['keysFromGenericBase'] = zipped[tnames.index(dc.key.id)] == 'generic'
    f['valsFromActualTypes'] = zipped[tnames.index(dc.value.id)] == 'actual'

    # ---- get_generic_base
    gb = body_of(ggb)
    if len(ggb.args.args) != 1:
        raise Skip('get_generic_base: expected one parameter')
    ov = ggb.args.args[0].arg
    if not (len(gb) == 3 and isinstance(gb[0], ast.Assign) and isinstance(gb[0].value, ast.ListComp)
            and isinstance(gb[1], ast.If) and isinstance(gb[2], ast.Return)):
        raise Skip('get_generic_base: not (list comprehension, if, return)')
    lc = gb[0].value
    lst = gb[0].targets[0].id
    if not (len(lc.generators) == 1 and is_name(lc.generators[0].target) and is_name(lc.elt, lc.generators[0].target.id)
            and attr_chain(lc.generators[0].iter) == [ov, f['loopIterAttr']]):
        raise Skip('get_generic_base: comprehension does not select elements of obj.__orig_bases__')
    cv = lc.elt.id
    conds = []
    for t in lc.generators[0].ifs:
        conds += t.values if isinstance(t, ast.BoolOp) and isinstance(t.op, ast.And) else [t]
    checks_origin = False
    for c in conds:
        h = hasattr_call(c)
        if h and is_name(h[0], cv) and h[1] == f['loopOriginAttr']:
            continue
        if isinstance(c, ast.Compare) and len(c.ops) == 1 and isinstance(c.ops[0], (ast.Eq, ast.Is)):
            sides = [c.left, c.comparators[0]]
            chains = [attr_chain(s) for s in sides]
            if [cv, f['loopOriginAttr']] in chains and ['Generic'] in chains:
                checks_origin = True
                continue
        raise Skip('get_generic_base: unknown filter condition ' + ast.unparse(c))
    f['genericFilterChecksOrigin'] = checks_origin
    r = gb[1]
    if not (is_name(r.test, lst) and len(r.body) == 1 and isinstance(r.body[0], ast.Return) and not r.orelse
            and isinstance(r.body[0].value, ast.Subscript) and is_name(r.body[0].value.value, lst)):
        raise Skip('get_generic_base: not `if generic_bases: return generic_bases[i]`')
    idx = r.body[0].value.slice
    if isinstance(idx, ast.UnaryOp) and isinstance(idx.op, ast.USub) and isinstance(idx.operand, ast.Constant):
        idxv = -idx.operand.value
    elif isinstance(idx, ast.Constant) and isinstance(idx.value, int):
        idxv = idx.value
    else:
        raise Skip('get_generic_base: index is not an integer literal')
    if idxv not in (0, -1):
        raise Skip('get_generic_base: index other than 0 / -1 may raise IndexError')
    f['genericBaseIndex'] = idxv
    if not (isinstance(gb[2].value, ast.Constant) and gb[2].value.value is None):
        raise Skip('get_generic_base: does not end with `return None`')

    # ---- type_var / type_vars
    tb = body_of(tv)
    if not (len(tb) == 3 and isinstance(tb[0], ast.Assign) and isinstance(tb[0].value, ast.Call)
            and attr_chain(tb[0].value.func) == ['self', '_get_types'] and isinstance(tb[1], ast.Assert)
            and isinstance(tb[2], ast.Return)):
        raise Skip('type_var: not (types = self._get_types(), assert, return)')
    tyv = tb[0].targets[0].id
    t = tb[1].test
    if not (isinstance(t, ast.Compare) and len(t.ops) == 1 and type(t.ops[0]) in CMP):
        raise Skip('type_var: assertion is not a comparison')
    def side(n):
        if isinstance(n, ast.Call) and is_name(n.func, 'len') and len(n.args) == 1 and is_name(n.args[0], tyv):
            return 'n'
        if isinstance(n, ast.Constant) and isinstance(n.value, int) and not isinstance(n.value, bool) and n.value >= 0:
            return str(n.value)
        raise Skip('type_var: assertion compares something else than len(types) and a literal')
    f['typeVarLenOk'] = f'decide ({side(t.left)} {CMP[type(t.ops[0])]} {side(t.comparators[0])})'
    rv = tb[2].value
    if not (isinstance(rv, ast.Subscript) and isinstance(rv.slice, ast.Constant) and isinstance(rv.slice.value, int)
            and rv.slice.value >= 0 and isinstance(rv.value, ast.Call) and is_name(rv.value.func, 'list')
            and len(rv.value.args) == 1 and isinstance(rv.value.args[0], ast.Call)
            and attr_chain(rv.value.args[0].func) == [tyv, 'values']):
        raise Skip('type_var: return value is not `list(types.values())[i]`')
    f['typeVarIndex'] = rv.slice.value
    vb = body_of(tvs_prop)
    if not (len(vb) == 1 and isinstance(vb[0], ast.Return) and isinstance(vb[0].value, ast.Call)
            and attr_chain(vb[0].value.func) == ['self', '_get_types'] and not vb[0].value.args):
        raise Skip('type_vars: not `return self._get_types()`')
    f['libGM'] = class_members(tree, 'GenericMixin')
    # decorators of the helpers: anything here (functools.lru_cache, functools.cache, …) makes an answer depend on earlier queries
    # and on how instances hash / compare, because `get_generic_base` receives the instance itself
    f['getTypesDecorators'] = decorators_of(gt)
    f['getGenericBaseDecorators'] = decorators_of(ggb)
    f['typeVarDecorators'] = decorators_of(tv)
    f['typeVarsDecorators'] = decorators_of(tvs_prop)
    # module-level state next to the helpers (a hand-written cache) is outside the subset
    for node in tree.body:
        if isinstance(node, (ast.Assign, ast.AnnAssign, ast.AugAssign)):
            raise Skip('generic_mixin.py: module-level assignment (state shared between queries) outside the subset')
    for fn in (gt, ggb, tv, tvs_prop):
        for n in ast.walk(fn):
            if isinstance(n, (ast.Global, ast.Nonlocal)):
                raise Skip(f'{fn.name}: global / nonlocal statement outside the subset')
    return f


def class_members(tree, cls):
    """non-dunder names defined in the class body: (leading underscores, rest of the name, kind)"""
    out = []
    for node in tree.body:
        if isinstance(node, ast.ClassDef) and node.name == cls:
            for n in node.body:
                if isinstance(n, (ast.FunctionDef, ast.AsyncFunctionDef)):
                    if n.name.startswith('__'):
                        continue
                    decos = [ast.unparse(d) for d in n.decorator_list]
                    kind = 'property' if 'property' in decos else ('method' if not decos else None)
                    if kind is None:
                        raise Skip(f'{cls}.{n.name}: decorator list {decos} outside the subset')
                    u = len(n.name) - len(n.name.lstrip('_'))
                    out.append((u, n.name[u:], kind))
                elif isinstance(n, (ast.Assign, ast.AnnAssign)):
                    raise Skip(f'{cls}: class-level assignment outside the subset')
            return out
    raise Skip(f'class {cls} not found')


def gen_decorated(repo):
    tree = ast.parse(src(repo, WDM))
    f = {}
    # ---- create_decorator
    cd = find_func(tree, 'create_decorator')
    params = [a.arg for a in cd.args.args]
    if len(params) != 2:
        raise Skip('create_decorator: expected (decorator_type, transformation)')
    tyv, trv = params
    cb = body_of(cd)
    if not (len(cb) == 2 and isinstance(cb[0], ast.FunctionDef) and isinstance(cb[1], ast.Return)
            and is_name(cb[1].value, cb[0].name)):
        raise Skip('create_decorator: not (def decorator, return decorator)')
    dec = cb[0]
    if len(dec.args.args) != 1:
        raise Skip('create_decorator: decorator takes more than the value')
    valv = dec.args.args[0].arg
    db = body_of(dec)
    if not (len(db) == 2 and isinstance(db[0], ast.FunctionDef) and isinstance(db[1], ast.Return)
            and is_name(db[1].value, db[0].name) and not db[0].decorator_list):
        raise Skip('create_decorator: decorator is not (def fun, return fun)')
    fun = db[0]
    if len(fun.args.args) != 1:
        raise Skip('create_decorator: fun takes more than the function')
    fv = fun.args.args[0].arg
    roles = {fv: 'f', tyv: 'type', valv: 'value'}
    fb = body_of(fun)
    if len(fb) != 3:
        raise Skip('create_decorator: fun body is not (setattr, if, return)')
    def is_setattr(s):
        return isinstance(s, ast.Expr) and isinstance(s.value, ast.Call) and is_name(s.value.func, 'setattr') \
            and len(s.value.args) == 3 and all(is_name(a) and a.id in roles for a in s.value.args)
    def is_none_test(s):
        return isinstance(s, ast.If) and isinstance(s.test, ast.Compare) and is_name(s.test.left, trv) \
            and len(s.test.ops) == 1 and isinstance(s.test.ops[0], ast.Is) and isinstance(s.test.comparators[0], ast.Constant) \
            and s.test.comparators[0].value is None and len(s.body) == 1 and isinstance(s.body[0], ast.Return) \
            and is_name(s.body[0].value, fv) and not s.orelse
    def is_tr_return(s):
        return isinstance(s, ast.Return) and isinstance(s.value, ast.Call) and is_name(s.value.func, trv) \
            and not s.value.keywords and all(is_name(a) and a.id in roles for a in s.value.args)
    if not (is_setattr(fb[0]) and is_none_test(fb[1]) and is_tr_return(fb[2])):
        raise Skip('create_decorator: fun body is not `setattr(..); if transformation is None: return f; return transformation(..)`')
    sa = [roles[a.id] for a in fb[0].value.args]
    if sa[0] != 'f':
        raise Skip('create_decorator: setattr target is not the function')
    f['setattrKeyRole'], f['setattrValRole'] = sa[1], sa[2]
    # closures: `value` is the parameter of the function create_decorator RETURNS (one closure per factory call), `fun` is defined inside
    # it; nothing assigns to the captured names anywhere inside create_decorator
    f['valueIsParameterOfReturnedDecorator'] = is_name(cb[1].value, dec.name) and valv in [a.arg for a in dec.args.args] \
        and any(n is fun for n in dec.body)
    captured = {tyv, trv, valv, fv}
    f['closureRebinds'] = sorted({n.id for n in ast.walk(cd) if isinstance(n, ast.Name) and isinstance(n.ctx, (ast.Store, ast.Del))
                                  and n.id in captured}
                                 | {nm for n in ast.walk(cd) if isinstance(n, (ast.Nonlocal, ast.Global)) for nm in n.names})
    f['transformationArgs'] = [roles[a.id] for a in fb[2].value.args]

    # ---- get_decorated_functions
    gd = find_func(tree, 'get_decorated_functions', 'WithDecoratedMethods')
    gb = body_of(gd)
    if not (len(gb) == 4 and isinstance(gb[0], ast.Assign) and isinstance(gb[1], ast.Assign)
            and isinstance(gb[2], ast.For) and isinstance(gb[3], ast.Return)):
        raise Skip('get_decorated_functions: not (types, result, for, return)')
    if attr_chain(gb[0].value) != ['self', 'type_var'] or not is_name(gb[0].targets[0]):
        raise Skip('get_decorated_functions: decorator types are not read from self.type_var')
    dts = gb[0].targets[0].id
    resv = gb[1].targets[0].id if is_name(gb[1].targets[0]) else None
    init = gb[1].value
    if isinstance(init, ast.DictComp) and len(init.generators) == 1 and is_name(init.generators[0].iter, dts) \
            and not init.generators[0].ifs and is_name(init.key, init.generators[0].target.id) \
            and ((isinstance(init.value, ast.Call) and is_name(init.value.func, 'dict') and not init.value.args)
                 or (isinstance(init.value, ast.Dict) and not init.value.keys)):
        f['initAllMembers'] = True
    else:
        raise Skip('get_decorated_functions: result is not initialised by `{t: dict() for t in decorator_types}`')
    if not is_name(gb[3].value, resv):
        raise Skip('get_decorated_functions: does not return the result dictionary')
    loop = gb[2]
    if not (isinstance(loop.iter, ast.Call) and is_name(loop.iter.func, 'dir') and len(loop.iter.args) == 1
            and is_name(loop.iter.args[0], 'self') and is_name(loop.target) and not loop.orelse):
        raise Skip('get_decorated_functions: outer loop is not `for name in dir(self)`')
    nv = loop.target.id
    lb = body_of(loop)
    # both shapes of the scan are read:
    #   A  [if name.startswith('__'): continue]; attribute = getattr(self, name); for t in types: if hasattr(attribute, t): r[t][attribute] = getattr(attribute, t)
    #   B  [skip]; raw = inspect.getattr_static(self, name, None); function = raw.__func__ if isinstance(raw, (staticmethod, classmethod)) else raw;
    #      if not inspect.isfunction(function): continue; marks = vars(function); attribute = getattr(self, name);
    #      [if isinstance(raw, staticmethod): ok = attribute is function  else: ok = inspect.ismethod(attribute) and attribute.__func__ is function;
    #       if not ok: continue]; for t in types: if t in marks: r[t][attribute] = marks[t]
    f['skipPrefixUnderscores'] = None
    if lb and isinstance(lb[0], ast.If) and isinstance(lb[0].test, ast.Call) and attr_chain(lb[0].test.func) == [nv, 'startswith']:
        s1 = lb[0]; t = s1.test
        if not (len(t.args) == 1 and isinstance(t.args[0], ast.Constant) and isinstance(t.args[0].value, str)
                and len(s1.body) == 1 and isinstance(s1.body[0], ast.Continue) and not s1.orelse):
            raise Skip('get_decorated_functions: skip test is not `if name.startswith(<str>): continue`')
        prefix = t.args[0].value
        if prefix == '' or prefix.strip('_') != '':
            raise Skip('get_decorated_functions: skip prefix is not a run of underscores')
        f['skipPrefixUnderscores'] = len(prefix)
        lb = lb[1:]

    def call_of(n, chain, nargs=None):
        return isinstance(n, ast.Call) and not n.keywords and (attr_chain(n.func) == chain if len(chain) > 1 else is_name(n.func, chain[0])) \
            and (nargs is None or len(n.args) == nargs)

    def is_getattr_self(st):
        return isinstance(st, ast.Assign) and len(st.targets) == 1 and is_name(st.targets[0]) and call_of(st.value, ['getattr'], 2) \
            and is_name(st.value.args[0], 'self') and is_name(st.value.args[1], nv)

    def continue_unless(st, var):
        return isinstance(st, ast.If) and not st.orelse and len(st.body) == 1 and isinstance(st.body[0], ast.Continue) \
            and isinstance(st.test, ast.UnaryOp) and isinstance(st.test.op, ast.Not) and var(st.test.operand)

    f['scanLooksAtRawAttribute'] = False
    f['scanUnwraps'] = []
    f['scanRequiresMethodOfInstance'] = False
    marksv = fnv = rawv = None
    if len(lb) == 2 and is_getattr_self(lb[0]):
        av = lb[0].targets[0].id
        inner = lb[1]
    else:
        if len(lb) not in (6, 8):
            raise Skip('get_decorated_functions: loop body is neither (getattr, inner loop) nor (raw, function, isfunction test, marks, getattr, '
                       '[method test, continue,] inner loop)')
        r0, r1, r2, r3, r4 = lb[:5]
        if not (isinstance(r0, ast.Assign) and is_name(r0.targets[0]) and call_of(r0.value, ['inspect', 'getattr_static'], 3)
                and is_name(r0.value.args[0], 'self') and is_name(r0.value.args[1], nv)
                and isinstance(r0.value.args[2], ast.Constant) and r0.value.args[2].value is None):
            raise Skip('get_decorated_functions: raw attribute is not `inspect.getattr_static(self, name, None)`')
        rawv = r0.targets[0].id
        if not (isinstance(r1, ast.Assign) and is_name(r1.targets[0])):
            raise Skip('get_decorated_functions: second statement does not bind the function')
        fnv = r1.targets[0].id
        v = r1.value
        if is_name(v, rawv):
            pass
        elif isinstance(v, ast.IfExp) and attr_chain(v.body) == [rawv, '__func__'] and is_name(v.orelse, rawv) \
                and call_of(v.test, ['isinstance'], 2) and is_name(v.test.args[0], rawv):
            kinds = v.test.args[1]
            kinds = kinds.elts if isinstance(kinds, ast.Tuple) else [kinds]
            if not all(is_name(k) and k.id in ('staticmethod', 'classmethod') for k in kinds):
                raise Skip('get_decorated_functions: unwraps something else than staticmethod / classmethod')
            f['scanUnwraps'] = [k.id for k in kinds]
        else:
            raise Skip('get_decorated_functions: function is not `raw.__func__ if isinstance(raw, (…)) else raw`')
        if not continue_unless(r2, lambda e: call_of(e, ['inspect', 'isfunction'], 1) and is_name(e.args[0], fnv)):
            raise Skip('get_decorated_functions: third statement is not `if not inspect.isfunction(function): continue`')
        f['scanLooksAtRawAttribute'] = True
        if not (isinstance(r3, ast.Assign) and is_name(r3.targets[0]) and call_of(r3.value, ['vars'], 1) and is_name(r3.value.args[0], fnv)):
            raise Skip('get_decorated_functions: marks are not `vars(function)`')
        marksv = r3.targets[0].id
        if not is_getattr_self(r4):
            raise Skip('get_decorated_functions: attribute is not `getattr(self, name)`')
        av = r4.targets[0].id
        if len(lb) == 8:
            m1, m2 = lb[5], lb[6]
            okv = None
            if isinstance(m1, ast.If) and call_of(m1.test, ['isinstance'], 2) and is_name(m1.test.args[0], rawv) \
                    and is_name(m1.test.args[1], 'staticmethod') and len(m1.body) == 1 and len(m1.orelse) == 1 \
                    and all(isinstance(x, ast.Assign) and is_name(x.targets[0]) for x in (m1.body[0], m1.orelse[0])) \
                    and m1.body[0].targets[0].id == m1.orelse[0].targets[0].id:
                okv = m1.body[0].targets[0].id
                st_ok = ast.unparse(m1.body[0].value) == f'{av} is {fnv}'
                me_ok = ast.unparse(m1.orelse[0].value) == f'inspect.ismethod({av}) and {av}.__func__ is {fnv}'
                if not (st_ok and me_ok):
                    raise Skip('get_decorated_functions: method test is not (attribute is function | inspect.ismethod(attribute) and '
                               'attribute.__func__ is function)')
            if okv is None or not continue_unless(m2, lambda e: is_name(e, okv)):
                raise Skip('get_decorated_functions: method test is not (if isinstance(raw, staticmethod): ok = … else: ok = …; if not ok: continue)')
            f['scanRequiresMethodOfInstance'] = True
        inner = lb[-1]
    s3 = inner
    if not (isinstance(s3, ast.For) and is_name(s3.iter, dts) and is_name(s3.target) and not s3.orelse
            and len(body_of(s3)) == 1 and isinstance(body_of(s3)[0], ast.If)):
        raise Skip('get_decorated_functions: inner loop is not `for t in decorator_types: if ...`')
    tv_ = s3.target.id
    cond = body_of(s3)[0]
    c = cond.test
    if not (not cond.orelse and len(cond.body) == 1 and isinstance(cond.body[0], ast.Assign)):
        raise Skip('get_decorated_functions: inner test does not guard a single store')
    st = cond.body[0]
    tg = st.targets[0]
    key_ok = isinstance(tg, ast.Subscript) and (is_name(tg.slice, av) or is_name(tg.slice, nv)) and isinstance(tg.value, ast.Subscript) \
        and is_name(tg.value.value, resv) and is_name(tg.value.slice, tv_)
    if not key_ok:
        raise Skip('get_decorated_functions: store target is not `result[t][attribute | attribute_name]`')
    if call_of(c, ['hasattr'], 2) and is_name(c.args[0], av) and is_name(c.args[1], tv_) \
            and call_of(st.value, ['getattr'], 2) and is_name(st.value.args[0], av) and is_name(st.value.args[1], tv_):
        f['scanReadsMarksFromFunctionDict'] = False        # hasattr(attribute, t) / getattr(attribute, t): whatever the object answers to
    elif marksv is not None and isinstance(c, ast.Compare) and len(c.ops) == 1 and isinstance(c.ops[0], ast.In) and is_name(c.left, tv_) \
            and is_name(c.comparators[0], marksv) and isinstance(st.value, ast.Subscript) and is_name(st.value.value, marksv) \
            and is_name(st.value.slice, tv_):
        f['scanReadsMarksFromFunctionDict'] = True         # t in vars(function) / vars(function)[t]: what was set on the function
    else:
        raise Skip('get_decorated_functions: test / value are neither hasattr(attribute, t) / getattr(attribute, t) nor t in marks / marks[t]')
    f['scanKeyIsAttribute'] = is_name(tg.slice, av)       # the key of the inner dict: the attribute itself (else: its name)
    f['scanValueIsGetattrOfAttribute'] = True             # the value is read where the test looked (the only value expressions inside the subset)
    # class header and library members
    for node in tree.body:
        if isinstance(node, ast.ClassDef) and node.name == 'WithDecoratedMethods':
            f['wdmBases'] = [ast.unparse(b) for b in node.bases]
    if 'wdmBases' not in f:
        raise Skip('class WithDecoratedMethods not found')
    for b in f['wdmBases']:
        if not (b in ('ABC', 'GenericMixin') or (b.startswith('Generic[') and ',' not in b)):
            raise Skip('WithDecoratedMethods: base list outside the subset')
    f['libWDM'] = class_members(tree, 'WithDecoratedMethods')
    return f


ROLE = {'f': '.f', 'type': '.type', 'value': '.value'}
KIND = {'method': '.method', 'property': '.property'}


def lean_members(ms):
    return '[' + ', '.join(f'({u}, {lean_str(rest)}, {KIND[k]})' for u, rest, k in ms) + ']'


def gen_mixins(repo):
    g = gen_generic(repo)
    d = gen_decorated(repo)
    return HEADER.format(rel=GM + ' and ' + WDM) + f'''namespace PedVerif.Gen.Mixins

/-! ## GenericMixin._get_types / get_generic_base / type_var -/

/-- dunder attributes read by `_get_types` and `get_generic_base` (sorted) -/
def attrsRead : List String := [{', '.join(lean_str(a) for a in g['attrsRead'])}]
/-- `if not hasattr(self, <attr>): raise <exc>` at the top of `_get_types` -/
def nonGenericGuardAttr : String := {lean_str(g['nonGenericGuardAttr'])}
def nonGenericExc : String := {lean_str(g['nonGenericExc'])}
/-- the loop `for base in self.<attr>` and `obj.<attr>` in `get_generic_base` -/
def loopIterAttr : String := {lean_str(g['loopIterAttr'])}
/-- `if not hasattr(base, <attr>): continue` / `get_generic_base(base.<attr>)` -/
def loopOriginAttr : String := {lean_str(g['loopOriginAttr'])}
/-- `types = base.<attr>` when the base's origin is generic -/
def loopArgsAttr : String := {lean_str(g['loopArgsAttr'])}
/-- `if not hasattr(self, <attr>): raise <exc>` in the branch of a class that lists `Generic[...]` itself -/
def unparamGuardAttr : String := {lean_str(g['unparamGuardAttr'])}
def unparamExc : String := {lean_str(g['unparamExc'])}
/-- `types = self.<unparamGuardAttr>.<attr>` -/
def origClassArgsAttr : String := {lean_str(g['origClassArgsAttr'])}
/-- `type_vars = generic_base.<attr>` -/
def genericBaseArgsAttr : String := {lean_str(g['genericBaseArgsAttr'])}
/-- in `{{k: v for … in zip(…)}}` the key is the element that comes from the generic base's arguments -/
def keysFromGenericBase : Bool := {lean_bool(g['keysFromGenericBase'])}
/-- … and the value is the element that comes from the actual type arguments -/
def valsFromActualTypes : Bool := {lean_bool(g['valsFromActualTypes'])}
/-- the loop looks at the subscripted bases whose origin is derived from this library class only — written as a `continue` test
    `if not ([isinstance(base.<origin>, type) and] issubclass(base.<origin>, <Class>))` or as a list `mixin_bases` built beforehand
    (`none`: every subscripted base is looked at) -/
def loopPrefersOriginsDerivedFrom : Option String := {('some ' + lean_str(g['loopPrefersOriginsDerivedFrom'])) if g['loopPrefersOriginsDerivedFrom'] else 'none'}
/-- `for base in mixin_bases or subscripted_bases`: when no subscripted base has such an origin, all subscripted bases are looked at -/
def loopFallsBackToAll : Bool := {lean_bool(g['loopFallsBackToAll'])}
/-- `if not hasattr(base.<origin>, '<orig bases attr>'): continue` at the top of the loop: an origin without `__orig_bases__`
    (`Sequence`, `list`) is passed over instead of ending in AttributeError -/
def loopSkipsOriginsWithoutOrigBases : Bool := {lean_bool(g['loopSkipsOriginsWithoutOrigBases'])}
/-- `get_generic_base` keeps only bases with `c.__origin__ == Generic` -/
def genericFilterChecksOrigin : Bool := {lean_bool(g['genericFilterChecksOrigin'])}
/-- `return generic_bases[<i>]` -/
def genericBaseIndex : Int := {g['genericBaseIndex']}
/-- the `assert` in `type_var`, translated (n = len(types)); an `assert` raises AssertionError -/
def typeVarLenOk (n : Nat) : Bool := {g['typeVarLenOk']}
/-- `return list(types.values())[<i>]` -/
def typeVarIndex : Nat := {g['typeVarIndex']}
/-- decorators written above `_get_types`, `get_generic_base` (which receives the INSTANCE), `type_var`, `type_vars`: a caching decorator
    would make an answer depend on earlier queries and on `__eq__` / `__hash__` of the instances -/
def getTypesDecorators : List String := [{', '.join(lean_str(a) for a in g['getTypesDecorators'])}]
def getGenericBaseDecorators : List String := [{', '.join(lean_str(a) for a in g['getGenericBaseDecorators'])}]
def typeVarDecorators : List String := [{', '.join(lean_str(a) for a in g['typeVarDecorators'])}]
def typeVarsDecorators : List String := [{', '.join(lean_str(a) for a in g['typeVarsDecorators'])}]

/-! ## create_decorator / WithDecoratedMethods.get_decorated_functions -/

inductive Role where
  | f | type | value
deriving DecidableEq, Repr

inductive LibKind where
  | method | property
deriving DecidableEq, Repr

/-- `setattr(f, <key>, <val>)`: which of the enclosing parameters are used -/
def setattrKeyRole : Role := {ROLE[d['setattrKeyRole']]}
def setattrValRole : Role := {ROLE[d['setattrValRole']]}
/-- `return transformation(<args>)` -/
def transformationArgs : List Role := [{', '.join(ROLE[r] for r in d['transformationArgs'])}]
/-- `if attribute_name.startswith(<prefix>): continue`: the prefix consists of this many underscores (`none`: no name is passed over) -/
def skipPrefixUnderscores : Option Nat := {('some ' + str(d['skipPrefixUnderscores'])) if d['skipPrefixUnderscores'] is not None else 'none'}
/-- the scan looks at the RAW attribute first (`inspect.getattr_static`) and goes on only with functions: properties are not evaluated,
    other objects are passed over (`false`: `getattr(self, name)` is evaluated for every name) -/
def scanLooksAtRawAttribute : Bool := {lean_bool(d['scanLooksAtRawAttribute'])}
/-- `function = raw.__func__ if isinstance(raw, (<these>)) else raw` -/
def scanUnwraps : List String := [{', '.join(lean_str(a) for a in d['scanUnwraps'])}]
/-- only what `getattr(self, name)` turns into a method made from that function is reported: `attribute is function` for a staticmethod,
    `inspect.ismethod(attribute) and attribute.__func__ is function` otherwise (a function in the instance `__dict__` is neither) -/
def scanRequiresMethodOfInstance : Bool := {lean_bool(d['scanRequiresMethodOfInstance'])}
/-- the decorator types are looked up in `vars(function)` — what `create_decorator` has set — (`false`: `hasattr(attribute, t)`: whatever
    the object answers to, also by its type) -/
def scanReadsMarksFromFunctionDict : Bool := {lean_bool(d['scanReadsMarksFromFunctionDict'])}
/-- `decorated_functions[t][<key>] = …`: the key of the inner dict is the attribute itself (`false`: its name) -/
def scanKeyIsAttribute : Bool := {lean_bool(d['scanKeyIsAttribute'])}
/-- `… = getattr(attribute, t)`: the value is read from the attribute under the decorator type -/
def scanValueIsGetattrOfAttribute : Bool := {lean_bool(d['scanValueIsGetattrOfAttribute'])}
/-- `value` is the parameter of the function that `create_decorator` returns and `fun` is defined inside that function: every factory
    call `decorator(value)` makes a closure of its own -/
def valueIsParameterOfReturnedDecorator : Bool := {lean_bool(d['valueIsParameterOfReturnedDecorator'])}
/-- captured names (`decorator_type`, `transformation`, `value`, `f`) that are assigned, deleted or declared nonlocal / global somewhere
    inside `create_decorator` -/
def closureRebinds : List String := [{', '.join(lean_str(a) for a in d['closureRebinds'])}]
/-- the result is initialised with one empty dict per member of the enum -/
def initAllMembers : Bool := {lean_bool(d['initAllMembers'])}
/-- bases of `class WithDecoratedMethods(...)` as written -/
def wdmBases : List String := [{', '.join(lean_str(b) for b in d['wdmBases'])}]
/-- non-dunder names defined by the library classes: (leading underscores, rest of the name, kind) -/
def libGenericMixin : List (Nat × String × LibKind) := {lean_members(g['libGM'])}
def libWithDecoratedMethods : List (Nat × String × LibKind) := {lean_members(d['libWDM'])}

end PedVerif.Gen.Mixins
'''


def class_shape(tree, cls):
    """(names assigned at class level, dunder methods defined in the class body)"""
    for node in tree.body:
        if isinstance(node, ast.ClassDef) and node.name == cls:
            state, dunders = [], []
            for n in node.body:
                if isinstance(n, (ast.FunctionDef, ast.AsyncFunctionDef)) and n.name.startswith('__') and n.name.endswith('__'):
                    dunders.append(n.name)
                elif isinstance(n, ast.Assign):
                    state += [ast.unparse(t) for t in n.targets]
                elif isinstance(n, (ast.AnnAssign, ast.AugAssign)):
                    state.append(ast.unparse(n.target))
            return state, dunders, [ast.unparse(k) for k in node.keywords]
    raise Skip(f'class {cls} not found')


def module_state(tree):
    """names bound by module-level statements other than imports, defs and classes"""
    out = []
    for n in tree.body:
        if isinstance(n, ast.Assign):
            out += [ast.unparse(t) for t in n.targets]
        elif isinstance(n, (ast.AnnAssign, ast.AugAssign)):
            out.append(ast.unparse(n.target))
    return out


def attribute_stores(tree):
    """`<name>.<attr> = …` / setattr-free attribute writes on plain names anywhere in the file, `self.<attr>` aside: `function.slot = value`
    is how state is shared between calls without a global"""
    out = []
    for n in ast.walk(tree):
        targets = []
        if isinstance(n, ast.Assign):
            targets = n.targets
        elif isinstance(n, (ast.AnnAssign, ast.AugAssign)):
            targets = [n.target]
        for t in targets:
            for e in ast.walk(t):
                if isinstance(e, ast.Attribute) and isinstance(e.ctx, ast.Store) and isinstance(e.value, ast.Name) and e.value.id != 'self':
                    out.append(f'{e.value.id}.{e.attr}')
    return sorted(set(out))


STATE_BUILTINS = ('setattr', 'delattr', 'vars', 'globals', 'locals')
STATE_ATTRS = ('__dict__', '__setattr__', '__delattr__')


def _functions(tree):
    return [n for n in ast.walk(tree) if isinstance(n, (ast.FunctionDef, ast.AsyncFunctionDef, ast.Lambda))]


def _own_nodes(fn):
    """nodes of a function body without the bodies of nested functions / classes"""
    stack = list(fn.body) if isinstance(fn.body, list) else [fn.body]
    while stack:
        n = stack.pop()
        yield n
        for ch in ast.iter_child_nodes(n):
            if not isinstance(ch, (ast.FunctionDef, ast.AsyncFunctionDef, ast.Lambda, ast.ClassDef)):
                stack.append(ch)


def _local_names(fn):
    """names a function binds itself (plain assignments, loop / with / comprehension targets, walrus): a subscript store into one of
    them (`result[k] = v` on a dict built in the same call) leaves nothing behind — unless the name is a parameter or `self`"""
    out = set()
    for n in _own_nodes(fn):
        if isinstance(n, ast.Name) and isinstance(n.ctx, ast.Store):
            out.add(n.id)
    a = fn.args
    for p_ in a.posonlyargs + a.args + a.kwonlyargs + [x for x in (a.vararg, a.kwarg) if x]:
        out.discard(p_.arg)
    return out


def _root_name(n):
    while isinstance(n, (ast.Attribute, ast.Subscript)):
        n = n.value
    return n.id if isinstance(n, ast.Name) else None


def object_stores(tree):
    """every statement target that writes into an OBJECT instead of binding a name: `<anything>.<attr> = …` (also `self.x`,
    `type(self).x`, `cls.x`, `function.slot`), `<anything>[key] = …` unless the container is a local of the same call that holds no
    alias of object state, `del` of either — the places where a query could leave something for the next one"""
    out = []
    scopes = [(fn, _local_names(fn), list(_own_nodes(fn))) for fn in _functions(tree)]
    in_fn = {id(n) for _, _, nodes in scopes for n in nodes}
    scopes.append((None, set(), [n for n in ast.walk(tree) if id(n) not in in_fn]))
    for fn, local, nodes in scopes:
        for n in nodes:
            if isinstance(n, ast.Attribute) and isinstance(n.ctx, (ast.Store, ast.Del)):
                out.append(ast.unparse(n))
            elif isinstance(n, ast.Subscript) and isinstance(n.ctx, (ast.Store, ast.Del)):
                root = n.value
                while isinstance(root, ast.Subscript):          # `result[t][attribute] = …`: still the local `result`
                    root = root.value
                if not (isinstance(root, ast.Name) and root.id in local):
                    out.append(ast.unparse(n))
    return sorted(set(out))


def state_calls(tree):
    """uses of the builtins / dunder attributes through which object state is written or handed out without a store statement:
    setattr, delattr, vars, globals, locals, `.__dict__`, `.__setattr__`, `.__delattr__`"""
    out = []
    for n in ast.walk(tree):
        if isinstance(n, ast.Name) and n.id in STATE_BUILTINS:
            out.append(n.id)
        elif isinstance(n, ast.Attribute) and n.attr in STATE_ATTRS:
            out.append(ast.unparse(n))
    return sorted(set(out))


def mutable_defaults(tree):
    """parameter defaults that are objects created once, at definition time (`def f(self, _memo={})`): shared by all calls"""
    out = []
    for fn in _functions(tree):
        a = fn.args
        for dflt in list(a.defaults) + [x for x in a.kw_defaults if x is not None]:
            if not (isinstance(dflt, ast.Constant) or (isinstance(dflt, ast.UnaryOp) and isinstance(dflt.operand, ast.Constant))):
                out.append(f"{getattr(fn, 'name', '<lambda>')}: {ast.unparse(dflt)}")
    return sorted(set(out))


def gen_shape(repo):
    """facts about the two mixin modules that do not depend on the statement shapes gen_mixins insists on: class-creation hooks, per-class
    and per-module state, attribute slots on functions"""
    gm, wdm = ast.parse(src(repo, GM)), ast.parse(src(repo, WDM))
    gs, gd, gk = class_shape(gm, 'GenericMixin')
    ws, wd, wk = class_shape(wdm, 'WithDecoratedMethods')

    def lst(xs):
        return '[' + ', '.join(lean_str(x) for x in xs) + ']'
    return HEADER.format(rel=GM + ' and ' + WDM) + f'''namespace PedVerif.Gen.MixinsShape

/-- names assigned in the body of `class GenericMixin` (a per-class cache would be one) -/
def gmClassState : List String := {lst(gs)}
/-- dunder methods defined in the body of `class GenericMixin` (`__init_subclass__`, `__class_getitem__`, `__new__`, … would be
    class-creation / instantiation hooks that other bases can shadow or cut off) -/
def gmDunderMethods : List String := {lst(gd)}
/-- keywords of the class statement (`metaclass=…`) -/
def gmClassKeywords : List String := {lst(gk)}
/-- the same for `class WithDecoratedMethods` -/
def wdmClassState : List String := {lst(ws)}
def wdmDunderMethods : List String := {lst(wd)}
def wdmClassKeywords : List String := {lst(wk)}
/-- names bound by module-level assignments -/
def gmModuleState : List String := {lst(module_state(gm))}
def wdmModuleState : List String := {lst(module_state(wdm))}
/-- `<name>.<attr> = …` anywhere in the two files (`self.<attr>` aside): a slot on a function or class shared between calls -/
def gmAttributeStores : List String := {lst(attribute_stores(gm))}
def wdmAttributeStores : List String := {lst(attribute_stores(wdm))}
/-- every target in generic_mixin.py that writes into an OBJECT instead of binding a name — `<anything>.<attr> = …` (`self.x`,
    `type(self).x`, `cls.x`, `function.slot`), `<anything>[key] = …` on a container that is not a local of the same call, `del` of either:
    the places where `_get_types` / `get_generic_base` / `type_var` / `type_vars` could leave something on the class, the instance or a
    shared object for the next query (a memo such as `type(self)._resolved_type_vars = …` is found through the MRO by every sub class) -/
def gmStores : List String := {lst(object_stores(gm))}
/-- the same for with_decorated_methods.py (`decorator.value = value` would be a slot shared by all configured decorators of one
    factory; `decorated_functions[t][attribute] = …` writes into a dict made by the same call and is not listed) -/
def wdmStores : List String := {lst(object_stores(wdm))}
/-- uses of `setattr` / `delattr` / `vars` / `globals` / `locals` / `.__dict__` / `.__setattr__` / `.__delattr__` in generic_mixin.py: the
    ways to write object state without a store statement -/
def gmStateCalls : List String := {lst(state_calls(gm))}
/-- parameter defaults in generic_mixin.py that are objects created once at definition time (`def _get_types(self, _memo={{}})`) -/
def gmMutableDefaults : List String := {lst(mutable_defaults(gm))}
/-- `global` / `nonlocal` statements -/
def scopeEscapes : Nat := {sum(isinstance(n, (ast.Global, ast.Nonlocal)) for t in (gm, wdm) for n in ast.walk(t))}

end PedVerif.Gen.MixinsShape
'''


FILES = {'Mixins.lean': gen_mixins, 'MixinsShape.lean': gen_shape}
