"""Translator part for C19: the decision code of docstring checking.

Read with `ast` (never imported):
* fn_deco_pedantic.py  — the test guarding `_check_docstring(...)` in `pedantic.decorator`, translated *as Python parses it*
  (`A and (B or C) > 0`), where the guarded call sits, the early return when disabled, the flag `pedantic_require_docstring` passes;
* class_decorators.py  — what `pedantic_class_require_docstring` applies to the methods; which members of a class `for_all_methods`
  hands to the decorator: the classes of the `isinstance` test of the function branch, and — by a small abstract interpretation of
  the property branch (`property_parts`) — which accessors of a property (`fget` / `fset` / `fdel`) are passed through the decorator
  and end up in the property the class gets back;
* decorated_function.py — where the docstring that is checked comes from (`parse(func.__doc__)`, `raw_doc` = `self._func.__doc__`:
  the function's OWN docstring, not `inspect.getdoc`, which inherits);
* the three modules on the way (fn_deco_pedantic / check_docstring / decorated_function) — anything that can carry state from one
  decoration to the next (module-level mutable bindings, `global` / `nonlocal`, caching decorators, mutable defaults, attributes set
  on functions): `decorationState`;
* check_docstring.py   — `_assert_docstring_is_complete`: every `if <test>: raise <Exc>` in order; `_check_docstring`: the branch
  tests of the loop, the comparisons (`len(...) != 2`, `len(matching_params) != 1 or ... is None`, the (in)equalities between
  expected and documented type), the exception class of every `raise`, the index into `doc.returns.args`;
  `_parse_documented_type`: the needle, the `except` clauses and what they raise; `_update_context`: the test of the branch that
  walks the type arguments.
A statement of the expected kind that is *missing* is translated as a test that is never true (the model then skips that check
and the proofs / the correspondence notice); a shape outside this subset raises Skip.
"""
import ast
from extract import Skip, src, find_func, lean_bool, lean_str, HEADER

F_PED = 'pedantic/decorators/fn_deco_pedantic.py'
F_DOC = 'pedantic/type_checking_logic/check_docstring.py'
F_CLS = 'pedantic/decorators/class_decorators.py'
F_DF = 'pedantic/models/decorated_function.py'

PRELUDE = '''set_option linter.unusedVariables false
namespace PedVerif.Gen.Docstring

/-! Python values that occur in the translated conditions, with Python's `and` / `or` / `not` / comparison
    semantics (`or` returns an operand, `True > 0` compares the bool as an int). -/
inductive PyV where
  | b (x : Bool)
  | i (x : Int)
deriving DecidableEq, Repr

def PyV.truthy : PyV → Bool
  | .b x => x
  | .i x => x != 0
def PyV.toInt : PyV → Int
  | .b x => if x then 1 else 0
  | .i x => x
def pyOr (a b : PyV) : PyV := if a.truthy then a else b
def pyAnd (a b : PyV) : PyV := if a.truthy then b else a
def pyNot (a : PyV) : PyV := .b (!a.truthy)
def pyEq (a b : PyV) : PyV := .b (a.toInt == b.toInt)
def pyNe (a b : PyV) : PyV := .b (a.toInt != b.toInt)
def pyLt (a b : PyV) : PyV := .b (decide (a.toInt < b.toInt))
def pyLe (a b : PyV) : PyV := .b (decide (a.toInt ≤ b.toInt))
def pyGt (a b : PyV) : PyV := .b (decide (a.toInt > b.toInt))
def pyGe (a b : PyV) : PyV := .b (decide (a.toInt ≥ b.toInt))
'''

CMPF = {ast.Eq: 'pyEq', ast.NotEq: 'pyNe', ast.Lt: 'pyLt', ast.LtE: 'pyLe', ast.Gt: 'pyGt', ast.GtE: 'pyGe'}


class Atoms:
    """how sub-expressions of one function map to the model's inputs"""
    def __init__(self, names=None, lens=None, noneness=None, equalities=None, membership=None, type_pairs=(), calls=None):
        self.names = names or {}            # Name id -> lean term (a PyV)
        self.lens = lens or {}              # unparse(X) in len(X) -> lean Nat name
        self.noneness = noneness or {}      # unparse(X) in `X is None` -> (lean Bool name, True if the name means "is None")
        self.equalities = equalities or {}  # (unparse(X), constant) in `X == const` -> lean Bool name
        self.membership = membership or {}  # (constant, unparse(Y)) in `const in Y` -> lean Bool name
        self.type_pairs = type_pairs        # frozensets of two Name ids whose (in)equality is typing-object equality
        self.calls = calls or {}            # unparse(call) -> lean Bool name


def neg(b):
    return f'(!{b})'


def tr(e, at: Atoms) -> str:
    """Python expression -> Lean term of type PyV"""
    if isinstance(e, ast.BoolOp):
        f = 'pyOr' if isinstance(e.op, ast.Or) else 'pyAnd'
        out = tr(e.values[0], at)
        for v in e.values[1:]:
            out = f'({f} {out} {tr(v, at)})'
        return out
    if isinstance(e, ast.UnaryOp) and isinstance(e.op, ast.Not):
        return f'(pyNot {tr(e.operand, at)})'
    if isinstance(e, ast.Constant) and isinstance(e.value, bool):
        return f'(.b {lean_bool(e.value)})'
    if isinstance(e, ast.Constant) and isinstance(e.value, int):
        return f'(.i {e.value})' if e.value >= 0 else f'(.i ({e.value}))'
    if isinstance(e, ast.Name) and e.id in at.names:
        return at.names[e.id]
    if isinstance(e, ast.Call):
        u = ast.unparse(e)
        if u in at.calls:
            return f'(.b {at.calls[u]})'
        if isinstance(e.func, ast.Name) and e.func.id == 'len' and len(e.args) == 1 and not e.keywords:
            x = ast.unparse(e.args[0])
            if x in at.lens:
                return f'(.i {at.lens[x]})'
        raise Skip(f'call outside the subset: {u}')
    if isinstance(e, ast.Compare) and len(e.ops) == 1:
        op, l, r = e.ops[0], e.left, e.comparators[0]
        if isinstance(op, (ast.Is, ast.IsNot)) and isinstance(r, ast.Constant) and r.value is None:
            x = ast.unparse(l)
            if x not in at.noneness:
                raise Skip(f'`{x} is None`: unknown operand')
            name, means_none = at.noneness[x]
            positive = isinstance(op, ast.Is) == means_none
            return f'(.b {name})' if positive else f'(.b {neg(name)})'
        if isinstance(op, (ast.In, ast.NotIn)) and isinstance(l, ast.Constant):
            k = (l.value, ast.unparse(r))
            if k not in at.membership:
                raise Skip(f'membership test outside the subset: {ast.unparse(e)}')
            return f'(.b {at.membership[k]})' if isinstance(op, ast.In) else f'(.b {neg(at.membership[k])})'
        if isinstance(op, (ast.Eq, ast.NotEq)):
            for a, b in ((l, r), (r, l)):
                if isinstance(b, ast.Constant) and (ast.unparse(a), b.value) in at.equalities:
                    n = at.equalities[(ast.unparse(a), b.value)]
                    return f'(.b {n})' if isinstance(op, ast.Eq) else f'(.b {neg(n)})'
            if isinstance(l, ast.Name) and isinstance(r, ast.Name) and frozenset((l.id, r.id)) in at.type_pairs:
                return '(.b typesEqual)' if isinstance(op, ast.Eq) else '(.b (!typesEqual))'
        if type(op) in CMPF:
            return f'({CMPF[type(op)]} {tr(l, at)} {tr(r, at)})'
    raise Skip(f'expression outside the subset: {ast.unparse(e)}')


def cond(e, at):
    return 'false' if e is None else f'PyV.truthy {tr(e, at)}'


def body_of(fn):
    b = list(fn.body)
    if b and isinstance(b[0], ast.Expr) and isinstance(b[0].value, ast.Constant) and isinstance(b[0].value.value, str):
        b = b[1:]
    return b


def raise_class(stmt):
    if isinstance(stmt, ast.Raise) and isinstance(stmt.exc, ast.Call) and isinstance(stmt.exc.func, ast.Name):
        return stmt.exc.func.id
    if isinstance(stmt, ast.Raise) and isinstance(stmt.exc, ast.Name):
        return stmt.exc.id
    return None


def if_raise(stmt):
    """`if <test>: raise X(...)` -> (test, 'X')"""
    if isinstance(stmt, ast.If) and not stmt.orelse and len(stmt.body) == 1 and raise_class(stmt.body[0]):
        return stmt.test, raise_class(stmt.body[0])
    return None


def calls_name(node, name):
    return any(isinstance(x, ast.Call) and isinstance(x.func, ast.Name) and x.func.id == name for x in ast.walk(node))


def mentions(node, text):
    return text in ast.unparse(node)


def lookup_of(stmt):
    """`matching_params = list(filter(lambda p, a=annotation: <test>, doc.params))` -> (is <test> exactly `p.arg_name == a`, source of
    the lambda); None: another statement.  The documented entries that count for a parameter are those whose name EQUALS the parameter's
    name: any other test (a normalised, stripped, case-folded, prefix … comparison) is reported as `paramLookupIsNameEquality = false`."""
    if not (isinstance(stmt, ast.Assign) and len(stmt.targets) == 1 and ast.unparse(stmt.targets[0]) == 'matching_params'):
        return None
    v = stmt.value
    if not (isinstance(v, ast.Call) and ast.unparse(v.func) == 'list' and len(v.args) == 1 and not v.keywords):
        return None
    f = v.args[0]
    if not (isinstance(f, ast.Call) and ast.unparse(f.func) == 'filter' and len(f.args) == 2 and not f.keywords
            and ast.unparse(f.args[1]) == 'doc.params' and isinstance(f.args[0], ast.Lambda)):
        return None
    lam = f.args[0]
    a = lam.args
    if a.vararg or a.kwarg or a.kwonlyargs or a.posonlyargs or not (1 <= len(a.args) <= 2):
        return False, ast.unparse(lam)
    p = a.args[0].arg
    if len(a.args) == 2:
        if len(a.defaults) != 1 or ast.unparse(a.defaults[0]) != 'annotation':
            return False, ast.unparse(lam)
        key = a.args[1].arg
    else:
        key = 'annotation'
    if key == p:
        return False, ast.unparse(lam)
    b = lam.body
    exact = (isinstance(b, ast.Compare) and len(b.ops) == 1 and isinstance(b.ops[0], ast.Eq)
             and sorted((ast.unparse(b.left), ast.unparse(b.comparators[0]))) == sorted((f'{p}.arg_name', key)))
    return exact, ast.unparse(lam).replace('-/', '- /').replace('\n', ' ')



PARTS = ('fget', 'fset', 'fdel')
SLOT_METHOD = {'getter': 'fget', 'setter': 'fset', 'deleter': 'fdel'}


def get_wrapped_is_guarded_decorator(tree):
    """`_get_wrapped(prop, decorator)` is `return decorator(prop) if prop is not None else None` (names of the parameters as they are)"""
    try:
        fn = find_func(tree, '_get_wrapped')
    except Skip:
        return None
    a = [x.arg for x in fn.args.args]
    b = body_of(fn)
    if len(a) != 2 or len(b) != 1 or not isinstance(b[0], ast.Return):
        return None
    pr, de = a
    ok = ast.unparse(b[0].value) in (f'{de}({pr}) if {pr} is not None else None', f'None if {pr} is None else {de}({pr})')
    return (pr, de) if ok else None


def property_parts(branch_body, prop_expr, cls_arg, var, gw):
    """Abstract interpretation of the body of `elif isinstance(attr_value, property):` in `for_all_methods.decorate`.
    Abstract values: ('P',) the property found in the class; ('acc', part) one of its accessors; ('dec', part) that accessor passed
    through `decorator` (None stays None); ('new', {slot: value}) a property object built here, per slot what it holds: ('dec', part) /
    ('acc', part) / None.  Returns (parts whose slot of the property that replaces the attribute holds ('dec', <the same part>),
    is the attribute replaced at all).  Anything else: Skip."""
    env = {prop_expr: ('P',)}

    def ev(e, guards=frozenset()):
        u = ast.unparse(e)
        if isinstance(e, ast.Name) and e.id in env:
            return env[e.id]
        if isinstance(e, ast.Constant) and e.value is None:
            return None
        if isinstance(e, ast.Attribute) and e.attr in PARTS and ev(e.value) == ('P',):
            return ('acc', e.attr)
        if isinstance(e, ast.IfExp) and isinstance(e.test, ast.Compare) and len(e.test.ops) == 1 \
                and ast.unparse(e.test.comparators[0]) == 'None' and isinstance(e.test.ops[0], (ast.Is, ast.IsNot)):
            # `decorator(<acc>) if <acc> is not None else None` (or the mirrored form): the accessor, decorated when there is one
            a = ev(e.test.left)
            then, other = (e.body, e.orelse) if isinstance(e.test.ops[0], ast.IsNot) else (e.orelse, e.body)
            if isinstance(a, tuple) and a[0] == 'acc' and ev(other) is None:
                v = ev(then, guards | {a[1]})
                if v in (('dec', a[1]), ('acc', a[1])):
                    return v
        if isinstance(e, ast.Call):
            f = e.func
            kws = {k.arg: k.value for k in e.keywords}
            if isinstance(f, ast.Name) and f.id == 'decorator' and len(e.args) == 1 and not e.keywords:
                a = ev(e.args[0])
                if isinstance(a, tuple) and a[0] == 'acc':
                    if a[1] not in guards:
                        raise Skip(f'for_all_methods: `{u}` without a test that the accessor is not None')
                    return ('dec', a[1])
            if isinstance(f, ast.Name) and f.id == '_get_wrapped' and gw is not None:
                args = dict(zip(gw, e.args))
                args.update(kws)
                if set(args) == set(gw) and ast.unparse(args[gw[1]]) == 'decorator':
                    a = ev(args[gw[0]])
                    if isinstance(a, tuple) and a[0] == 'acc':
                        return ('dec', a[1])
            if isinstance(f, ast.Name) and f.id == 'property':
                slots = dict(zip(PARTS + ('doc',), e.args))
                slots.update(kws)
                if not set(slots) <= set(PARTS + ('doc',)):
                    raise Skip(f'for_all_methods: `{u}`: unknown argument of property()')
                return ('new', {p: (ev(slots[p], guards) if p in slots else None) for p in PARTS})
            if isinstance(f, ast.Attribute) and f.attr in SLOT_METHOD and len(e.args) == 1 and not e.keywords:
                b = ev(f.value, guards)
                if b == ('P',):
                    b = ('new', {p: ('acc', p) for p in PARTS})
                if isinstance(b, tuple) and b[0] == 'new':
                    return ('new', {**b[1], SLOT_METHOD[f.attr]: ev(e.args[0], guards)})
        raise Skip(f'for_all_methods: expression outside the subset in the property branch: {u[:60]}')

    replaced = [None]

    def run(stmts, guards):
        for st in stmts:
            if isinstance(st, ast.Assign) and len(st.targets) == 1 and isinstance(st.targets[0], ast.Name):
                env[st.targets[0].id] = ev(st.value, guards)
            elif isinstance(st, ast.If) and not st.orelse and isinstance(st.test, ast.Compare) and len(st.test.ops) == 1 \
                    and isinstance(st.test.ops[0], ast.IsNot) and ast.unparse(st.test.comparators[0]) == 'None' \
                    and isinstance(ev(st.test.left), tuple) and ev(st.test.left)[0] == 'acc':
                # `if <P>.<part> is not None: <statements>` — when the accessor is None the slot keeps what it held (None for the part)
                part = ev(st.test.left)[1]
                before = dict(env)
                run(st.body, guards | {part})
                for k, v in list(env.items()):
                    if before.get(k) != v:
                        # only a property whose slot `part` changed from the (None) accessor to its decorated form may differ
                        ok = isinstance(v, tuple) and v[0] == 'new' and isinstance(before.get(k), tuple) and before[k][0] in ('new', 'P')
                        old = before[k][1] if before[k][0] == 'new' else {p: ('acc', p) for p in PARTS}
                        if not ok or any(v[1][p] != old[p] for p in PARTS if p != part) or old[part] != ('acc', part):
                            raise Skip('for_all_methods: a guarded statement of the property branch changes more than the guarded slot')
            elif isinstance(st, ast.Expr) and isinstance(st.value, ast.Call) and ast.unparse(st.value.func) == 'setattr' \
                    and len(st.value.args) == 3 and not st.value.keywords and not guards \
                    and [ast.unparse(a) for a in st.value.args[:2]] == [cls_arg, var]:
                replaced[0] = ev(st.value.args[2])
            else:
                raise Skip(f'for_all_methods: statement outside the subset in the property branch: {ast.unparse(st)[:60]}')
    run(branch_body, frozenset())
    new = replaced[0]
    if new is None:
        return [], False
    if new == ('P',):
        return [], True
    if not (isinstance(new, tuple) and new[0] == 'new'):
        raise Skip('for_all_methods: the property branch stores something that is not a property')
    for p in PARTS:
        v = new[1][p]
        if v not in (('dec', p), ('acc', p)):
            # a slot that loses its accessor or gets another one: not a question of docstring checking alone; leave it to the call layer
            raise Skip(f'for_all_methods: the new property does not keep the accessor `{p}` in its slot')
    return [p for p in PARTS if new[1][p] == ('dec', p)], True


MUTABLE_CALLS = {'set', 'dict', 'list', 'WeakSet', 'WeakKeyDictionary', 'WeakValueDictionary', 'defaultdict', 'OrderedDict', 'deque',
                 'Counter', 'Lock', 'RLock', 'local', 'ContextVar'}
CACHES = {'cache', 'lru_cache', 'cached_property', 'memoize', 'cached'}


def is_mutable_expr(v):
    if isinstance(v, (ast.List, ast.Dict, ast.Set, ast.ListComp, ast.DictComp, ast.SetComp)):
        return True
    if isinstance(v, ast.Call):
        name = v.func.attr if isinstance(v.func, ast.Attribute) else (v.func.id if isinstance(v.func, ast.Name) else '')
        return name in MUTABLE_CALLS or name[:1].isupper()        # an instance of some class
    return False


def decoration_state(rel, tree):
    """what could carry information from one decoration to the next in one module"""
    out = []
    defs = set()

    def module_level(stmts):          # the statements executed at import time (also inside try / if / with / for at module level)
        for st in stmts:
            yield st
            if not isinstance(st, (ast.FunctionDef, ast.AsyncFunctionDef, ast.ClassDef)):
                for field in ('body', 'orelse', 'finalbody'):
                    yield from module_level(getattr(st, field, []) or [])
                for h in getattr(st, 'handlers', []) or []:
                    yield from module_level(h.body)
    for st in module_level(tree.body):
        if isinstance(st, (ast.FunctionDef, ast.AsyncFunctionDef, ast.ClassDef)):
            defs.add(st.name)
    for st in module_level(tree.body):
        tgts, val = [], None
        if isinstance(st, ast.Assign):
            tgts, val = st.targets, st.value
        elif isinstance(st, (ast.AnnAssign, ast.AugAssign)):
            tgts, val = [st.target], st.value
        for t in tgts:
            if isinstance(t, ast.Attribute) and isinstance(t.value, ast.Name) and t.value.id in defs:
                out.append(f'{rel}: attribute {ast.unparse(t)} set on a function / class')
            elif val is not None and is_mutable_expr(val) and not (isinstance(t, ast.Name) and t.id.isupper() and isinstance(val, ast.List)
                                                                   and all(isinstance(e, ast.Constant) for e in val.elts)):
                out.append(f'{rel}: module-level mutable binding {ast.unparse(t)}')
    for n in ast.walk(tree):
        if isinstance(n, (ast.Global, ast.Nonlocal)):
            out.append(f'{rel}: {"global" if isinstance(n, ast.Global) else "nonlocal"} {", ".join(n.names)}')
        if isinstance(n, (ast.FunctionDef, ast.AsyncFunctionDef)):
            for d in n.decorator_list:
                f = d.func if isinstance(d, ast.Call) else d
                name = f.attr if isinstance(f, ast.Attribute) else (f.id if isinstance(f, ast.Name) else '')
                if name in CACHES:
                    out.append(f'{rel}: {n.name} is decorated with {name}')
            for dflt in list(n.args.defaults) + [d for d in n.args.kw_defaults if d is not None]:
                if is_mutable_expr(dflt):
                    out.append(f'{rel}: {n.name} has a mutable default argument')
    return out


def own_docstring_facts(tree):
    """DecoratedFunction: (the parsed docstring is `parse(<func>.__doc__)`, raw_doc returns `<func>.__doc__`) where <func> is the
    constructor's argument / `self._func` (one level of local or attribute aliasing is followed)"""
    init = find_func(tree, '__init__', 'DecoratedFunction')
    fn_arg = init.args.args[1].arg if len(init.args.args) >= 2 else None
    own = {f'{fn_arg}.__doc__'}
    attr_alias = {}
    for st in init.body:
        if isinstance(st, ast.Assign) and len(st.targets) == 1:
            t, v = ast.unparse(st.targets[0]), ast.unparse(st.value)
            if v == fn_arg and t.startswith('self.'):
                own.add(f'{t}.__doc__')
            if v in own:
                own.add(t)
                attr_alias[t] = v
    parsed_own = None
    for n in ast.walk(init):
        if isinstance(n, ast.Assign) and ast.unparse(n.targets[0]) == 'self._docstring' and isinstance(n.value, ast.Call) \
                and ast.unparse(n.value.func) == 'parse':
            ok = len(n.value.args) + len(n.value.keywords) == 1 and ast.unparse((n.value.args + [k.value for k in n.value.keywords])[0]) in own
            parsed_own = ok if parsed_own is None else (parsed_own and ok)
    try:
        rd = find_func(tree, 'raw_doc', 'DecoratedFunction')
        b = body_of(rd)
        raw_own = len(b) == 1 and isinstance(b[0], ast.Return) and ast.unparse(b[0].value) in own
    except Skip:
        raw_own = False
    return bool(parsed_own), raw_own


def gen_docstring(repo):
    out = [HEADER.format(rel=', '.join((F_PED, F_DOC, F_CLS, F_DF))), PRELUDE]

    # ------------------------------------------------------------------ pedantic.decorator
    t_ped = ast.parse(src(repo, F_PED))
    ped = find_func(t_ped, 'pedantic')
    decs = [n for n in ped.body if isinstance(n, ast.FunctionDef) and n.name == 'decorator']
    if len(decs) != 1:
        raise Skip('pedantic: no inner function `decorator`')
    dbody = body_of(decs[0])
    at = Atoms(names={'require_docstring': '(.b requireDocstring)'}, lens={'decorated_func.docstring.params': 'numDocParams'},
               noneness={'decorated_func.docstring': ('docstringNotNone', False)})
    guard_idx, trig, trig_src = None, None, None
    for k, s in enumerate(dbody):
        if isinstance(s, ast.If) and not s.orelse and len(s.body) == 1 and isinstance(s.body[0], ast.Expr) \
                and calls_name(s.body[0], '_check_docstring'):
            guard_idx, trig, trig_src = k, cond(s.test, at), ast.unparse(s.test)
        elif isinstance(s, ast.Expr) and calls_name(s, '_check_docstring'):
            guard_idx, trig, trig_src = k, 'true', '(unguarded call)'
    nested = [s for s in dbody if isinstance(s, (ast.FunctionDef, ast.AsyncFunctionDef))]
    in_wrappers = any(calls_name(n, '_check_docstring') for n in nested)
    if guard_idx is None:
        if any(calls_name(s, '_check_docstring') for s in dbody if s not in nested):
            raise Skip('decorator: `_check_docstring` is called in a shape outside the subset')
        trig, trig_src = 'false', '(no call of _check_docstring in decorator)'
    disabled = bool(dbody) and ast.unparse(dbody[0]) == 'if not is_enabled():\n    return f'
    before_ok = guard_idx is not None and not in_wrappers
    if guard_idx is not None:
        for k, s in enumerate(dbody[:guard_idx]):
            if isinstance(s, (ast.FunctionDef, ast.AsyncFunctionDef, ast.Return)):
                before_ok = False
            if k > 0 and any(isinstance(x, ast.Return) for x in ast.walk(s)):
                before_ok = False
    req = find_func(t_ped, 'pedantic_require_docstring')
    rb = body_of(req)
    flag = None
    if len(rb) == 1 and isinstance(rb[0], ast.Return) and isinstance(rb[0].value, ast.Call) \
            and isinstance(rb[0].value.func, ast.Name) and rb[0].value.func.id == 'pedantic':
        kws = {k.arg: k.value for k in rb[0].value.keywords}
        if ast.unparse(kws.get('func', ast.Constant(0))) == 'func' and isinstance(kws.get('require_docstring'), ast.Constant) \
                and isinstance(kws['require_docstring'].value, bool):
            flag = kws['require_docstring'].value
    if flag is None:
        raise Skip('pedantic_require_docstring is not `return pedantic(func=func, require_docstring=<bool>)`')
    t_cls = ast.parse(src(repo, F_CLS))
    cb = body_of(find_func(t_cls, 'pedantic_class_require_docstring'))
    cls_ok = len(cb) == 1 and ast.unparse(cb[0]) == 'return for_all_methods(decorator=pedantic_require_docstring)(cls=cls)'
    pcb = body_of(find_func(t_cls, 'pedantic_class'))
    plain_ok = len(pcb) == 1 and ast.unparse(pcb[0]) == 'return for_all_methods(decorator=pedantic)(cls=cls)'
    # for_all_methods.decorate: what may end it before the loop over cls.__dict__, and what the loop does with a function
    fam = find_func(t_cls, 'for_all_methods')
    inner = [n for n in body_of(fam) if isinstance(n, ast.FunctionDef)]
    if len(inner) != 1 or not inner[0].args.args:
        raise Skip('for_all_methods: expected one inner function taking the class')
    dec_fn = inner[0]
    cls_arg = dec_fn.args.args[0].arg
    fbody = body_of(dec_fn)
    loops = [k for k, st in enumerate(fbody) if isinstance(st, ast.For) and ast.unparse(st.iter) == f'{cls_arg}.__dict__']
    early, decorates_every = [], False
    fn_types, prop_parts, prop_replaced, prop_branch = [], [], False, False
    if len(loops) != 1:
        early.append(f'<no single loop over {cls_arg}.__dict__>')
    else:
        for st in fbody[:loops[0]]:
            if isinstance(st, ast.If) and any(isinstance(x, ast.Return) for b in st.body + st.orelse for x in ast.walk(b)):
                if ast.unparse(st.test) != 'not is_enabled()':
                    early.append(ast.unparse(st.test).replace('-/', '- /').replace('\n', ' '))
            elif any(isinstance(x, ast.Return) for x in ast.walk(st)) and not isinstance(st, (ast.FunctionDef, ast.AsyncFunctionDef)):
                early.append(ast.unparse(st)[:60].replace('-/', '- /').replace('\n', ' '))
        loop_ = fbody[loops[0]]
        var = ast.unparse(loop_.target)
        lbody = list(loop_.body)
        if len(lbody) == 2 and ast.unparse(lbody[0]) == f'attr_value = getattr({cls_arg}, {var})' and isinstance(lbody[1], ast.If):
            i1 = lbody[1]
            decorates_every = (ast.unparse(i1.test) == 'isinstance(attr_value, (types.FunctionType, types.MethodType))'
                               and [ast.unparse(x) for x in i1.body] == [f'setattr({cls_arg}, {var}, decorator(attr_value))'])
            # the classes of the function branch: `isinstance(attr_value, <class> | (<classes>))` whose body hands the value to the decorator
            t = i1.test
            if isinstance(t, ast.Call) and ast.unparse(t.func) == 'isinstance' and len(t.args) == 2 and ast.unparse(t.args[0]) == 'attr_value' \
                    and [ast.unparse(x) for x in i1.body] == [f'setattr({cls_arg}, {var}, decorator(attr_value))']:
                elts = t.args[1].elts if isinstance(t.args[1], ast.Tuple) else [t.args[1]]
                fn_types = sorted({ast.unparse(e).split('.')[-1] for e in elts})
            # the property branch
            rest = i1.orelse
            if len(rest) == 1 and isinstance(rest[0], ast.If) and ast.unparse(rest[0].test) == 'isinstance(attr_value, property)' \
                    and not rest[0].orelse:
                prop_branch = True
                prop_parts, prop_replaced = property_parts(rest[0].body, 'attr_value', cls_arg, var, get_wrapped_is_guarded_decorator(t_cls))
            elif rest:
                raise Skip('for_all_methods: the branch after the function branch is not `elif isinstance(attr_value, property):`')
    early_l = '[' + ', '.join(lean_str(e) for e in early) + ']'
    out.append(f'''
/-! ### `for_all_methods` / the class shortcuts (class_decorators.py) -/

/-- `pedantic_class(cls)` is `for_all_methods(decorator=pedantic)(cls=cls)` -/
def plainClassShortcutUsesPedantic : Bool := {lean_bool(plain_ok)}
/-- conditions under which `for_all_methods(..)(cls)` returns BEFORE the loop over `cls.__dict__`, other than `not is_enabled()`: a class
    for which one of them holds is handed back with none of its own methods decorated — none docstring-checked (e.g. a test that an
    inherited marker of an already decorated base class satisfies) -/
def forAllMethodsEarlyReturns : List String := {early_l}
/-- the loop is `for attr in cls.__dict__:` — the class's OWN attributes, whatever its bases are — and it replaces every attribute
    that is a function by `decorator(<the function>)` (an exception raised by the decorator leaves the class decorator) -/
def forAllMethodsDecoratesEveryFunction : Bool := {lean_bool(decorates_every)}
/-- the classes of the test of that branch (`isinstance(attr_value, (…))`, last component of each dotted name, sorted): `getattr(cls, attr)`
    is a `FunctionType` for a plain function and for a `staticmethod`, a `MethodType` for a `classmethod` -/
def forAllMethodsFunctionTypes : List String := [{', '.join(lean_str(x) for x in fn_types)}]
/-- there is a branch `elif isinstance(attr_value, property):` and it stores a property under the attribute's name -/
def forAllMethodsHandlesProperties : Bool := {lean_bool(prop_branch and prop_replaced)}
/-- the accessors of a property that are passed through `decorator` (when they are not None) and sit, decorated, in the slot of the
    same name of the property the class gets back — by abstract interpretation of the property branch (`property(fget=…, fset=…,
    fdel=…)` of `_get_wrapped(…)` / guarded `decorator(…)` values, or a chain of `.getter(…)` / `.setter(…)` / `.deleter(…)`).  An accessor
    that is not listed keeps its undecorated function: its docstring is never checked. -/
def forAllMethodsPropertyParts : List String := [{', '.join(lean_str(x) for x in prop_parts)}]
''')
    out.append(f'''
/-! ### `pedantic.decorator` (fn_deco_pedantic.py) -/

/-- the test of the `if` that guards `_check_docstring(decorated_func=decorated_func)`, as Python parses it:
    `{trig_src}` -/
def trigger (docstringNotNone requireDocstring : Bool) (numDocParams : Nat) : Bool :=
  {trig}
/-- the guarded `_check_docstring` call is a statement of `decorator` itself, placed before the wrappers are defined and
    before any `return` (other than the one for a disabled pedantic); no wrapper body calls `_check_docstring` -/
def checkRunsBeforeWrapperIsBuilt : Bool := {lean_bool(before_ok)}
/-- `decorator` starts with `if not is_enabled(): return f` -/
def disabledReturnsOriginal : Bool := {lean_bool(disabled)}
/-- `pedantic_require_docstring(func)` is `pedantic(func=func, require_docstring=<this>)` -/
def requireShortcutFlag : Bool := {lean_bool(flag)}
/-- `pedantic_class_require_docstring(cls)` is `for_all_methods(decorator=pedantic_require_docstring)(cls=cls)` -/
def classShortcutUsesRequireDocstring : Bool := {lean_bool(cls_ok)}
''')

    # ------------------------------------------------------------------ DecoratedFunction / state between decorations
    t_doc = ast.parse(src(repo, F_DOC))
    t_df = ast.parse(src(repo, F_DF))
    parsed_own, raw_own = own_docstring_facts(t_df)
    state = decoration_state(F_PED, t_ped) + decoration_state(F_DOC, t_doc) + decoration_state(F_DF, t_df)
    out.append(f'''
/-! ### where the docstring comes from (decorated_function.py) and what survives a decoration -/

/-- `DecoratedFunction.docstring` is `parse(func.__doc__)`: the docstring the function itself carries (not `inspect.getdoc(func)`, which
    falls back to the docstring of the method a base class defines under the same name) -/
def parsedDocstringIsOwnDoc : Bool := {lean_bool(parsed_own)}
/-- `DecoratedFunction.raw_doc` returns `self._func.__doc__` -/
def rawDocIsOwnDoc : Bool := {lean_bool(raw_own)}
/-- everything in fn_deco_pedantic.py / check_docstring.py / decorated_function.py that could carry information from one decoration to a
    later one: module-level mutable bindings (other than lists of constants), attributes set on functions, `global` / `nonlocal`
    statements, caching decorators, mutable default arguments.  Empty: the verdict on a function depends on that function alone —
    executing the same `def` again (a factory, a loop, a reloaded module: same code object, new annotations) is checked again. -/
def decorationState : List String := [{', '.join(lean_str(x) for x in state)}]
''')

    # ------------------------------------------------------------------ _assert_docstring_is_complete
    comp = body_of(find_func(t_doc, '_assert_docstring_is_complete'))
    at = Atoms(names={'num_documented_args': '(.i numDocumented)', 'num_taken_args': '(.i numTaken)'},
               noneness={'func.raw_doc': ('rawDocIsNone', True), 'func.docstring.returns': ('docReturnsIsNone', True),
                         "func.annotations['return']": ('retAnnIsNone', True)},
               equalities={('func.raw_doc', ''): 'rawDocIsEmpty'},
               membership={('return', 'func.annotations'): 'retInAnnotations'})
    assigns = {ast.unparse(s) for s in comp if isinstance(s, ast.Assign)}
    counts_ok = {'num_documented_args = len(func.docstring.params)',
                 "num_taken_args = len([a for a in func.annotations if a != 'return'])"} <= assigns
    if not counts_ok:
        raise Skip('_assert_docstring_is_complete: the two counts are not computed as expected')
    tests = []
    for s in comp:
        if isinstance(s, ast.Assign):
            continue
        ir = if_raise(s)
        if ir is None:
            raise Skip(f'_assert_docstring_is_complete: statement outside the subset: {ast.unparse(s)[:60]}')
        tests.append(ir)
    if len(tests) > 4:
        raise Skip('_assert_docstring_is_complete: more than four checks')
    out.append('\n/-! ### `_assert_docstring_is_complete` (check_docstring.py): the `if <test>: raise <exception>` statements in order -/\n')
    sig = '(rawDocIsNone rawDocIsEmpty : Bool) (numDocumented numTaken : Nat) (docReturnsIsNone retInAnnotations retAnnIsNone : Bool)'
    for k in range(4):
        test, exc = tests[k] if k < len(tests) else (None, 'PedanticDocstringException')
        doc = ast.unparse(test).replace('\n', ' ') if test is not None else '(no such statement)'
        out.append(f'''
/-- `{doc}` -/
def completeTest{k + 1} {sig} : Bool :=
  {cond(test, at)}
def completeExc{k + 1} : String := {lean_str(exc)}''')
    out.append(f'''
/-- number of `if …: raise …` statements found (the model uses exactly four) -/
def completeNumTests : Nat := {len(tests)}
/-- `num_documented_args = len(func.docstring.params)` and `num_taken_args = len([a for a in func.annotations if a != 'return'])` -/
def completeCountsAsExpected : Bool := {lean_bool(counts_ok)}
''')

    # ------------------------------------------------------------------ _check_docstring
    chk = body_of(find_func(t_doc, '_check_docstring'))
    loops = [s for s in chk if isinstance(s, ast.For)]
    if len(loops) != 1 or ast.unparse(loops[0].iter) != 'decorated_func.annotations' or ast.unparse(loops[0].target) != 'annotation':
        raise Skip('_check_docstring: expected one loop `for annotation in decorated_func.annotations`')
    loop = loops[0]
    li = chk.index(loop)
    for s in chk[li + 1:]:
        raise Skip('_check_docstring: statements after the loop')
    complete_before = any(ast.unparse(s) == '_assert_docstring_is_complete(func=decorated_func)' for s in chk[:li])
    setup = [ast.unparse(s) for s in chk[:li]]
    if 'doc = decorated_func.docstring' not in setup:
        raise Skip('_check_docstring: `doc` is not set up as expected')
    # what the evaluation context starts from: nothing, or a COPY of the globals of the module that defines the function
    ctx_init = [s.value for s in chk[:li] if isinstance(s, ast.Assign) and len(s.targets) == 1 and ast.unparse(s.targets[0]) == 'context']
    if len(ctx_init) != 1:
        raise Skip('_check_docstring: `context` is not assigned exactly once before the loop')
    for st in setup:
        if st not in ('doc = decorated_func.docstring', 'err = decorated_func.err', '_assert_docstring_is_complete(func=decorated_func)') \
                and not st.startswith('context = '):
            raise Skip(f'_check_docstring: statement outside the subset before the loop: {st[:60]}')
    ci = ast.unparse(ctx_init[0])
    if ci in ('{}', 'dict()'):
        seeded = False
    elif ci in ('dict(decorated_func.globals)', '{**decorated_func.globals}', 'decorated_func.globals.copy()'):
        seeded = True
    else:
        raise Skip(f'_check_docstring: `context = {ci[:50]}` is outside the subset')
    if seeded:
        # `DecoratedFunction.globals` is the `__globals__` of the (unwrapped) function
        gl = find_func(ast.parse(src(repo, F_DF)), 'globals', 'DecoratedFunction')
        gb = body_of(gl)
        if not (len(gb) == 1 and isinstance(gb[0], ast.Return)
                and ast.unparse(gb[0].value) in ("getattr(inspect.unwrap(self._func), '__globals__', {})", 'self._func.__globals__',
                                                 'inspect.unwrap(self._func).__globals__')):
            raise Skip('DecoratedFunction.globals is not the __globals__ of the function')
    lb = list(loop.body)
    if not lb or ast.unparse(lb[0]) != 'expected_type = decorated_func.annotations[annotation]':
        raise Skip('_check_docstring: the loop does not start with `expected_type = decorated_func.annotations[annotation]`')
    lb = lb[1:]
    ctx_first = bool(lb) and ast.unparse(lb[0]) == '_update_context(context=context, type_=expected_type)'
    if ctx_first:
        lb = lb[1:]
    if any(calls_name(s, '_update_context') for s in lb):
        raise Skip('_check_docstring: `_update_context` is called somewhere else in the loop')
    at = Atoms(noneness={'decorated_func.annotations[annotation]': ('annIsNone', True), 'matching_params[0].type_name': ('typeNameIsNone', True)},
               equalities={('annotation', 'return'): 'isReturn'},
               lens={'doc.returns.args': 'numReturnArgs', 'matching_params': 'numMatching'},
               type_pairs=(frozenset(('actual_return_type', 'expected_type')), frozenset(('expected_type', 'actual_param_type'))))
    # the if / elif chain
    branches = []
    if len(lb) > 1:
        raise Skip('_check_docstring: more than one statement after the context update')
    node = lb[0] if lb else None
    while node is not None:
        if not isinstance(node, ast.If):
            raise Skip('_check_docstring: loop body is not an if / elif chain')
        branches.append((node.test, node.body))
        if not node.orelse:
            node = None
        elif len(node.orelse) == 1 and isinstance(node.orelse[0], ast.If):
            node = node.orelse[0]
        else:
            raise Skip('_check_docstring: `else` branch in the loop')
    ret_b = [b for b in branches if any(mentions(s, 'doc.returns') for s in b[1])]
    par_b = [b for b in branches if any(mentions(s, 'doc.params') for s in b[1])]
    if len(ret_b) > 1 or len(par_b) > 1 or len(ret_b) + len(par_b) != len(branches) or (ret_b and par_b and branches.index(ret_b[0]) > branches.index(par_b[0])):
        raise Skip('_check_docstring: branches of the loop are not (Returns, parameters)')
    ret_test = ret_b[0][0] if ret_b else None
    par_test = par_b[0][0] if par_b else None
    par_cond = cond(par_test, at)       # the model tries the Returns branch first (`if` / `elif`)
    args_test = args_exc = rtype_test = rtype_exc = None
    ret_idx = 1
    if ret_b:
        seen_parse = False
        for s in ret_b[0][1]:
            ir = if_raise(s)
            if ir and mentions(ir[0], 'doc.returns.args'):
                args_test, args_exc = ir
            elif ir and isinstance(ir[0], ast.Compare) and {n.id for n in ast.walk(ir[0]) if isinstance(n, ast.Name)} == {'actual_return_type', 'expected_type'}:
                rtype_test, rtype_exc = ir
            elif isinstance(s, ast.Assign) and ast.unparse(s.targets[0]) == 'actual_return_type':
                v = s.value
                ok = isinstance(v, ast.Call) and ast.unparse(v.func) == '_parse_documented_type'
                kws = {k.arg: k.value for k in v.keywords} if ok else {}
                t = kws.get('type_')
                if not (ok and isinstance(t, ast.Subscript) and ast.unparse(t.value) == 'doc.returns.args'
                        and isinstance(t.slice, ast.Constant) and isinstance(t.slice.value, int) and t.slice.value >= 0
                        and ast.unparse(kws.get('context', ast.Constant(0))) == 'context'):
                    raise Skip('_check_docstring: the documented return type is not parsed from doc.returns.args[<int>]')
                ret_idx = t.slice.value
                seen_parse = True
            else:
                raise Skip(f'_check_docstring: statement outside the subset in the Returns branch: {ast.unparse(s)[:60]}')
        if not seen_parse:
            raise Skip('_check_docstring: the Returns branch does not parse the documented type')
    match_test = match_exc = ptype_test = ptype_exc = None
    lookup_exact, lookup_src = False, '(no such statement)'
    if par_b:
        FILTER = 'matching_params = list(filter(<lookup>, doc.params))'
        need = {FILTER: False,
                'docstring_param = matching_params[0]': False,
                'actual_param_type = _parse_documented_type(type_=docstring_param.type_name, context=context, err=err)': False}
        for s in par_b[0][1]:
            ir = if_raise(s)
            u = ast.unparse(s)
            lk = lookup_of(s)
            if lk is not None:
                u = FILTER
                lookup_exact, lookup_src = lk
            if u in need:
                need[u] = True
            elif ir and mentions(ir[0], 'matching_params'):
                if not need[FILTER] or need['docstring_param = matching_params[0]']:
                    raise Skip('_check_docstring: the matching_params test is not between the filter and its use')
                match_test, match_exc = ir
            elif ir and isinstance(ir[0], ast.Compare) and {n.id for n in ast.walk(ir[0]) if isinstance(n, ast.Name)} == {'actual_param_type', 'expected_type'}:
                ptype_test, ptype_exc = ir
            else:
                raise Skip(f'_check_docstring: statement outside the subset in the parameter branch: {u[:60]}')
        if not all(need.values()):
            raise Skip('_check_docstring: the parameter branch does not filter / index / parse as expected')

    def d(t):
        return ast.unparse(t).replace('\n', ' ') if t is not None else '(no such statement)'
    out.append(f'''
/-! ### `_check_docstring` (check_docstring.py) -/

/-- `_assert_docstring_is_complete(func=decorated_func)` is called before the loop over the annotations -/
def completeCalledBeforeLoop : Bool := {lean_bool(complete_before)}
/-- the loop body starts with `_update_context(context=context, type_=expected_type)` -/
def contextUpdatedFirst : Bool := {lean_bool(ctx_first)}
/-- before the loop the evaluation context is a copy of the globals of the module that defines the function (`context =
    dict(decorated_func.globals)`, `DecoratedFunction.globals` = the function's `__globals__`) — the names the author of the module can
    write in a docstring: type aliases, type variables bound under another identifier than their `__name__` —; false: it starts empty
    (`context = {{}}`) and a documented name is only found when it is the `__name__` of a part of an annotation -/
def contextSeededWithModuleNames : Bool := {lean_bool(seeded)}
/-- test of the Returns branch: `{d(ret_test)}` -/
def returnBranch (isReturn annIsNone : Bool) : Bool :=
  {cond(ret_test, at)}
/-- test of the parameter branch (`elif`): `{d(par_test)}` -/
def paramBranch (isReturn annIsNone : Bool) : Bool :=
  {par_cond}
/-- `{d(args_test)}` -/
def returnArgsBad (numReturnArgs : Nat) : Bool :=
  {cond(args_test, at)}
def excReturnArgs : String := {lean_str(args_exc or 'PedanticDocstringException')}
/-- the documented return type is `doc.returns.args[<this>]` -/
def returnTypeIndex : Nat := {ret_idx}
/-- `{d(rtype_test)}` -/
def returnTypeBad (typesEqual : Bool) : Bool :=
  {cond(rtype_test, at)}
def excReturnType : String := {lean_str(rtype_exc or 'PedanticDocstringException')}
/-- `{d(match_test)}` -/
def matchBad (numMatching : Nat) (typeNameIsNone : Bool) : Bool :=
  {cond(match_test, at)}
def excMatch : String := {lean_str(match_exc or 'PedanticDocstringException')}
/-- the entries that count for a parameter: `matching_params = list(filter(<lookup>, doc.params))` with the lookup
    `{lookup_src}` — is it exactly "the documented name equals the parameter's name"
    (the model's `p.name == n`)?  A comparison of normalised names (stars, underscores, case, blanks stripped or folded, prefixes) is not. -/
def paramLookupIsNameEquality : Bool := {lean_bool(lookup_exact)}
/-- `{d(ptype_test)}` -/
def paramTypeBad (typesEqual : Bool) : Bool :=
  {cond(ptype_test, at)}
def excParamType : String := {lean_str(ptype_exc or 'PedanticDocstringException')}
''')

    # ------------------------------------------------------------------ _parse_documented_type
    pdt = body_of(find_func(t_doc, '_parse_documented_type'))
    if len(pdt) != 2:
        raise Skip('_parse_documented_type: expected the needle test and the try statement')
    ir = if_raise(pdt[0])
    if not (ir and isinstance(ir[0], ast.Compare) and len(ir[0].ops) == 1 and isinstance(ir[0].ops[0], ast.In)
            and isinstance(ir[0].left, ast.Constant) and isinstance(ir[0].left.value, str) and ir[0].left.value
            and ast.unparse(ir[0].comparators[0]) == 'type_'):
        raise Skip("_parse_documented_type: first statement is not `if '<needle>' in type_: raise …`")
    needle, needle_exc = ir[0].left.value, ir[1]
    tr_ = pdt[1]
    if not (isinstance(tr_, ast.Try) and not tr_.orelse and not tr_.finalbody and len(tr_.body) == 1
            and ast.unparse(tr_.body[0]) == 'return eval(type_, globals(), context)'):
        raise Skip('_parse_documented_type: the try body is not `return eval(type_, globals(), context)`')
    handlers = []
    for h in tr_.handlers:
        rc = raise_class(h.body[-1]) if h.body else None
        if rc is None or any(isinstance(x, (ast.Return, ast.Continue, ast.Break)) for s in h.body for x in ast.walk(s)):
            raise Skip('_parse_documented_type: a handler does not end in `raise X(...)`')
        inner = [raise_class(x) for s in h.body[:-1] for x in ast.walk(s) if isinstance(x, ast.Raise)]
        if inner:
            raise Skip('_parse_documented_type: a handler raises in more than one place')
        if h.type is None:
            caught = ['BaseException']
        elif isinstance(h.type, ast.Name):
            caught = [h.type.id]
        elif isinstance(h.type, ast.Tuple) and all(isinstance(x, ast.Name) for x in h.type.elts):
            caught = [x.id for x in h.type.elts]
        else:
            raise Skip('_parse_documented_type: handler type outside the subset')
        handlers += [(c, rc) for c in caught]
    hl = ', '.join(f'({lean_str(c)}, {lean_str(r)})' for c, r in handlers)
    out.append(f'''
/-! ### `_parse_documented_type` (check_docstring.py) -/

/-- `if '<needle>' in type_: raise …` -/
def typingNeedle : String := {lean_str(needle)}
def excTypingNeedle : String := {lean_str(needle_exc)}
/-- the `except` clauses around `eval(type_, globals(), context)` in order: (class caught, class raised in the handler) -/
def evalHandlers : List (String × String) := [{hl}]
''')

    # ------------------------------------------------------------------ _update_context
    uc = body_of(find_func(t_doc, '_update_context'))
    shape_ok = False
    descend = None
    if len(uc) == 2 and isinstance(uc[0], ast.If) and ast.unparse(uc[1]) == 'return context':
        i1 = uc[0]
        if ast.unparse(i1.test) == 'isinstance(type_, str)' and [ast.unparse(s) for s in i1.body] == ['context[type_] = type_'] \
                and len(i1.orelse) == 1 and isinstance(i1.orelse[0], ast.If):
            i2 = i1.orelse[0]
            walk = ('type_arguments = get_type_arguments(cls=type_)\n'
                    'for type_argument in type_arguments:\n'
                    '    if isinstance(type_argument, list):\n'
                    '        for type_arg in type_argument:\n'
                    '            _update_context(context=context, type_=type_arg)\n'
                    '    _update_context(context=context, type_=type_argument)')
            if '\n'.join(ast.unparse(s) for s in i2.body) == walk and len(i2.orelse) == 1 and isinstance(i2.orelse[0], ast.If):
                i3 = i2.orelse[0]
                if ast.unparse(i3.test) == "hasattr(type_, '__name__')" and not i3.orelse \
                        and [ast.unparse(s) for s in i3.body] == ['context[type_.__name__] = type_']:
                    shape_ok = True
                    descend = i2.test
    if not shape_ok:
        raise Skip('_update_context: not the expected if / elif / elif')
    at = Atoms(calls={"str(type_).startswith('typing')": 'strStartsWithTyping', "hasattr(type_, '__origin__')": 'hasOrigin',
                      "hasattr(type_, '__args__')": 'hasArgs'})
    out.append(f'''
/-! ### `_update_context` (check_docstring.py) -/

/-- the function is `if isinstance(type_, str): context[type_] = type_` / `elif <descendTest>: <walk get_type_arguments(type_)>` /
    `elif hasattr(type_, '__name__'): context[type_.__name__] = type_` -/
def contextShapeAsExpected : Bool := {lean_bool(shape_ok)}
/-- test of the branch that walks the type arguments:
    `{ast.unparse(descend)}` -/
def descendTest (strStartsWithTyping hasOrigin hasArgs : Bool) : Bool :=
  {cond(descend, at)}

end PedVerif.Gen.Docstring
''')
    return ''.join(out)


FILES = {'Docstring.lean': gen_docstring}
