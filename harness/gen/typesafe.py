"""Translator part for C10: the type-safe half of pedantic/decorators/cls_deco_frozen_dataclass.py (new_post_init,
validate_types, the three construction paths), read with `ast` only."""
import ast
from extract import Skip, src, find_func, lean_bool, lean_str, HEADER

REL = 'pedantic/decorators/cls_deco_frozen_dataclass.py'
REL_CTX = 'pedantic/get_context.py'


def probe_frames():
    """live: the frames between a dataclass __post_init__ and whoever calls the constructor / dataclasses.replace (innermost first)"""
    import dataclasses, sys
    rec = {}

    @dataclasses.dataclass(frozen=True)
    class _Probe:
        x: int = 0

        def __post_init__(self):
            names, f = [], sys._getframe(1)
            while f is not None and f.f_code.co_name != '_probe_caller':
                names.append(f.f_code.co_name); f = f.f_back
            rec['frames'] = names

    def _probe_caller(how):
        return _Probe() if how == 'ctor' else dataclasses.replace(_Probe.__new__(_Probe), x=1)
    _probe_caller('ctor'); init = rec['frames']
    _probe_caller('replace'); rep = rec['frames']
    if rep[:len(init)] != init:
        raise Skip('dataclasses.replace does not end in __init__')
    return init, rep[len(init):]


def context_facts(repo, tree, npi, vt, ctx_tree=None):
    """which frame validate_types resolves forward references in: the walk of `_get_context_of_caller` (start depth, the tests that
    make a frame internal, the code objects handed in by new_post_init), the default of a user call of validate_types(), the merge
    order of the context dict, and the shape of get_context itself"""
    def calls(fn, name):
        return [n for n in ast.walk(fn) if isinstance(n, ast.Call) and isinstance(n.func, ast.Name) and n.func.id == name]
    def depth_of(call):
        if call.args and isinstance(call.args[0], ast.Constant): return call.args[0].value
        for k in call.keywords:
            if k.arg == 'depth' and isinstance(k.value, ast.Constant): return k.value.value
        if not call.args and not any(k.arg == 'depth' for k in call.keywords): return 1
        raise Skip('get_context: depth is not a constant')
    try:
        helper = find_func(tree, '_get_context_of_caller')
    except Exception:
        raise Skip('no _get_context_of_caller: the frame selection of new_post_init is not in the translated subset')
    if helper is None:
        raise Skip('no _get_context_of_caller: the frame selection of new_post_init is not in the translated subset')
    c1 = calls(npi, '_get_context_of_caller')
    if len(c1) != 1 or calls(npi, 'get_context'): raise Skip('new_post_init: expected exactly one _get_context_of_caller call')
    kw = {k.arg: k.value for k in c1[0].keywords}
    if c1[0].args or set(kw) != {'instance', 'skip'} or not isinstance(kw['skip'], (ast.Tuple, ast.List, ast.Set)):
        raise Skip('new_post_init: call of _get_context_of_caller not understood')
    inst_is_self = ast.unparse(kw['instance']) == 'self'
    codes = []
    for e in kw['skip'].elts:
        if isinstance(e, ast.Attribute) and e.attr == '__code__' and isinstance(e.value, ast.Name): codes.append(e.value.id)
        else: raise Skip('new_post_init: skip entry not understood')
    pv = ast.unparse(next((s for s in npi.body if 'validate_types' in ast.unparse(s)), ast.Pass()))
    passes = '_context=context' in pv.replace(' ', '') and any(isinstance(s, ast.Assign) and ast.unparse(s.targets[0]) == 'context'
                                                                 and c1[0] is s.value for s in npi.body)
    # the helper: frame = sys._getframe(N); while frame.f_back is not None and (t1 or t2 ...): frame = frame.f_back; return {**g, **l}
    body = [s for s in helper.body if not (isinstance(s, ast.Expr) and isinstance(s.value, ast.Constant))]
    if len(body) != 3 or not isinstance(body[0], ast.Assign) or not isinstance(body[1], ast.While) or not isinstance(body[2], ast.Return):
        raise Skip('_get_context_of_caller: unexpected shape')
    m = body[0].value
    if not (ast.unparse(body[0].targets[0]) == 'frame' and isinstance(m, ast.Call) and ast.unparse(m.func) == 'sys._getframe'
            and len(m.args) == 1 and isinstance(m.args[0], ast.Constant)):
        raise Skip('_get_context_of_caller: start frame not understood')
    start = m.args[0].value
    w = body[1]
    if w.orelse or len(w.body) != 1 or ast.unparse(w.body[0]).replace(' ', '') != 'frame=frame.f_back':
        raise Skip('_get_context_of_caller: loop body not understood')
    t = w.test
    stops_at_last, tests = False, []
    if isinstance(t, ast.BoolOp) and isinstance(t.op, ast.And) and len(t.values) == 2 and ast.unparse(t.values[0]) == 'frame.f_back is not None':
        stops_at_last = True
        t = t.values[1]
    disj = t.values if isinstance(t, ast.BoolOp) and isinstance(t.op, ast.Or) else [t]
    names = {'frame.f_code in skip': 'code_in_skip', "frame.f_globals.get('__name__') == 'dataclasses'": 'module_is_dataclasses',
             'any((value is instance for value in frame.f_locals.values()))': 'holds_instance'}
    for d in disj:
        tests.append(names.get(ast.unparse(d), 'other:' + ast.unparse(d)))
    # the disjuncts of an `or` chain of side-effect-free tests: their order does not matter (the model asks `contains`), emit a fixed one
    canon_order = ['code_in_skip', 'module_is_dataclasses', 'holds_instance']
    tests = [t for t in canon_order if t in tests] + [t for t in tests if t not in canon_order]
    r = body[2].value
    if not isinstance(r, ast.Dict) or any(k is not None for k in r.keys): raise Skip('_get_context_of_caller: return not understood')
    hmerge = [ast.unparse(v).replace('frame.f_', '') for v in r.values]
    # validate_types: default context of a user call, merge order
    c2 = calls(vt, 'get_context')
    if len(c2) != 1: raise Skip('validate_types: expected one get_context call')
    guarded = any(isinstance(s, ast.If) and ast.unparse(s.test) == '_context is None' and c2[0] in list(ast.walk(s)) for s in vt.body)
    ctx_assign = [s.value for s in vt.body if isinstance(s, ast.Assign) and isinstance(s.targets[0], ast.Name) and s.targets[0].id == '_context'
                  and isinstance(s.value, ast.Dict)]
    if len(ctx_assign) != 1: raise Skip('validate_types: expected one dict display assigned to _context')
    order = []
    for k, v in zip(ctx_assign[0].keys, ctx_assign[0].values):
        tx = ast.unparse(v)
        if k is None and tx == '_context': order.append('caller')
        elif k is None and tx == 'self.__init__.__globals__': order.append('globals')
        elif k is not None and ast.unparse(k) == 'self.__class__.__name__' and tx == 'self.__class__': order.append('own')
        else: order.append('other:' + tx)
    # get_context itself
    g = find_func(ctx_tree if ctx_tree is not None else ast.parse(src(repo, REL_CTX)), 'get_context')
    mode = 'none'
    for n in ast.walk(g):
        if isinstance(n, ast.While) and 'increase_depth_if_name_matches' in ast.unparse(n.test) and \
                any(ast.unparse(x).replace(' ', '') == 'frame=frame.f_back' for x in n.body):
            mode = 'loop'
        if isinstance(n, ast.If) and 'increase_depth_if_name_matches' in ast.unparse(n.test) and \
                any(ast.unparse(x).replace(' ', '') == 'frame=sys._getframe(depth+1)' for x in n.body):
            mode = 'once' if mode == 'none' else mode
    first = [s for s in g.body if isinstance(s, ast.Assign) and ast.unparse(s).replace(' ', '') == 'frame=sys._getframe(depth)']
    rets = [s for s in g.body if isinstance(s, ast.Return)]
    if len(first) != 1 or len(rets) != 1 or not isinstance(rets[0].value, ast.Dict) or any(k is not None for k in rets[0].value.keys):
        raise Skip('get_context: unexpected shape')
    merge = [ast.unparse(v).replace('frame.f_', '') for v in rets[0].value.values]
    return {'start': start, 'stops': stops_at_last, 'tests': tests, 'codes': codes, 'inst_is_self': inst_is_self, 'passes': passes,
            'hmerge': hmerge, 'd2': depth_of(c2[0]), 'guarded': guarded, 'order': order, 'mode': mode, 'merge': merge}


def gen_typesafe(repo):
    from gen.frozen_ir import canonical_trees
    tree, ctx_tree = canonical_trees(repo)   # locals renamed to the names looked for below (by role): a pure renaming changes nothing
    deco = find_func(tree, 'decorator')
    vt = find_func(tree, 'validate_types')
    npi = find_func(tree, 'new_post_init')
    cw = find_func(tree, 'copy_with')
    dcw = find_func(tree, 'deep_copy_with')

    # validate_types: one loop over `props` (= fields(new_class)), one assert_value_matches_type per field, nothing leaves the loop early
    loops = [s for s in vt.body if isinstance(s, ast.For)]
    if len(loops) != 1:
        raise Skip('validate_types: expected exactly one for loop')
    loop = loops[0]
    iter_txt = ast.unparse(loop.iter)
    props_assign = [s for s in vt.body if isinstance(s, ast.Assign) and isinstance(s.targets[0], ast.Name) and s.targets[0].id == 'props']
    ALL_FIELDS = ('fields(new_class)', 'fields(self)', 'fields(cls_)', 'fields(type(self))', 'fields(self.__class__)')
    over_all_fields = (iter_txt == 'props' and len(props_assign) == 1 and ast.unparse(props_assign[0].value) in ALL_FIELDS) or iter_txt in ALL_FIELDS
    early = any(isinstance(n, (ast.Break, ast.Return, ast.Continue)) for n in ast.walk(loop)) or bool(loop.orelse)
    in_try = any(isinstance(n, ast.Try) for n in ast.walk(vt))
    calls = [n for n in ast.walk(loop) if isinstance(n, ast.Call) and isinstance(n.func, ast.Name) and n.func.id == 'assert_value_matches_type']
    if len(calls) != 1 or calls[0] not in [s.value for s in loop.body if isinstance(s, ast.Expr)]:
        raise Skip('validate_types: the loop body is not one unconditional assert_value_matches_type call')
    kw = {k.arg: ast.unparse(k.value) for k in calls[0].keywords}
    uses_value = kw.get('value') == 'getattr(self, field.name)'
    uses_type = kw.get('type_') == 'field.type'
    fresh_tv = kw.get('type_vars') == '{}'
    passes_ctx = kw.get('context') == '_context'
    ctx_assign = [ast.unparse(s.value) for s in vt.body if isinstance(s, ast.Assign) and isinstance(s.targets[0], ast.Name) and s.targets[0].id == '_context']
    ctx_own = any('self.__class__.__name__: self.__class__' in t and 'self.__init__.__globals__' in t for t in ctx_assign)

    # new_post_init: old hook, then validate_types; installed before dataclass(); only when type_safe
    order = []
    for s in npi.body:
        t = ast.unparse(s)
        if t.startswith('old_post_init('): order.append('old')
        if 'self.validate_types(' in t: order.append('validate')
    installed_before = False
    guarded_by_type_safe = False
    stmts = deco.body
    idx_dc = next((i for i, s in enumerate(stmts) if isinstance(s, ast.Assign) and 'dataclass(**args)(cls_)' in ast.unparse(s.value)), None)
    for i, s in enumerate(stmts):
        if isinstance(s, ast.If) and ast.unparse(s.test) == 'type_safe':
            guarded_by_type_safe = any("setattr(cls_, '__post_init__', new_post_init)" in ast.unparse(x) for x in s.body)
            installed_before = idx_dc is not None and i < idx_dc
    added = []
    for s in stmts:
        if isinstance(s, ast.Assign) and isinstance(s.targets[0], ast.Name) and s.targets[0].id == 'methods_to_add' and isinstance(s.value, ast.List):
            added = [e.id for e in s.value.elts if isinstance(e, ast.Name)]
    cw_ret = [s for s in cw.body if isinstance(s, ast.Return)]
    copy_is_replace = bool(cw_ret) and ast.unparse(cw_ret[-1].value) == 'replace(self, **kwargs)'
    dcw_ret = [s for s in dcw.body if isinstance(s, ast.Return)]
    # … a call of the instance's class with one `**<dict>` argument (the dict written in place or bound to a name first)
    rv = dcw_ret[-1].value if dcw_ret else None
    deep_calls_ctor = (isinstance(rv, ast.Call) and ast.unparse(rv.func) in ('type(self)', 'self.__class__') and not rv.args
                       and len(rv.keywords) == 1 and rv.keywords[0].arg is None)
    shortcut = find_func(tree, 'frozen_type_safe_dataclass')
    shortcut_ok = 'frozen_dataclass(type_safe=True)(cls)' in ast.unparse(shortcut)

    cf = context_facts(repo, tree, npi, vt, ctx_tree)
    init_frames, replace_frames = probe_frames()

    L = [HEADER.format(rel=REL), 'namespace PedVerif.Gen.TypeSafe\n']
    L.append('/-- validate_types: `for field in fields(...)`: every field, in order, nothing leaves the loop early, no try around it -/')
    L.append(f'def validateOverAllFields : Bool := {lean_bool(over_all_fields)}')
    L.append(f'def validateLeavesLoopEarly : Bool := {lean_bool(early)}')
    L.append(f'def validateInTry : Bool := {lean_bool(in_try)}')
    L.append(f'def validateUsesFieldValue : Bool := {lean_bool(uses_value)}')
    L.append(f'def validateUsesFieldType : Bool := {lean_bool(uses_type)}')
    L.append(f'def validateFreshTypeVars : Bool := {lean_bool(fresh_tv)}')
    L.append(f'def validatePassesContext : Bool := {lean_bool(passes_ctx)}')
    L.append(f'def contextHasGlobalsAndOwnClass : Bool := {lean_bool(ctx_own)}')
    L.append('/-- new_post_init: which hooks run, in which order; installed before dataclass() and only when type_safe -/')
    L.append('def postInitOrder : List String := [' + ', '.join(lean_str(x) for x in order) + ']')
    L.append(f'def postInitInstalledBeforeDataclass : Bool := {lean_bool(installed_before)}')
    L.append(f'def postInitOnlyWhenTypeSafe : Bool := {lean_bool(guarded_by_type_safe)}')
    L.append('def methodsAdded : List String := [' + ', '.join(lean_str(x) for x in added) + ']')
    L.append('/-- copy_with = dataclasses.replace (re-enters __init__ -> __post_init__); deep_copy_with calls the constructor -/')
    L.append(f'def copyWithIsReplace : Bool := {lean_bool(copy_is_replace)}')
    L.append(f'def deepCopyCallsConstructor : Bool := {lean_bool(deep_calls_ctor)}')
    L.append(f'def shortcutIsTypeSafe : Bool := {lean_bool(shortcut_ok)}')
    L.append('/-- which frame forward references are resolved in: the frame walk of `_get_context_of_caller` used by new_post_init, the')
    L.append('    default of a user call of validate_types(), the order of the dict display `{**_context, **globals, own class}`, the shape of')
    L.append('    get_context (pedantic/get_context.py), and - live - the frames between __post_init__ and the caller -/')
    L.append(f'def callerStartDepth : Nat := {cf["start"]}')
    L.append(f'def callerWalkStopsAtLastFrame : Bool := {lean_bool(cf["stops"])}')
    L.append('def callerSkipTests : List String := [' + ', '.join(lean_str(x) for x in cf['tests']) + ']')
    L.append('def callerSkipCodes : List String := [' + ', '.join(lean_str(x) for x in cf['codes']) + ']')
    L.append(f'def callerInstanceIsSelf : Bool := {lean_bool(cf["inst_is_self"])}')
    L.append(f'def postInitPassesCallerContext : Bool := {lean_bool(cf["passes"])}')
    L.append('def callerContextMerge : List String := [' + ', '.join(lean_str(x) for x in cf['hmerge']) + ']')
    L.append(f'def validateContextDepth : Nat := {cf["d2"]}')
    L.append(f'def validateContextOnlyWhenNone : Bool := {lean_bool(cf["guarded"])}')
    L.append('def contextMergeOrder : List String := [' + ', '.join(lean_str(x) for x in cf['order']) + ']')
    L.append(f'def getContextSkipMode : String := {lean_str(cf["mode"])}')
    L.append('def getContextMerge : List String := [' + ', '.join(lean_str(x) for x in cf['merge']) + ']')
    L.append('def initFrames : List String := [' + ', '.join(lean_str(x) for x in init_frames) + ']')
    L.append('def replaceFrames : List String := [' + ', '.join(lean_str(x) for x in replace_frames) + ']')
    L.append('\nend PedVerif.Gen.TypeSafe')
    return '\n'.join(L) + '\n'


FILES = {'TypeSafe.lean': gen_typesafe}
