"""Translator part for C10: the type-safe half of pedantic/decorators/cls_deco_frozen_dataclass.py (new_post_init,
validate_types, the three construction paths), read with `ast` only."""
import ast
from extract import Skip, src, find_func, lean_bool, lean_str, HEADER

REL = 'pedantic/decorators/cls_deco_frozen_dataclass.py'


def gen_typesafe(repo):
    tree = ast.parse(src(repo, REL))
    deco = find_func(tree, 'decorator')
    vt = find_func(tree, 'validate_types')
    npi = find_func(tree, 'new_post_init')
    cw = find_func(tree, 'copy_with')
    dcw = find_func(tree, 'deep_copy_with')

    # validate_types: one loop over `props` (= fields(new_class)), one assert_value_matches_type per field, nothing leaves the loop early
    loops = [s for s in vt.body if isinstance(s, ast.For)]
    if len(loops) != 1:
        raise Skip('validate_types: expected exactly one for loop')
    loop = loops[0]
    iter_txt = ast.unparse(loop.iter)
    props_assign = [s for s in vt.body if isinstance(s, ast.Assign) and isinstance(s.targets[0], ast.Name) and s.targets[0].id == 'props']
    over_all_fields = iter_txt == 'props' and len(props_assign) == 1 and ast.unparse(props_assign[0].value) in ('fields(new_class)', 'fields(self)')
    early = any(isinstance(n, (ast.Break, ast.Return, ast.Continue)) for n in ast.walk(loop)) or bool(loop.orelse)
    in_try = any(isinstance(n, ast.Try) for n in ast.walk(vt))
    calls = [n for n in ast.walk(loop) if isinstance(n, ast.Call) and isinstance(n.func, ast.Name) and n.func.id == 'assert_value_matches_type']
    if len(calls) != 1 or calls[0] not in [s.value for s in loop.body if isinstance(s, ast.Expr)]:
        raise Skip('validate_types: the loop body is not one unconditional assert_value_matches_type call')
    kw = {k.arg: ast.unparse(k.value) for k in calls[0].keywords}
    uses_value = kw.get('value') == 'getattr(self, field.name)'
    uses_type = kw.get('type_') == 'field.type'
    fresh_tv = kw.get('type_vars') == '{}'
    passes_ctx = kw.get('context') == '_context'
    ctx_assign = [ast.unparse(s.value) for s in vt.body if isinstance(s, ast.Assign) and isinstance(s.targets[0], ast.Name) and s.targets[0].id == '_context']
    ctx_own = any('self.__class__.__name__: self.__class__' in t and 'self.__init__.__globals__' in t for t in ctx_assign)

    # new_post_init: old hook, then validate_types; installed before dataclass(); only when type_safe
    order = []
    for s in npi.body:
        t = ast.unparse(s)
        if t.startswith('old_post_init('): order.append('old')
        if 'self.validate_types(' in t: order.append('validate')
    installed_before = False
    guarded_by_type_safe = False
    stmts = deco.body
    idx_dc = next((i for i, s in enumerate(stmts) if isinstance(s, ast.Assign) and 'dataclass(**args)(cls_)' in ast.unparse(s.value)), None)
    for i, s in enumerate(stmts):
        if isinstance(s, ast.If) and ast.unparse(s.test) == 'type_safe':
            guarded_by_type_safe = any("setattr(cls_, '__post_init__', new_post_init)" in ast.unparse(x) for x in s.body)
            installed_before = idx_dc is not None and i < idx_dc
    added = []
    for s in stmts:
        if isinstance(s, ast.Assign) and isinstance(s.targets[0], ast.Name) and s.targets[0].id == 'methods_to_add' and isinstance(s.value, ast.List):
            added = [e.id for e in s.value.elts if isinstance(e, ast.Name)]
    cw_ret = [s for s in cw.body if isinstance(s, ast.Return)]
    copy_is_replace = bool(cw_ret) and ast.unparse(cw_ret[-1].value) == 'replace(self, **kwargs)'
    dcw_ret = [s for s in dcw.body if isinstance(s, ast.Return)]
    deep_calls_ctor = bool(dcw_ret) and ast.unparse(dcw_ret[-1].value) in ('type(self)(**{**current_values, **kwargs})', 'self.__class__(**{**current_values, **kwargs})')
    shortcut = find_func(tree, 'frozen_type_safe_dataclass')
    shortcut_ok = 'frozen_dataclass(type_safe=True)(cls)' in ast.unparse(shortcut)

    L = [HEADER.format(rel=REL), 'namespace PedVerif.Gen.TypeSafe\n']
    L.append('/-- validate_types: `for field in fields(...)`: every field, in order, nothing leaves the loop early, no try around it -/')
    L.append(f'def validateOverAllFields : Bool := {lean_bool(over_all_fields)}')
    L.append(f'def validateLeavesLoopEarly : Bool := {lean_bool(early)}')
    L.append(f'def validateInTry : Bool := {lean_bool(in_try)}')
    L.append(f'def validateUsesFieldValue : Bool := {lean_bool(uses_value)}')
    L.append(f'def validateUsesFieldType : Bool := {lean_bool(uses_type)}')
    L.append(f'def validateFreshTypeVars : Bool := {lean_bool(fresh_tv)}')
    L.append(f'def validatePassesContext : Bool := {lean_bool(passes_ctx)}')
    L.append(f'def contextHasGlobalsAndOwnClass : Bool := {lean_bool(ctx_own)}')
    L.append('/-- new_post_init: which hooks run, in which order; installed before dataclass() and only when type_safe -/')
    L.append('def postInitOrder : List String := [' + ', '.join(lean_str(x) for x in order) + ']')
    L.append(f'def postInitInstalledBeforeDataclass : Bool := {lean_bool(installed_before)}')
    L.append(f'def postInitOnlyWhenTypeSafe : Bool := {lean_bool(guarded_by_type_safe)}')
    L.append('def methodsAdded : List String := [' + ', '.join(lean_str(x) for x in added) + ']')
    L.append('/-- copy_with = dataclasses.replace (re-enters __init__ -> __post_init__); deep_copy_with calls the constructor -/')
    L.append(f'def copyWithIsReplace : Bool := {lean_bool(copy_is_replace)}')
    L.append(f'def deepCopyCallsConstructor : Bool := {lean_bool(deep_calls_ctor)}')
    L.append(f'def shortcutIsTypeSafe : Bool := {lean_bool(shortcut_ok)}')
    L.append('\nend PedVerif.Gen.TypeSafe')
    return '\n'.join(L) + '\n'


FILES = {'TypeSafe.lean': gen_typesafe}
