"""Translator part for C11: what `frozen_dataclass` passes to `dataclass(...)`, the bodies of copy_with / deep_copy_with,
the order inside new_post_init, the list of methods attached to the class and the copy-protocol hooks (`__deepcopy__`, `__reduce_ex__`, …)
the decorator installs on it."""
import ast
from extract import Skip, src, find_func, lean_bool, HEADER

REL = 'pedantic/decorators/cls_deco_frozen_dataclass.py'
PARAMS = ['type_safe', 'order', 'kw_only', 'slots']
LEAN_PARAM = {'type_safe': 'typeSafe', 'order': 'order', 'kw_only': 'kwOnly', 'slots': 'slots'}
# defaults of dataclasses.dataclass for the options the model knows
DC_DEFAULT = {'frozen': 'false', 'order': 'false', 'kw_only': 'false', 'slots': 'false'}
# other dataclass options: accepted only when spelled with their default constant
DC_OTHER_DEFAULT = {'init': True, 'repr': True, 'eq': True, 'unsafe_hash': False, 'match_args': True, 'weakref_slot': False}
# special methods that change what `copy.deepcopy` / `copy.copy` / `dataclasses.replace` do with an instance of the class
COPY_HOOKS = ['__deepcopy__', '__copy__', '__reduce__', '__reduce_ex__', '__getstate__', '__setstate__', '__getnewargs__',
              '__getnewargs_ex__', '__replace__']


def no_doc(body):
    return [s for s in body if not (isinstance(s, ast.Expr) and isinstance(s.value, ast.Constant) and isinstance(s.value.value, str))]


def bexpr(e) -> str:
    """a Boolean expression over the decorator parameters -> Lean"""
    if isinstance(e, ast.Constant) and isinstance(e.value, bool):
        return lean_bool(e.value)
    if isinstance(e, ast.Name) and e.id in LEAN_PARAM:
        return LEAN_PARAM[e.id]
    if isinstance(e, ast.UnaryOp) and isinstance(e.op, ast.Not):
        return f'(!{bexpr(e.operand)})'
    if isinstance(e, ast.BoolOp):
        op = ' && ' if isinstance(e.op, ast.And) else ' || '
        return '(' + op.join(bexpr(v) for v in e.values) + ')'
    if isinstance(e, ast.IfExp):
        return f'(if {bexpr(e.test)} then {bexpr(e.body)} else {bexpr(e.orelse)})'
    if isinstance(e, ast.Compare) and len(e.ops) == 1 and isinstance(e.ops[0], (ast.Is, ast.Eq, ast.IsNot, ast.NotEq)):
        l, r = bexpr(e.left), bexpr(e.comparators[0])
        return f'({l} == {r})' if isinstance(e.ops[0], (ast.Is, ast.Eq)) else f'({l} != {r})'
    raise Skip(f'dataclass option value outside the Boolean subset: {ast.unparse(e)}')


def dataclass_options(deco):
    """the keyword arguments of the `dataclass(...)(cls_)` call inside `decorator`, as {key: ast expr}"""
    calls = [n for n in ast.walk(deco) if isinstance(n, ast.Call) and isinstance(n.func, ast.Call)
             and isinstance(n.func.func, ast.Name) and n.func.func.id == 'dataclass']
    if len(calls) != 1:
        raise Skip('expected exactly one `dataclass(...)(cls)` call')
    outer, inner = calls[0], calls[0].func
    if not (len(outer.args) == 1 and isinstance(outer.args[0], ast.Name) and outer.args[0].id == 'cls_' and not outer.keywords):
        raise Skip('dataclass(...) is not applied to cls_')
    if inner.args:
        raise Skip('dataclass called with positional arguments')
    opts = {}
    for kw in inner.keywords:
        if kw.arg is not None:
            opts[kw.arg] = kw.value
            continue
        # **args : resolve to the dict literal assigned in the same function (exactly one assignment, no later update)
        if not isinstance(kw.value, ast.Name):
            raise Skip('dataclass(**<expr>) with a non-name')
        name = kw.value.id
        assigns = [s for s in ast.walk(deco) if isinstance(s, ast.Assign) and any(isinstance(t, ast.Name) and t.id == name for t in s.targets)]
        touched = [n for n in ast.walk(deco) if (isinstance(n, ast.Subscript) and isinstance(n.value, ast.Name) and n.value.id == name
                                                  and isinstance(n.ctx, (ast.Store, ast.Del)))
                   or (isinstance(n, ast.Attribute) and isinstance(n.value, ast.Name) and n.value.id == name)]
        if len(assigns) != 1 or touched or not isinstance(assigns[0].value, ast.Dict):
            raise Skip(f'`{name}` is not a single dict literal')
        d = assigns[0].value
        for k, v in zip(d.keys, d.values):
            if not (isinstance(k, ast.Constant) and isinstance(k.value, str)):
                raise Skip('dataclass options dict has a non-literal key')
            opts[k.value] = v
    return opts, calls[0]


def is_name(e, n):
    return isinstance(e, ast.Name) and e.id == n


def is_getattr_self_field(e):
    return (isinstance(e, ast.Call) and is_name(e.func, 'getattr') and len(e.args) == 2 and not e.keywords
            and is_name(e.args[0], 'self') and isinstance(e.args[1], ast.Attribute) and is_name(e.args[1].value, 'field')
            and e.args[1].attr == 'name')


def inst_class(e):
    if isinstance(e, ast.Call) and is_name(e.func, 'type') and len(e.args) == 1 and is_name(e.args[0], 'self') and not e.keywords:
        return '.typeSelf'
    if isinstance(e, ast.Attribute) and is_name(e.value, 'self') and e.attr == '__class__':
        return '.typeSelf'
    if is_name(e, 'new_class'):
        return '.newClass'
    raise Skip(f'copy builds an instance of `{ast.unparse(e)}`')


def writes_self(fn) -> bool:
    """does the method body write to `self` (attribute store/delete, setattr/delattr, object.__setattr__, self.__dict__ access)?"""
    for n in ast.walk(fn):
        if isinstance(n, ast.Attribute) and is_name(n.value, 'self') and isinstance(n.ctx, (ast.Store, ast.Del)):
            return True
        if isinstance(n, ast.Attribute) and is_name(n.value, 'self') and n.attr in ('__dict__', '__setattr__', '__delattr__'):
            return True
        if isinstance(n, ast.Call):
            f = n.func
            nm = f.id if isinstance(f, ast.Name) else f.attr if isinstance(f, ast.Attribute) else ''
            if nm in ('setattr', 'delattr', '__setattr__', '__delattr__', 'vars'):
                return True
    return False


# special methods that change what attribute assignment / deletion / lookup on an instance of the class does
ATTR_HOOKS = ['__setattr__', '__delattr__', '__getattribute__', '__getattr__', '__set_name__', '__set__', '__delete__', '__get__',
              '__dir__', '__init_subclass__']


def copy_protocol_hooks(deco, added, COPY_HOOKS=COPY_HOOKS):
    """special methods (of the given family) the decorator puts on the class: (a) a function of that name in a list / tuple of methods
    (`methods_to_add = [...]`) or among the methods recognised as attached, (b) `setattr(new_class | cls_, '<name>', …)`,
    (c) `new_class.<name> = …` / `cls_.<name> = …` — anywhere inside `decorator`"""
    found = set(n for n in added if n in COPY_HOOKS)
    for n in ast.walk(deco):
        if isinstance(n, (ast.List, ast.Tuple)):
            for e in n.elts:
                if isinstance(e, ast.Name) and e.id in COPY_HOOKS:
                    found.add(e.id)
        if isinstance(n, ast.Call) and is_name(n.func, 'setattr') and len(n.args) >= 2 and isinstance(n.args[0], ast.Name) \
                and n.args[0].id in ('new_class', 'cls_') and isinstance(n.args[1], ast.Constant) and n.args[1].value in COPY_HOOKS:
            found.add(n.args[1].value)
        if isinstance(n, ast.Attribute) and isinstance(n.ctx, ast.Store) and isinstance(n.value, ast.Name) \
                and n.value.id in ('new_class', 'cls_') and n.attr in COPY_HOOKS:
            found.add(n.attr)
    return [h for h in COPY_HOOKS if h in found]


IMMUTABLE_CALLS = {'tuple', 'frozenset', 'int', 'str', 'float', 'bool', 'bytes', 'object'}


def is_mutable_expr(e) -> bool:
    """may the value of this expression carry state that can be changed later (a list / dict / set display or comprehension, or the
    result of a call other than to a constructor of immutables)?"""
    if isinstance(e, (ast.List, ast.Dict, ast.Set, ast.ListComp, ast.DictComp, ast.SetComp, ast.GeneratorExp)):
        return True
    if isinstance(e, ast.Call):
        return not (isinstance(e.func, ast.Name) and e.func.id in IMMUTABLE_CALLS)
    if isinstance(e, ast.Tuple):
        return any(is_mutable_expr(x) for x in e.elts)
    if isinstance(e, (ast.IfExp, ast.BoolOp, ast.BinOp)):
        return any(is_mutable_expr(x) for x in ast.iter_child_nodes(e) if isinstance(x, ast.expr))
    return False


def bound_names(fn):
    """parameters and names assigned inside a function (its own locals)"""
    a = fn.args
    out = {x.arg for x in a.posonlyargs + a.args + a.kwonlyargs}
    for x in (a.vararg, a.kwarg):
        if x is not None:
            out.add(x.arg)
    for n in ast.walk(fn):
        if isinstance(n, ast.Name) and isinstance(n.ctx, (ast.Store, ast.Del)):
            out.add(n.id)
    return out


def copy_helpers_state(tree, outer, deco, roots):
    """the functions reachable from the copy methods by calls to a plain name (module-level functions, functions defined in
    `frozen_dataclass` / `decorator`), and whether one of them keeps state between calls: a default argument with a mutable value,
    a `global` / `nonlocal` statement, a read of a module-level / closure-level name that is bound to a mutable value, or a store
    into an attribute / item of something that is not a local of the function"""
    scopes = [tree.body, outer.body, deco.body]
    defs, shared = {}, set()
    for body in scopes:
        for st in body:
            if isinstance(st, (ast.FunctionDef, ast.AsyncFunctionDef)):
                defs.setdefault(st.name, st)
            targets, value = [], None
            if isinstance(st, ast.Assign):
                targets, value = st.targets, st.value
            elif isinstance(st, ast.AnnAssign) and st.value is not None:
                targets, value = [st.target], st.value
            for t in targets:
                if isinstance(t, ast.Name) and is_mutable_expr(value) and t.id not in ('new_class', 'T'):
                    shared.add(t.id)
    reach, todo = [], list(roots)
    while todo:
        fn = todo.pop(0)
        if fn in reach:
            continue
        reach.append(fn)
        for n in ast.walk(fn):
            if isinstance(n, ast.Call) and isinstance(n.func, ast.Name) and n.func.id in defs and defs[n.func.id] not in reach:
                todo.append(defs[n.func.id])
    why = []
    for fn in reach:
        a = fn.args
        for d in list(a.defaults) + [d for d in a.kw_defaults if d is not None]:
            if is_mutable_expr(d):
                why.append(f'{fn.name}: mutable default argument {ast.unparse(d)}')
        local = bound_names(fn)
        for n in ast.walk(fn):
            if isinstance(n, (ast.Global, ast.Nonlocal)):
                why.append(f'{fn.name}: {type(n).__name__.lower()} {", ".join(n.names)}')
            if isinstance(n, ast.Name) and isinstance(n.ctx, ast.Load) and n.id in shared and n.id not in local:
                why.append(f'{fn.name}: reads the shared mutable `{n.id}`')
            if isinstance(n, (ast.Attribute, ast.Subscript)) and isinstance(n.ctx, (ast.Store, ast.Del)):
                base = n.value
                while isinstance(base, (ast.Attribute, ast.Subscript)):
                    base = base.value
                if not (isinstance(base, ast.Name) and base.id in local):
                    why.append(f'{fn.name}: stores into `{ast.unparse(n)}`')
    return [f.name for f in reach if f not in roots], why


def deepcopy_is_bare(tree, fns) -> bool:
    """is every `deepcopy(...)` call of the copy methods the bare `copy.deepcopy`: the module imports the name from `copy` (and binds it
    nowhere else: no def / class / assignment / parameter / other import of that name, no `global` / `nonlocal`), and no copy method
    contains a `try` or a `with` (which could swallow what the call raises)?"""
    imported = [n for n in tree.body if isinstance(n, ast.ImportFrom) and n.module == 'copy' and n.level == 0
                and any(a.name == 'deepcopy' and a.asname is None for a in n.names)]
    if len(imported) != 1:
        return False
    for n in ast.walk(tree):
        if n is imported[0]:
            continue
        if isinstance(n, (ast.FunctionDef, ast.AsyncFunctionDef, ast.ClassDef)) and n.name == 'deepcopy':
            return False
        if isinstance(n, ast.Name) and n.id == 'deepcopy' and isinstance(n.ctx, (ast.Store, ast.Del)):
            return False
        if isinstance(n, ast.arg) and n.arg == 'deepcopy':
            return False
        if isinstance(n, (ast.Import, ast.ImportFrom)) and any((a.asname or a.name.split('.')[0]) == 'deepcopy' for a in n.names):
            return False
        if isinstance(n, (ast.Global, ast.Nonlocal)) and 'deepcopy' in n.names:
            return False
        if isinstance(n, ast.ExceptHandler) and n.name == 'deepcopy':
            return False
    for fn in fns:
        if any(isinstance(n, (ast.Try, ast.With, ast.AsyncWith)) or type(n).__name__ == 'TryStar' for n in ast.walk(fn)):
            return False
    return True


def copy_body(fn) -> str:
    """CopyBody term for copy_with / deep_copy_with"""
    a = fn.args
    if not (len(a.args) == 1 and a.args[0].arg == 'self' and a.kwarg is not None and a.kwarg.arg == 'kwargs'
            and not a.vararg and not a.kwonlyargs and not a.posonlyargs):
        raise Skip(f'{fn.name}: signature is not (self, **kwargs)')
    body = no_doc(fn.body)
    # shape 1: return replace(<self | deepcopy(self)>, **kwargs)
    if len(body) == 1 and isinstance(body[0], ast.Return) and isinstance(body[0].value, ast.Call) and is_name(body[0].value.func, 'replace'):
        c = body[0].value
        if not (len(c.args) == 1 and len(c.keywords) == 1 and c.keywords[0].arg is None and is_name(c.keywords[0].value, 'kwargs')):
            raise Skip(f'{fn.name}: replace(...) call outside the subset')
        if is_name(c.args[0], 'self'):
            return '.replace false'
        x = c.args[0]
        if isinstance(x, ast.Call) and is_name(x.func, 'deepcopy') and len(x.args) == 1 and is_name(x.args[0], 'self') and not x.keywords:
            return '.replace true'
        raise Skip(f'{fn.name}: replace() on `{ast.unparse(x)}`')
    # shape 2: current_values = {field.name: V for field in fields(self) [if field.init]}; return CLS(**{**A, **B})
    # (the same with the merged dict bound to a name first: `merged = {**A, **B}; return CLS(**merged)`, that name used nowhere else)
    if len(body) == 3 and isinstance(body[1], ast.Assign) and len(body[1].targets) == 1 and isinstance(body[1].targets[0], ast.Name) \
            and isinstance(body[1].value, ast.Dict) and isinstance(body[2], ast.Return) and isinstance(body[2].value, ast.Call) \
            and len(body[2].value.keywords) == 1 and body[2].value.keywords[0].arg is None \
            and is_name(body[2].value.keywords[0].value, body[1].targets[0].id) \
            and sum(1 for n in ast.walk(fn) if isinstance(n, ast.Name) and n.id == body[1].targets[0].id) == 2:
        ret = ast.Return(value=ast.Call(func=body[2].value.func, args=body[2].value.args,
                                        keywords=[ast.keyword(arg=None, value=body[1].value)]))
        body = [body[0], ret]
    if len(body) == 2 and isinstance(body[0], ast.Assign) and isinstance(body[1], ast.Return):
        asg, ret = body
        if not (len(asg.targets) == 1 and isinstance(asg.targets[0], ast.Name) and isinstance(asg.value, ast.DictComp)):
            raise Skip(f'{fn.name}: first statement is not `<name> = {{... for ...}}`')
        cur = asg.targets[0].id
        dc = asg.value
        if len(dc.generators) != 1:
            raise Skip(f'{fn.name}: nested comprehension')
        g = dc.generators[0]
        if not (is_name(g.target, 'field') and isinstance(g.iter, ast.Call) and is_name(g.iter.func, 'fields')
                and len(g.iter.args) == 1 and is_name(g.iter.args[0], 'self') and not g.is_async):
            raise Skip(f'{fn.name}: comprehension does not iterate `for field in fields(self)`')
        if len(g.ifs) == 0:
            init_only = False
        elif len(g.ifs) == 1 and isinstance(g.ifs[0], ast.Attribute) and is_name(g.ifs[0].value, 'field') and g.ifs[0].attr == 'init':
            init_only = True
        else:
            raise Skip(f'{fn.name}: comprehension filter is not `if field.init`')
        if not (isinstance(dc.key, ast.Attribute) and is_name(dc.key.value, 'field') and dc.key.attr == 'name'):
            raise Skip(f'{fn.name}: comprehension key is not field.name')
        v = dc.value
        if is_getattr_self_field(v):
            deep = False
        elif isinstance(v, ast.Call) and is_name(v.func, 'deepcopy') and len(v.args) == 1 and not v.keywords and is_getattr_self_field(v.args[0]):
            deep = True
        else:
            raise Skip(f'{fn.name}: comprehension value `{ast.unparse(v)}`')
        c = ret.value
        if not (isinstance(c, ast.Call) and not c.args and len(c.keywords) == 1 and c.keywords[0].arg is None):
            raise Skip(f'{fn.name}: return is not `<cls>(**<dict>)`')
        inst = inst_class(c.func)
        d = c.keywords[0].value
        if not (isinstance(d, ast.Dict) and len(d.keys) == 2 and d.keys[0] is None and d.keys[1] is None
                and all(isinstance(x, ast.Name) for x in d.values)):
            raise Skip(f'{fn.name}: keyword dict is not `{{**a, **b}}`')
        names = [x.id for x in d.values]
        if names == [cur, 'kwargs']:
            kwargs_win = True
        elif names == ['kwargs', cur]:
            kwargs_win = False
        else:
            raise Skip(f'{fn.name}: merges {names}')
        return f'.build {lean_bool(deep)} {lean_bool(init_only)} {inst} {lean_bool(kwargs_win)}'
    raise Skip(f'{fn.name}: body outside the two known shapes')


def gen_frozen(repo):
    from gen.frozen_ir import canonical_trees
    tree = canonical_trees(repo)[0]          # locals renamed to the names looked for below (by role): a pure renaming changes nothing
    outer = find_func(tree, 'frozen_dataclass')
    pnames = [a.arg for a in outer.args.args]
    if pnames != ['cls'] + PARAMS or outer.args.kwonlyargs or outer.args.vararg or outer.args.kwarg:
        raise Skip(f'frozen_dataclass parameters are {pnames}')
    defaults = dict(zip(pnames[-len(outer.args.defaults):], outer.args.defaults))
    pdef = {}
    for p in PARAMS:
        d = defaults.get(p)
        if not (isinstance(d, ast.Constant) and isinstance(d.value, bool)):
            raise Skip(f'default of {p} is not a bool literal')
        pdef[p] = d.value
    deco = [n for n in outer.body if isinstance(n, ast.FunctionDef) and n.name == 'decorator']
    if len(deco) != 1:
        raise Skip('no inner `decorator`')
    deco = deco[0]
    # parameters must not be rebound anywhere
    for n in ast.walk(outer):
        if isinstance(n, ast.Name) and n.id in PARAMS and isinstance(n.ctx, (ast.Store, ast.Del)):
            raise Skip(f'parameter {n.id} is rebound')
    opts, dc_call = dataclass_options(deco)
    lean_opts = {}
    for k in DC_DEFAULT:
        lean_opts[k] = bexpr(opts[k]) if k in opts else DC_DEFAULT[k]
    for k, v in opts.items():
        if k in DC_DEFAULT:
            continue
        if k in DC_OTHER_DEFAULT and isinstance(v, ast.Constant) and v.value is DC_OTHER_DEFAULT[k]:
            continue
        raise Skip(f'dataclass option {k}={ast.unparse(v)} is outside the model')
    # new_class = dataclass(...)(cls_) ; return new_class
    asg = [s for s in deco.body if isinstance(s, ast.Assign) and s.value is dc_call]
    if len(asg) != 1 or not is_name(asg[0].targets[0], 'new_class'):
        raise Skip('result of dataclass(...) is not assigned to new_class')
    rets = [s for s in deco.body if isinstance(s, ast.Return)]
    returns_new = len(rets) == 1 and is_name(rets[0].value, 'new_class') and deco.body[-1] is rets[0]
    # methods
    fns = {n.name: n for n in deco.body if isinstance(n, ast.FunctionDef)}
    if 'copy_with' not in fns or 'deep_copy_with' not in fns:
        raise Skip('copy_with / deep_copy_with not defined in decorator')
    helpers, stateful = copy_helpers_state(tree, outer, deco, [fns['copy_with'], fns['deep_copy_with']])
    try:
        cw, dcw = copy_body(fns['copy_with']), copy_body(fns['deep_copy_with'])
    except Skip as e:
        raise Skip(str(e) + (f'; reachable helpers {helpers}' if helpers else '')
                   + (f'; state kept between calls: {"; ".join(stateful)}' if stateful else ''))
    wr = writes_self(fns['copy_with']) or writes_self(fns['deep_copy_with'])
    bare = deepcopy_is_bare(tree, [fns['copy_with'], fns['deep_copy_with']])
    # methods_to_add = [...]; for method in methods_to_add: setattr(new_class, method.__name__, method)
    added = []
    for s in deco.body:
        if isinstance(s, ast.For) and isinstance(s.iter, ast.Name) and is_name(s.target, 'method'):
            lst = [a for a in deco.body if isinstance(a, ast.Assign) and is_name(a.targets[0], s.iter.id) and isinstance(a.value, (ast.List, ast.Tuple))]
            ok = (len(s.body) == 1 and isinstance(s.body[0], ast.Expr) and isinstance(s.body[0].value, ast.Call)
                  and is_name(s.body[0].value.func, 'setattr') and len(s.body[0].value.args) == 3
                  and is_name(s.body[0].value.args[0], 'new_class')
                  and ast.unparse(s.body[0].value.args[1]) == 'method.__name__' and is_name(s.body[0].value.args[2], 'method'))
            if len(lst) == 1 and ok:
                added += [e.id for e in lst[0].value.elts if isinstance(e, ast.Name)]
        if isinstance(s, ast.Expr) and isinstance(s.value, ast.Call) and is_name(s.value.func, 'setattr') and len(s.value.args) == 3 \
                and is_name(s.value.args[0], 'new_class') and isinstance(s.value.args[1], ast.Constant) and isinstance(s.value.args[2], ast.Name) \
                and s.value.args[1].value == s.value.args[2].id:
            added.append(s.value.args[2].id)
    hooks = copy_protocol_hooks(deco, added)
    attr_hooks = copy_protocol_hooks(deco, added, ATTR_HOOKS)
    # new_post_init: old_post_init(self) before / after self.validate_types(...)
    npi = [n for n in ast.walk(deco) if isinstance(n, ast.FunctionDef) and n.name == 'new_post_init']
    calls_old, old_first = False, False
    if len(npi) == 1:
        seq = []
        for s in no_doc(npi[0].body):
            for n in ast.walk(s):
                if isinstance(n, ast.Call) and is_name(n.func, 'old_post_init'):
                    seq.append('old')
                if isinstance(n, ast.Call) and isinstance(n.func, ast.Attribute) and n.func.attr == 'validate_types':
                    seq.append('validate')
        if seq.count('validate') != 1 or seq.count('old') > 1:
            raise Skip(f'new_post_init calls {seq}')
        calls_old = 'old' in seq
        old_first = calls_old and seq.index('old') < seq.index('validate')
    else:
        raise Skip('new_post_init not found')
    sig = '(typeSafe order kwOnly slots : Bool)'
    return HEADER.format(rel=REL) + f'''set_option linter.unusedVariables false
namespace PedVerif.Gen.Frozen

/-- which class a copy method instantiates: `type(self)` / `self.__class__`, or the class captured at decoration -/
inductive InstCls where
  | typeSelf | newClass
deriving DecidableEq, Repr

/-- shape of the body of `copy_with` / `deep_copy_with`:
    `replace deepSelf`  = `return replace(self, **kwargs)` (`deepSelf`: of `deepcopy(self)`);
    `build deep initOnly inst kwargsWin` = `cur = {{f.name: [deepcopy](getattr(self, f.name)) for f in fields(self) [if f.init]}};
    return <inst>(**{{**cur, **kwargs}})` (`kwargsWin = false`: `{{**kwargs, **cur}}`) -/
inductive CopyBody where
  | replace (deepSelf : Bool)
  | build (deep initOnly : Bool) (inst : InstCls) (kwargsWin : Bool)
deriving DecidableEq, Repr

/-- defaults of the decorator parameters -/
def defaultTypeSafe : Bool := {lean_bool(pdef['type_safe'])}
def defaultOrder : Bool := {lean_bool(pdef['order'])}
def defaultKwOnly : Bool := {lean_bool(pdef['kw_only'])}
def defaultSlots : Bool := {lean_bool(pdef['slots'])}

/-- the options handed to `dataclasses.dataclass`, as functions of the decorator parameters -/
def frozenArg {sig} : Bool := {lean_opts['frozen']}
def orderArg {sig} : Bool := {lean_opts['order']}
def kwOnlyArg {sig} : Bool := {lean_opts['kw_only']}
def slotsArg {sig} : Bool := {lean_opts['slots']}

/-- the decorator returns the class produced by `dataclass(...)` -/
def returnsDataclass : Bool := {lean_bool(returns_new)}
/-- functions attached to the returned class with `setattr(new_class, name, fn)` -/
def methodsAdded : List String := [{', '.join('"' + m + '"' for m in added)}]
/-- copy-protocol special methods (`__deepcopy__`, `__copy__`, `__reduce__`, `__reduce_ex__`, `__getstate__`, `__setstate__`,
    `__getnewargs__`, `__getnewargs_ex__`, `__replace__`) the decorator installs on the class: with none of them `copy.deepcopy`
    rebuilds an instance of a frozen dataclass from deep copies of its fields (`object.__reduce_ex__` / `copy._reconstruct`) -/
def copyProtocolHooks : List String := [{', '.join('"' + m + '"' for m in hooks)}]
/-- attribute-protocol special methods (`__setattr__`, `__delattr__`, `__getattribute__`, `__getattr__`, `__set_name__`, `__set__`,
    `__delete__`, `__get__`, `__dir__`, `__init_subclass__`) the decorator installs on the class: with none of them assignment and
    deletion on an instance are decided by the `__setattr__` / `__delattr__` that `dataclass(frozen=True)` generated -/
def attrProtocolHooks : List String := [{', '.join('"' + m + '"' for m in attr_hooks)}]

def copyWithBody : CopyBody := {cw}
def deepCopyWithBody : CopyBody := {dcw}
/-- a copy method writes to `self` (attribute store, setattr/delattr, `__dict__`) -/
def copyBodiesWriteSelf : Bool := {lean_bool(wr)}
/-- functions of this module that the copy methods reach by calls to a plain name (besides themselves) -/
def copyHelpers : List String := [{', '.join('"' + m + '"' for m in helpers)}]
/-- no function reachable from `copy_with` / `deep_copy_with` keeps state between calls: no default argument with a mutable value,
    no `global` / `nonlocal`, no read of a module-level / closure-level name bound to a mutable value, no store into an attribute or
    item of anything but its own locals — so what a copy method returns depends on the receiver, the keyword arguments and nothing else -/
def copyHelpersStateless : Bool := {lean_bool(not stateful)}
/-- every `deepcopy(...)` in a copy method is the bare `copy.deepcopy`: the module imports the name from `copy` and binds it nowhere else, and
    no copy method contains a `try` / `with` — so whatever `copy.deepcopy` raises for a value it cannot duplicate (TypeError for a lock, a
    generator, …) reaches the caller of `deep_copy_with`, and no instance is returned -/
def deepcopyBare : Bool := {lean_bool(bare)}

/-- `new_post_init` calls the previous `__post_init__`, and does so before `validate_types` -/
def postInitCallsOld : Bool := {lean_bool(calls_old)}
def postInitOldFirst : Bool := {lean_bool(old_first)}

end PedVerif.Gen.Frozen
'''


FILES = {'Frozen.lean': gen_frozen}
