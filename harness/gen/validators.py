"""Translator part for C14: validators and convert_value.

* shallow translation of `Min.validate`, `Max.validate`, `MinLength.validate`, `MaxLength.validate`, `NotEmpty.validate`
  (if/elif/else, comparisons, and/or/not, len(), isinstance against str / collections.abc.*, `.strip()`, conditional
  expression, attribute reads of self, `return`, `self.raise_exception` / `raise X(...)` -> `.raises <class>`) into Lean
  functions over the exact number model `Num`, lengths (`Int`) and `Val`;
* tables: the class raised by `Validator.raise_exception`, the class hierarchy of exceptions.py, for every validator class
  the classes raised on its rejection paths and the classes named by its `except` clauses, `REGEX_EMAIL`, the `re` entry
  points used by Email / MatchPattern, the isinstance tuple of DateTimeUnixTimestamp, the literal date that
  DateTimeUnixTimestamp adds the seconds to, and the structure of `convert_value`
  (isinstance shortcut, normalisation chain, bool literal lists, special-cased targets, caught / raised classes);
* `importTimeComputations`: everything the modules of the validators package (and convert_value.py) compute when they are
  IMPORTED - module-level and class-level statements other than imports / classes / functions / docstrings / assignments of a
  literal constant / a typing alias, parameter defaults other than literals, names and lambdas, decorators other than
  overrides(...) / abstractmethod / property / staticmethod / classmethod.  A value computed at import time is frozen with the
  environment of that moment (time zone, locale, clock); the theorems hold for functions of the arguments only, so the list
  must be empty (`no_import_time_computation`).
"""
import ast
from extract import Skip, src, find_func, lean_str, lean_bool, HEADER

VDIR = 'pedantic/decorators/fn_deco_validate/validators/'
EXC = {'ValidatorException': '.validator', 'ConversionError': '.conversion', 'ValidateException': '.validate',
       'ValueError': '.valueError', 'TypeError': '.typeError', 'OverflowError': '.overflowError',
       'AttributeError': '.attributeError', 'KeyError': '.keyError', 'IndexError': '.indexError',
       'ArithmeticError': '.arithmeticError', 'LookupError': '.lookupError', 'Exception': '.exception',
       'BaseException': '.baseException'}


def exc(name):
    return EXC.get(name, f'(.other {lean_str(name)})')


def exc_list(names):
    return '[' + ', '.join(exc(n) for n in names) + ']'


def name_of(node):
    if isinstance(node, ast.Name):
        return node.id
    if isinstance(node, ast.Attribute):
        return node.attr
    raise Skip('exception class is not a name: ' + ast.dump(node)[:80])


def handler_classes(h):
    if h.type is None:
        return ['BaseException']
    if isinstance(h.type, ast.Tuple):
        return [name_of(e) for e in h.type.elts]
    return [name_of(h.type)]


def is_raise_exception_call(node):
    return (isinstance(node, ast.Call) and isinstance(node.func, ast.Attribute) and node.func.attr == 'raise_exception'
            and isinstance(node.func.value, ast.Name) and node.func.value.id == 'self')


def rejection_class(stmt):
    """the Lean term of the class a statement raises when it is a rejection, else None"""
    if isinstance(stmt, ast.Expr) and is_raise_exception_call(stmt.value):
        return 'raiseExceptionClass'
    if isinstance(stmt, ast.Return) and stmt.value is not None and is_raise_exception_call(stmt.value):
        return 'raiseExceptionClass'
    if isinstance(stmt, ast.Raise):
        if stmt.exc is None:
            raise Skip('bare re-raise')
        if is_raise_exception_call(stmt.exc):
            return 'raiseExceptionClass'
        if isinstance(stmt.exc, ast.Call):
            return exc(name_of(stmt.exc.func))
        return exc(name_of(stmt.exc))
    return None


def strip_doc(body):
    return [s for s in body if not (isinstance(s, ast.Expr) and isinstance(s.value, ast.Constant) and isinstance(s.value.value, str))]


# ------------------------------------------------------------------ shallow translation of small validate() bodies

NUMCMP = {ast.Lt: 'Num.lt', ast.LtE: 'Num.le', ast.Gt: 'Num.gt', ast.GtE: 'Num.ge', ast.Eq: 'Num.eq', ast.NotEq: 'Num.ne'}
INTCMP = {ast.Lt: '<', ast.LtE: '≤', ast.Gt: '>', ast.GtE: '≥', ast.Eq: '=', ast.NotEq: '≠'}
ABC = {'Sized': 'Val.isSized', 'Sequence': 'Val.isSequence', 'Iterable': 'Val.isIterable'}


class Tr:
    """types: 'B' Bool, 'N' Num, 'I' Int, 'V' Val"""

    def __init__(self, env, what):
        self.env = env          # python expression text -> (lean name, type)
        self.what = what

    def skip(self, node):
        raise Skip(f'{self.what}: outside the translated subset: {ast.unparse(node)[:70]}')

    def expr(self, e):
        key = ast.unparse(e)
        if key in self.env:
            return self.env[key]
        if isinstance(e, ast.Constant) and isinstance(e.value, bool):
            return lean_bool(e.value), 'B'
        if isinstance(e, ast.Constant) and isinstance(e.value, int):
            return f'({e.value} : Int)', 'I'
        if isinstance(e, ast.BoolOp):
            parts = [self.truth(v) for v in e.values]
            return '(' + (' && ' if isinstance(e.op, ast.And) else ' || ').join(parts) + ')', 'B'
        if isinstance(e, ast.UnaryOp) and isinstance(e.op, ast.Not):
            return f'(!{self.truth(e.operand)})', 'B'
        if isinstance(e, ast.Compare) and len(e.ops) == 1:
            (l, tl), (r, tr_) = self.expr(e.left), self.expr(e.comparators[0])
            op = type(e.ops[0])
            if tl == tr_ == 'N' and op in NUMCMP:
                return f'({NUMCMP[op]} {l} {r})', 'B'
            if tl == tr_ == 'I' and op in INTCMP:
                return f'(decide ({l} {INTCMP[op]} {r}))', 'B'
            self.skip(e)
        if isinstance(e, ast.Call):
            f = e.func
            if isinstance(f, ast.Name) and f.id == 'len' and len(e.args) == 1 and not e.keywords:
                a, t = self.expr(e.args[0])
                if t == 'V':
                    return f'(Val.len {a})', 'I'
            if isinstance(f, ast.Name) and f.id == 'isinstance' and len(e.args) == 2 and not e.keywords:
                a, t = self.expr(e.args[0])
                c = e.args[1]
                if t == 'V' and isinstance(c, ast.Name) and c.id == 'str':
                    return f'(Val.isStr {a})', 'B'
                if t == 'V' and isinstance(c, ast.Attribute) and c.attr in ABC and ast.unparse(c.value) in ('collections.abc', 'abc', 'collections'):
                    return f'({ABC[c.attr]} {a})', 'B'
                if t == 'V' and isinstance(c, ast.Name) and c.id in ABC:
                    return f'({ABC[c.id]} {a})', 'B'
            if isinstance(f, ast.Attribute) and f.attr == 'strip' and not e.args and not e.keywords:
                a, t = self.expr(f.value)
                if t == 'V':
                    return f'(Val.strip isSpace {a})', 'V'
            self.skip(e)
        if isinstance(e, ast.IfExp):
            (a, ta), (b, tb) = self.expr(e.body), self.expr(e.orelse)
            if ta == tb:
                return f'(if {self.truth(e.test)} then {a} else {b})', ta
        self.skip(e)

    def truth(self, e):
        s, t = self.expr(e)
        if t == 'B':
            return s
        if t == 'V':
            return f'(Val.truthy {s})'
        self.skip(e)

    def stmts(self, body, ret_type, ind):
        """translate a statement list whose every path ends in return / raise"""
        pad = ' ' * ind
        body = strip_doc(body)
        if not body:
            raise Skip(f'{self.what}: a path falls off the end of the function')
        s, rest = body[0], body[1:]
        r = rejection_class(s)
        if r is not None:
            return f'{pad}.raises {r}\n'
        if isinstance(s, ast.Return):
            if s.value is None:
                self.skip(s)
            v, t = self.expr(s.value)
            if t != ret_type:
                self.skip(s)
            return f'{pad}.ok {v}\n'
        if isinstance(s, ast.If):
            then = self.stmts(s.body + rest, ret_type, ind + 2)
            els = self.stmts(s.orelse + rest, ret_type, ind + 2)
            return f'{pad}if {self.truth(s.test)} then\n{then}{pad}else\n{els}'
        self.skip(s)


def translate_validate(repo, fname, cls, lean_name, params, env, ret_type, doc):
    rel = VDIR + fname
    tree = ast.parse(src(repo, rel))
    fn = find_func(tree, 'validate', cls=cls)
    args = [a.arg for a in fn.args.args]
    if args != ['self', 'value'] or fn.args.vararg or fn.args.kwarg or fn.args.kwonlyargs:
        raise Skip(f'{cls}.validate: unexpected parameters {args}')
    check_init(tree, cls, env)
    body = Tr(env, f'{cls}.validate').stmts(fn.body, ret_type, 2)
    rt = {'N': 'Num', 'V': 'Val'}[ret_type]
    return f'/-- {rel}: `{cls}.validate`, translated statement by statement. {doc} -/\ndef {lean_name} {params} : VRes {rt} :=\n{body}'


def check_init(tree, cls, env):
    """every `self.<attr>` the translation reads must be set in __init__ from the parameter of the same role, unchanged"""
    init = find_func(tree, '__init__', cls=cls)
    assigned = {}
    for s in strip_doc(init.body):
        if isinstance(s, ast.Assign) and len(s.targets) == 1 and isinstance(s.targets[0], ast.Attribute) \
                and isinstance(s.targets[0].value, ast.Name) and s.targets[0].value.id == 'self' and isinstance(s.value, ast.Name):
            assigned[s.targets[0].attr] = s.value.id
        else:
            raise Skip(f'{cls}.__init__: statement outside the subset: {ast.unparse(s)[:60]}')
    params = [a.arg for a in init.args.args][1:]
    for key in env:
        if key.startswith('self.'):
            attr = key[5:]
            if attr not in assigned or assigned[attr] not in params:
                raise Skip(f'{cls}.__init__ does not store a parameter in self.{attr}')
    return assigned


# ------------------------------------------------------------------ tables

def validator_classes(repo):
    """(file, class, validate FunctionDef) for every validator module"""
    import os
    out = []
    for f in sorted(os.listdir(os.path.join(repo, VDIR))):
        if not f.endswith('.py') or f == '__init__.py':
            continue
        tree = ast.parse(src(repo, VDIR + f))
        for node in tree.body:
            if isinstance(node, ast.ClassDef):
                for n in node.body:
                    if isinstance(n, ast.FunctionDef) and n.name == 'raise_exception' and node.name != 'Validator':
                        raise Skip(f'{node.name} overrides raise_exception')
                for n in node.body:
                    if isinstance(n, ast.FunctionDef) and n.name == 'validate' and node.name != 'Validator':
                        out.append((f, node.name, n))
    return out


def rejections_and_caught(fn, what):
    rej, caught = [], []
    for node in ast.walk(fn):
        if isinstance(node, (ast.Expr, ast.Return, ast.Raise)):
            r = rejection_class(node)
            if r is not None:
                rej.append((node.lineno, node.col_offset, r))
        if isinstance(node, ast.Try):
            if node.finalbody or node.orelse:
                raise Skip(f'{what}: try with else/finally')
            cl = []
            for h in node.handlers:
                cl += handler_classes(h)
                hb = strip_doc(h.body)
                if len(hb) != 1 or rejection_class(hb[0]) is None:
                    raise Skip(f'{what}: an except handler does something other than rejecting')
            caught.append((node.lineno, cl, [rejection_class(strip_doc(h.body)[0]) for h in node.handlers]))
    rej.sort()
    caught.sort()
    return [r for _, _, r in rej], [(c, hr) for _, c, hr in caught]


def lname(cls):
    return cls[0].lower() + cls[1:]


def re_entry(fn, what):
    """the `re` matching entry point called in the function: (`re.fullmatch` | `<compiled>.search` | ...) and its subject"""
    hits = []
    for node in ast.walk(fn):
        if isinstance(node, ast.Call) and isinstance(node.func, ast.Attribute) and node.func.attr in ('match', 'fullmatch', 'search', 'findall', 'finditer'):
            subj = None
            for k in node.keywords:
                if k.arg == 'string':
                    subj = k.value
            if subj is None and node.args:
                subj = node.args[-1]
            hits.append((node.func.attr, ast.unparse(subj) if subj is not None else ''))
    if len(hits) != 1:
        raise Skip(f'{what}: expected exactly one call of a re matching function')
    return hits[0]


# ------------------------------------------------------------------ import-time computations

def is_literal(e):
    if isinstance(e, ast.Constant):
        return True
    if isinstance(e, ast.UnaryOp) and isinstance(e.op, (ast.USub, ast.UAdd)) and isinstance(e.operand, ast.Constant):
        return True
    if isinstance(e, (ast.Tuple, ast.List, ast.Set)):
        return all(is_literal(x) for x in e.elts)
    if isinstance(e, ast.Dict):
        return all(k is not None and is_literal(k) and is_literal(v) for k, v in zip(e.keys, e.values))
    return False


BUILTIN_TYPES = {'bool', 'int', 'float', 'str', 'bytes', 'dict', 'list', 'tuple', 'set', 'frozenset', 'object', 'type'}


def is_typing_alias(e, typing_names):
    """`Union[bool, int, ...]`, `Optional[str]`, `Callable[[str], str]`: subscripts of names imported from typing over type names"""
    def ty(x):
        if isinstance(x, ast.Name):
            return x.id in BUILTIN_TYPES or x.id in typing_names
        if isinstance(x, ast.Constant):
            return x.value is None or x.value is Ellipsis
        if isinstance(x, (ast.Tuple, ast.List)):
            return all(ty(y) for y in x.elts)
        if isinstance(x, ast.Subscript):
            return isinstance(x.value, ast.Name) and x.value.id in typing_names and ty(x.slice)
        return False
    return isinstance(e, ast.Subscript) and ty(e)


PURE_DATETIME = {'datetime', 'timedelta', 'date'}


def is_pure_constant(e, tree):
    """a literal, or an environment-independent constructor call on literals: `datetime(1970, 1, 1)` / `timedelta(...)` / `date(...)`
    (names imported from datetime, no tzinfo) and `re.compile(<literal>)` - NOT datetime.fromtimestamp / now / today, time.*, os.*"""
    if is_literal(e):
        return True
    if not isinstance(e, ast.Call) or any(isinstance(a, ast.Starred) for a in e.args) or any(k.arg in (None, 'tzinfo', 'tz') for k in e.keywords):
        return False
    args = list(e.args) + [k.value for k in e.keywords]
    from_dt = {a.asname or a.name: a.name for n in tree.body if isinstance(n, ast.ImportFrom) and n.module == 'datetime' and not n.level for a in n.names}
    imports = {a.asname or a.name: a.name for n in tree.body if isinstance(n, ast.Import) for a in n.names}
    f = e.func
    if isinstance(f, ast.Name) and from_dt.get(f.id) in PURE_DATETIME:
        return all(is_pure_constant(a, tree) for a in args) and len(e.args) <= 7
    if isinstance(f, ast.Attribute) and isinstance(f.value, ast.Name) and imports.get(f.value.id) == 're' and f.attr == 'compile':
        return all(is_literal(a) for a in args)
    return False


def module_constant(tree, name):
    """the value expression of the module-level name `name` when the whole module binds that name exactly once, by a plain
    top-level assignment (no other assignment, parameter, import, def, class, loop target, global declaration of it anywhere)"""
    n_bind = 0
    for n in ast.walk(tree):
        if isinstance(n, ast.Name) and isinstance(n.ctx, (ast.Store, ast.Del)) and n.id == name:
            n_bind += 1
        elif isinstance(n, ast.arg) and n.arg == name:
            n_bind += 1
        elif isinstance(n, (ast.Import, ast.ImportFrom)) and any((a.asname or a.name.split('.')[0]) == name for a in n.names):
            n_bind += 1
        elif isinstance(n, (ast.FunctionDef, ast.AsyncFunctionDef, ast.ClassDef)) and n.name == name:
            n_bind += 1
        elif isinstance(n, (ast.Global, ast.Nonlocal)) and name in n.names:
            n_bind += 1
        elif isinstance(n, ast.ExceptHandler) and n.name == name:
            n_bind += 1
    top = [n for n in tree.body if isinstance(n, ast.Assign) and len(n.targets) == 1 and isinstance(n.targets[0], ast.Name) and n.targets[0].id == name]
    return top[0].value if n_bind == 1 and len(top) == 1 else None


OK_DECORATORS = {'abstractmethod', 'property', 'staticmethod', 'classmethod'}


def import_time(tree):
    """descriptions of everything the module computes when it is imported (see the module docstring)"""
    typing_names = {a.asname or a.name for n in tree.body if isinstance(n, ast.ImportFrom) and n.module == 'typing' for a in n.names}
    out = []

    def short(n):
        return ' '.join(ast.unparse(n).split())[:70]

    def func(fn, where):
        for d in fn.decorator_list:
            ok = (isinstance(d, ast.Name) and d.id in OK_DECORATORS) or \
                 (isinstance(d, ast.Attribute) and d.attr in OK_DECORATORS | {'setter'}) or \
                 (isinstance(d, ast.Call) and isinstance(d.func, ast.Name) and d.func.id == 'overrides' and len(d.args) == 1
                  and not d.keywords and isinstance(d.args[0], ast.Name))
            if not ok:
                out.append(f'{where}{fn.name}: decorator @{short(d)}')
        a = fn.args
        for prm, dflt in list(zip((a.posonlyargs + a.args)[::-1], a.defaults[::-1])) + list(zip(a.kwonlyargs, a.kw_defaults)):
            if dflt is not None and not (is_pure_constant(dflt, tree) or isinstance(dflt, (ast.Name, ast.Lambda))):
                out.append(f'{where}{fn.name}: default {prm.arg}={short(dflt)}')

    def block(body, where):
        for n in body:
            if isinstance(n, (ast.Import, ast.ImportFrom, ast.Pass)):
                continue
            if isinstance(n, ast.Expr) and isinstance(n.value, ast.Constant):
                continue
            if isinstance(n, (ast.FunctionDef, ast.AsyncFunctionDef)):
                func(n, where)
                continue
            if isinstance(n, ast.ClassDef):
                if n.decorator_list or n.keywords or not all(isinstance(b, (ast.Name, ast.Attribute)) for b in n.bases):
                    out.append(f'{where}class {n.name}: decorators / computed bases')
                block(n.body, f'{where}{n.name}.')
                continue
            if isinstance(n, ast.Assign) and all(isinstance(t, ast.Name) for t in n.targets) \
                    and (is_pure_constant(n.value, tree) or is_typing_alias(n.value, typing_names)):
                continue
            if isinstance(n, ast.AnnAssign) and isinstance(n.target, ast.Name) and (n.value is None or is_pure_constant(n.value, tree)):
                continue
            out.append(f'{where}{short(n)}')
    block(tree.body, '')
    return out


def gen_import_time(repo):
    import os
    rows = []
    files = [VDIR + f for f in sorted(os.listdir(os.path.join(repo, VDIR))) if f.endswith('.py')]
    files.append('pedantic/decorators/fn_deco_validate/convert_value.py')
    for rel in files:
        for d in import_time(ast.parse(src(repo, rel))):
            rows.append((rel.split('/')[-1], d))
    return ('/-- everything the modules of the validators package and convert_value.py COMPUTE when they are imported: (file, statement) for\n'
            '    every module- / class-level statement other than an import, a class, a function, a docstring, the assignment of a literal\n'
            '    constant (or datetime / timedelta / date / re.compile of literals) or of a typing alias; every parameter default other than\n'
            '    such a constant, a name or a lambda; every decorator other than\n'
            '    overrides(...) / abstractmethod / property / staticmethod / classmethod.  Such a value is frozen with the environment of\n'
            '    the moment of the import (time zone, locale, clock) -/\n'
            'def importTimeComputations : List (String × String) := ['
            + ', '.join(f'({lean_str(a)}, {lean_str(b)})' for a, b in rows) + ']\n\n')


def unix_epoch(ux, tree):
    """`return datetime(<y>, <m>, <d>) + timedelta(seconds=<seconds>)` in the second try block: [y, m, d]; [] for any other summand
    (a name bound once, at module level, is looked through: `EPOCH = datetime(1970, 1, 1)`, `EPOCH_YEAR = 1970`)"""
    def resolve(e):
        seen = 0
        while isinstance(e, ast.Name) and seen < 5:
            v = module_constant(tree, e.id)
            if v is None:
                return e
            e, seen = v, seen + 1
        return e
    tries = [n for n in ast.walk(ux) if isinstance(n, ast.Try)]
    tries.sort(key=lambda n: n.lineno)
    if len(tries) != 2:
        raise Skip('DateTimeUnixTimestamp.validate: expected two try blocks')
    first = strip_doc(tries[0].body)
    if not (len(first) == 1 and isinstance(first[0], ast.Assign) and isinstance(first[0].targets[0], ast.Name)
            and ast.unparse(first[0].value) in ('float(value)',)):
        raise Skip('DateTimeUnixTimestamp.validate: the first try block is not `<seconds> = float(value)`')
    sec = first[0].targets[0].id
    body = strip_doc(tries[1].body)
    if not (len(body) == 1 and isinstance(body[0], ast.Return) and isinstance(body[0].value, ast.BinOp) and isinstance(body[0].value.op, ast.Add)):
        raise Skip('DateTimeUnixTimestamp.validate: the second try block is not `return <a> + <b>`')
    a, b = body[0].value.left, body[0].value.right
    td = f'timedelta(seconds={sec})'
    if ast.unparse(b) != td:
        a, b = b, a
    if ast.unparse(b) != td:
        raise Skip(f'DateTimeUnixTimestamp.validate: no summand {td}')
    a = resolve(a)
    from_dt = {x.asname or x.name: x.name for n in tree.body if isinstance(n, ast.ImportFrom) and n.module == 'datetime' and not n.level for x in n.names}
    if not (isinstance(a, ast.Call) and isinstance(a.func, ast.Name) and from_dt.get(a.func.id) == 'datetime' and len(a.args) + len(a.keywords) == 3):
        return []
    parts = [resolve(x) for x in a.args] + [resolve(k.value) for k in a.keywords]
    if not all(isinstance(x, ast.Constant) and type(x.value) is int for x in parts):
        return []
    vals = dict(zip(['year', 'month', 'day'], [x.value for x in parts[:len(a.args)]]))
    for k, x in zip(a.keywords, parts[len(a.args):]):
        if k.arg not in ('year', 'month', 'day') or k.arg in vals:
            return []
        vals[k.arg] = x.value
    return [vals['year'], vals['month'], vals['day']]


def gen_convert(repo):
    rel = 'pedantic/decorators/fn_deco_validate/convert_value.py'
    tree = ast.parse(src(repo, rel))
    fn = find_func(tree, 'convert_value')
    if [a.arg for a in fn.args.args] != ['value', 'target_type']:
        raise Skip('convert_value: unexpected parameters')
    body = strip_doc(fn.body)
    W = 'convert_value'
    # 1. isinstance shortcut (statements in front of it are reported as `convertPrelude`: they run unguarded, for every input)
    def is_shortcut(s0):
        return (isinstance(s0, ast.If) and ast.unparse(s0.test) == 'isinstance(value, target_type)' and not s0.orelse
                and len(s0.body) == 1 and isinstance(s0.body[0], ast.Return) and ast.unparse(s0.body[0].value) == 'value')
    idx = [i for i, st in enumerate(body) if is_shortcut(st)]
    if len(idx) != 1:
        raise Skip(f'{W}: the isinstance shortcut is not there exactly once')
    prelude = [' '.join(ast.unparse(st).split())[:100] for st in body[:idx[0]]]
    body = body[idx[0]:]
    shortcut = True
    # 2. normalisation chain  try: value = str(value).m1().m2()  except <classes>: raise <Class>(…)
    t1 = body[1]
    if not (isinstance(t1, ast.Try) and not t1.orelse and not t1.finalbody and len(t1.handlers) == 1 and len(t1.body) == 1):
        raise Skip(f'{W}: second statement is not `try: value = str(value)… except …`')
    s1 = t1.body[0]
    h1 = strip_doc(t1.handlers[0].body)
    if len(h1) != 1 or rejection_class(h1[0]) is None:
        raise Skip(f'{W}: the handler around str(value) does something other than raising')
    str_caught, str_raises = handler_classes(t1.handlers[0]), rejection_class(h1[0])
    if not (isinstance(s1, ast.Assign) and ast.unparse(s1.targets[0]) == 'value'):
        raise Skip(f'{W}: the try body is not `value = …`')
    chain, e = [], s1.value
    while isinstance(e, ast.Call) and isinstance(e.func, ast.Attribute) and not e.args and not e.keywords:
        chain.append(e.func.attr)
        e = e.func.value
    if ast.unparse(e) != 'str(value)':
        raise Skip(f'{W}: normalisation does not start from str(value)')
    chain.reverse()
    if not set(chain) <= {'strip', 'lower'}:
        raise Skip(f'{W}: normalisation uses methods other than strip/lower: {chain}')
    # 3. bool branch
    s2 = body[2]
    if not (isinstance(s2, ast.If) and ast.unparse(s2.test) == 'target_type == bool' and not s2.orelse and len(s2.body) == 2):
        raise Skip(f'{W}: third statement is not the `target_type == bool` branch')
    inner, fail = s2.body
    lits = []
    cur = inner
    while True:
        if not (isinstance(cur, ast.If) and isinstance(cur.test, ast.Compare) and len(cur.test.ops) == 1
                and isinstance(cur.test.ops[0], ast.In) and ast.unparse(cur.test.left) == 'value'
                and isinstance(cur.test.comparators[0], (ast.List, ast.Tuple, ast.Set))
                and all(isinstance(x, ast.Constant) and isinstance(x.value, str) for x in cur.test.comparators[0].elts)
                and len(cur.body) == 1 and isinstance(cur.body[0], ast.Return) and isinstance(cur.body[0].value, ast.Constant)
                and isinstance(cur.body[0].value.value, bool)):
            raise Skip(f'{W}: bool branch is not a chain of `value in [literals]: return <bool>`')
        lits.append((cur.body[0].value.value, [x.value for x in cur.test.comparators[0].elts]))
        if not cur.orelse:
            break
        if len(cur.orelse) != 1:
            raise Skip(f'{W}: bool branch has an else block')
        cur = cur.orelse[0]
    true_l = [x for b, l in lits if b for x in l]
    false_l = [x for b, l in lits if not b for x in l]
    bool_fail = rejection_class(fail)
    if bool_fail is None:
        raise Skip(f'{W}: the bool branch does not end in a raise')
    # 4. try block
    s3 = body[3]
    if len(body) != 4 or not isinstance(s3, ast.Try) or s3.orelse or s3.finalbody or len(s3.handlers) != 1:
        raise Skip(f'{W}: fourth statement is not a single try/except')
    h = s3.handlers[0]
    hb = strip_doc(h.body)
    if len(hb) != 1 or rejection_class(hb[0]) is None:
        raise Skip(f'{W}: handler does something other than raising')
    tb = s3.body
    if not (len(tb) == 2 and isinstance(tb[0], ast.If) and isinstance(tb[1], ast.Return)
            and ast.unparse(tb[1].value) == 'target_type(value)'):
        raise Skip(f'{W}: try body is not `if …list… elif …dict…` followed by `return target_type(value)`')
    li = tb[0]
    if not (ast.unparse(li.test) == 'target_type == list' and len(li.body) == 1 and isinstance(li.body[0], ast.Return)
            and ast.unparse(li.body[0].value) == "[item.strip() for item in value.split(',')]"):
        raise Skip(f'{W}: list branch changed')
    if not (len(li.orelse) == 1 and isinstance(li.orelse[0], ast.If) and ast.unparse(li.orelse[0].test) == 'target_type == dict'
            and not li.orelse[0].orelse and len(li.orelse[0].body) == 1
            and ast.unparse(li.orelse[0].body[0]) ==
            "value = {item.split(':')[0].strip(): item.partition(':')[-1].strip() for item in value.split(',')}"):
        raise Skip(f'{W}: dict branch changed')
    return f'''/-! {rel}: the structure of `convert_value` -/
/-- first statement is `if isinstance(value, target_type): return value` -/
def convertShortcut : Bool := {lean_bool(shortcut)}
/-- statements in front of it: they run for every input, outside every `try` (whatever they raise escapes as it is) -/
def convertPrelude : List String := [{', '.join(lean_str(c) for c in prelude)}]
/-- `try: value = str(value).<m1>().<m2>()`: the methods applied to `str(value)`, in order -/
def convertNormalise : List String := [{', '.join(lean_str(c) for c in chain)}]
/-- `except <classes>` around that assignment, and the class its handler raises -/
def convertStrCaught : List Exc := {exc_list(str_caught)}
def convertStrHandlerRaises : Exc := {str_raises}
/-- literals (after normalisation) converted to `True` / `False` -/
def convertBoolTrue : List String := [{', '.join(lean_str(c) for c in true_l)}]
def convertBoolFalse : List String := [{', '.join(lean_str(c) for c in false_l)}]
/-- class raised when no bool literal matches (outside the try block) -/
def convertBoolFail : Exc := {bool_fail}
/-- `except <classes>` of the try block around list / dict / `target_type(value)` -/
def convertCaught : List Exc := {exc_list(handler_classes(h))}
/-- class raised by that handler -/
def convertHandlerRaises : Exc := {rejection_class(hb[0])}
/-- targets with their own branch, in source order; every other target is `target_type(value)` -/
def convertSpecialTargets : List String := ["bool", "list", "dict"]
'''


def exc_bases(repo):
    rel = 'pedantic/decorators/fn_deco_validate/exceptions.py'
    tree = ast.parse(src(repo, rel))
    rows = []
    for node in tree.body:
        if isinstance(node, ast.ClassDef) and node.bases:
            rows.append((node.name, name_of(node.bases[0])))
    return rel, rows


def gen_validators(repo):
    out = [HEADER.format(rel='pedantic/decorators/fn_deco_validate/{validators/*.py, convert_value.py, exceptions.py}'),
           'import PedVerif.Model.ValidatorsBase\nnamespace PedVerif.Gen.Validators\nopen PedVerif.Validators\n\n']
    # raise_exception
    av = ast.parse(src(repo, VDIR + 'abstract_validator.py'))
    rex = find_func(av, 'raise_exception', cls='Validator')
    rb = strip_doc(rex.body)
    if len(rb) != 1 or not isinstance(rb[0], ast.Raise) or not isinstance(rb[0].exc, ast.Call):
        raise Skip('Validator.raise_exception is not a single `raise <Class>(…)`')
    out.append(f'/-- {VDIR}abstract_validator.py: `Validator.raise_exception` is `raise <this class>(…)` -/\n'
               f'def raiseExceptionClass : Exc := {exc(name_of(rb[0].exc.func))}\n\n')
    rel, rows = exc_bases(repo)
    out.append(f'/-- {rel}: (class, first base) -/\ndef excBases : List (String × String) := ['
               + ', '.join(f'({lean_str(a)}, {lean_str(b)})' for a, b in rows) + ']\n\n')
    # translated functions
    num_env = {'value': ('value', 'N'), 'self._value': ('self_value', 'N'), 'self._include_boundary': ('self_include_boundary', 'B')}
    out.append(translate_validate(repo, 'min.py', 'Min', 'minValidate', '(self_value : Num) (self_include_boundary : Bool) (value : Num)', num_env, 'N', '') + '\n')
    out.append(translate_validate(repo, 'max.py', 'Max', 'maxValidate', '(self_value : Num) (self_include_boundary : Bool) (value : Num)', num_env, 'N', '') + '\n')
    len_env = {'value': ('value', 'V'), 'self._length': ('self_length', 'I')}
    out.append(translate_validate(repo, 'min_length.py', 'MinLength', 'minLengthValidate', '(self_length : Int) (value : Val)', len_env, 'V', '') + '\n')
    out.append(translate_validate(repo, 'max_length.py', 'MaxLength', 'maxLengthValidate', '(self_length : Int) (value : Val)', len_env, 'V', '') + '\n')
    ne_env = {'value': ('value', 'V'), 'self.strip': ('self_strip', 'B')}
    out.append(translate_validate(repo, 'not_empty.py', 'NotEmpty', 'notEmptyValidate', '(isSpace : Char → Bool) (self_strip : Bool) (value : Val)', ne_env, 'V',
                                  '`isSpace` is the whitespace predicate of `str.strip()`.') + '\n')
    # per-class rejection / except tables
    classes = validator_classes(repo)
    tab_rej, tab_caught = [], []
    per = {}
    for f, cls, fn in classes:
        rej, caught = rejections_and_caught(fn, f'{cls}.validate')
        per[cls] = (rej, caught, fn)
        tab_rej.append(f'({lean_str(cls)}, [{", ".join(rej)}])')
        tab_caught.append(f'({lean_str(cls)}, [{", ".join(exc_list(c) for c, _ in caught)}])')
    expected = ['Composite', 'DatetimeIsoFormat', 'DateTimeUnixTimestamp', 'Email', 'IsEnum', 'ForEach', 'IsUuid', 'MatchPattern',
                'Max', 'MaxLength', 'Min', 'MinLength', 'NotEmpty']
    if sorted(per) != sorted(expected):
        raise Skip(f'validator classes changed: {sorted(per)}')
    out.append('/-- for every validator class: the classes raised on the rejection paths of `validate` (source order) -/\n'
               'def rejects : List (String × List Exc) := [\n  ' + ',\n  '.join(tab_rej) + ']\n')
    out.append('/-- for every validator class: the classes named by each `try … except` of `validate` (source order) -/\n'
               'def caught : List (String × List (List Exc)) := [\n  ' + ',\n  '.join(tab_caught) + ']\n\n')
    for cls, n in [('IsUuid', 1), ('IsEnum', 1), ('DatetimeIsoFormat', 1), ('DateTimeUnixTimestamp', 2)]:
        rej, caught, fn = per[cls]
        if len(caught) != n:
            raise Skip(f'{cls}.validate: expected {n} try block(s), found {len(caught)}')
        for i, (c, hr) in enumerate(caught):
            if len(set(hr)) != 1:
                raise Skip(f'{cls}.validate: handlers of one try raise different classes')
            out.append(f'/-- {cls}.validate, try block {i}: classes caught / class raised by the handler -/\n'
                       f'def {lname(cls)}Caught{i} : List Exc := {exc_list(c)}\ndef {lname(cls)}Handler{i} : Exc := {hr[0]}\n')
    for cls in ['Email', 'MatchPattern', 'ForEach', 'DateTimeUnixTimestamp']:
        rej = per[cls][0]
        if len(set(rej)) != 1:
            raise Skip(f'{cls}.validate: rejection paths raise different classes (or none)')
    out.append(f'/-- class raised by the (only) guard rejection of these validators -/\n'
               f'def emailRejects : Exc := {per["Email"][0][0]}\ndef matchPatternRejects : Exc := {per["MatchPattern"][0][0]}\n'
               f'def forEachRejects : Exc := {per["ForEach"][0][0]}\ndef dateTimeUnixTimestampRejects : Exc := {per["DateTimeUnixTimestamp"][0][0]}\n\n')
    if per['Composite'][0] or per['Composite'][1]:
        raise Skip('Composite.validate raises or catches on its own')
    # e-mail pattern and re entry points
    em = ast.parse(src(repo, VDIR + 'email.py'))
    pat = None
    for node in em.body:
        if isinstance(node, ast.Assign) and ast.unparse(node.targets[0]) == 'REGEX_EMAIL' and isinstance(node.value, ast.Constant) and isinstance(node.value.value, str):
            pat = node.value.value
    if pat is None:
        raise Skip('REGEX_EMAIL is not a string literal')
    init = find_func(em, '__init__', cls='Email')
    defaults = dict(zip([a.arg for a in init.args.args][-len(init.args.defaults):], init.args.defaults))
    if ast.unparse(defaults.get('email_pattern', ast.Constant(0))) != 'REGEX_EMAIL':
        raise Skip('Email.__init__: default of email_pattern is not REGEX_EMAIL')
    meth, subj = re_entry(per['Email'][2], 'Email.validate')
    out.append(f'/-- {VDIR}email.py: `REGEX_EMAIL` (the default of `email_pattern`) -/\ndef regexEmail : String := {lean_str(pat)}\n'
               f'/-- the `re` function `Email.validate` calls, and its subject -/\ndef emailMethod : String := {lean_str(meth)}\n'
               f'def emailSubject : String := {lean_str(subj)}\n')
    meth, subj = re_entry(per['MatchPattern'][2], 'MatchPattern.validate')
    out.append(f'/-- {VDIR}match_pattern.py: the method of the compiled pattern `MatchPattern.validate` calls, and its subject -/\n'
               f'def matchPatternMethod : String := {lean_str(meth)}\ndef matchPatternSubject : String := {lean_str(subj)}\n')
    # isinstance tuple of DateTimeUnixTimestamp
    ux = per['DateTimeUnixTimestamp'][2]
    first = strip_doc(ux.body)[0]
    t = first.test if isinstance(first, ast.If) else None
    if not (t is not None and isinstance(t, ast.UnaryOp) and isinstance(t.op, ast.Not) and isinstance(t.operand, ast.Call)
            and ast.unparse(t.operand.func) == 'isinstance' and ast.unparse(t.operand.args[0]) == 'value'
            and len(first.body) == 1 and rejection_class(first.body[0]) is not None):
        raise Skip('DateTimeUnixTimestamp.validate: first statement is not the isinstance guard')
    tt = t.operand.args[1]
    names = [name_of(x) for x in tt.elts] if isinstance(tt, ast.Tuple) else [name_of(tt)]
    out.append(f'/-- {VDIR}datetime_unix_timestamp.py: `if not isinstance(value, (<these>)): reject` -/\n'
               f'def dateTimeUnixTimestampTypes : List String := [{", ".join(lean_str(n) for n in names)}]\n\n')
    ep = unix_epoch(ux, ast.parse(src(repo, VDIR + 'datetime_unix_timestamp.py')))
    it = gen_import_time(repo)
    if not ep and it.rstrip().endswith(':= []'):
        # not a literal date and nothing computed at import time either (e.g. an inline call): outside the subset - the
        # correspondence check (which runs the timestamps in several time zones) decides alone
        raise Skip('DateTimeUnixTimestamp.validate: the seconds are not added to a literal date')
    out.append(f'/-- the summand `datetime(<year>, <month>, <day>)` of `return <it> + timedelta(seconds=seconds)`: [year, month, day] of the\n'
               f'    literal date (a name bound once, at module level, to such a literal is looked through); `[]` when the summand is a value\n'
               f'    computed at import time (see `importTimeComputations`) -/\n'
               f'def dateTimeUnixTimestampEpoch : List Int := [{", ".join(str(x) for x in ep)}]\n\n')
    out.append(it)
    out.append(gen_convert(repo))
    out.append('\nend PedVerif.Gen.Validators\n')
    return ''.join(out)


FILES = {'Validators.lean': gen_validators}
